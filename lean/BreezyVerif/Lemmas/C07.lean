import BreezyVerif.Model.C07
/-!
C07 — helper lemmas: digit arithmetic of the distribution, the inner
`consume` loop, and the invariant of the planner's main loop (`loop_spec`),
from which `plan_spec` describes `plan_autopack_combinations` completely.
-/
namespace BreezyVerif.C07

theorem distAux_sum (fuel : Nat) : ∀ (t size : Nat), t ≤ fuel →
    (distAux fuel t size).sum = t * size := by
  induction fuel with
  | zero => intro t size h; have : t = 0 := by omega
            subst this; simp [distAux]
  | succ f ih =>
    intro t size h
    unfold distAux
    split
    · next h0 => subst h0; simp
    · next h0 =>
      rw [List.sum_append_nat, List.sum_replicate_nat, ih (t / 10) (size * 10) (by omega)]
      have hd := Nat.div_add_mod t 10
      calc t % 10 * size + t / 10 * (size * 10)
          = (10 * (t / 10) + t % 10) * size := by
            rw [Nat.add_mul, Nat.mul_comm size 10, ← Nat.mul_assoc, Nat.mul_comm (t / 10) 10,
              Nat.add_comm]
        _ = t * size := by rw [hd]

theorem distAux_length (fuel : Nat) : ∀ (t size : Nat),
    (distAux fuel t size).length = digitSumAux fuel t := by
  induction fuel with
  | zero => intro t size; simp [distAux, digitSumAux]
  | succ f ih =>
    intro t size
    unfold distAux digitSumAux
    split
    · simp
    · simp [ih]

theorem consume_spec : ∀ (ds : List Nat) (c : Nat), c ≤ ds.sum →
    ∃ ds', consume c ds = .ok ds' ∧ ds'.sum + c = ds.sum ∧ ds'.length ≤ ds.length := by
  intro ds
  induction ds with
  | nil =>
    intro c h
    have : c = 0 := by simpa using h
    subst this
    exact ⟨[], by simp [consume]⟩
  | cons d ds ih =>
    intro c h
    cases c with
    | zero => exact ⟨d :: ds, by simp [consume]⟩
    | succ c =>
      simp only [List.sum_cons] at h
      unfold consume
      split
      · next hd =>
        obtain ⟨ds', h1, h2, h3⟩ := ih (c + 1 - d) (by omega)
        refine ⟨ds', h1, ?_, ?_⟩
        · simp only [List.sum_cons]; omega
        · simp only [List.length_cons]; omega
      · next hd =>
        refine ⟨(d - (c + 1)) :: ds, rfl, ?_, ?_⟩
        · simp only [List.sum_cons]; omega
        · simp

/-- in the "already packed better" branch at least the head bucket is deleted -/
theorem consume_head_spec (d : Nat) (ds : List Nat) (c : Nat) (hc : 0 < c) (hd : d ≤ c)
    (h : c ≤ (d :: ds).sum) :
    ∃ ds', consume c (d :: ds) = .ok ds' ∧ ds'.sum + c = (d :: ds).sum ∧
      ds'.length + 1 ≤ (d :: ds).length := by
  cases c with
  | zero => omega
  | succ c =>
    simp only [List.sum_cons] at h
    obtain ⟨ds', h1, h2, h3⟩ := consume_spec ds (c + 1 - d) (by omega)
    refine ⟨ds', ?_, ?_, ?_⟩
    · simp only [consume, hd, if_true]; exact h1
    · simp only [List.sum_cons]; omega
    · simp only [List.length_cons]; omega

theorem cnt_cons (p : Pack) (ps : List Pack) : cnt (p :: ps) = p.1 + cnt ps := by
  simp [cnt, counts]

theorem cnt_nil : cnt [] = 0 := rfl

theorem opsPacks_snoc (done : List Op) (o : Op) : opsPacks (done ++ [o]) = opsPacks done ++ o.2 := by
  simp [opsPacks]

theorem opsCount_snoc (done : List Op) (o : Op) : opsCount (done ++ [o]) = opsCount done + o.1 := by
  simp [opsCount]

/-- The loop invariant.  From any loop state in which the remaining buckets
can still hold the remaining packs plus the open combination
(`cnt rest + cur.1 ≤ dist.sum`), the loop terminates without error, and splits
`rest` into the packs it selects for combination (`sel`, in order) and the
packs it leaves alone (`kept`); every kept pack deletes at least one bucket,
and an open or filled combination accounts for one more bucket. -/
theorem loop_spec (rest : List Pack) : ∀ (dist : List Nat) (cur : Op) (done : List Op),
    (∀ p ∈ rest, 0 < p.1) → cnt rest + cur.1 ≤ dist.sum →
    ∃ ops sel kept, loop rest dist cur done = .ok ops ∧
      opsPacks ops = opsPacks done ++ cur.2 ++ sel ∧
      opsCount ops = opsCount done + cur.1 + cnt sel ∧
      (sel ++ kept).Perm rest ∧ sel.Sublist rest ∧
      kept.length ≤ dist.length ∧
      ((0 < cur.1 ∨ sel ≠ []) → kept.length + 1 ≤ dist.length) := by
  induction rest with
  | nil =>
    intro dist cur done _ hsum
    refine ⟨done ++ [cur], [], [], rfl, ?_, ?_, ?_, ?_, ?_, ?_⟩
    · simp [opsPacks_snoc]
    · simp [opsCount_snoc, cnt_nil]
    · simp
    · simp
    · simp
    · intro h
      rcases h with h | h
      · cases dist with
        | nil => simp [cnt_nil] at hsum; omega
        | cons d ds => simp
      · exact absurd rfl h
  | cons p rest ih =>
    intro dist cur done hpos hsum
    have hp : 0 < p.1 := hpos p (by simp)
    have hpos' : ∀ q ∈ rest, 0 < q.1 := fun q hq => hpos q (by simp [hq])
    rw [cnt_cons] at hsum
    cases dist with
    | nil => simp at hsum; omega
    | cons d ds =>
      unfold loop
      split
      · -- keep: the pack is at least as large as the head bucket
        next hd =>
        obtain ⟨dist', hc1, hc2, hc3⟩ := consume_head_spec d ds p.1 hp hd (by omega)
        obtain ⟨ops, sel, kept, h1, h2, h3, h4, h5, h6, h7⟩ :=
          ih dist' cur done hpos' (by omega)
        refine ⟨ops, sel, p :: kept, ?_, h2, h3, ?_, ?_, ?_, ?_⟩
        · simp only [hc1]; exact h1
        · exact (List.perm_middle).trans (List.Perm.cons p h4)
        · exact List.Sublist.cons p h5
        · simp only [List.length_cons] at hc3 ⊢; omega
        · intro h; have := h7 h
          simp only [List.length_cons] at hc3 ⊢; omega
      · next hd =>
        simp only [List.sum_cons] at hsum
        split
        · -- combine, bucket filled
          next hfill =>
          obtain ⟨ops, sel, kept, h1, h2, h3, h4, h5, h6, h7⟩ :=
            ih ds (0, []) (done ++ [(cur.1 + p.1, cur.2 ++ [p])]) hpos' (by simp only; omega)
          refine ⟨ops, p :: sel, kept, h1, ?_, ?_, ?_, ?_, ?_, ?_⟩
          · rw [h2, opsPacks_snoc]; simp
          · rw [h3, opsCount_snoc, cnt_cons]; simp only; omega
          · exact List.Perm.cons p h4
          · exact List.Sublist.cons_cons p h5
          · simp only [List.length_cons]; omega
          · intro _; simp only [List.length_cons]; omega
        · -- combine, bucket still open
          next hfill =>
          obtain ⟨ops, sel, kept, h1, h2, h3, h4, h5, h6, h7⟩ :=
            ih (d :: ds) (cur.1 + p.1, cur.2 ++ [p]) done hpos'
              (by simp only [List.sum_cons]; omega)
          refine ⟨ops, p :: sel, kept, h1, ?_, ?_, ?_, ?_, h6, ?_⟩
          · rw [h2]; simp
          · rw [h3, cnt_cons]; simp only; omega
          · exact List.Perm.cons p h4
          · exact List.Sublist.cons_cons p h5
          · intro _; exact h7 (Or.inl (by simp only; omega))

theorem insertDesc_perm (x : Pack) (l : List Pack) : (insertDesc x l).Perm (x :: l) := by
  induction l with
  | nil => simp [insertDesc]
  | cons y ys ih =>
    unfold insertDesc
    split
    · exact List.Perm.refl _
    · exact (List.Perm.cons y ih).trans (List.Perm.swap x y ys)

theorem sortDesc_perm (packs : List Pack) : (sortDesc packs).Perm packs := by
  induction packs with
  | nil => simp [sortDesc]
  | cons x xs ih =>
    show (insertDesc x (sortDesc xs)).Perm (x :: xs)
    exact (insertDesc_perm x _).trans (List.Perm.cons x ih)

theorem cnt_perm {a b : List Pack} (h : a.Perm b) : cnt a = cnt b := by
  unfold cnt counts
  exact (h.map _).sum_nat

/-- Complete description of `plan` for any distribution that can hold the
packs: it either plans nothing because there are no more packs than buckets, or
plans exactly one combination `ps` of at least two packs. -/
theorem plan_spec (packs : List Pack) (dist : List Nat)
    (hpos : ∀ p ∈ packs, 0 < p.1) (hsum : cnt packs ≤ dist.sum) :
    (packs.length ≤ dist.length ∧ plan packs dist = .ok []) ∨
    (dist.length < packs.length ∧ ∃ ps kept, plan packs dist = .ok [(cnt ps, ps)] ∧
      2 ≤ ps.length ∧ (ps ++ kept).Perm packs ∧ ps.Sublist (sortDesc packs) ∧
      kept.length + 1 ≤ dist.length) := by
  by_cases hlen : packs.length ≤ dist.length
  · left; exact ⟨hlen, by simp [plan, hlen]⟩
  · right
    refine ⟨by omega, ?_⟩
    have hperm := sortDesc_perm packs
    have hpos' : ∀ p ∈ sortDesc packs, 0 < p.1 := fun p hp => hpos p (hperm.mem_iff.mp hp)
    obtain ⟨ops, sel, kept, h1, h2, h3, h4, h5, h6, h7⟩ :=
      loop_spec (sortDesc packs) dist (0, []) [] hpos'
        (by rw [cnt_perm hperm]; simpa using hsum)
    have h2' : opsPacks ops = sel := by simpa [opsPacks] using h2
    have h3' : opsCount ops = cnt sel := by simpa [opsCount] using h3
    have hl : sel.length + kept.length = packs.length := by
      have := (h4.trans hperm).length_eq
      simpa using this
    have hne : sel ≠ [] := by
      intro h; subst h; simp at hl; omega
    have h7' := h7 (Or.inr hne)
    refine ⟨sel, kept, ?_, by omega, h4.trans hperm, h5, h7'⟩
    have hl1 : ¬ sel.length = 1 := by omega
    simp [plan, hlen, h1, h2', h3', hl1]

theorem packDistribution_sum (t : Nat) : (packDistribution t).sum = t := by
  unfold packDistribution
  split
  · next h => simp [h]
  · rw [List.sum_reverse_nat, distAux_sum t t 1 (Nat.le_refl t)]; simp

theorem packDistribution_length (t : Nat) : (packDistribution t).length = maxPackCount t := by
  unfold packDistribution maxPackCount
  split
  · simp
  · simp [distAux_length]

theorem filter_pos_id (packs : List Pack) (hpos : ∀ p ∈ packs, 0 < p.1) :
    packs.filter (fun p => p.1 != 0) = packs := by
  rw [List.filter_eq_self]
  intro p hp
  have := hpos p hp
  simp; omega

theorem cnt_filter_le (packs : List Pack) (f : Pack → Bool) : cnt (packs.filter f) ≤ cnt packs := by
  induction packs with
  | nil => simp
  | cons p ps ih =>
    simp only [List.filter_cons]
    split
    · rw [cnt_cons, cnt_cons]; omega
    · rw [cnt_cons]; omega


/-! ### carrying out a plan (`_execute_pack_operations`) -/

/-- removing the packs of a combination (`_remove_pack_from_memory` for every
combined pack) leaves exactly the packs that were not selected -/
theorem foldl_erase_perm (ps : List Pack) : ∀ (packs kept : List Pack),
    (ps ++ kept).Perm packs → (ps.foldl (fun acc p => acc.erase p) packs).Perm kept := by
  induction ps with
  | nil => intro packs kept h; simpa using h.symm
  | cons p ps ih =>
    intro packs kept h
    simp only [List.foldl_cons]
    exact ih _ _ (List.cons_perm_iff_perm_erase.mp h).2

theorem executeOpsDup_nil (d : Nat) (packs : List Pack) : executeOpsDup d packs [] = packs := rfl

/-- a single non-empty combination `ps` of `packs` is replaced by one new pack -/
theorem executeOpsDup_single (d n : Nat) (packs ps kept : List Pack) (hne : ps ≠ [])
    (h : (ps ++ kept).Perm packs) :
    (executeOpsDup d packs [(n, ps)]).Perm ((n - d, 0) :: kept) := by
  have he : ps.isEmpty = false := by cases ps <;> simp_all
  simp only [executeOpsDup, he]
  exact List.Perm.cons _ (foldl_erase_perm ps packs kept h)

/-! ### `_max_pack_count` is the digit sum of `str(total)` -/

theorem charDigit_digitChar : ∀ d, d < 10 → charDigit (Nat.digitChar d) = d := by decide

/-- the fuelled recursion is the sum of the decimal digit characters -/
theorem digitSumAux_eq_toDigits (fuel : Nat) : ∀ t, t ≤ fuel →
    digitSumAux fuel t = if t = 0 then 0 else ((Nat.toDigits 10 t).map charDigit).sum := by
  induction fuel with
  | zero =>
    intro t h
    have : t = 0 := by omega
    subst this; simp [digitSumAux]
  | succ f ih =>
    intro t h
    unfold digitSumAux
    split
    · rfl
    · next h0 =>
      rw [ih (t / 10) (by omega), Nat.toDigits_eq_if (b := 10) (n := t) (by decide)]
      by_cases hlt : t < 10
      · have hd : t / 10 = 0 := by omega
        have hm : t % 10 = t := by omega
        simp [hlt, hd, hm, charDigit_digitChar t hlt]
      · have hd : t / 10 ≠ 0 := by omega
        simp only [hlt, hd, if_false, List.map_append, List.map_cons, List.map_nil,
          List.sum_append_nat, List.sum_cons, List.sum_nil,
          charDigit_digitChar (t % 10) (Nat.mod_lt _ (by decide))]
        omega

end BreezyVerif.C07
