import BreezyVerif.Common
import BreezyVerif.Model.C05
import BreezyVerif.Driver.C04Proto
/-
C05 driver.

  exec <chk T|F> <names> <files> <content> <next> <nprocs> <schedule>

names   = comma separated pack numbers (`-` = none)
files   = comma separated `<d><stem>.<ext>` (see the C04 driver)
content = `name:rev.rev…` joined by `;` (`-` = none); a name without entry holds no revision
schedule = actions joined by `;` (`-` = none):
           `<pid>:r` reload | `<pid>:f:<rev.rev…>` finish | `<pid>:k:<name.name…>` repack |
           `<pid>:s:<T|F>` save | `<pid>:o` obsolete | `<pid>:c` clearAll

reply: the state after every step (initial one included) joined by `/`;
state = `<disk>#<proc0>#<proc1>…`, disk as in the C04 driver, proc =
`<L|N>~<names>~<atLoad>~<toObsolete>`; then ` ` and the visible revisions at
the end (sorted, duplicates removed).
-/
namespace BreezyVerif.C05
open BreezyVerif.C04

def parseDots (s : String) : Option (List Nat) :=
  if s == "" || s == "-" then some [] else (s.splitOn ".").mapM String.toNat?

def parseContent (s : String) : Option (List (Nat × List Nat)) :=
  if s == "-" then some [] else
  (s.splitOn ";").mapM fun t => match t.splitOn ":" with
    | [a, b] => do pure (← a.toNat?, ← parseDots b)
    | _ => none

def lookup (l : List (Nat × List Nat)) (n : Nat) : List Nat :=
  match l.find? (fun e => e.1 == n) with
  | some e => e.2
  | none => []

def parseAct (s : String) : Option (Nat × Act) :=
  match s.splitOn ":" with
  | [p, "r"] => do pure (← p.toNat?, .reload)
  | [p, "f", r] => do pure (← p.toNat?, .finish (← parseDots r))
  | [p, "k", r] => do pure (← p.toNat?, .repack (← parseDots r))
  | [p, "s", c] => do pure (← p.toNat?, .save (← parseBool c))
  | [p, "o"] => do pure (← p.toNat?, .obsolete)
  | [p, "c"] => do pure (← p.toNat?, .clearAll)
  | _ => none

def parseSched (s : String) : Option Schedule :=
  if s == "-" then some [] else (s.splitOn ";").mapM parseAct

def showProc (p : Proc) : String :=
  s!"{if p.loaded then "L" else "N"}~{showNats p.names}~{showNats p.atLoad}~{showNats p.toObsolete}"

def showSys (n : Nat) (s : Sys) : String :=
  "#".intercalate (showDisk s.disk :: (List.range n).map (fun i => showProc (s.procs i)))

def trace (s : Sys) : Schedule → List Sys
  | [] => [s]
  | a :: rest => s :: trace (step s a.1 a.2) rest

def handle : List String → String
  | ["exec", chk, names, files, content, next, nprocs, sched] =>
    match parseBool chk, parseNatList names, parseFiles files, parseContent content, next.toNat?, nprocs.toNat?,
          parseSched sched with
    | some chk, some names, some files, some content, some next, some np, some sched =>
      let s0 := Sys.init chk ⟨names, files, [], false⟩ (lookup content) next
      let tr := trace s0 sched
      let last := tr.getLast?.getD s0
      s!"{"/".intercalate (tr.map (showSys np))} {showNats (visible last).eraseDups}"
    | _, _, _, _, _, _, _ => "bad-op"
  | _ => "bad-op"

end BreezyVerif.C05

def main : IO Unit := BreezyVerif.runDriver BreezyVerif.C05.handle
