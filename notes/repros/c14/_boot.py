"""shared bootstrap for the C14 repro scripts: isolated HOME, breezy from $VERIF_REPO or /repo"""
import os, sys, tempfile, shutil, atexit
REPO = os.environ.get("VERIF_REPO", "/repo")
_scratch = tempfile.mkdtemp(prefix="c14repro-", dir="/var/tmp")
atexit.register(lambda: shutil.rmtree(_scratch, ignore_errors=True))
os.environ.update(HOME=_scratch, BRZ_HOME=_scratch, BRZ_EMAIL="T <t@example.com>", BRZ_PLUGIN_PATH="-user:-site",
                  BRZ_LOG=os.path.join(_scratch, "brz.log"))
sys.path.insert(0, REPO)
import breezy
breezy.initialize()
import breezy.bzr, breezy.git, breezy.bzr.bzrdir, breezy.bzr.workingtree_4, breezy.bzr.groupcompress_repo  # noqa
from breezy import plugin, ui, trace
plugin.load_plugins()
ui.ui_factory = ui.SilentUIFactory()
trace.be_quiet(True)
import logging
logging.getLogger("brz").setLevel(logging.CRITICAL + 1)
from breezy.controldir import ControlDir, format_registry
from breezy.transform import resolve_conflicts, MalformedTransform  # noqa
_n = [0]


def make_tree(fmt, files):
    """files: list of (path, kind, data, versioned)"""
    _n[0] += 1
    d = os.path.join(_scratch, "wt%d" % _n[0])
    os.mkdir(d)
    wt = ControlDir.create_standalone_workingtree(d, format=format_registry.make_controldir(fmt))
    for path, kind, data, _v in files:
        full = os.path.join(d, path)
        if kind == "directory":
            os.mkdir(full)
        elif kind == "symlink":
            os.symlink(data, full)
        else:
            with open(full, "w") as f:
                f.write(data)
    add = [p for p, _k, _d, v in files if v]
    if add:
        wt.add(add)
    return wt


def listing(wt):
    out = {}
    with wt.lock_read():
        for dp, dns, fns in os.walk(wt.basedir):
            dns[:] = [x for x in dns if x not in (".bzr", ".git")]
            for n in dns + fns:
                rel = os.path.relpath(os.path.join(dp, n), wt.basedir)
                out[rel] = ("on disk", wt.is_versioned(rel))
        for p in wt.all_versioned_paths():
            if p and p not in out:
                out[p] = ("MISSING", True)
    return out
