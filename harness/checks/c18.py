"""C18 — merge decision rules (breezy/merge.py: Merge3Merger._three_way,
_lca_multi_way).

T1: BOTH functions are transcribed from the current source into
Generated/C18.lean (`threeWayGen`, `lcaMultiWayGen`: equality test, tuple
unpacking, base-value filter, `set()`, `len(...) == 0/1`, `pop()`, membership
cascade, flag and its default) and proved equal to the model for every value
type, LCA list and flag (`three_way_gen_eq`, `lca_multi_way_gen_eq`,
`lca_multi_way_gen_default`).  If the source no longer has a shape the
translator understands, the generated file is replaced by a stub without the
definitions, so a stale transcription can never back the T1 theorems.
T2 (every run):
  * full product over values {0..5} for base, 0..3 LCAs, other, this, both
    flags, and for <= 2 LCAs also the flag left at its default (also catches
    changes that are NOT equivariant, e.g. truthiness tests on the value 0);
  * every equality pattern (restricted-growth string) of (base, lcas, other,
    this) for 4..6 LCAs (thorough: 4..8), both flags — by equivariance under
    injective renaming this is every input with that many LCAs; the real code
    is called with the pattern renamed into heterogeneous hashable values
    (None, str, bytes, tuples, bool/int, falsy values) as the callers pass;
  * random cases with 7..11 (thorough 9..13) LCAs over up to 13 values (few / many distinct
    LCA values), half of them renamed into the heterogeneous values.
Oracle: the statement's laws evaluated directly on the real functions: swap
law, tie-break, all-LCAs-equal => three-way, no LCAs => three-way, "unchanged
never wins" for BOTH flag values, flag monotonicity (flag off = conflict or the
flag-on verdict), flag default = True, each side on a different non-base LCA
value = conflict, LCA values equal to the base value are ignored, LCA-order
independence.

Mutants this was built against: swapped 'this'/'other' in the last branch of
_three_way; `this not in (base, other)` -> `this != base`; dropping the
base_val filter; `len(unique_lca_vals) == 1` -> `<= 2`; ignoring
allow_overriding_lca; swapping the inner this/other membership tests.
Seeded (independent) changes: `this == base_val` added to the 'other wins'
test (needs >= 2 distinct LCA values and THIS == BASE); early exit after three
distinct LCA values while building the set (needs >= 4 distinct LCA values —
missed by the first version, which stopped at 3 LCAs in the quick tier).
Round 2 (T1 of _lca_multi_way, pattern enumeration, typed values, more laws) —
all VIOLATION with a concrete input from the oracle, T1 equality failing too:
  M1 filter `if lca_val and lca_val != base_val` (falsy LCA values dropped): "all LCAs equal 0 but …";
  M2 `unique_lca_vals = set(lca_vals)` (base values not filtered): "LCA values equal to the base value are not
     ignored" (before that law was added: tie break only, no failing input — the statement's other laws hold);
  M3 default of allow_overriding_lca flipped to False: "without the flag gives conflict, with …=True other"
     (and `lca_multi_way_gen_default` does not type-check against the transcribed default);
  M4 `if allow_overriding_lca or (len(lca_vals) >= 5 and this not in lca_vals)`: swap law on a 5-LCA pattern
     with typed values (translator refuses `len(..) >= 5`: stub generated, T1 lemmas unproved);
  M5 `len(unique_lca_vals) <= 2`, M6 inner `this not in unique_lca_vals`: as before;
  H1 (harmless) `len(filtered_lca_vals) == 0` -> `not filtered_lca_vals`: both read as `x = []`, T1 proved, clean;
  H2 (harmless) comment added: clean.
Stored seeds C18-lca-base-override and C18-lca-set-early-exit: still VIOLATION (swap law / order dependence).
"""
import ast
import itertools
import os
import sys

from vlib import env

sys.path.insert(0, os.path.join(env.VERIF, "tools"))
import extract as _ex  # noqa: E402  (tools/extract.py: find_func, DecisionTranslator, write_if_changed)

THEOREMS = [
    "three_way_swap", "three_way_tie", "lca_tie", "lca_swap",
    "lca_eq_three_way_of_const", "lca_nil_eq_three_way",
    "three_way_unchanged_never_wins", "three_way_unchanged_never_wins'",
    "lca_allow_false_conflict_or_eq", "lca_unchanged_never_wins", "lca_unchanged_never_wins'",
    "lca_eq_lcaOn", "lcaOn_perm", "lca_perm", "lca_two_lca_values_conflict",
    "lca_allow_false_agree", "lca_allow_false_disagree", "lca_base_values_irrelevant",
]
T1_EQUALITY_THEOREMS = ["three_way_gen_eq", "mem_pySet", "pySet_eq_singleton", "lca_multi_way_gen_eq",
                        "lca_multi_way_gen_default"]
RULE = ("(a) all assignments of values 0..D-1 to (base, lcas[0..k], other, this), k<=K; (b) every equality pattern "
        "(restricted-growth string) of (base, lcas, other, this) for K<k<=KP LCAs, the real code called on a renaming "
        "into heterogeneous hashable values; (c) random cases with more LCAs; both allow_overriding_lca values "
        "throughout; non-trivial = not all arguments equal")
ASSUMPTIONS = [
    "values are compared only with ==/!=/in and hashed by set(): == is an equivalence and hash is consistent with it "
    "(true of the str/bytes/tuple/None/bool values the callers pass; exercised with such values on every run), so the "
    "functions are equivariant under injective renaming of values",
]
TRUSTED = ["tools/extract.py + the LcaTranslator in this module (Python AST -> Lean term); `set` is read as a "
           "duplicate-free list (`pySet`), `len(s) == 1 ... s.pop()` as a one-element pattern match"]

SWAP = {"this": "other", "other": "this", "conflict": "conflict"}
GEN_PATH = os.path.join(env.VERIF, "lean/BreezyVerif/Generated/C18.lean")

# heterogeneous, pairwise unequal, hashable values of the kinds the callers of
# the two functions pass (kind strings, names, file ids, parent ids, sha1s,
# executable bits, (parent, name) pairs, None for "absent"), including falsy ones
POOL = [None, "file", b"file-id", ("dir-id", "name"), True, 0, "", b"", (None, None), 2, "directory",
        (b"sha1", False), 1.5, frozenset(), "symlink", (), b"\x00"]
assert all(POOL[i] != POOL[j] for i in range(len(POOL)) for j in range(i)), "POOL values must be pairwise unequal"


class LcaTranslator(_ex.DecisionTranslator):
    """DecisionTranslator plus the statement forms `_lca_multi_way` uses:
    fall-through out of an `if` body (the continuation is duplicated into the
    branch), unpacking of a tuple parameter, a filtering list comprehension,
    `set(list)`, `len(x) == n` (n = 0 and `not x` both read as `x = []`),
    membership in a list/set variable, and `pop()`
    on a set inside the branch that has just tested `len(set) == 1` (translated
    to a one-element pattern match, the only reading under which the popped
    element is determined).  Anything else raises ExtractError."""

    def __init__(self, tuple_params=None, **kw):
        super().__init__(**kw)
        self.tuple_params = tuple_params or {}   # param name -> kinds of its components
        self.kinds = {}                          # local name -> "val" | "list" | "set"
        self.pop = None                          # [set name, lean name, uses] inside a len==1 branch

    def _name(self, n):
        return self.names.get(n, n)

    def expr(self, e):
        if (isinstance(e, ast.Call) and isinstance(e.func, ast.Attribute) and e.func.attr == "pop"
                and isinstance(e.func.value, ast.Name) and not e.args and not e.keywords):
            if self.pop is not None and self.pop[0] == e.func.value.id:
                self.pop[2] += 1
                return self.pop[1]
            raise _ex.ExtractError("pop() outside a `len(set) == 1` branch: %s" % ast.unparse(e))
        if isinstance(e, ast.Name) and self.pop is not None and e.id == self.pop[0]:
            raise _ex.ExtractError("set %s used beside its pop()" % e.id)
        return super().expr(e)

    def cond(self, e):
        if isinstance(e, ast.Compare) and len(e.ops) == 1:
            l, op, r = e.left, e.ops[0], e.comparators[0]
            if (isinstance(op, (ast.Eq, ast.NotEq)) and isinstance(l, ast.Call) and isinstance(l.func, ast.Name)
                    and l.func.id == "len" and len(l.args) == 1 and not l.keywords and isinstance(l.args[0], ast.Name)
                    and self.kinds.get(l.args[0].id) in ("list", "set")
                    and isinstance(r, ast.Constant) and type(r.value) is int and r.value >= 0):
                if r.value == 0:   # canonical emptiness test, shared with `not x` / `x`
                    return "(%s %s [])" % (self._name(l.args[0].id), "=" if isinstance(op, ast.Eq) else "≠")
                return "(%s.length %s %d)" % (self._name(l.args[0].id), "=" if isinstance(op, ast.Eq) else "≠", r.value)
            if (isinstance(op, (ast.In, ast.NotIn)) and isinstance(r, ast.Name)
                    and self.kinds.get(r.id) in ("list", "set")):
                return "(%s %s %s)" % (self.expr(l), "∈" if isinstance(op, ast.In) else "∉", self._name(r.id))
        # truthiness of a list / set variable
        if isinstance(e, ast.Name) and self.kinds.get(e.id) in ("list", "set"):
            return "(%s ≠ [])" % self._name(e.id)
        if (isinstance(e, ast.UnaryOp) and isinstance(e.op, ast.Not) and isinstance(e.operand, ast.Name)
                and self.kinds.get(e.operand.id) in ("list", "set")):
            return "(%s = [])" % self._name(e.operand.id)
        return super().cond(e)

    def _bind(self, name, kind):
        if name in self.kinds or name in self.names or name in self.tuple_params:
            raise _ex.ExtractError("name %s bound twice" % name)
        self.kinds[name] = kind

    def _assign(self, s):
        if len(s.targets) != 1:
            raise _ex.ExtractError("unsupported assignment: %s" % ast.unparse(s))
        tgt, val = s.targets[0], s.value
        if isinstance(tgt, ast.Tuple) and isinstance(val, ast.Name) and val.id in self.tuple_params:
            kinds = self.tuple_params[val.id]
            if len(tgt.elts) != len(kinds) or not all(isinstance(x, ast.Name) for x in tgt.elts):
                raise _ex.ExtractError("unsupported unpacking: %s" % ast.unparse(s))
            for x, k in zip(tgt.elts, kinds):
                self._bind(x.id, k)
            return "let (%s) := %s" % (", ".join(x.id for x in tgt.elts), self._name(val.id))
        if isinstance(tgt, ast.Name):
            if (isinstance(val, ast.ListComp) and len(val.generators) == 1):
                g = val.generators[0]
                if (isinstance(g.target, ast.Name) and isinstance(val.elt, ast.Name) and val.elt.id == g.target.id
                        and not g.is_async and len(g.ifs) == 1 and isinstance(g.iter, ast.Name)
                        and self.kinds.get(g.iter.id) == "list" and g.target.id not in self.kinds):
                    self.kinds[g.target.id] = "val"
                    c = self.cond(g.ifs[0])
                    del self.kinds[g.target.id]
                    self._bind(tgt.id, "list")
                    return "let %s := %s.filter (fun %s => decide %s)" % (tgt.id, self._name(g.iter.id), g.target.id, c)
            if (isinstance(val, ast.Call) and isinstance(val.func, ast.Name) and val.func.id == "set"
                    and len(val.args) == 1 and not val.keywords and isinstance(val.args[0], ast.Name)
                    and self.kinds.get(val.args[0].id) == "list"):
                self._bind(tgt.id, "set")
                return "let %s := pySet %s" % (tgt.id, self._name(val.args[0].id))
        raise _ex.ExtractError("unsupported assignment: %s" % ast.unparse(s))

    def _pop_target(self, s):
        """`if len(S) == 1: return f(.. S.pop() ..)` -> S, else None"""
        t = s.test
        if not (isinstance(t, ast.Compare) and len(t.ops) == 1 and isinstance(t.ops[0], ast.Eq)
                and isinstance(t.left, ast.Call) and isinstance(t.left.func, ast.Name) and t.left.func.id == "len"
                and len(t.left.args) == 1 and isinstance(t.left.args[0], ast.Name)
                and self.kinds.get(t.left.args[0].id) == "set"
                and isinstance(t.comparators[0], ast.Constant) and t.comparators[0].value == 1
                and type(t.comparators[0].value) is int):
            return None
        name = t.left.args[0].id
        pops = [n for n in ast.walk(ast.Module(body=s.body, type_ignores=[]))
                if isinstance(n, ast.Attribute) and n.attr == "pop" and isinstance(n.value, ast.Name) and n.value.id == name]
        return name if pops else None

    def block(self, stmts, indent="  "):
        stmts = [s for s in stmts if not (isinstance(s, ast.Expr) and isinstance(s.value, ast.Constant))]
        if not stmts:
            raise _ex.ExtractError("path without return")
        s, rest = stmts[0], stmts[1:]
        if isinstance(s, ast.Return):
            if s.value is None:
                raise _ex.ExtractError("bare return")
            return self.expr(s.value)
        if isinstance(s, ast.Assign):
            saved = dict(self.kinds)
            out = self._assign(s) + "\n" + indent + self.block(rest, indent)
            self.kinds = saved
            return out
        if isinstance(s, ast.If):
            body = s.body + ([] if _ex._all_return(s.body) else rest)
            orelse = s.orelse + ([] if _ex._all_return(s.orelse) else rest)
            sub = indent + "  "
            pname = self._pop_target(s)
            if pname is not None:
                if not (len(s.body) == 1 and isinstance(s.body[0], ast.Return)) or self.pop is not None:
                    raise _ex.ExtractError("unsupported use of pop(): %s" % ast.unparse(s)[:80])
                self.pop = [pname, pname + "_pop", 0]
                then = self.block(body, sub)
                uses, self.pop = self.pop[2], None
                if uses != 1:
                    raise _ex.ExtractError("pop() used %d times" % uses)
                els = self.block(orelse, sub)
                return "(match %s with\n%s| [%s_pop] => %s\n%s| _ => %s)" % (self._name(pname), indent, pname, then, indent, els)
            test = self.cond(s.test)
            then = self.block(body, sub)
            els = self.block(orelse, sub)
            return "if %s then %s\n%selse %s" % (test, then, indent, els)
        raise _ex.ExtractError("unsupported statement: %s" % ast.unparse(s)[:80])


WINNER = {"this": "Winner.this", "other": "Winner.other", "conflict": "Winner.conflict"}


def _const(v):
    if type(v) is str and v in WINNER:
        return WINNER[v]
    raise _ex.ExtractError("unexpected constant %r" % (v,))


def generate(repo):
    path = os.path.join(repo, "breezy/merge.py")
    f = _ex.find_func(path, "Merge3Merger._three_way")
    g = _ex.find_func(path, "Merge3Merger._lca_multi_way")
    for fn, params, ndefaults in ((f, ["base", "other", "this"], 0),
                                  (g, ["bases", "other", "this", "allow_overriding_lca"], 1)):
        a = fn.args
        if ([x.arg for x in a.args] != params or a.vararg or a.kwarg or a.kwonlyargs or a.posonlyargs
                or len(a.defaults) != ndefaults
                or not all(isinstance(d, ast.Constant) and type(d.value) is bool for d in a.defaults)
                or [ast.unparse(d) for d in fn.decorator_list] != ["staticmethod"]):
            raise _ex.ExtractError("unexpected signature of %s" % fn.name)
    # the flag's default is transcribed too (`lca_multi_way_gen_default` compares it with the model's)
    default = "true" if g.args.defaults[0].value else "false"
    names = {"this": "this_", "base": "base", "other": "other"}
    tw = LcaTranslator(const=_const, names=dict(names)).block(f.body)
    lca = LcaTranslator(const=_const, names=dict(names, bases="bases", allow_overriding_lca="allow_overriding_lca"),
                        calls={"Merge3Merger._three_way": "threeWayGen"},
                        tuple_params={"bases": ("val", "list")}).block(g.body)
    return ("-- GENERATED by harness/checks/c18.py from breezy/merge.py — do not edit\n"
            "import BreezyVerif.Model.C18\nnamespace BreezyVerif.C18\n"
            "def threeWayGen {α : Type} [DecidableEq α] (base other this_ : α) : Winner :=\n  "
            + tw + "\n\n"
            "def lcaMultiWayGen {α : Type} [DecidableEq α] (bases : α × List α) (other this_ : α)\n"
            "    (allow_overriding_lca : Bool := " + default + ") : Winner :=\n  "
            + lca + "\nend BreezyVerif.C18\n")


def extract(ctx):
    try:
        text = generate(env.REPO)
    except Exception as e:
        # never leave a stale transcription behind: the T1 module must not build
        _ex.write_if_changed(GEN_PATH, (
            "-- GENERATED by harness/checks/c18.py — transcription FAILED: %s\n"
            "import BreezyVerif.Model.C18\n-- (no definitions: Props/C18T1.lean does not build against this file)\n"
            % str(e).replace("\n", " ")[:300]))
        raise
    _ex.write_if_changed(GEN_PATH, text)
    return "regenerated threeWayGen from Merge3Merger._three_way and lcaMultiWayGen from Merge3Merger._lca_multi_way"


def _funcs():
    from breezy.merge import Merge3Merger
    return Merge3Merger._three_way, Merge3Merger._lca_multi_way


def _ren(off):
    """value index -> the value handed to the real code"""
    if off is None:
        return lambda i: i
    n = len(POOL)
    return lambda i: POOL[(i + off) % n]


def _call(tw, lca, kind, args, off):
    r = _ren(off)
    if kind == "tw":
        return tw(*[r(x) for x in args])
    allow, b, ls, o, t = args
    if allow is None:
        # the callers' most common form: the flag left at its default
        return lca((r(b), [r(x) for x in ls]), r(o), r(t))
    return lca((r(b), [r(x) for x in ls]), r(o), r(t), allow_overriding_lca=allow)


def _oracle(ctx, tw, lca, kind, args, out, off=None):
    """the property's own laws, on the real functions (values renamed by `off`)"""
    r = _ren(off)
    case = dict(f=kind, args=args, off=off)
    if out not in SWAP:
        ctx.violation(case, "result %r is not one of this/other/conflict" % (out,))
        return
    if kind == "tw":
        b, o, t = [r(x) for x in args]
        sw = tw(b, t, o)
        if o != t and sw != SWAP[out]:
            ctx.violation(case, "swap law: _three_way%r=%s but swapped gives %s" % ((b, o, t), out, sw))
        if o == t and out != "this":
            ctx.violation(case, "tie-break: both sides agree but _three_way%r=%s" % ((b, o, t), out))
        if t == b and o != b and out != "other":
            ctx.violation(case, "unchanged THIS wins/conflicts against changed OTHER: _three_way%r=%s" % ((b, o, t), out))
        if o == b and t != b and out != "this":
            ctx.violation(case, "unchanged OTHER wins/conflicts against changed THIS: _three_way%r=%s" % ((b, o, t), out))
        return
    allow = args[0]
    if allow is None:
        # documented default: allow_overriding_lca=True
        on = lca((r(args[1]), [r(x) for x in args[2]]), r(args[3]), r(args[4]), allow_overriding_lca=True)
        if on != out:
            ctx.violation(case, "_lca_multi_way without the flag gives %s, with allow_overriding_lca=True (the documented "
                          "default) %s" % (out, on))
        allow = True
    b, o, t = r(args[1]), r(args[3]), r(args[4])
    ls = [r(x) for x in args[2]]
    desc = "_lca_multi_way((%r, %r), %r, %r, allow_overriding_lca=%r)=%s" % (b, ls, o, t, allow, out)
    sw = lca((b, list(ls)), t, o, allow_overriding_lca=allow)
    if o != t and sw != SWAP[out]:
        ctx.violation(case, "swap law: %s, with THIS and OTHER exchanged %s" % (desc, sw))
    if o == t and out != "this":
        ctx.violation(case, "tie-break violated: %s" % desc)
    if ls and all(x == ls[0] for x in ls):
        ref = tw(ls[0], o, t)
        if out != ref:
            ctx.violation(case, "all LCAs equal %r but %s and _three_way=%s" % (ls[0], desc, ref))
    if not ls and out != tw(b, o, t):
        ctx.violation(case, "no LCAs but %s differs from _three_way=%s" % (desc, tw(b, o, t)))
    anc = [b] + ls
    if t in anc and o not in anc and out == "this":
        ctx.violation(case, "unchanged THIS wins against changed OTHER: %s" % desc)
    if o in anc and t not in anc and out == "other":
        ctx.violation(case, "unchanged OTHER wins against changed THIS: %s" % desc)
    if not allow:
        on = lca((b, list(ls)), o, t, allow_overriding_lca=True)
        if out != "conflict" and out != on:
            ctx.violation(case, "flag monotonicity: %s but with allow_overriding_lca=True %s" % (desc, on))
    if allow and o != t and o != b and t != b and o in ls and t in ls and out != "conflict":
        ctx.violation(case, "each side picked a different (non-base) LCA value but no conflict: %s" % desc)
    if b in ls:
        nob = lca((b, [x for x in ls if x != b]), o, t, allow_overriding_lca=allow)
        if nob != out:
            ctx.violation(case, "LCA values equal to the base value are not ignored: %s, without them %s" % (desc, nob))
    if len(ls) > 1:
        rev = lca((b, ls[::-1]), o, t, allow_overriding_lca=allow)
        if rev != out:
            ctx.violation(case, "verdict depends on the order of the LCA values: %s, reversed LCAs %s" % (desc, rev))


def _product_cases(D, K):
    for b, o, t in itertools.product(range(D), repeat=3):
        yield "tw", [b, o, t]
    for k in range(K + 1):
        for allow in (True, False) + ((None,) if k <= 2 else ()):
            for b in range(D):
                for ls in itertools.product(range(D), repeat=k):
                    for o in range(D):
                        for t in range(D):
                            yield "lca", [allow, b, list(ls), o, t]


def _rgs(n):
    """all restricted-growth strings of length n = all equality patterns of n values"""
    a = [0] * n

    def rec(i, m):
        if i == n:
            yield list(a)
            return
        for v in range(m + 2):
            a[i] = v
            yield from rec(i + 1, max(m, v))
    if n == 0:
        yield []
    else:
        yield from rec(1, 0)


def _pattern_cases(k):
    for p in _rgs(k + 3):
        for allow in (True, False):
            yield "lca", [allow, p[0], p[1:k + 1], p[k + 1], p[k + 2]]


def _line(kind, args):
    if kind == "tw":
        return "tw %d %d %d" % tuple(args)
    allow, b, ls, o, t = args
    # allow None = flag not passed: the model's (and the documented) default is true
    return "lca %s %d %s %d %d" % ("T" if allow is None or allow else "F", b, ",".join(map(str, ls)) or "-", o, t)


def run(ctx, D=None, K=None, KP=None):
    tw, lca = _funcs()
    D = D or ctx.pick(6, 7)
    K = K if K is not None else 3
    KP = KP if KP is not None else ctx.pick(6, 8)
    cases, lines, outs = [], [], []

    def one(kind, args, off, tag):
        out = _call(tw, lca, kind, args, off)
        _oracle(ctx, tw, lca, kind, args, out, off)
        flat = (args if kind == "tw" else [args[1]] + args[2] + args[3:])
        case = [kind] + args + ([] if off is None else [dict(off=off)])
        ctx.case(case, nontrivial=len(set(flat)) > 1)
        ctx.count("%s:%s" % (tag, out))
        cases.append(case)
        lines.append(_line(kind, args))
        outs.append(str(out))

    for kind, args in _product_cases(D, K):
        one(kind, args, None, kind)
    n = 0
    for k in range(K + 1, KP + 1):
        for kind, args in _pattern_cases(k):
            n += 1
            one(kind, args, n % len(POOL), "lca-pattern-k%d" % k)
    # beyond the exhaustive bound: random cases with many LCAs, many distinct and
    # repeated values (the theorems are unbounded; this ties the code there too)
    rng = ctx.rng
    for _ in range(ctx.pick(50000, 300000)):
        k = rng.randint(KP + 1, KP + 5)
        dom = rng.randint(2, 11)
        b = rng.randrange(dom)
        ls = [rng.randrange(dom) for _ in range(k)]
        if rng.random() < 0.5:
            # few distinct lca values
            pool = rng.sample(range(dom), min(dom, rng.randint(1, 3)))
            ls = [rng.choice(pool) for _ in range(k)]
        o = rng.choice(ls + [b, rng.randrange(dom), dom])
        t = rng.choice(ls + [b, rng.randrange(dom), dom + 1])
        allow = rng.choice([True, True, True, False, False, None])
        off = rng.randrange(len(POOL)) if rng.random() < 0.5 else None
        args = [allow, b, ls, o, t]
        one("lca", args, off, "lca-random")
        # order independence: the verdict may not depend on the order of the LCAs
        perm = list(ls)
        rng.shuffle(perm)
        out2 = _call(tw, lca, "lca", [allow, b, perm, o, t], off)
        if out2 != outs[-1]:
            ctx.violation(dict(f="lca", args=args, off=off),
                          "verdict depends on the order of the LCA values: %r -> %s, %r -> %s" % (ls, outs[-1], perm, out2))
    ctx.diff(cases, lines, outs)
    # exhaustive in the sense of RULE (a)+(b): every input with <= KP LCAs up to injective renaming
    ctx.exhaustive = True
    ctx.extra["domain"] = dict(full_product_values=D, full_product_max_lcas=K, all_equality_patterns_up_to_lcas=KP,
                               random_lcas_up_to=KP + 5, typed_value_pool=len(POOL))


def widen(ctx):
    run(ctx, D=7, K=3, KP=8)


def replay(ctx, case):
    tw, lca = _funcs()
    if isinstance(case, dict):
        kind, args, off = case["f"], case["args"], case.get("off")
    else:
        kind, args, off = case[0], list(case[1:]), None
        if args and isinstance(args[-1], dict):
            off = args.pop()["off"]
    out = _call(tw, lca, kind, args, off)
    _oracle(ctx, tw, lca, kind, args, out, off)
    m = ctx.model([_line(kind, args)])[0]
    r = _ren(off)
    real = [r(x) if type(x) is int else ([r(y) for y in x] if isinstance(x, list) else x) for x in args]
    return dict(case=case, real_arguments=repr(real), impl=out, model=m,
                oracle_failures=[v["what"] for v in ctx.violations])
