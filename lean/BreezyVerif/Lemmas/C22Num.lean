import BreezyVerif.Lemmas.C22Dfs
/-!
C22 — lemmas about the revno assignment `numberAll` of `mergeSort`: it never
fails on the output of the walk and never gives the same dotted revno twice.
-/
namespace BreezyVerif.C22

theorem lookup_cons {α : Type} (k : Nat) (v : α) (l : List (Nat × α)) (x : Nat) :
    lookup ((k, v) :: l) x = if k = x then some v else lookup l x := by
  unfold lookup
  by_cases h : k = x
  · simp [h]
  · simp [h]

theorem mem_of_lookup {α : Type} : ∀ (l : List (Nat × α)) (x : Nat) (v : α),
    lookup l x = some v → (x, v) ∈ l
  | [], x, v, h => by simp [lookup] at h
  | (k, w) :: l, x, v, h => by
    rw [lookup_cons] at h
    by_cases hk : k = x
    · simp only [hk, if_true, Option.some.injEq] at h
      subst hk; subst h; exact List.mem_cons_self ..
    · simp only [hk, if_false] at h
      exact List.mem_cons_of_mem _ (mem_of_lookup l x v h)

theorem lookup_of_mem {α : Type} : ∀ (l : List (Nat × α)) (x : Nat) (v : α),
    (l.map (·.1)).Nodup → (x, v) ∈ l → lookup l x = some v
  | [], _, _, _, h => by cases h
  | (k, w) :: l, x, v, hn, h => by
    rw [lookup_cons]
    rw [List.map_cons, List.nodup_cons] at hn
    rcases List.mem_cons.mp h with h | h
    · cases h; simp
    · have hne : k ≠ x := by
        intro hk; subst hk
        exact hn.1 (List.mem_map.mpr ⟨(k, v), h, rfl⟩)
      simp only [hne, if_false]
      exact lookup_of_mem l x v hn.2 h

theorem lookup_none_of_not_mem {α : Type} : ∀ (l : List (Nat × α)) (x : Nat),
    x ∉ l.map (·.1) → lookup l x = none
  | [], _, _ => by simp [lookup]
  | (k, w) :: l, x, h => by
    rw [lookup_cons]
    rw [List.map_cons, List.mem_cons, not_or] at h
    have : k ≠ x := fun e => h.1 e.symm
    simp only [this, if_false]
    exact lookup_none_of_not_mem l x h.2

def cnt (st : Num) (b : Nat) : Nat := (lookup st.counts b).getD 0

def GoodShape (st : Num) (r : List Nat) : Prop :=
  (∃ k, r = [k] ∧ 1 ≤ k) ∨ (∃ b c k, r = [b, c, k] ∧ 1 ≤ c ∧ c ≤ cnt st b ∧ 1 ≤ k)

structure NumInv (g : Graph) (pre : List Entry) (st : Num) : Prop where
  keys : st.revnos.map (·.1) = (pre.map (·.1)).reverse
  empty0 : lookup st.counts 0 = none → st.revnos = []
  shape : ∀ x r, (x, r) ∈ st.revnos → GoodShape st r
  inj : ∀ x1 r x2, (x1, r) ∈ st.revnos → (x2, r) ∈ st.revnos → x1 = x2
  prov : ∀ x r k, (x, r) ∈ st.revnos → r.getLast? = some k → 2 ≤ k →
    ∃ e ∈ pre, e.1 = x ∧ e.2.2 = true ∧ ∃ P pr j, lpOf g x = some P ∧ (P, pr) ∈ st.revnos ∧
      pr.getLast? = some j ∧ r = pr.dropLast ++ [j + 1]

theorem GoodShape.mono {st st' : Num} (h : ∀ b, cnt st b ≤ cnt st' b) {r : List Nat}
    (hs : GoodShape st r) : GoodShape st' r := by
  rcases hs with hs | ⟨b, c, k, hr, h1, h2, h3⟩
  · exact Or.inl hs
  · exact Or.inr ⟨b, c, k, hr, h1, Nat.le_trans h2 (h b), h3⟩

theorem cnt_cons (st : Num) (base c b : Nat) :
    cnt { st with counts := (base, c) :: st.counts } b = if base = b then c else cnt st b := by
  unfold cnt
  simp only [lookup_cons]
  by_cases h : base = b <;> simp [h]

/-- one numbering step keeps the invariant and gives a fresh revno -/
theorem numberOne_step (g : Graph) (pre : List Entry) (st : Num) (n d : Nat) (fc : Bool)
    (rest : List Entry) (hinv : NumInv g pre st)
    (hnodup : ((pre ++ (n, d, fc) :: rest).map (·.1)).Nodup)
    (hfcu : ∀ e1 ∈ pre ++ (n, d, fc) :: rest, ∀ e2 ∈ pre ++ (n, d, fc) :: rest,
      e1.2.2 = true → e2.2.2 = true → ∀ P, lpOf g e1.1 = some P → lpOf g e2.1 = some P → e1.1 = e2.1)
    (hpres : n < g.length)
    (hlp : ∀ P, lpOf g n = some P → P ∈ pre.map (·.1)) :
    ∃ st' r, numberOne g st n fc = some (st', r) ∧
      NumInv g (pre ++ [(n, d, fc)]) { st' with revnos := (n, r) :: st'.revnos } ∧
      (∀ x r', (x, r') ∈ st.revnos → r' ≠ r) := by
  have hg : g[n]? = some g[n] := List.getElem?_eq_getElem hpres
  have hlpn : lpOf g n = leftParent g g[n] := by unfold lpOf; rw [hg]
  have hn_pre : n ∉ pre.map (·.1) := by
    rw [List.map_append, List.map_cons] at hnodup
    have := (List.nodup_append.mp hnodup).2.2
    intro hmem
    exact this n hmem n (List.mem_cons_self ..) rfl
  have hpre_nodup : (pre.map (·.1)).Nodup := by
    rw [List.map_append] at hnodup
    exact (List.nodup_append.mp hnodup).1
  have hkeys_nodup : (st.revnos.map (·.1)).Nodup := by
    rw [hinv.keys]; exact (List.reverse_perm _).nodup_iff.mpr hpre_nodup
  have hkey_mem : ∀ x r, (x, r) ∈ st.revnos → x ∈ pre.map (·.1) := by
    intro x r h
    have : x ∈ st.revnos.map (·.1) := List.mem_map.mpr ⟨(x, r), h, rfl⟩
    rw [hinv.keys] at this
    exact List.mem_reverse.mp this
  have hn_key : ∀ r, (n, r) ∉ st.revnos := fun r h => hn_pre (hkey_mem n r h)
  have hkeys' : ∀ (st' : Num) r, st'.revnos = st.revnos →
      ({ st' with revnos := (n, r) :: st'.revnos } : Num).revnos.map (·.1)
        = ((pre ++ [(n, d, fc)]).map (·.1)).reverse := by
    intro st' r h
    simp [h, hinv.keys]
  -- generic re-establishment of the invariant for a fresh revno whose last number is 1
  have fresh_case : ∀ (st' : Num) (r : List Nat), st'.revnos = st.revnos →
      (∀ b, cnt st b ≤ cnt st' b) → lookup st'.counts 0 ≠ none → GoodShape st' r →
      r.getLast? = some 1 → (∀ x r', (x, r') ∈ st.revnos → r' ≠ r) →
      NumInv g (pre ++ [(n, d, fc)]) { st' with revnos := (n, r) :: st'.revnos } := by
    intro st' r hrev hmono h0 hshape hlast hfresh
    refine ⟨hkeys' st' r hrev, fun h => absurd h h0, ?_, ?_, ?_⟩
    · intro x r' hm
      rcases List.mem_cons.mp hm with hm | hm
      · cases hm; exact hshape
      · rw [hrev] at hm
        exact GoodShape.mono hmono (hinv.shape x r' hm)
    · intro x1 r' x2 h1 h2
      rcases List.mem_cons.mp h1 with h1 | h1 <;> rcases List.mem_cons.mp h2 with h2 | h2
      · cases h1; cases h2; rfl
      · cases h1; rw [hrev] at h2; exact absurd rfl (hfresh x2 _ h2)
      · cases h2; rw [hrev] at h1; exact absurd rfl (hfresh x1 _ h1)
      · rw [hrev] at h1 h2; exact hinv.inj x1 r' x2 h1 h2
    · intro x r' k hm hl hk
      rcases List.mem_cons.mp hm with hm | hm
      · cases hm; rw [hlast] at hl; cases hl; omega
      · rw [hrev] at hm
        obtain ⟨e, he, hex, hef, P, pr, j, hP, hPm, hj, hr⟩ := hinv.prov x r' k hm hl hk
        exact ⟨e, List.mem_append_left _ he, hex, hef, P, pr, j, hP,
          List.mem_cons_of_mem _ (by rw [hrev]; exact hPm), hj, hr⟩
  unfold numberOne
  simp only [hg]
  cases hl : leftParent g g[n] with
  | none =>
    simp only []
    cases h0 : lookup st.counts 0 with
    | none =>
      simp only []
      have hempty := hinv.empty0 h0
      refine ⟨_, _, rfl, ?_, ?_⟩
      · apply fresh_case { st with counts := (0, 0) :: st.counts } [1] rfl
        · intro b; rw [cnt_cons]; by_cases hb : 0 = b
          · subst hb; simp [cnt, h0]
          · simp [hb]
        · simp [lookup_cons]
        · exact Or.inl ⟨1, rfl, Nat.le_refl _⟩
        · rfl
        · intro x r' hm; rw [hempty] at hm; cases hm
      · intro x r' hm; rw [hempty] at hm; cases hm
    | some rc =>
      simp only []
      have hfresh : ∀ x r', (x, r') ∈ st.revnos → r' ≠ [0, rc + 1, 1] := by
        intro x r' hm heq
        rcases hinv.shape x r' hm with ⟨k, hr, _⟩ | ⟨b, c, k, hr, _, hc, _⟩
        · rw [hr] at heq; cases heq
        · rw [hr] at heq
          simp only [List.cons.injEq, and_true] at heq
          obtain ⟨hb, hc', _⟩ := heq
          subst hb; subst hc'
          simp [cnt, h0] at hc
          omega
      refine ⟨_, _, rfl, ?_, hfresh⟩
      apply fresh_case { st with counts := (0, rc + 1) :: st.counts } [0, rc + 1, 1] rfl
      · intro b; rw [cnt_cons]; by_cases hb : 0 = b
        · subst hb; simp [cnt, h0]
        · simp [hb]
      · simp [lookup_cons]
      · exact Or.inr ⟨0, rc + 1, 1, rfl, by omega, by simp [cnt_cons], Nat.le_refl _⟩
      · rfl
      · exact hfresh
  | some l =>
    simp only []
    have hlP : lpOf g n = some l := by rw [hlpn, hl]
    have hl_pre := hlp l hlP
    have hl_key : l ∈ st.revnos.map (·.1) := by rw [hinv.keys]; exact List.mem_reverse.mpr hl_pre
    obtain ⟨⟨l', pr⟩, hprm, hl'⟩ := List.mem_map.mp hl_key
    simp only at hl'; subst hl'
    have hlook : lookup st.revnos l' = some pr := lookup_of_mem _ _ _ hkeys_nodup hprm
    rw [hlook]
    simp only []
    have hprshape := hinv.shape l' pr hprm
    cases fc with
    | true =>
      simp only [if_true]
      -- the parent's revno with its last number increased
      obtain ⟨k, hk, r, hr, hrlast, hrshape⟩ : ∃ k, pr.getLast? = some k ∧ ∃ r, r = pr.dropLast ++ [k + 1] ∧
          r.getLast? = some (k + 1) ∧ GoodShape st r := by
        rcases hprshape with ⟨k, hr, hk1⟩ | ⟨b, c, k, hr, h1, h2, h3⟩
        · subst hr
          exact ⟨k, rfl, _, rfl, by simp, Or.inl ⟨k + 1, by simp, by omega⟩⟩
        · subst hr
          exact ⟨k, rfl, _, rfl, by simp, Or.inr ⟨b, c, k + 1, by simp, h1, h2, by omega⟩⟩
      rw [hk]
      simp only []
      have hk1 : 1 ≤ k := by
        rcases hprshape with ⟨k', hr', hk'⟩ | ⟨b, c, k', hr', _, _, hk'⟩
        · subst hr'; simp at hk; omega
        · subst hr'; simp at hk; omega
      have hfresh : ∀ x r', (x, r') ∈ st.revnos → r' ≠ pr.dropLast ++ [k + 1] := by
        intro x r' hm heq
        subst heq
        obtain ⟨e, he, hex, hef, P, pr', j, hP, hPm, hj, hr'⟩ :=
          hinv.prov x _ (k + 1) hm (by rw [← hr]; exact hrlast) (by omega)
        -- the two parents have the same revno, hence are the same node
        have hpr_eq : pr' = pr := by
          obtain ⟨ys, hys⟩ := List.getLast?_eq_some_iff.mp hk
          obtain ⟨zs, hzs⟩ := List.getLast?_eq_some_iff.mp hj
          subst hys; subst hzs
          have := congrArg List.reverse hr'
          simp only [List.dropLast_concat, List.reverse_append, List.reverse_cons, List.reverse_nil,
            List.nil_append, List.singleton_append, List.cons.injEq, List.reverse_inj] at this
          have hjk : j = k := by omega
          rw [hjk, this.2]
        subst hpr_eq
        have hPl : P = l' := hinv.inj P pr' l' hPm hprm
        subst hPl
        have he_mem : e ∈ pre ++ (n, d, true) :: rest := List.mem_append_left _ he
        have hn_mem : (n, d, true) ∈ pre ++ (n, d, true) :: rest :=
          List.mem_append_right _ (List.mem_cons_self ..)
        have := hfcu e he_mem (n, d, true) hn_mem hef rfl P (by rw [hex]; exact hP) hlP
        simp only at this
        rw [hex] at this
        exact hn_pre (this ▸ hkey_mem x _ hm)
      refine ⟨_, _, rfl, ?_, hfresh⟩
      refine ⟨hkeys' st _ rfl, ?_, ?_, ?_, ?_⟩
      · intro h; exfalso
        have := hinv.empty0 h
        rw [this] at hprm; cases hprm
      · intro x r' hm
        rcases List.mem_cons.mp hm with hm | hm
        · cases hm; rw [← hr]; exact hrshape
        · exact hinv.shape x r' hm
      · intro x1 r' x2 h1 h2
        rcases List.mem_cons.mp h1 with h1 | h1 <;> rcases List.mem_cons.mp h2 with h2 | h2
        · cases h1; cases h2; rfl
        · cases h1; exact absurd rfl (hfresh x2 _ h2)
        · cases h2; exact absurd rfl (hfresh x1 _ h1)
        · exact hinv.inj x1 r' x2 h1 h2
      · intro x r' k' hm hl' hk'
        rcases List.mem_cons.mp hm with hm | hm
        · cases hm
          exact ⟨(n, d, true), List.mem_append_right _ (List.mem_singleton.mpr rfl), rfl, rfl, l', pr, k,
            hlP, List.mem_cons_of_mem _ hprm, hk, rfl⟩
        · obtain ⟨e, he, hex, hef, P, pr', j, hP, hPm, hj, hr'⟩ := hinv.prov x r' k' hm hl' hk'
          exact ⟨e, List.mem_append_left _ he, hex, hef, P, pr', j, hP, List.mem_cons_of_mem _ hPm, hj, hr'⟩
    | false =>
      simp only [Bool.false_eq_true, if_false]
      obtain ⟨base, hbase⟩ : ∃ base, pr.head? = some base := by
        rcases hprshape with ⟨k, hr, _⟩ | ⟨b, c, k, hr, _, _, _⟩
        · subst hr; exact ⟨k, rfl⟩
        · subst hr; exact ⟨b, rfl⟩
      rw [hbase]
      simp only []
      have hc : (lookup st.counts base).getD 0 = cnt st base := rfl
      rw [hc]
      have hfresh : ∀ x r', (x, r') ∈ st.revnos → r' ≠ [base, cnt st base + 1, 1] := by
        intro x r' hm heq
        rcases hinv.shape x r' hm with ⟨k, hr, _⟩ | ⟨b, c, k, hr, _, hc', _⟩
        · rw [hr] at heq; cases heq
        · rw [hr] at heq
          simp only [List.cons.injEq, and_true] at heq
          obtain ⟨hb, hc'', _⟩ := heq
          subst hb; subst hc''
          omega
      refine ⟨_, _, rfl, ?_, hfresh⟩
      apply fresh_case { st with counts := (base, cnt st base + 1) :: st.counts } _ rfl
      · intro b; rw [cnt_cons]; by_cases hb : base = b
        · subst hb; simp
        · simp [hb]
      · intro h
        rw [lookup_cons] at h
        by_cases hb : base = 0
        · simp [hb] at h
        · simp only [hb, if_false] at h
          have := hinv.empty0 h
          rw [this] at hprm; cases hprm
      · exact Or.inr ⟨base, cnt st base + 1, 1, rfl, by omega, by simp [cnt_cons], Nat.le_refl _⟩
      · rfl
      · exact hfresh

/-- numbering a whole list: succeeds, keeps nodes and depths, revnos pairwise distinct and
distinct from those given before -/
theorem numberAll_spec (g : Graph) : ∀ (rest pre : List Entry) (st : Num), NumInv g pre st →
    ((pre ++ rest).map (·.1)).Nodup →
    (∀ e1 ∈ pre ++ rest, ∀ e2 ∈ pre ++ rest,
      e1.2.2 = true → e2.2.2 = true → ∀ P, lpOf g e1.1 = some P → lpOf g e2.1 = some P → e1.1 = e2.1) →
    (∀ a b, rest = a ++ b → ∀ e, b.head? = some e →
      e.1 < g.length ∧ ∀ P, lpOf g e.1 = some P → P ∈ (pre ++ a).map (·.1)) →
    ∃ out, numberAll g st rest = some out ∧ out.map (fun e => (e.1, e.2.1)) = rest.map (fun e => (e.1, e.2.1)) ∧
      (out.map (·.2.2)).Nodup ∧ ∀ e ∈ out, ∀ x r', (x, r') ∈ st.revnos → r' ≠ e.2.2 := by
  intro rest
  induction rest with
  | nil =>
    intro pre st _ _ _ _
    exact ⟨[], rfl, rfl, List.nodup_nil, fun e he => by cases he⟩
  | cons e rest ih =>
    intro pre st hinv hnodup hfcu hpf
    obtain ⟨n, d, fc⟩ := e
    have h0 := hpf [] ((n, d, fc) :: rest) rfl (n, d, fc) rfl
    simp only [List.append_nil] at h0
    obtain ⟨st', r, hone, hinv', hfresh⟩ := numberOne_step g pre st n d fc rest hinv hnodup hfcu h0.1 h0.2
    have happ : pre ++ (n, d, fc) :: rest = (pre ++ [(n, d, fc)]) ++ rest := by simp
    obtain ⟨out, hall, hmap, hnd, hdist⟩ := ih (pre ++ [(n, d, fc)]) { st' with revnos := (n, r) :: st'.revnos }
      hinv' (by rw [← happ]; exact hnodup) (by rw [← happ]; exact hfcu)
      (by
        intro a b hab e he
        have := hpf ((n, d, fc) :: a) b (by rw [hab]; rfl) e he
        simpa using this)
    refine ⟨(n, d, r) :: out, ?_, ?_, ?_, ?_⟩
    · simp only [numberAll, hone, hall]
    · simp [hmap]
    · rw [List.map_cons, List.nodup_cons]
      refine ⟨?_, hnd⟩
      intro hmem
      obtain ⟨e, he, her⟩ := List.mem_map.mp hmem
      exact hdist e he n r (List.mem_cons_self ..) her.symm
    · intro e he x r' hm
      rcases List.mem_cons.mp he with rfl | he
      · exact hfresh x r' hm
      · have hrev : st'.revnos = st.revnos := by
          -- numberOne never touches the revnos
          unfold numberOne at hone
          split at hone
          · cases hone
          · split at hone
            · split at hone
              · cases hone
              · split at hone
                · split at hone
                  · cases hone
                  · cases hone; rfl
                · split at hone
                  · cases hone
                  · cases hone; rfl
            · split at hone
              · cases hone; rfl
              · cases hone; rfl
        exact hdist e he x r' (List.mem_cons_of_mem _ (by rw [hrev]; exact hm))

end BreezyVerif.C22
