import BreezyVerif.Model.C22
/-!
C22 — lemmas about the depth-first walk `visit` of `mergeSort`:
termination on topologically numbered graphs, the completed set is exactly the
reachable set, each node is completed once, parents are completed before their
children, and at most one child per left-hand parent carries the first-child
flag.
-/
namespace BreezyVerif.C22

abbrev Entry := Nat × Nat × Bool

/-- the present left-hand parent of a node -/
def lpOf (g : Graph) (n : Nat) : Option Nat :=
  match g[n]? with
  | some ps => leftParent g ps
  | none => none

/-- `a` is reachable from `n` through present revisions (ancestor-or-self) -/
inductive Reach (g : Graph) : Nat → Nat → Prop
  | refl {n : Nat} : n < g.length → Reach g n n
  | step {n p a : Nat} : n < g.length → p ∈ parentsD g n → p < g.length → Reach g p a → Reach g n a

def WF (g : Graph) : Prop := ∀ n ps, g[n]? = some ps → ∀ p ∈ ps, p < n ∨ g.length ≤ p

theorem wf_iff (g : Graph) : wf g = true ↔ WF g := by
  unfold wf WF
  rw [List.all_eq_true]
  constructor
  · intro h n ps hn p hp
    have hlt : n < g.length := by
      rcases Nat.lt_or_ge n g.length with h1 | h1
      · exact h1
      · rw [List.getElem?_eq_none h1] at hn; cases hn
    have := h n (List.mem_range.mpr hlt)
    rw [hn] at this
    simp only [List.all_eq_true, Bool.or_eq_true, decide_eq_true_eq] at this
    exact this p hp
  · intro h n hn
    split
    · rename_i ps hps
      simp only [List.all_eq_true, Bool.or_eq_true, decide_eq_true_eq]
      exact fun p hp => h n ps hps p hp
    · rfl

theorem parentsD_of_get {g : Graph} {n : Nat} {ps : List Nat} (h : g[n]? = some ps) :
    parentsD g n = ps := by
  unfold parentsD; rw [h]

theorem Reach.present {g : Graph} {n a : Nat} (h : Reach g n a) : a < g.length := by
  induction h with
  | refl h => exact h
  | step _ _ _ _ ih => exact ih

theorem Reach.src_present {g : Graph} {n a : Nat} (h : Reach g n a) : n < g.length := by
  cases h with
  | refl h => exact h
  | step h _ _ _ => exact h

theorem Reach.le {g : Graph} (hw : WF g) {n a : Nat} (h : Reach g n a) : a ≤ n := by
  induction h with
  | refl _ => exact Nat.le_refl _
  | @step n p a hn hp hpl _ ih =>
    have hg : g[n]? = some g[n] := List.getElem?_eq_getElem hn
    have hpp : p ∈ g[n] := by rw [← parentsD_of_get hg]; exact hp
    rcases hw n _ hg p hpp with h1 | h1
    · omega
    · omega

theorem Reach.trans {g : Graph} {a b c : Nat} (h1 : Reach g a b) (h2 : Reach g b c) : Reach g a c := by
  induction h1 with
  | refl _ => exact h2
  | step hn hp hpl _ ih => exact Reach.step hn hp hpl (ih h2)

/-- parents (present ones) are completed before their children: `l` is most recent first -/
def PF (g : Graph) : List Entry → Prop
  | [] => True
  | e :: older =>
    (e.1 < g.length ∧ ∀ p ∈ parentsD g e.1, p < g.length → p ∈ older.map (·.1)) ∧ PF g older

def doneSet (st : Dfs) : List Nat := st.done.map (·.1)

theorem isDone_iff (st : Dfs) (r : Nat) : st.isDone r = true ↔ r ∈ doneSet st := by
  unfold Dfs.isDone doneSet
  simp only [List.any_eq_true, List.mem_map, beq_iff_eq]

structure Inv (g : Graph) (st : Dfs) : Prop where
  nodup : (doneSet st).Nodup
  pf : PF g st.done
  claimed : ∀ e ∈ st.done, ∀ P, lpOf g e.1 = some P → P ∈ st.seen
  fcu : ∀ e1 ∈ st.done, ∀ e2 ∈ st.done, e1.2.2 = true → e2.2.2 = true →
    ∀ P, lpOf g e1.1 = some P → lpOf g e2.1 = some P → e1.1 = e2.1

theorem PF.closed {g : Graph} : ∀ {l : List Entry}, PF g l → ∀ e ∈ l,
    e.1 < g.length ∧ ∀ p ∈ parentsD g e.1, p < g.length → p ∈ l.map (·.1)
  | [], _, e, he => by cases he
  | x :: older, h, e, he => by
    rcases List.mem_cons.mp he with rfl | he'
    · exact ⟨h.1.1, fun p hp hpl => List.mem_cons_of_mem _ (h.1.2 p hp hpl)⟩
    · have := PF.closed h.2 e he'
      exact ⟨this.1, fun p hp hpl => List.mem_cons_of_mem _ (this.2 p hp hpl)⟩

/-- everything reachable from a completed node is completed -/
theorem closed_reach {g : Graph} {l : List Entry} (h : PF g l) {n a : Nat} (hr : Reach g n a)
    (hn : n ∈ l.map (·.1)) : a ∈ l.map (·.1) := by
  induction hr with
  | refl _ => exact hn
  | step _ hp hpl _ ih =>
    obtain ⟨e, he, rfl⟩ := List.mem_map.mp hn
    exact ih ((PF.closed h e he).2 _ hp hpl)

/-- `st'` extends `st` by the entries `new`, all reachable from `roots`, at depth ≥ `dmin` -/
def Ext (g : Graph) (st st' : Dfs) (roots : List Nat) (dmin : Nat) : Prop :=
  ∃ new : List Entry, st'.done = new ++ st.done ∧ (∀ x ∈ st.seen, x ∈ st'.seen) ∧
    ∀ e ∈ new, (∃ r ∈ roots, Reach g r e.1) ∧ dmin ≤ e.2.1 ∧
      (∀ P, lpOf g e.1 = some P → e.2.2 = true → P ∉ st.seen)

theorem Ext.refl (g : Graph) (st : Dfs) (roots : List Nat) (d : Nat) : Ext g st st roots d :=
  ⟨[], by simp, fun _ h => h, fun e he => by cases he⟩

theorem Ext.trans {g : Graph} {s1 s2 s3 : Dfs} {r1 r2 : List Nat} {d : Nat}
    (h1 : Ext g s1 s2 r1 d) (h2 : Ext g s2 s3 r2 d) : Ext g s1 s3 (r1 ++ r2) d := by
  obtain ⟨n1, hd1, hs1, hp1⟩ := h1
  obtain ⟨n2, hd2, hs2, hp2⟩ := h2
  refine ⟨n2 ++ n1, by rw [hd2, hd1, List.append_assoc], fun x hx => hs2 x (hs1 x hx), ?_⟩
  intro e he
  rcases List.mem_append.mp he with he | he
  · obtain ⟨⟨r, hr, hreach⟩, hdm, hfc⟩ := hp2 e he
    exact ⟨⟨r, List.mem_append_right _ hr, hreach⟩, hdm, fun P hP hf hin => hfc P hP hf (hs1 P hin)⟩
  · obtain ⟨⟨r, hr, hreach⟩, hdm, hfc⟩ := hp1 e he
    exact ⟨⟨r, List.mem_append_left _ hr, hreach⟩, hdm, hfc⟩

theorem Ext.mono_done {g : Graph} {s1 s2 : Dfs} {r : List Nat} {d : Nat} (h : Ext g s1 s2 r d)
    {x : Nat} (hx : x ∈ doneSet s1) : x ∈ doneSet s2 := by
  obtain ⟨n, hd, _, _⟩ := h
  unfold doneSet at *
  rw [hd, List.map_append]
  exact List.mem_append_right _ hx

/-- the statement proved about one `visit` call -/
def VisitOk (g : Graph) (fuel n d : Nat) (st : Dfs) : Prop :=
  ∃ st', visit g fuel n d st = some st' ∧ Inv g st' ∧ Ext g st st' [n] d ∧
    (∃ fc, ∃ rest, st'.done = (n, d, fc) :: rest)

def stepFn (g : Graph) (fuel dd : Nat) : Option Dfs → Nat → Option Dfs :=
  fun acc p => acc.bind fun s => if s.isDone p then some s else visit g fuel p dd s

theorem fold_spec (g : Graph) (fuel dd : Nat)
    (IH : ∀ n st, n < fuel → n < g.length → Inv g st → n ∉ doneSet st → VisitOk g fuel n dd st) :
    ∀ (qs : List Nat) (st : Dfs), (∀ p ∈ qs, p < fuel ∧ p < g.length) → Inv g st →
      ∃ st', qs.foldl (stepFn g fuel dd) (some st) = some st' ∧ Inv g st' ∧ Ext g st st' qs dd ∧
        ∀ p ∈ qs, p ∈ doneSet st' := by
  intro qs
  induction qs with
  | nil =>
    intro st _ hinv
    exact ⟨st, rfl, hinv, Ext.refl g st [] dd, fun p hp => by cases hp⟩
  | cons q qs ih =>
    intro st hq hinv
    have hq0 := hq q (List.mem_cons_self ..)
    have hrest : ∀ p ∈ qs, p < fuel ∧ p < g.length := fun p hp => hq p (List.mem_cons_of_mem _ hp)
    simp only [List.foldl_cons]
    by_cases hd : st.isDone q = true
    · have hstep : stepFn g fuel dd (some st) q = some st := by
        simp [stepFn, hd]
      rw [hstep]
      obtain ⟨st', hf, hi, he, hm⟩ := ih st hrest hinv
      refine ⟨st', hf, hi, ?_, ?_⟩
      · have := Ext.trans (Ext.refl g st [q] dd) he
        simpa using this
      · intro p hp
        rcases List.mem_cons.mp hp with rfl | hp
        · exact Ext.mono_done he ((isDone_iff st _).mp hd)
        · exact hm p hp
    · have hnd : q ∉ doneSet st := fun h => hd ((isDone_iff st q).mpr h)
      obtain ⟨s1, hv, hi1, he1, fc, rest, hhead⟩ := IH q st hq0.1 hq0.2 hinv hnd
      have hstep : stepFn g fuel dd (some st) q = some s1 := by
        simp [stepFn, hd, hv]
      rw [hstep]
      obtain ⟨st', hf, hi, he, hm⟩ := ih s1 hrest hi1
      refine ⟨st', hf, hi, ?_, ?_⟩
      · have := Ext.trans he1 he
        simpa using this
      · intro p hp
        rcases List.mem_cons.mp hp with rfl | hp
        · apply Ext.mono_done he
          unfold doneSet; rw [hhead]; simp
        · exact hm p hp

theorem leftParent_mem {g : Graph} {ps : List Nat} {l : Nat} (h : leftParent g ps = some l) :
    l ∈ ps ∧ l < g.length := by
  unfold leftParent at h
  cases ps with
  | nil => cases h
  | cons p t =>
    simp only at h
    split at h
    · cases h; exact ⟨List.mem_cons_self .., by assumption⟩
    · cases h

/-- every present parent is the left parent or one of the merge parents -/
theorem present_parent_cases {g : Graph} {ps : List Nat} {p : Nat} (hp : p ∈ ps) (hpl : p < g.length) :
    leftParent g ps = some p ∨ p ∈ mergeParents g ps := by
  cases ps with
  | nil => cases hp
  | cons h t =>
    rcases List.mem_cons.mp hp with rfl | hp
    · left; simp [leftParent, hpl]
    · right
      simp [mergeParents, hp, hpl]

theorem mergeParents_mem {g : Graph} {ps : List Nat} {p : Nat} (h : p ∈ mergeParents g ps) :
    p ∈ ps ∧ p < g.length := by
  unfold mergeParents at h
  simp only [List.mem_filter, List.mem_reverse, decide_eq_true_eq] at h
  exact ⟨List.mem_of_mem_drop h.1, h.2⟩

theorem visit_spec (g : Graph) (hw : WF g) : ∀ (fuel n d : Nat) (st : Dfs),
    n < fuel → n < g.length → Inv g st → n ∉ doneSet st → VisitOk g fuel n d st := by
  intro fuel
  induction fuel with
  | zero => intro n d st h; omega
  | succ fuel ih =>
    intro n d st hnf hnl hinv hnd
    have hg : g[n]? = some g[n] := List.getElem?_eq_getElem hnl
    have hpd : parentsD g n = g[n] := parentsD_of_get hg
    have hlt : ∀ p ∈ g[n], p < g.length → p < fuel := by
      intro p hp hpl
      rcases hw n _ hg p hp with h | h <;> omega
    -- the state after the pop, and why it is fine
    have finish : ∀ (st1 s : Dfs) (roots : List Nat) (fc : Bool),
        (∀ x ∈ st.seen, x ∈ st1.seen) → st1.done = st.done →
        (∀ l, lpOf g n = some l → l ∈ st1.seen) →
        (fc = true → ∀ l, lpOf g n = some l → l ∉ st.seen) →
        Inv g s → Ext g st1 s roots d →
        (∀ r ∈ roots, r ∈ g[n] ∧ r < g.length) →
        (∀ p ∈ g[n], p < g.length → p ∈ doneSet s) →
        Inv g { s with done := (n, d, fc) :: s.done } ∧
          Ext g st { s with done := (n, d, fc) :: s.done } [n] d := by
      intro st1 s roots fc hseen hdone hclaim hfc hi hext hroots hall
      obtain ⟨new, hnew, hs2, hp⟩ := hext
      have hnew' : s.done = new ++ st.done := by rw [hnew, hdone]
      have hreach_new : ∀ e ∈ new, Reach g n e.1 := by
        intro e he
        obtain ⟨⟨r, hr, hreach⟩, _, _⟩ := hp e he
        have := hroots r hr
        exact Reach.step hnl (by rw [hpd]; exact this.1) this.2 hreach
      have hn_notin : n ∉ doneSet s := by
        unfold doneSet
        rw [hnew', List.map_append]
        intro hmem
        rcases List.mem_append.mp hmem with hmem | hmem
        · obtain ⟨e, he, hen⟩ := List.mem_map.mp hmem
          obtain ⟨⟨r, hr, hreach⟩, _, _⟩ := hp e he
          have h1 := hroots r hr
          have h2 := Reach.le hw hreach
          have h3 : r < n := by rcases hw n _ hg r h1.1 with h | h <;> omega
          omega
        · exact hnd hmem
      refine ⟨⟨?_, ?_, ?_, ?_⟩, ?_⟩
      · -- nodup
        show (List.map (·.1) ((n, d, fc) :: s.done)).Nodup
        rw [List.map_cons, List.nodup_cons]
        exact ⟨hn_notin, hi.nodup⟩
      · -- parents first
        show PF g ((n, d, fc) :: s.done)
        refine ⟨⟨hnl, ?_⟩, hi.pf⟩
        intro p hp' hpl
        rw [hpd] at hp'
        exact hall p hp' hpl
      · -- claimed
        intro e he P hP
        rcases List.mem_cons.mp he with rfl | he
        · exact hs2 P (hclaim P hP)
        · exact hi.claimed e he P hP
      · -- first-child uniqueness
        intro e1 he1 e2 he2 hf1 hf2 P hP1 hP2
        have key : ∀ e ∈ s.done, e.2.2 = true → lpOf g e.1 = some P → fc = true →
            lpOf g n = some P → False := by
          intro e he hf hP hfcn hPn
          rw [hnew'] at he
          rcases List.mem_append.mp he with he | he
          · obtain ⟨_, _, hflag⟩ := hp e he
            exact hflag P hP hf (hclaim P hPn)
          · exact hfc hfcn P hPn (hinv.claimed e he P hP)
        rcases List.mem_cons.mp he1 with rfl | he1 <;> rcases List.mem_cons.mp he2 with rfl | he2
        · rfl
        · exact (key e2 he2 hf2 hP2 hf1 hP1).elim
        · exact (key e1 he1 hf1 hP1 hf2 hP2).elim
        · exact hi.fcu e1 he1 e2 he2 hf1 hf2 P hP1 hP2
      · -- extension
        refine ⟨(n, d, fc) :: new, by simp [hnew'], fun x hx => hs2 x (hseen x hx), ?_⟩
        intro e he
        rcases List.mem_cons.mp he with rfl | he
        · exact ⟨⟨n, List.mem_cons_self .., Reach.refl hnl⟩, Nat.le_refl _, fun P hP hf => hfc hf P hP⟩
        · obtain ⟨_, hdm, hflag⟩ := hp e he
          exact ⟨⟨n, List.mem_cons_self .., hreach_new e he⟩, hdm,
            fun P hP hf hin => hflag P hP hf (hseen P hin)⟩
    -- now run the definition
    have IHd : ∀ dd, ∀ n st, n < fuel → n < g.length → Inv g st → n ∉ doneSet st → VisitOk g fuel n dd st :=
      fun dd n st h1 h2 h3 h4 => ih n dd st h1 h2 h3 h4
    have hlp : lpOf g n = leftParent g g[n] := by unfold lpOf; rw [hg]
    unfold VisitOk
    unfold visit
    simp only [hg]
    cases hl : leftParent g g[n] with
    | none =>
      simp only []
      have hmp : ∀ p ∈ mergeParents g g[n], p < fuel ∧ p < g.length := by
        intro p hp
        have := mergeParents_mem hp
        exact ⟨hlt p this.1 this.2, this.2⟩
      obtain ⟨s, hf, hi, he, hm⟩ := fold_spec g fuel (d + 1) (IHd (d + 1)) (mergeParents g g[n]) st hmp hinv
      have hf' : (mergeParents g g[n]).foldl
          (fun acc p => acc.bind fun s => if s.isDone p then some s else visit g fuel p (d + 1) s) (some st)
          = some s := hf
      rw [hf']
      have hext : Ext g st s (mergeParents g g[n]) d := by
        obtain ⟨new, h1, h2, h3⟩ := he
        exact ⟨new, h1, h2, fun e he => ⟨(h3 e he).1, by have := (h3 e he).2.1; omega, (h3 e he).2.2⟩⟩
      have hall : ∀ p ∈ g[n], p < g.length → p ∈ doneSet s := by
        intro p hp hpl
        rcases present_parent_cases hp hpl with h | h
        · rw [hl] at h; cases h
        · exact hm p h
      have := finish st s (mergeParents g g[n]) true (fun _ h => h) rfl
        (by intro l h; rw [hlp, hl] at h; cases h)
        (by intro _ l h; rw [hlp, hl] at h; cases h)
        hi hext (fun r hr => mergeParents_mem hr) hall
      exact ⟨_, rfl, this.1, this.2, true, s.done, rfl⟩
    | some l =>
      simp only []
      have hlm := leftParent_mem hl
      have hlf : l < fuel := hlt l hlm.1 hlm.2
      -- state after the push
      let st1 : Dfs := { st with seen := l :: st.seen }
      have hinv1 : Inv g st1 :=
        ⟨hinv.nodup, hinv.pf, fun e he P hP => List.mem_cons_of_mem _ (hinv.claimed e he P hP), hinv.fcu⟩
      -- the left parent
      have hleft : ∃ s2, (if st1.isDone l then some st1 else visit g fuel l d st1) = some s2 ∧ Inv g s2 ∧
          Ext g st1 s2 [l] d ∧ l ∈ doneSet s2 := by
        by_cases hd : st1.isDone l = true
        · exact ⟨st1, by simp [hd], hinv1, Ext.refl g st1 [l] d, (isDone_iff st1 l).mp hd⟩
        · have hnd1 : l ∉ doneSet st1 := fun h => hd ((isDone_iff st1 l).mpr h)
          obtain ⟨s2, hv, hi2, he2, fc2, rest2, hh2⟩ := ih l d st1 hlf hlm.2 hinv1 hnd1
          refine ⟨s2, by simp [hd, hv], hi2, he2, ?_⟩
          unfold doneSet; rw [hh2]; simp
      obtain ⟨s2, hs2, hi2, he2, hl2⟩ := hleft
      have hs2' : (if ({ done := st.done, seen := l :: st.seen } : Dfs).isDone l = true
          then some ({ done := st.done, seen := l :: st.seen } : Dfs)
          else visit g fuel l d { done := st.done, seen := l :: st.seen }) = some s2 := hs2
      rw [hs2']
      have hmp : ∀ p ∈ mergeParents g g[n], p < fuel ∧ p < g.length := by
        intro p hp
        have := mergeParents_mem hp
        exact ⟨hlt p this.1 this.2, this.2⟩
      obtain ⟨s, hf, hi, he, hm⟩ := fold_spec g fuel (d + 1) (IHd (d + 1)) (mergeParents g g[n]) s2 hmp hi2
      have hf' : (mergeParents g g[n]).foldl
          (fun acc p => acc.bind fun s => if s.isDone p then some s else visit g fuel p (d + 1) s) (some s2)
          = some s := hf
      rw [hf']
      have hext : Ext g st1 s ([l] ++ mergeParents g g[n]) d := by
        apply Ext.trans he2
        obtain ⟨new, h1, h2, h3⟩ := he
        exact ⟨new, h1, h2, fun e he => ⟨(h3 e he).1, by have := (h3 e he).2.1; omega, (h3 e he).2.2⟩⟩
      have hall : ∀ p ∈ g[n], p < g.length → p ∈ doneSet s := by
        intro p hp hpl
        rcases present_parent_cases hp hpl with h | h
        · rw [hl] at h; cases h
          exact Ext.mono_done he hl2
        · exact hm p h
      have hroots : ∀ r ∈ [l] ++ mergeParents g g[n], r ∈ g[n] ∧ r < g.length := by
        intro r hr
        rcases List.mem_append.mp hr with hr | hr
        · rw [List.mem_singleton.mp hr]; exact hlm
        · exact mergeParents_mem hr
      have := finish st1 s ([l] ++ mergeParents g g[n]) (!st.seen.contains l)
        (fun x hx => List.mem_cons_of_mem _ hx) rfl
        (by intro l' h; rw [hlp, hl] at h; cases h; exact List.mem_cons_self ..)
        (by
          intro hfc l' h
          rw [hlp, hl] at h; cases h
          intro hin
          have : st.seen.contains l = true := List.contains_iff_mem.mpr hin
          rw [this] at hfc
          cases hfc)
        hi hext hroots hall
      exact ⟨_, rfl, this.1, this.2, _, s.done, rfl⟩

end BreezyVerif.C22
