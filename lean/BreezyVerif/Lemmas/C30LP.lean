import BreezyVerif.Lemmas.C30Generic
/-! the five laws for LengthPrefixedBodyDecoder -/
namespace BreezyVerif.C30
open BreezyVerif.C29

/-- states the code can rest in -/
def lpWf : LP → Prop
  | .expectingLength buf => (10 : UInt8) ∉ buf
  | .readingBody l _ => 0 < l
  | .readingTrailer _ t => ¬ doneMarker.isPrefixOf t = true
  | _ => True

theorem splitLine_append_prefix {a q l r : Bytes} (h : splitLine (a ++ q) = some (l, r))
    (ha : (10 : UInt8) ∉ a) : a.length ≤ l.length ∧ l.length + 1 + r.length = a.length + q.length := by
  obtain ⟨e, hn⟩ := splitLine_some_eq h
  have hlen := congrArg List.length e
  simp at hlen
  refine ⟨?_, by omega⟩
  -- `a` cannot extend beyond the first newline of `a ++ q`
  apply Classical.byContradiction
  intro hlt
  have hlt : l.length < a.length := by omega
  have : (a ++ q)[l.length]? = some 10 := by rw [e]; simp
  rw [List.getElem?_append_left hlt] at this
  exact ha (List.mem_of_getElem? this)

theorem lpWf_trailerStep (bd t : Bytes) : lpWf (LP.trailerStep bd t) := by
  unfold LP.trailerStep
  split
  · trivial
  · rename_i h; exact h

theorem lpWf_bodyStep (l : Nat) (bd x : Bytes) : lpWf (LP.bodyStep l bd x) := by
  unfold LP.bodyStep
  split
  · exact lpWf_trailerStep _ _
  · show 0 < l - x.length; omega

theorem lpWf_lengthStep (b : Bytes) : lpWf (LP.lengthStep b) := by
  unfold LP.lengthStep
  split
  · rename_i h; exact splitLine_none_notMem h
  · split
    · trivial
    · exact lpWf_bodyStep _ _ _

theorem lpWf_feed (s : LP) (x : Bytes) (_h : lpWf s) : lpWf (s.feed x) := by
  cases s with
  | expectingLength buf => exact lpWf_lengthStep _
  | readingBody l bd => exact lpWf_bodyStep _ _ _
  | readingTrailer bd t => exact lpWf_trailerStep _ _
  | done bd u => trivial
  | failed => trivial

theorem trailerStep_fin {bd t : Bytes} (h : (LP.trailerStep bd t).finished = true) :
    doneMarker.isPrefixOf t = true ∧ 5 ≤ t.length ∧
      (LP.trailerStep bd t).unused.length + 5 = t.length := by
  unfold LP.trailerStep at h ⊢
  by_cases hp : doneMarker.isPrefixOf t = true
  · have hl : 5 ≤ t.length := isPrefixOf_length hp
    simp only [hp, if_true, LP.unused, List.length_drop]
    exact ⟨trivial, hl, by omega⟩
  · simp [hp, LP.finished] at h

theorem bodyStep_fin {l : Nat} {bd x : Bytes} (h : (LP.bodyStep l bd x).finished = true) :
    (LP.bodyStep l bd x).unused.length + 5 + l = x.length := by
  unfold LP.bodyStep at h ⊢
  by_cases hl : l ≤ x.length
  · simp only [hl, if_true] at h ⊢
    have := (trailerStep_fin h).2.2
    simp only [List.length_drop] at this
    omega
  · simp [hl, LP.finished] at h

theorem lengthStep_fin {b : Bytes} (h : (LP.lengthStep b).finished = true) :
    ∃ line rest, splitLine b = some (line, rest) ∧
      (LP.lengthStep b).unused.length + 5 ≤ rest.length := by
  unfold LP.lengthStep at h ⊢
  cases hs : splitLine b with
  | none => simp [hs, LP.finished] at h
  | some lr =>
    obtain ⟨line, rest⟩ := lr
    simp only [hs] at h ⊢
    cases hp : parseNat 10 line with
    | none => simp [hp, LP.finished] at h
    | some n =>
      simp only [hp] at h ⊢
      have := bodyStep_fin h
      exact ⟨line, rest, rfl, by omega⟩

theorem lpLaws : Laws lpMachine lpWf where
  append := LP.feed_append
  wf_feed := lpWf_feed
  fin_feed := by
    intro s x h
    cases s <;> simp [lpMachine, LP.finished] at h
    simp [lpMachine, LP.feed, LP.finished, LP.unused]
  fin_stop := by intro s h; exact h
  hint := by
    intro s q hwf hnf hfin
    cases s with
    | expectingLength buf =>
      simp only [lpMachine, LP.feed_eL] at hfin ⊢
      obtain ⟨line, rest, hs, hlen⟩ := lengthStep_fin hfin
      obtain ⟨h1, h2⟩ := splitLine_append_prefix hs hwf
      refine ⟨rfl, by simp [LP.nextReadSize], ?_⟩
      simp only [LP.nextReadSize]
      omega
    | readingBody l bd =>
      simp only [lpMachine, LP.feed_rB] at hfin ⊢
      have := bodyStep_fin hfin
      refine ⟨rfl, by simp only [LP.nextReadSize]; omega, ?_⟩
      simp only [LP.nextReadSize]
      omega
    | readingTrailer bd t =>
      simp only [lpMachine, LP.feed_rT] at hfin ⊢
      obtain ⟨hp, h5, hlen⟩ := trailerStep_fin hfin
      have ht : t.length < 5 := by
        apply Classical.byContradiction
        intro hge
        exact hwf (isPrefixOf_of_append hp (by simp [doneMarker]; omega))
      simp only [List.length_append] at hlen h5
      refine ⟨rfl, by simp only [LP.nextReadSize]; omega, ?_⟩
      simp only [LP.nextReadSize]
      omega
    | done bd u => simp [lpMachine, LP.finished] at hnf
    | failed => simp [lpMachine, LP.feed, LP.finished] at hfin

theorem lpWf_init : lpWf LP.init := by simp [LP.init, lpWf]

end BreezyVerif.C30
