import BreezyVerif.Lemmas.C39Group
/-! C39 helper lemmas: the grouping loop of `get_grouped_opcodes` keeps validity. -/
namespace BreezyVerif.C39

/-- state of the grouping loop: `cur` (reversed) is a chain that starts after a gap of
equal content behind the previous group's end `(pi, pj)` and ends at `(i, j)` -/
def CurOK (a b : List Line) (pi pj : Nat) (cur : List Op) (i j : Nat) : Prop :=
  match cur.reverse with
  | [] => Gap a b pi pj i j
  | o :: g => Gap a b pi pj o.i1 o.j1 ∧ validChain a b o.i1 o.j1 (o :: g) = some (i, j)

theorem curOK_push (a b : List Line) (pi pj : Nat) (cur : List Op) (i j : Nat) (x : Op)
    (h : CurOK a b pi pj cur i j) (h1 : x.i1 = i) (h2 : x.j1 = j) (hv : validOp a b x = true) :
    CurOK a b pi pj (x :: cur) x.i2 x.j2 := by
  unfold CurOK at h ⊢
  rw [List.reverse_cons]
  cases hr : cur.reverse with
  | nil =>
    rw [hr] at h
    subst h1; subst h2
    exact ⟨h, (validChain_cons ..).mpr ⟨rfl, rfl, hv, rfl⟩⟩
  | cons o g =>
    rw [hr] at h
    refine ⟨h.1, ?_⟩
    show validChain a b o.i1 o.j1 ((o :: g) ++ [x]) = _
    rw [validChain_append a b (o :: g) [x] _ _ i j h.2]
    exact (validChain_cons ..).mpr ⟨h1, h2, hv, rfl⟩

/-- a non-empty `cur` closes into a valid group -/
theorem group_of_cur (a b : List Line) (pi pj : Nat) (cur : List Op) (i j : Nat) (rest : List Group)
    (h : CurOK a b pi pj cur i j) (hne : cur ≠ []) (hrest : validGroupsFrom a b i j rest = true) :
    validGroupsFrom a b pi pj (cur.reverse :: rest) = true := by
  unfold CurOK at h
  cases hr : cur.reverse with
  | nil => simp at hr; exact absurd hr hne
  | cons o g =>
    rw [hr] at h
    unfold validGroupsFrom
    simp only [h.2, hrest, Bool.and_true]
    exact h.1.bool

theorem groupLoop_valid (a b : List Line) (n : Nat) (os : List Op) :
    ∀ (cur : List Op) (pi pj i j ei ej : Nat), CurOK a b pi pj cur i j →
      validChain a b i j os = some (ei, ej) → tailEq a b ei ej →
      validGroupsFrom a b pi pj (groupLoop n cur os) = true := by
  induction os with
  | nil =>
    intro cur pi pj i j ei ej hc hv ht
    simp only [validChain, Option.some.injEq, Prod.mk.injEq] at hv
    obtain ⟨rfl, rfl⟩ := hv
    unfold groupLoop
    split
    · rename_i hcond
      simp only [validGroupsFrom, decide_eq_true_eq]
      apply drop_eq_of_tailEq
      rcases hcond with rfl | ⟨hlen, htag⟩
      · exact Gap.tail hc ht
      · match cur, hlen with
        | [o], _ =>
          simp only [List.head?_cons, Option.map_some, Option.some.injEq] at htag
          simp only [CurOK, List.reverse_cons, List.reverse_nil, List.nil_append] at hc
          obtain ⟨_, _, hvo, hend⟩ := (validChain_cons ..).mp hc.2
          simp only [validChain, Option.some.injEq, Prod.mk.injEq] at hend
          obtain ⟨hl, he⟩ := validOp_equal a b o htag hvo
          obtain ⟨b1, b2, _, _⟩ := validOp_bounds a b o hvo
          have g := hc.1.extend (o.i2 - o.i1) he
          rw [show o.i1 + (o.i2 - o.i1) = i by omega, show o.j1 + (o.i2 - o.i1) = j by omega] at g
          exact g.tail ht
    · rename_i hcond
      have hne : cur ≠ [] := fun h => hcond (Or.inl h)
      exact group_of_cur a b pi pj cur i j [] hc hne (by
        simp only [validGroupsFrom, decide_eq_true_eq]; exact drop_eq_of_tailEq a b _ _ ht)
  | cons o os ih =>
    intro cur pi pj i j ei ej hc hv ht
    obtain ⟨h1, h2, hvo, hchain⟩ := (validChain_cons ..).mp hv
    obtain ⟨b1, b2, b3, b4⟩ := validOp_bounds a b o hvo
    unfold groupLoop
    split
    · rename_i hcond
      obtain ⟨htag, hlong⟩ := hcond
      obtain ⟨hl, he⟩ := validOp_equal a b o htag hvo
      -- first part closes the current group
      have hv1 : validOp a b ⟨o.tag, o.i1, min o.i2 (o.i1 + n), o.j1, min o.j2 (o.j1 + n)⟩ = true := by
        rw [htag]
        exact validOp_equal_sub a b o htag hvo _ _ _ _ (by omega) (by omega) (by omega) (by omega) (by omega)
          (by omega) (by omega)
      have hc1 := curOK_push a b pi pj cur i j ⟨o.tag, o.i1, min o.i2 (o.i1 + n), o.j1, min o.j2 (o.j1 + n)⟩
        hc h1 h2 hv1
      -- second part starts the next one
      have hv2 : validOp a b ⟨o.tag, max o.i1 (o.i2 - n), o.i2, max o.j1 (o.j2 - n), o.j2⟩ = true := by
        rw [htag]
        exact validOp_equal_sub a b o htag hvo _ _ _ _ (by omega) (by omega) (by omega) (by omega) (by omega)
          (by omega) (by omega)
      have hgap : Gap a b (min o.i2 (o.i1 + n)) (min o.j2 (o.j1 + n)) (max o.i1 (o.i2 - n)) (max o.j1 (o.j2 - n)) := by
        refine ⟨by omega, by omega, by omega, ?_⟩
        intro k hk
        have := he (min o.i2 (o.i1 + n) - o.i1 + k) (by omega)
        rwa [show o.i1 + (min o.i2 (o.i1 + n) - o.i1 + k) = min o.i2 (o.i1 + n) + k by omega,
          show o.j1 + (min o.i2 (o.i1 + n) - o.i1 + k) = min o.j2 (o.j1 + n) + k by omega] at this
      have hc2 : CurOK a b (min o.i2 (o.i1 + n)) (min o.j2 (o.j1 + n))
          [⟨o.tag, max o.i1 (o.i2 - n), o.i2, max o.j1 (o.j2 - n), o.j2⟩] o.i2 o.j2 := by
        simp only [CurOK, List.reverse_cons, List.reverse_nil, List.nil_append]
        exact ⟨hgap, (validChain_cons ..).mpr ⟨rfl, rfl, hv2, rfl⟩⟩
      have hrest := ih _ _ _ _ _ _ _ hc2 hchain ht
      exact group_of_cur a b pi pj _ _ _ _ hc1 (by simp) hrest
    · exact ih _ _ _ _ _ _ _ (curOK_push a b pi pj cur i j o hc h1 h2 hvo) hchain ht

/-! ### the two trims -/

theorem trimHead_chain (a b : List Line) (n : Nat) (ops : List Op) (i j : Nat) (e : Nat × Nat)
    (h : validChain a b i j ops = some e) :
    ∃ i' j', Gap a b i j i' j' ∧ validChain a b i' j' (trimHead n ops) = some e := by
  cases ops with
  | nil => exact ⟨i, j, Gap.refl a b i j, h⟩
  | cons o os =>
    obtain ⟨h1, h2, hvo, hchain⟩ := (validChain_cons ..).mp h
    obtain ⟨b1, b2, b3, b4⟩ := validOp_bounds a b o hvo
    simp only [trimHead]
    split
    · rename_i htag
      obtain ⟨hl, he⟩ := validOp_equal a b o htag hvo
      refine ⟨max o.i1 (o.i2 - n), max o.j1 (o.j2 - n), ?_, ?_⟩
      · subst h1; subst h2
        refine ⟨by omega, by omega, by omega, ?_⟩
        intro k hk
        exact he k (by omega)
      · refine (validChain_cons ..).mpr ⟨rfl, rfl, ?_, hchain⟩
        rw [htag]
        exact validOp_equal_sub a b o htag hvo _ _ _ _ (by omega) (by omega) (by omega) (by omega) (by omega)
          (by omega) (by omega)
    · exact ⟨i, j, Gap.refl a b i j, h⟩

theorem trimLast_cons_cons (n : Nat) (o o2 : Op) (os : List Op) :
    trimLast n (o :: o2 :: os) = o :: trimLast n (o2 :: os) := by
  simp [trimLast]

theorem trimLast_chain (a b : List Line) (n : Nat) (ops : List Op) (i j ei ej : Nat)
    (h : validChain a b i j ops = some (ei, ej)) (ht : tailEq a b ei ej) :
    ∃ ei' ej', validChain a b i j (trimLast n ops) = some (ei', ej') ∧ tailEq a b ei' ej' := by
  induction ops generalizing i j with
  | nil => exact ⟨ei, ej, h, ht⟩
  | cons o os ih =>
    obtain ⟨h1, h2, hvo, hchain⟩ := (validChain_cons ..).mp h
    obtain ⟨b1, b2, b3, b4⟩ := validOp_bounds a b o hvo
    cases os with
    | nil =>
      simp only [validChain, Option.some.injEq, Prod.mk.injEq] at hchain
      obtain ⟨rfl, rfl⟩ := hchain
      simp only [trimLast]
      split
      · rename_i htag
        obtain ⟨hl, he⟩ := validOp_equal a b o htag hvo
        refine ⟨min o.i2 (o.i1 + n), min o.j2 (o.j1 + n), ?_, ?_⟩
        · refine (validChain_cons ..).mpr ⟨h1, h2, ?_, rfl⟩
          rw [htag]
          exact validOp_equal_sub a b o htag hvo _ _ _ _ (by omega) (by omega) (by omega) (by omega) (by omega)
            (by omega) (by omega)
        · have g : Gap a b (min o.i2 (o.i1 + n)) (min o.j2 (o.j1 + n)) o.i2 o.j2 := by
            refine ⟨by omega, by omega, by omega, ?_⟩
            intro k hk
            have := he (min o.i2 (o.i1 + n) - o.i1 + k) (by omega)
            rwa [show o.i1 + (min o.i2 (o.i1 + n) - o.i1 + k) = min o.i2 (o.i1 + n) + k by omega,
              show o.j1 + (min o.i2 (o.i1 + n) - o.i1 + k) = min o.j2 (o.j1 + n) + k by omega] at this
          exact g.tail ht
      · exact ⟨o.i2, o.j2, h, ht⟩
    | cons o2 os' =>
      obtain ⟨ei', ej', hc', ht'⟩ := ih _ _ hchain
      rw [trimLast_cons_cons]
      exact ⟨ei', ej', (validChain_cons ..).mpr ⟨h1, h2, hvo, hc'⟩, ht'⟩

theorem tailEq_ends (a b : List Line) : tailEq a b a.length b.length := by
  intro k
  rw [List.getElem?_eq_none (by omega), List.getElem?_eq_none (by omega)]

/-- the dummy opcode substituted for an empty opcode list yields no group -/
theorem grouped_nil (n : Nat) : grouped n [] = [] := by
  cases n with
  | zero => decide
  | succ m =>
    simp only [grouped, if_true, trimHead, trimLast, groupLoop]
    have h1 : max 0 (1 - (m + 1)) = 0 := by omega
    have h2 : min 1 (0 + (m + 1)) = 1 := by omega
    simp [h1, h2, groupLoop]

theorem grouped_valid (a b : List Line) (ks : List Block) (n : Nat) (hv : validBlocks a b ks = true) :
    validGroups a b (grouped n (opcodes a.length b.length ks)) = true := by
  have hchain := opcodesFrom_chain a b ks 0 0 hv
  by_cases hnil : opcodes a.length b.length ks = []
  · rw [hnil, grouped_nil]
    unfold opcodes at hnil
    rw [hnil] at hchain
    simp only [validChain, Option.some.injEq, Prod.mk.injEq] at hchain
    have ha : a = [] := List.eq_nil_of_length_eq_zero hchain.1.symm
    have hb : b = [] := List.eq_nil_of_length_eq_zero hchain.2.symm
    subst ha; subst hb
    decide
  · unfold grouped
    simp only [hnil, if_false]
    unfold opcodes at hnil ⊢
    obtain ⟨i', j', g, hc1⟩ := trimHead_chain a b n _ 0 0 _ hchain
    obtain ⟨ei', ej', hc2, ht⟩ := trimLast_chain a b n _ i' j' _ _ hc1 (tailEq_ends a b)
    exact groupLoop_valid a b n _ [] 0 0 i' j' ei' ej' (by simpa [CurOK] using g) hc2 ht

end BreezyVerif.C39
