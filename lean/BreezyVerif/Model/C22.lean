/-
C22 — revision numbers and revision specifiers resolve consistently.

Part 1 (shared with C25): `mergeSort`, the executable *specification* of
`vcsgraph.tsort.merge_sort` / `KnownGraph.merge_sort` (external, compiled):
depth-first, left-most-first numbering of the ancestry of a tip, giving for
every revision (revid, merge depth, dotted revno, end_of_merge), newest first.

Part 2: breezy's own code on top of it (`breezy/branch.py`,
`breezy/bzr/branch.py`, `breezy/revisionspec.py`): the left-hand history,
`get_rev_id`, `revision_id_to_revno`, the revision-id → dotted-revno map and its
inversion, `iter_merge_sorted_revisions` with its start/stop rules, and the
revision specifiers `revno:` (numbers, negative numbers, dotted numbers),
`revid:`, `last:`, `before:`, `tag:`, `ancestor:`, `mainline:` and the
prefix-less DWIM form, with both entry points `in_history` and
`as_revision_id`.

Revisions are natural numbers.  A graph is a list: revision `i` has the parent
list `g[i]`; a parent `p` is *present* iff `p < g.length`, otherwise it is a
ghost.  `wf g` says the numbering is topological (every present parent is
smaller than its child) — every finite DAG has such a numbering, and the
harness numbers revisions in creation order.
-/
namespace BreezyVerif.C22

/-- revisions are natural numbers (`Nat` is written out everywhere so that `omega` sees through) -/
abbrev Rev := Nat
abbrev Graph := List (List Nat)

/-- topological numbering: a present parent is smaller than its child -/
def wf (g : Graph) : Bool :=
  (List.range g.length).all fun i =>
    match g[i]? with
    | some ps => ps.all fun p => decide (p < i) || decide (g.length ≤ p)
    | none => true

/-! ## merge_sort -/

structure MS where
  rev : Nat
  depth : Nat
  revno : List Nat
  eom : Bool
  deriving DecidableEq, Repr

/-- the left-hand parent, unless it is a ghost ("consider it not to exist") -/
def leftParent (g : Graph) (ps : List Nat) : Option Nat :=
  match ps with
  | [] => none
  | p :: _ => if p < g.length then some p else none

/-- the other parents, in the order they are scheduled (right to left), ghosts skipped -/
def mergeParents (g : Graph) (ps : List Nat) : List Nat :=
  (ps.drop 1).reverse.filter fun p => decide (p < g.length)

/-- state of the depth-first walk: `done` = popped nodes (most recent first)
with merge depth and the first-child flag fixed when the node was pushed;
`seen` = left-hand parents already claimed by a child -/
structure Dfs where
  done : List (Nat × Nat × Bool)
  seen : List Nat
  deriving Repr

def Dfs.isDone (s : Dfs) (r : Nat) : Bool := s.done.any fun e => e.1 == r

/-- visit one node: push (fix the first-child flag, claim the left parent),
recurse into the left parent at the same depth, then into the other parents
right-to-left one level deeper, skipping whatever is already completed, pop.
`none` = out of fuel (only on graphs that are not `wf`). -/
def visit (g : Graph) : Nat → Nat → Nat → Dfs → Option Dfs
  | 0, _, _, _ => none
  | fuel + 1, n, d, st =>
    match g[n]? with
    | none => none
    | some ps =>
      let lp := leftParent g ps
      let fc := match lp with
        | some l => !st.seen.contains l
        | none => true
      let st1 : Dfs := match lp with
        | some l => { st with seen := l :: st.seen }
        | none => st
      let st2 : Option Dfs := match lp with
        | some l => if st1.isDone l then some st1 else visit g fuel l d st1
        | none => some st1
      let st3 := (mergeParents g ps).foldl
        (fun acc p => acc.bind fun s => if s.isDone p then some s else visit g fuel p (d + 1) s) st2
      st3.map fun s => { s with done := (n, d, fc) :: s.done }

def lookup {α : Type} (l : List (Nat × α)) (k : Nat) : Option α :=
  (l.find? fun e => e.1 == k).map (·.2)

/-- numbering state: revnos given so far, and `_revno_to_branch_count` -/
structure Num where
  revnos : List (Nat × List Nat)
  counts : List (Nat × Nat)
  deriving Repr

/-- the revno given to a node when it is popped -/
def numberOne (g : Graph) (st : Num) (n : Nat) (fc : Bool) : Option (Num × List Nat) :=
  match g[n]? with
  | none => none
  | some ps =>
    match leftParent g ps with
    | some l =>
      match lookup st.revnos l with
      | none => none
      | some pr =>
        if fc then
          -- first child: increase the last number
          match pr.getLast? with
          | none => none
          | some k => some (st, pr.dropLast ++ [k + 1])
        else
          -- a new branch off the parent's line: (base, branch count, 1)
          match pr.head? with
          | none => none
          | some base =>
            let c := (lookup st.counts base).getD 0 + 1
            some ({ st with counts := (base, c) :: st.counts }, [base, c, 1])
    | none =>
      -- no (present) left parent: the root sequence (1,), (0,1,1), (0,2,1), …
      match lookup st.counts 0 with
      | none => some ({ st with counts := (0, 0) :: st.counts }, [1])
      | some rc => some ({ st with counts := (0, rc + 1) :: st.counts }, [0, rc + 1, 1])

/-- number the popped nodes in the order they were popped (oldest first);
result: (rev, depth, revno), oldest first -/
def numberAll (g : Graph) : Num → List (Nat × Nat × Bool) → Option (List (Nat × Nat × List Nat))
  | _, [] => some []
  | st, (n, d, fc) :: rest =>
    match numberOne g st n fc with
    | none => none
    | some (st', r) =>
      match numberAll g { st' with revnos := (n, r) :: st'.revnos } rest with
      | none => none
      | some out => some ((n, d, r) :: out)

def parentsD (g : Graph) (n : Nat) : List Nat :=
  match g[n]? with
  | some ps => ps
  | none => []

/-- end_of_merge: the next node (earlier in history) is to our left, or is at
the same depth without being one of our parents (multi-merge), or there is none -/
def eomFlags (g : Graph) : List (Nat × Nat × List Nat) → List MS
  | [] => []
  | [(n, d, r)] => [⟨n, d, r, true⟩]
  | (n, d, r) :: (n', d', r') :: rest =>
    ⟨n, d, r, decide (d' < d) || (d' == d && !((parentsD g n).contains n'))⟩
      :: eomFlags g ((n', d', r') :: rest)

/-- the popped nodes of the walk from `tip`, oldest first -/
def dfsOrder (g : Graph) (tip : Nat) : Option (List (Nat × Nat × Bool)) :=
  (visit g (tip + 1) tip 0 ⟨[], []⟩).map fun s => s.done.reverse

/-- (rev, depth, revno), newest first -/
def mergeSortCore (g : Graph) (tip : Nat) : Option (List (Nat × Nat × List Nat)) :=
  match dfsOrder g tip with
  | none => none
  | some order => (numberAll g ⟨[], []⟩ order).map List.reverse

/-- `KnownGraph.merge_sort(tip)`: newest first -/
def mergeSort (g : Graph) (tip : Nat) : Option (List MS) :=
  (mergeSortCore g tip).map (eomFlags g)

/-! ## graph helpers (specifications of the vcsgraph calls breezy makes) -/

/-- `a` is `d` or an ancestor of `d` (ghost parents count as ancestors) -/
def isAnc (g : Graph) : Nat → Nat → Nat → Bool
  | 0, a, d => a == d
  | fuel + 1, a, d =>
    a == d || (match g[d]? with
      | some ps => ps.any fun p => isAnc g fuel a p
      | none => false)

def isAncestor (g : Graph) (a d : Nat) : Bool := isAnc g (d + 1) a d

/-- `iter_lefthand_ancestry(r)` restricted to present revisions, newest first -/
def lefthand (g : Graph) : Nat → Nat → List Nat
  | 0, _ => []
  | fuel + 1, r =>
    match g[r]? with
    | none => []
    | some ps => r :: (match leftParent g ps with
        | some l => lefthand g fuel l
        | none => [])

/-! ## the branch -/

inductive RevId where
  | null
  | rev (n : Nat)
  | other (name : String)
  deriving DecidableEq, Repr

structure Branch where
  g : Graph
  tip : Option Nat
  tags : List (String × RevId) := []
  /-- other branches by location: their tips (in the same revision universe) -/
  others : List (String × Option Nat) := []

inductive Err where
  | noSuchRevision | revnoOutOfBounds | invalidRevisionSpec | noSuchTag | noCommits
  | noCommonAncestor | unsupported | internal
  deriving DecidableEq, Repr

def Err.toString : Err → String
  | .noSuchRevision => "E:NoSuchRevision" | .revnoOutOfBounds => "E:RevnoOutOfBounds"
  | .invalidRevisionSpec => "E:InvalidRevisionSpec" | .noSuchTag => "E:NoSuchTag"
  | .noCommits => "E:NoCommits" | .noCommonAncestor => "E:NoCommonAncestor"
  | .unsupported => "E:Unsupported" | .internal => "E:Internal"

/-- the left-hand history, newest first (`_partial_revision_history_cache` fully extended) -/
def Branch.history (b : Branch) : List Nat :=
  match b.tip with
  | none => []
  | some t => lefthand b.g (t + 1) t

def Branch.lastRevno (b : Branch) : Nat := b.history.length

def Branch.lastRevision (b : Branch) : RevId :=
  match b.tip with
  | none => .null
  | some t => .rev t

def Branch.hasRevision (b : Branch) : RevId → Bool
  | .null => true
  | .rev n => n < b.g.length
  | .other _ => false

/-- `BzrBranch.get_rev_id(revno)` -/
def Branch.getRevId (b : Branch) (revno : Int) : Except Err RevId :=
  if revno = 0 then .ok .null
  else if revno ≤ 0 ∨ revno > b.lastRevno then .error .revnoOutOfBounds
  else
    match b.history[(b.lastRevno - revno).toNat]? with
    | some r => .ok (.rev r)
    | none => .error .noSuchRevision

/-- `BzrBranch.revision_id_to_revno(revision_id)` -/
def Branch.revisionIdToRevno (b : Branch) : RevId → Except Err Int
  | .null => .ok 0
  | .rev n =>
    match b.history.idxOf? n with
    | some i => .ok ((b.lastRevno : Int) - i)
    | none => .error .noSuchRevision
  | .other _ => .error .noSuchRevision

/-- `_merge_sorted_revisions_cache` -/
def Branch.mergeSorted (b : Branch) : Except Err (List MS) :=
  match b.tip with
  | none => .ok []
  | some t =>
    match mergeSort b.g t with
    | some ms => .ok ms
    | none => .error .internal

/-- `_filter_merge_sorted_revisions`: skip to the start revision … -/
def skipToStart (ms : List MS) : Option Nat → List MS
  | none => ms
  | some s => ms.dropWhile fun e => e.rev != s

def revIdIs (id : RevId) (r : Nat) : Bool := id == .rev r

inductive StopRule where
  | exclude | include | withMerges | withMergesNoCommon
  deriving DecidableEq, Repr

/-- the `with-merges` loop: state = (reached stop, whitelist) -/
def withMergesLoop (g : Graph) (stop leftParent : RevId) : Bool → List Nat → List MS → List MS
  | _, _, [] => []
  | reached, wl, e :: rest =>
    if revIdIs leftParent e.rev then []
    else if !reached || wl.contains e.rev then
      if reached || revIdIs stop e.rev then
        let ps := parentsD g e.rev
        if ps.isEmpty then e :: withMergesLoop g stop leftParent reached wl rest
        else e :: withMergesLoop g stop leftParent true (wl ++ ps) rest
      else e :: withMergesLoop g stop leftParent reached wl rest
    else withMergesLoop g stop leftParent reached wl rest

/-- take up to and including the first element satisfying `p` -/
def takeThrough {α : Type} (p : α → Bool) : List α → List α
  | [] => []
  | a :: l => if p a then [a] else a :: takeThrough p l

/-- … then apply the stop rule -/
def applyStop (b : Branch) (start : Option RevId) (l : List MS) :
    Option RevId → StopRule → Except Err (List MS)
  | none, _ => .ok l
  | some stop, .exclude => .ok (l.takeWhile fun e => !revIdIs stop e.rev)
  | some stop, .include => .ok (takeThrough (fun e => revIdIs stop e.rev) l)
  | some stop, .withMergesNoCommon =>
    -- graph.find_unique_ancestors(start, [stop]): ancestors of start that are
    -- not ancestors of stop
    match start with
    | some (.rev s) =>
      .ok (l.filter fun e => isAncestor b.g e.rev s &&
        !(match stop with
          | .rev t => isAncestor b.g e.rev t
          | _ => false))
    | _ => .error .unsupported
  | some stop, .withMerges =>
    -- repository.get_revision(stop_revision_id)
    match stop with
    | .rev t =>
      match b.g[t]? with
      | none => .error .noSuchRevision
      | some ps =>
        let left : RevId := match ps with
          | [] => .null
          | p :: _ => .rev p
        .ok (withMergesLoop b.g stop left false [] l)
    | .null => .error .unsupported
    | .other _ => .error .noSuchRevision

/-- `_filter_start_non_ancestors`: the loop after the first element -/
def nonAncLoop (g : Graph) : Bool → List Nat → List MS → List MS
  | _, _, [] => []
  | clean, wl, e :: rest =>
    if clean then e :: nonAncLoop g true wl rest
    else if wl.contains e.rev then
      e :: nonAncLoop g (e.depth == 0) ((wl.erase e.rev) ++ parentsD g e.rev) rest
    else nonAncLoop g false wl rest

def filterStartNonAncestors (g : Graph) : List MS → List MS
  | [] => []
  | e :: rest =>
    if e.depth == 0 then e :: rest
    else
      let ps := parentsD g e.rev
      if ps.isEmpty then [e] else e :: nonAncLoop g false ps rest

def idOfRev? : RevId → Option (Option Nat)
  | .rev n => some (some n)
  | _ => none

/-- `Branch.iter_merge_sorted_revisions(start, stop, stop_rule, direction)`;
a start/stop id that is not a revision number never matches any node -/
def Branch.iterMergeSorted (b : Branch) (start stop : Option RevId) (rule : StopRule)
    (forward : Bool) : Except Err (List MS) := do
  let ms ← b.mergeSorted
  let l := match start with
    | none => ms
    | some (.rev s) => skipToStart ms (some s)
    | some _ => []
  let l ← applyStop b start l stop rule
  let l := filterStartNonAncestors b.g l
  pure (if forward then l.reverse else l)

/-- `get_revision_id_to_revno_map()` as an association list (newest first) -/
def Branch.revnoMap (b : Branch) : Except Err (List (Nat × List Nat)) := do
  let ms ← b.mergeSorted
  pure (ms.map fun e => (e.rev, e.revno))

/-- `if len(revision_ids) == 1: return revision_ids[0]` else NoSuchRevision -/
def pickOne : List (Nat × List Nat) → Except Err RevId
  | [e] => .ok (.rev e.1)
  | _ => .error .noSuchRevision

/-- `_do_dotted_revno_to_revision_id` -/
def Branch.dottedToRevId (b : Branch) (revno : List Int) : Except Err RevId :=
  match revno with
  | [n] => b.getRevId n
  | _ => do
    let m ← b.revnoMap
    pickOne (m.filter (fun e => e.2.map Int.ofNat == revno))

/-- `_do_revision_id_to_dotted_revno` (caches empty) -/
def Branch.revIdToDotted (b : Branch) (id : RevId) : Except Err (List Int) :=
  match b.revisionIdToRevno id with
  | .ok n => .ok [n]
  | .error _ =>
    match id with
    | .rev r => do
      let m ← b.revnoMap
      match lookup m r with
      | some d => pure (d.map Int.ofNat)
      | none => .error .noSuchRevision
    | _ => match b.revnoMap with
      | .ok _ => .error .noSuchRevision
      | .error e => .error e

/-! ## graph queries used by `mainline:` and `ancestor:` -/

/-- `Graph.find_lefthand_merger(merged, tip)`: walk the left-hand ancestry of
the tip while the candidates descend from `merged`; the last such candidate -/
def findLefthandMerger (b : Branch) (merged : RevId) : Option RevId :=
  match merged with
  | .null => some .null
  | .rev m => ((b.history.takeWhile fun c => isAncestor b.g m c).getLast?).map RevId.rev
  | .other _ => none

/-- all nodes of the graph: the present revisions and the ghosts referenced as parents -/
def allRevs (g : Graph) : List Nat :=
  List.range g.length ++ (g.flatten.filter fun p => decide (g.length ≤ p)).eraseDups

/-- common ancestors of all of `rs` (ghosts are nodes too) -/
def commonAncestors (g : Graph) (rs : List Nat) : List Nat :=
  (allRevs g).filter fun a => rs.all fun r => isAncestor g a r

/-- the heads of a set: members that are not a proper ancestor of another member -/
def headsOf (g : Graph) (s : List Nat) : List Nat :=
  s.filter fun a => !(s.any fun c => c != a && isAncestor g a c)

/-- `Graph.find_unique_lca`: iterate `find_lca` until one is left; `none` = NULL_REVISION -/
def findUniqueLca (g : Graph) : Nat → List Nat → Option Nat
  | 0, _ => none
  | fuel + 1, rs =>
    match headsOf g (commonAncestors g rs) with
    | [] => none
    | [x] => some x
    | lca => findUniqueLca g fuel lca

/-! ## specifier strings -/

def isWs (c : Char) : Bool := c == ' ' || c == '\t' || c == '\n' || c == '\r' || c.toNat == 11 || c.toNat == 12

def isDig (c : Char) : Bool := '0' ≤ c && c ≤ '9'

/-- digits with single underscores between them, as Python's `int()` accepts -/
def pyDigits : List Char → Option Nat → Bool → Option Nat
  | [], acc, lastUnderscore => if lastUnderscore then none else acc
  | c :: cs, acc, lastUnderscore =>
    if isDig c then pyDigits cs (some (acc.getD 0 * 10 + (c.toNat - 48))) false
    else if c == '_' then
      (if acc.isNone || lastUnderscore then none else pyDigits cs acc true)
    else none

def stripWs (l : List Char) : List Char :=
  ((l.dropWhile isWs).reverse.dropWhile isWs).reverse

/-- Python `int(s)` for ASCII input: surrounding whitespace, one optional sign,
digits with single inner underscores -/
def pyInt (s : List Char) : Option Int :=
  match stripWs s with
  | '-' :: ds => (pyDigits ds none false).map fun n => -(n : Int)
  | '+' :: ds => (pyDigits ds none false).map fun n => (n : Int)
  | ds => (pyDigits ds none false).map fun n => (n : Int)

/-- split on a character (Python `str.split(c)`) -/
def splitOnChar (c : Char) : List Char → List (List Char)
  | [] => [[]]
  | x :: xs =>
    match splitOnChar c xs with
    | [] => [[]]
    | h :: t => if x == c then [] :: h :: t else (x :: h) :: t

def stripPrefix? (p : List Char) (s : List Char) : Option (List Char) :=
  if p.isPrefixOf s then some (s.drop p.length) else none

/-- `^(?:(\d+(\.\d+)*)|-\d+)(:.*)?$` (ASCII digits, no newline in the input) -/
def revnoRegex (s : List Char) : Bool :=
  let body := s.takeWhile (· != ':')
  match body with
  | '-' :: ds => !ds.isEmpty && ds.all isDig
  | _ => (splitOnChar '.' body).all fun part => !part.isEmpty && part.all isDig

/-- does `_date_regex` find a date or a time at the start of the string -/
def looksLikeDate (s : List Char) : Bool :=
  let pat (p : List Char) (t : List Char) : Bool :=
    p.length ≤ t.length && (p.zip t).all fun (a, b) => if a == 'd' then isDig b else a == b
  let dateP := "dddd-dd-dd".toList
  let timeP := "dd:dd".toList
  if pat dateP s then true
  else
    let r := match s with
      | ',' :: r => r
      | 'T' :: r => r
      | r => r
    pat timeP (r.dropWhile isWs)

def lower (s : List Char) : List Char := s.map Char.toLower

/-- revision ids of the test universe: `null:`, `r<decimal>` (canonical), anything else -/
def parseRevId (s : List Char) : RevId :=
  if s == "null:".toList then .null
  else match s with
    | 'r' :: ds =>
      if !ds.isEmpty && ds.all isDig && (ds.length == 1 || ds.head? != some '0') then
        .rev (ds.foldl (fun a c => a * 10 + (c.toNat - 48)) 0)
      else .other (String.ofList s)
    | _ => .other (String.ofList s)

/-- the result of `in_history`: `RevisionInfo.revno` (lazily computed by the
real code, `None` off the mainline) and `rev_id` -/
structure Info where
  revno : Option Int
  revId : RevId
  deriving DecidableEq, Repr

/-- `RevisionInfo.revno` when only the id is known -/
def Branch.lazyRevno (b : Branch) (id : RevId) : Option Int :=
  match b.revisionIdToRevno id with
  | .ok n => some n
  | .error _ => none

def Branch.infoOfId (b : Branch) (id : RevId) : Info := ⟨b.lazyRevno id, id⟩

/-- `_match_on_and_check` -/
def Branch.check (b : Branch) (i : Info) : Except Err Info :=
  if b.hasRevision i.revId then .ok i else .error .invalidRevisionSpec

/-- `RevisionSpec_revno._lookup` → (revno, revision id) -/
def Branch.revnoLookup (b : Branch) (spec : List Char) : Except Err (Option Int × RevId) :=
  let revnoSpec := spec.takeWhile (· != ':')
  let hasColon := spec.contains ':'
  let branchSpec := (spec.dropWhile (· != ':')).drop 1
  if revnoSpec.isEmpty then
    (if branchSpec.isEmpty then .error .invalidRevisionSpec else .error .unsupported)
  else if hasColon && !branchSpec.isEmpty then .error .unsupported
  else
    match pyInt revnoSpec with
    | some n =>
      let last : Int := b.lastRevno
      let revno := if n < 0 then (if -n ≥ last then 1 else last + n + 1) else n
      match b.getRevId revno with
      | .ok id => .ok (some revno, id)
      | .error .internal => .error .internal
      | .error _ => .error .invalidRevisionSpec
    | none =>
      match (splitOnChar '.' revnoSpec).mapM pyInt with
      | none => .error .invalidRevisionSpec
      | some dotted =>
        match b.dottedToRevId dotted with
        | .ok id => .ok (none, id)
        | .error .internal => .error .internal
        | .error _ => .error .invalidRevisionSpec

/-- `RevisionSpec_last._revno_and_revision_id` -/
def Branch.lastLookup (b : Branch) (spec : List Char) : Except Err (Int × RevId) :=
  if spec.isEmpty then
    (if b.lastRevno == 0 then .error .noCommits else .ok (b.lastRevno, b.lastRevision))
  else
    match pyInt spec with
    | none => .error .invalidRevisionSpec
    | some offset =>
      if offset ≤ 0 then .error .invalidRevisionSpec
      else
        let revno : Int := b.lastRevno - offset + 1
        match b.getRevId revno with
        | .ok id => .ok (revno, id)
        | .error _ => .error .invalidRevisionSpec

def Branch.lookupTag (b : Branch) (name : List Char) : Except Err RevId :=
  match b.tags.find? fun e => e.1.toList == name with
  | some e => .ok e.2
  | none => .error .noSuchTag

/-- `RevisionSpec_ancestor._find_revision_id` -/
def Branch.ancestorLookup (b : Branch) (loc : List Char) : Except Err RevId :=
  match b.tip with
  | none => .error .noCommits
  | some a =>
    if loc.isEmpty then .error .unsupported
    else match b.others.find? fun e => e.1.toList == loc with
      | none => .error .unsupported
      | some (_, none) => .error .noCommits
      | some (_, some o) =>
        match findUniqueLca b.g (b.g.length + 1) [a, o] with
        | some r => .ok (.rev r)
        | none => .error .noCommonAncestor

inductive Kind where
  | revno | revid | last | before | tag | ancestor | mainline | unsupportedPrefix | dwim
  deriving DecidableEq, Repr

def pRevno : List Char := ['r', 'e', 'v', 'n', 'o', ':']
def pRevid : List Char := ['r', 'e', 'v', 'i', 'd', ':']
def pLast : List Char := ['l', 'a', 's', 't', ':']
def pBefore : List Char := ['b', 'e', 'f', 'o', 'r', 'e', ':']
def pTag : List Char := ['t', 'a', 'g', ':']
def pAncestor : List Char := ['a', 'n', 'c', 'e', 's', 't', 'o', 'r', ':']
def pMainline : List Char := ['m', 'a', 'i', 'n', 'l', 'i', 'n', 'e', ':']

def prefixes : List (List Char × Kind) :=
  [(pRevno, .revno), (pRevid, .revid), (pLast, .last), (pBefore, .before), (pTag, .tag),
   (pAncestor, .ancestor), (pMainline, .mainline), ("date:".toList, .unsupportedPrefix),
   ("branch:".toList, .unsupportedPrefix), ("submit:".toList, .unsupportedPrefix),
   ("annotate:".toList, .unsupportedPrefix), ("git:".toList, .unsupportedPrefix),
   ("svn:".toList, .unsupportedPrefix)]

/-- `RevisionSpec.from_string`: the registered prefix the string starts with,
and the rest -/
def classify (s : List Char) : Kind × List Char :=
  match prefixes.findSome? fun (p, k) => (stripPrefix? p s).map fun r => (k, r) with
  | some r => r
  | none => (.dwim, s)

/-- does the specifier (outermost level) carry a branch location (`get_branch()`) -/
def specGetBranch (s : List Char) : Bool :=
  match classify s with
  | (.revno, r) => r.contains ':'
  | (.unsupportedPrefix, _) => true
  | _ => false

mutual
/-- `RevisionSpec.from_string(s)._match_on(branch, revs)` (no existence check) -/
def matchOn (b : Branch) : Nat → List Char → Except Err Info
  | 0, _ => .error .internal
  | fuel + 1, s =>
    match classify s with
    | (.revno, r) => do
      let (revno, id) ← b.revnoLookup r
      -- RevisionInfo(branch, revno, revision_id): revno None is computed lazily
      pure (match revno with
        | some n => ⟨some n, id⟩
        | none => b.infoOfId id)
    | (.revid, r) => pure (b.infoOfId (parseRevId r))
    | (.last, r) => do
      let (revno, id) ← b.lastLookup r
      pure ⟨some revno, id⟩
    | (.tag, r) => do
      let id ← b.lookupTag r
      pure (b.infoOfId id)
    | (.ancestor, r) => do
      let id ← b.ancestorLookup r
      pure (b.infoOfId id)
    | (.mainline, _) => do
      let id ← asRevId b fuel s
      pure (b.infoOfId id)
    | (.before, r) => do
      let inner ← matchOn b fuel r
      if inner.revno == some 0 then .error .invalidRevisionSpec
      else match inner.revno with
        | none =>
          -- branch.repository.get_revision(r.rev_id).parent_ids
          match inner.revId with
          | .rev n =>
            match b.g[n]? with
            | none => .error .noSuchRevision
            | some [] => pure (b.infoOfId .null)
            | some (p :: _) => pure (b.infoOfId (.rev p))
          | .null => .error .internal
          -- the empty revision id is rejected earlier (InvalidRevisionId): out of scope
          | .other nm => if nm.isEmpty then .error .unsupported else .error .noSuchRevision
        | some n =>
          match b.getRevId (n - 1) with
          | .ok id => pure ⟨some (n - 1), id⟩
          | .error _ => .error .invalidRevisionSpec
    | (.unsupportedPrefix, _) => .error .unsupported
    | (.dwim, _) =>
      -- RevisionSpec_dwim._match_on: revno, then tag, revid, date, branch
      let tryRevno : Option (Except Err Info) :=
        if revnoRegex s then
          match inHist b fuel (pRevno ++ s) with
          | .error .invalidRevisionSpec => none
          | r => some r
        else none
      match tryRevno with
      | some r => r
      | none =>
        match inHist b fuel (pTag ++ s) with
        | .error .noSuchTag =>
          (match inHist b fuel (pRevid ++ s) with
            | .error .invalidRevisionSpec =>
              if looksLikeDate s || ["yesterday", "today", "tomorrow"].contains (String.ofList (lower s))
              then .error .unsupported
              -- `branch:` is tried last: anything that may be read as a URL or a
              -- location alias is out of scope; a plain relative path is not a branch
              else if s.contains ':' then .error .unsupported
              else .error .invalidRevisionSpec     -- date: invalid, branch: NotBranchError
            | r => r)
        | r => r

/-- `RevisionSpec.from_string(s).in_history(branch)` -/
def inHist (b : Branch) : Nat → List Char → Except Err Info
  | 0, _ => .error .internal
  | fuel + 1, s =>
    match classify s with
    | (.dwim, _) => matchOn b fuel s     -- dwim results were checked by the tried spec types
    | _ => do
      let i ← matchOn b fuel s
      b.check i

/-- `RevisionSpec.from_string(s).as_revision_id(branch)` -/
def asRevId (b : Branch) : Nat → List Char → Except Err RevId
  | 0, _ => .error .internal
  | fuel + 1, s =>
    match classify s with
    | (.revno, r) => do
      let (_, id) ← b.revnoLookup r
      pure id
    | (.revid, r) => pure (parseRevId r)
    | (.last, r) => do
      let (_, id) ← b.lastLookup r
      pure id
    | (.tag, r) => b.lookupTag r
    | (.ancestor, r) => b.ancestorLookup r
    | (.before, r) => do
      let base ← asRevId b fuel r
      match base with
      | .null => .error .invalidRevisionSpec
      | .other _ => .error .invalidRevisionSpec
      | .rev n =>
        match b.g[n]? with
        | none => .error .invalidRevisionSpec         -- ghost or unknown
        | some [] => pure .null                       -- get_parent_map gives (NULL_REVISION,)
        | some (p :: _) => pure (.rev p)
    | (.mainline, r) =>
      if specGetBranch r then .error .unsupported
      else do
        let id ← asRevId b fuel r
        match findLefthandMerger b id with
        | some m => pure m
        | none => .error .invalidRevisionSpec
    | (.unsupportedPrefix, _) => .error .unsupported
    | (.dwim, _) => do
      let i ← inHist b fuel s
      pure i.revId
end

def fuelFor (s : List Char) : Nat := 3 * s.length + 8

def Branch.inHistory (b : Branch) (s : String) : Except Err Info := inHist b (fuelFor s.toList) s.toList
def Branch.asRevisionId (b : Branch) (s : String) : Except Err RevId := asRevId b (fuelFor s.toList) s.toList

end BreezyVerif.C22
