import BreezyVerif.Model.C43
import BreezyVerif.Lemmas.C43C
import BreezyVerif.Lemmas.C43H
import BreezyVerif.Lemmas.C43I
/-!
C43 — theorems.
-/
namespace BreezyVerif.C43

/-- **Sequential = simultaneous.**  Any number of moves with distinct
sources, distinct targets and no name on both sides, applied one after the
other to any store, give the simultaneous reading (every target holds what
its source held, every source is gone, everything else is untouched). -/
theorem moves_sequential_eq_simultaneous {V : Type} (ms : List (String × String)) (h : Independent ms)
    (G : String → Option V) (x : String) : moveAll G ms x = movesSpec G ms x :=
  moveAll_eq_spec ms h G x

example : Independent [("a", ".tmp.0"), ("b", ".tmp.1")] := by
  refine ⟨by decide, by decide, by decide⟩

/-- **Independent top-level renames execute.**  In the remote model, a list of
top-level renames with existing sources and free targets never fails and
produces the simultaneous reading — for directories of any size and content
(whole sub-trees move with their name). -/
theorem rename_exec_independent (ms : List (String × String)) (h : Independent ms) (kids : Kids)
    (hsrc : ∀ m ∈ ms, kget kids m.1 ≠ none) (hdst : ∀ m ∈ ms, kget kids m.2 = none) :
    ∃ kids', seqRename (.dir kids) ms = (.dir kids', none) ∧
      ∀ x, kget kids' x = movesSpec (kget kids) ms x :=
  seqRename_spec ms h kids hsrc hdst

/-- the order in which the renames are staged -/
def stagingOrder (c : Cfg) (rs : List (String × String)) : List (String × String) :=
  match c.renames with
  | .asFound => rs
  | .childrenFirst => rs.reverse

/-- **The staged rename plan reaches the tree** (part): for BOTH rename
disciplines (as found: delta order; children first: reverse delta order,
finished in the order of the new paths — what the code does since the fix),
every remote directory `kids` (entries of any kind, directories with arbitrary
content) and every set `rs` of renames `(old name, new name)` of top-level
entries — swaps, cycles and chains included: a new name may be the old name of
another rename — the incremental upload of a delta consisting of these renames
succeeds, every new name holds exactly what its old name held, every old name
that is not also a new name is gone, and every other entry is untouched.

Hypotheses (all decidable on concrete data): the temporary names are distinct
from each other and from all old/new names (`Independent` of the two rounds),
absent from the remote; the old names exist; a new name is free or vacated.

Partial: renames of entries below the top level, and deltas that mix renames
with other changes, are covered by the correspondence check only (the nested
shapes by `children_first_fixes_witnesses`). -/
theorem reach_core (c : Cfg) (t : Tree) (kids : Kids) (rs rs' : List (String × String)) (L : List (Nat × Path))
    (hmem : ∀ r, r ∈ rs' ↔ r ∈ rs) (hLperm : L.Perm (pendOf rs' 0))
    (hup : ∀ kS, seqRename (.dir kids) (stageMoves rs' 0) = (.dir kS, none) →
      uploadInc c [] t { renamed := toRenamed rs } (.dir kids) = finishRen (.dir kS) L)
    (hst : Independent (stageMoves rs' 0)) (hfi : Independent (finishMoves rs' 0))
    (hsrc : ∀ r ∈ rs, kget kids r.1 ≠ none)
    (hstamp : ∀ m ∈ stageMoves rs' 0, kget kids m.2 = none)
    (hnew : ∀ r ∈ rs, kget kids r.2 = none ∨ r.2 ∈ rs.map (·.1)) :
    ∃ kids', uploadInc c [] t { renamed := toRenamed rs } (.dir kids) = (.dir kids', none)
      ∧ (∀ r ∈ rs, kget kids' r.2 = kget kids r.1)
      ∧ (∀ x, x ∉ rs.map (·.2) → kget kids' x = if x ∈ rs.map (·.1) then none else kget kids x) := by
  have hmem1 : ∀ x, x ∈ rs'.map (·.1) ↔ x ∈ rs.map (·.1) := by
    intro x; simp only [List.mem_map]; constructor <;> (rintro ⟨r, hr, he⟩; exact ⟨r, by first | exact (hmem r).mp hr | exact (hmem r).mpr hr, he⟩)
  have hmem2 : ∀ x, x ∈ rs'.map (·.2) ↔ x ∈ rs.map (·.2) := by
    intro x; simp only [List.mem_map]; constructor <;> (rintro ⟨r, hr, he⟩; exact ⟨r, by first | exact (hmem r).mp hr | exact (hmem r).mpr hr, he⟩)
  -- round 1: staging
  have hsrc1 : ∀ m ∈ stageMoves rs' 0, kget kids m.1 ≠ none := by
    intro m hm
    have : m.1 ∈ (stageMoves rs' 0).map (·.1) := List.mem_map.mpr ⟨m, hm, rfl⟩
    rw [stageMoves_srcs] at this
    obtain ⟨r, hr, he⟩ := List.mem_map.mp this
    rw [← he]
    exact hsrc r ((hmem r).mp hr)
  obtain ⟨kS, hrunS, hS⟩ := seqRename_spec (stageMoves rs' 0) hst kids hsrc1 hstamp
  -- round 2: finishing, in the order the discipline prescribes
  have hLtop : TopLevel L := fun p hp => topLevel_pendOf rs' 0 p (hLperm.mem_iff.mp hp)
  have hperm : (L.map pendMove).Perm (finishMoves rs' 0) := by
    rw [← pendMove_pendOf]; exact hLperm.map _
  have hfi' : Independent (L.map pendMove) := Independent.perm hperm.symm hfi
  have hsrcs : ∀ x, x ∈ (L.map pendMove).map (·.1) ↔ x ∈ (stageMoves rs' 0).map (·.2) := by
    intro x; rw [← finishMoves_srcs]; exact (hperm.map _).mem_iff
  have hdsts : ∀ x, x ∈ (L.map pendMove).map (·.2) ↔ x ∈ rs.map (·.2) := by
    intro x; rw [← hmem2, ← finishMoves_dsts rs' 0]; exact (hperm.map _).mem_iff
  have hsrc2 : ∀ m ∈ L.map pendMove, kget kS m.1 ≠ none := by
    intro m hm
    have : m.1 ∈ (stageMoves rs' 0).map (·.2) := (hsrcs m.1).mp (List.mem_map.mpr ⟨m, hm, rfl⟩)
    obtain ⟨m', hm', he⟩ := List.mem_map.mp this
    rw [hS, ← he, movesSpec_dst _ _ hst m'.1 m'.2 hm']
    exact hsrc1 m' hm'
  have hnostamp : ∀ x ∈ rs.map (·.2), x ∉ (stageMoves rs' 0).map (·.2) := by
    intro x hx hx2
    exact hfi'.2.2 x ((hsrcs x).mpr hx2) ((hdsts x).mpr hx)
  have hS_new : ∀ x ∈ rs.map (·.2), kget kS x = none := by
    intro x hx
    rw [hS, movesSpec_not_dst _ _ _ (hnostamp x hx), stageMoves_srcs]
    obtain ⟨r, hr, he⟩ := List.mem_map.mp hx
    rcases hnew r hr with h | h
    · rw [← he]; simp [h]
    · rw [← he]; simp [(hmem1 r.2).mpr h]
  have hdst2 : ∀ m ∈ L.map pendMove, kget kS m.2 = none := by
    intro m hm
    exact hS_new _ ((hdsts m.2).mp (List.mem_map.mpr ⟨m, hm, rfl⟩))
  obtain ⟨kF, hrunF, hF⟩ := seqRename_spec (L.map pendMove) hfi' kS hsrc2 hdst2
  refine ⟨kF, ?_, ?_, ?_⟩
  · rw [hup kS hrunS, finishRen_eq_moves _ _ hLtop, hrunF]
  · intro r hr
    obtain ⟨s, h1, h2⟩ := via_stamp rs' 0 r ((hmem r).mpr hr)
    rw [hF, movesSpec_dst _ _ hfi' s r.2 (hperm.mem_iff.mpr h2), hS, movesSpec_dst _ _ hst r.1 s h1]
  · intro x hx
    have hx' : x ∉ (L.map pendMove).map (·.2) := fun h => hx ((hdsts x).mp h)
    rw [hF, movesSpec_not_dst _ _ _ hx']
    by_cases hs : x ∈ (stageMoves rs' 0).map (·.2)
    · -- a temporary name: gone afterwards, absent before, and never an old name
      obtain ⟨m, hm, he⟩ := List.mem_map.mp hs
      have h0 : kget kids x = none := by rw [← he]; exact hstamp m hm
      rw [if_pos ((hsrcs x).mpr hs)]
      simp [h0]
    · have hs' : x ∉ (L.map pendMove).map (·.1) := fun h => hs ((hsrcs x).mp h)
      rw [if_neg hs']
      rw [hS, movesSpec_not_dst _ _ _ hs, stageMoves_srcs]
      by_cases ho : x ∈ rs.map (·.1)
      · simp [ho, (hmem1 x).mpr ho]
      · have : x ∉ rs'.map (·.1) := fun h => ho ((hmem1 x).mp h)
        simp [ho, this]


theorem upload_renames_reach_tree_partial (c : Cfg) (t : Tree) (kids : Kids)
    (rs : List (String × String))
    (hst : Independent (stageMoves (stagingOrder c rs) 0)) (hfi : Independent (finishMoves (stagingOrder c rs) 0))
    (hsrc : ∀ r ∈ rs, kget kids r.1 ≠ none)
    (hstamp : ∀ m ∈ stageMoves (stagingOrder c rs) 0, kget kids m.2 = none)
    (hnew : ∀ r ∈ rs, kget kids r.2 = none ∨ r.2 ∈ rs.map (·.1)) :
    ∃ kids', uploadInc c [] t { renamed := toRenamed rs } (.dir kids) = (.dir kids', none)
      ∧ (∀ r ∈ rs, kget kids' r.2 = kget kids r.1)
      ∧ (∀ x, x ∉ rs.map (·.2) → kget kids' x = if x ∈ rs.map (·.1) then none else kget kids x) := by
  obtain ⟨ren, rob⟩ := c
  cases ren
  · -- as found: delta order, finished in the same order
    refine reach_core _ t kids rs rs (pendOf rs 0) (fun _ => Iff.rfl) (List.Perm.refl _) ?_ hst hfi hsrc hstamp hnew
    intro kS h
    unfold uploadInc planInc
    simp only [List.filter_nil, List.map_nil, List.flatMap_nil, List.nil_append, List.append_nil]
    rw [run_append, run_stage _ t rs 0 { root := .dir kids } (.dir kS) h]
    simp only [run, exec, List.nil_append, List.reverse_nil, finishDel]
    cases finishRen (.dir kS) (pendOf rs 0) with
    | mk a b => cases b <;> rfl
  · -- children first: reverse delta order, finished in the order of the new paths
    have e : (toRenamed rs).reverse = toRenamed rs.reverse := by simp [toRenamed, List.map_reverse]
    refine reach_core _ t kids rs rs.reverse (sortByNew (pendOf rs.reverse 0)) (fun _ => List.mem_reverse)
      (perm_sortByNew _) ?_ hst hfi hsrc hstamp hnew
    intro kS h
    unfold uploadInc planInc
    simp only [List.filter_nil, List.map_nil, List.flatMap_nil, List.nil_append, List.append_nil, e]
    rw [run_append, run_stage _ t rs.reverse 0 { root := .dir kids } (.dir kS) h]
    simp only [run, exec, List.nil_append, List.reverse_nil, finishDel]
    cases finishRen (.dir kS) (sortByNew (pendOf rs.reverse 0)) with
    | mk a b => cases b <;> rfl

/-- a swap and a three-cycle at once satisfy the hypotheses -/
example : let rs := [("a", "b"), ("b", "a"), ("x", "y"), ("y", "z"), ("z", "x")]
    let rs' := stagingOrder { renames := .childrenFirst } rs
    Independent (stageMoves rs' 0) ∧ Independent (finishMoves rs' 0) ∧
    ∀ r ∈ rs, r.2 ∈ rs.map (·.1) := by
  refine ⟨⟨by decide, by decide, by decide⟩, ⟨by decide, by decide, by decide⟩, by decide⟩

/-! ### witnesses of the failing families (each reproduced on the real code by the check) -/

def present (r : Node × Option Err) (p : Path) : Bool := (lookup r.1 p).isSome

def isFile (r : Node × Option Err) (p : Path) (c : String) (x : Bool) : Bool :=
  match lookup r.1 p with
  | some (.file c' x') => c' == c && x' == x
  | _ => false

def isLink (r : Node × Option Err) (p : Path) (t : String) : Bool :=
  match lookup r.1 p with
  | some (.link t') => t' == t
  | _ => false

def remoteDF : Node := .dir [("d", .dir [("f", .file "x" false)])]

def treeEG : Tree := [⟨["e"], .dir, "", false, ""⟩, ⟨["e", "g"], .file, "x", false, ""⟩]

def deltaNested : Delta := { renamed := [⟨["d"], ["e"], false⟩, ⟨["d", "f"], ["e", "g"], false⟩] }

/-- **F13**: a revision renames `d` to `e` and `d/f` to `e/g`.  The directory
is staged first, so the old path of the child no longer exists: the upload
stops with NoSuchFile and leaves `d` parked under the temporary name. -/
theorem nested_rename_witness :
    let r := uploadInc {} [] treeEG deltaNested remoteDF
    r.2 = some .noSuchFile ∧ present r [".tmp.0", "f"] = true ∧ present r ["e"] = false
      ∧ present r ["d"] = false := by decide

def remoteDS : Node := .dir [("d", .dir [("s", .dir [])])]

def treeS2 : Tree := [⟨["s2"], .dir, "", false, ""⟩, ⟨["s2", "d"], .dir, "", false, ""⟩]

def deltaNested2 : Delta := { renamed := [⟨["d"], ["s2", "d"], false⟩, ⟨["d", "s"], ["s2"], false⟩] }

/-- the second shape: `d/s` becomes `s2` and `d` moves into it -/
theorem nested_rename_second_witness :
    let r := uploadInc {} [] treeS2 deltaNested2 remoteDS
    r.2 = some .noSuchFile ∧ present r [".tmp.0", "s"] = true ∧ present r ["s2"] = false := by decide

/-- staging children first and finishing parents first handles both -/
theorem children_first_fixes_witnesses :
    let c : Cfg := { renames := .childrenFirst }
    let r1 := uploadInc c [] treeEG deltaNested remoteDF
    let r2 := uploadInc c [] treeS2 deltaNested2 remoteDS
    r1.2 = none ∧ isFile r1 ["e", "g"] "x" false = true ∧ present r1 ["d"] = false
      ∧ present r1 [".tmp.0"] = false ∧ present r1 [".tmp.1"] = false
      ∧ r2.2 = none ∧ present r2 ["s2", "d"] = true ∧ present r2 ["d"] = false := by decide

/-- a file moved into a directory that the same revision adds: the rename is
finished before the directory is created (both disciplines) -/
theorem rename_into_new_dir_witness :
    let t : Tree := [⟨["n"], .dir, "", false, ""⟩, ⟨["n", "a"], .file, "x", false, ""⟩]
    let d : Delta := { renamed := [⟨["a"], ["n", "a"], false⟩], added := [["n"]] }
    let remote : Node := .dir [("a", .file "x" false)]
    (uploadInc {} [] t d remote).2 = some .noSuchFile ∧
    (uploadInc { renames := .childrenFirst } [] t d remote).2 = some .noSuchFile ∧
    present (uploadInc {} [] t d remote) [".tmp.0"] = true := by decide

/-- symlinks: added below the top level (InvalidURL), re-targeted (FileExists),
over a file in a full upload (FileExists) — and the robust variant handles all -/
theorem symlink_families_witness :
    let tl : Tree := [⟨["d"], .dir, "", false, ""⟩, ⟨["d", "l"], .symlink, "", false, "t1"⟩]
    let r1 := fun c => uploadInc c [] tl { added := [["d", "l"]] } (.dir [("d", .dir [])])
    let t2 : Tree := [⟨["l"], .symlink, "", false, "t2"⟩]
    let r2 := fun c => uploadInc c [] t2 { modified := [["l"]] } (.dir [("l", .link "t1")])
    let r3 := fun c => uploadFull c [] t2 (.dir [("l", .file "x" false)])
    (r1 {}).2 = some .invalidURL ∧ (r2 {}).2 = some .fileExists ∧ (r3 {}).2 = some .fileExists ∧
    (r1 { robustSymlinks := true }).2 = none ∧ isLink (r1 { robustSymlinks := true }) ["d", "l"] "t1" = true ∧
    (r2 { robustSymlinks := true }).2 = none ∧ isLink (r2 { robustSymlinks := true }) ["l"] "t2" = true ∧
    (r3 { robustSymlinks := true }).2 = none ∧ isLink (r3 { robustSymlinks := true }) ["l"] "t2" = true := by decide

/-- a renamed symlink whose target changed is re-uploaded as an empty regular
file; a file renamed and made executable keeps its old mode -/
theorem renamed_as_file_witness :
    let r := uploadInc {} [] [⟨["m"], .symlink, "", false, "t2"⟩] { renamed := [⟨["l"], ["m"], true⟩] }
      (.dir [("l", .link "t1")])
    let r' := uploadInc {} [] [⟨["g"], .file, "x", true, ""⟩] { renamed := [⟨["f"], ["g"], false⟩] }
      (.dir [("f", .file "x" false)])
    r.2 = none ∧ isFile r ["m"] "" false = true ∧ r'.2 = none ∧ isFile r' ["g"] "x" false = true := by decide

/-- a file below a directory becomes a symlink while the directory is renamed:
the old object is deleted at its OLD path after the renames are finished
(NoSuchFile); deleting at the new path works -/
theorem kind_change_below_renamed_dir_witness :
    let t : Tree := [⟨["e"], .dir, "", false, ""⟩, ⟨["e", "a"], .symlink, "", false, "t1"⟩]
    let d : Delta := { renamed := [⟨["d"], ["e"], false⟩], kindChanged := [⟨["d", "a"], ["e", "a"], .file, .symlink⟩] }
    let remote : Node := .dir [("d", .dir [("a", .file "x" false)])]
    let c : Cfg := { renames := .childrenFirst, robustSymlinks := true }
    (uploadInc c [] t d remote).2 = some .noSuchFile ∧
    (uploadInc { c with kindChangeAtNew := true } [] t d remote).2 = none ∧
    isLink (uploadInc { c with kindChangeAtNew := true } [] t d remote) ["e", "a"] "t1" = true := by decide

/-- deferred directory deletions run after the renames are finished, with the
old paths: (1) a directory removed below a renamed directory is no longer
there (NoSuchFile); (2) a directory renamed onto the path of a removed
directory is what the deferred rmdir then finds (DirectoryNotEmpty) -/
theorem deferred_deletion_witnesses :
    let c : Cfg := { renames := .childrenFirst, robustSymlinks := true }
    let r1 := uploadInc c [] [⟨["e"], .dir, "", false, ""⟩, ⟨["e", "f"], .file, "2", false, ""⟩]
      { removed := [⟨["a", "d"], .dir⟩, ⟨["a", "d", "b"], .file⟩], renamed := [⟨["a"], ["e"], false⟩] }
      (.dir [("a", .dir [("d", .dir [("b", .file "1" false)]), ("f", .file "2" false)])])
    let r2 := uploadInc c [] [⟨["a"], .dir, "", false, ""⟩, ⟨["e"], .file, "1", false, ""⟩, ⟨["a", "b"], .file, "2", false, ""⟩]
      { removed := [⟨["a"], .dir⟩], renamed := [⟨["a", "a"], ["e"], false⟩, ⟨["d"], ["a"], false⟩] }
      (.dir [("a", .dir [("a", .file "1" false)]), ("d", .dir [("b", .file "2" false)])])
    r1.2 = some .noSuchFile ∧ present r1 ["e", "d"] = true ∧
    r2.2 = some .dirNotEmpty ∧ isFile r2 ["a", "b"] "2" false = true := by decide

/-- ... and (3) when the new occupant is an EMPTY directory the deferred rmdir
succeeds: the upload reports no error and the directory is gone from the remote -/
theorem deferred_deletion_empty_occupant_witness :
    let c : Cfg := { renames := .childrenFirst, robustSymlinks := true, kindChangeAtNew := true }
    let r := uploadInc c [] [⟨["a"], .dir, "", false, ""⟩]
      { removed := [⟨["a"], .dir⟩, ⟨["a", "b"], .file⟩], renamed := [⟨["d"], ["a"], false⟩] }
      (.dir [("a", .dir [("b", .file "1" false)]), ("d", .dir [])])
    r.2 = none ∧ present r ["a"] = false ∧ present r ["d"] = false := by decide

/-- the hypotheses of `upload_renames_reach_tree_partial` on a concrete remote: a file, a directory with
content and an executable exchange their names in a cycle while a fourth entry stays -/
example :
    let kids : Kids := [("a", .file "1" false), ("b", .dir [("x", .link "t")]), ("c", .file "3" true), ("k", .file "4" false)]
    let rs := [("a", "b"), ("b", "c"), ("c", "a")]
    let c : Cfg := { renames := .childrenFirst, robustSymlinks := true, kindChangeAtNew := true }
    Independent (stageMoves (stagingOrder c rs) 0) ∧ Independent (finishMoves (stagingOrder c rs) 0) ∧
    (∀ r ∈ rs, kget kids r.1 ≠ none) ∧ (∀ m ∈ stageMoves (stagingOrder c rs) 0, kget kids m.2 = none) ∧
    (∀ r ∈ rs, kget kids r.2 = none ∨ r.2 ∈ rs.map (·.1)) ∧
    (uploadInc c [] [] { renamed := toRenamed rs } (.dir kids)).2 = none := by
  refine ⟨⟨by decide, by decide, by decide⟩, ⟨by decide, by decide, by decide⟩, by decide, by decide, by decide, by decide⟩

/-- `upload --full` onto an existing remote never deletes what left the tree -/
theorem full_upload_keeps_stale_witness :
    let r := uploadFull {} [] [⟨["a"], .file, "x", false, ""⟩] (.dir [("a", .file "old" false), ("gone", .file "y" false)])
    r.2 = none ∧ isFile r ["a"] "x" false = true ∧ present r ["gone"] = true := by decide

/-- a rename with exactly one side ignored addresses a path that was never uploaded -/
theorem ignored_rename_boundary_witness :
    (uploadInc {} ["a"] [⟨["d"], .file, "x", false, ""⟩] { renamed := [⟨["a"], ["d"], false⟩] } (.dir [])).2
      = some .noSuchFile := by decide

/-! ### the ignore list -/

/-- the paths a plan may address: not ignored, or a temporary name -/
def okPath (ign : List String) (p : Path) : Prop := ignored ign p = false ∨ ∃ k, p = stamp k

theorem createSteps_ok (c : Cfg) (ign : List String) (t : Tree) (p : Path) (hp : ignored ign p = false) :
    ∀ st ∈ createSteps c t p, ∀ q ∈ st.paths, okPath ign q := by
  intro st hst q hq
  unfold createSteps at hst
  cases ht : t.find p with
  | none => rw [ht] at hst; simp at hst; subst hst; simp [Step.paths] at hq
  | some e =>
    rw [ht] at hst
    simp only at hst
    cases hk : e.kind <;> rw [hk] at hst <;> simp [symlinkStep] at hst
    · subst hst; simp [Step.paths] at hq; subst hq; exact Or.inl hp
    · subst hst; simp [Step.paths] at hq; subst hq; exact Or.inl hp
    · split at hst <;> (subst hst; simp [Step.paths] at hq; subst hq; exact Or.inl hp)

theorem renameSteps_ok (ign : List String) (rs : List Renamed) (k : Nat)
    (hb : ∀ r ∈ rs, ignored ign r.old = ignored ign r.new) :
    ∀ st ∈ renameSteps ign rs k, ∀ q ∈ st.paths, okPath ign q := by
  induction rs generalizing k with
  | nil => intro st hst; simp [renameSteps] at hst
  | cons r rs ih =>
    intro st hst q hq
    have ih' := ih (k + 1) (fun x hx => hb x (List.mem_cons_of_mem _ hx))
    unfold renameSteps at hst
    by_cases hi : (ignored ign r.old && ignored ign r.new) = true
    · simp only [hi, if_true] at hst
      exact ih k (fun x hx => hb x (List.mem_cons_of_mem _ hx)) st hst q hq
    · simp only [hi, if_false] at hst
      have ho : ignored ign r.old = false := by
        have := hb r List.mem_cons_self
        cases h1 : ignored ign r.old <;> simp_all
      rcases List.mem_append.mp hst with h | h
      · split at h
        · simp at h; subst h; simp [Step.paths] at hq; subst hq; exact Or.inl ho
        · simp at h
      · rcases List.mem_cons.mp h with h | h
        · subst h
          have hn : ignored ign r.new = false := by rw [← hb r List.mem_cons_self]; exact ho
          simp [Step.paths] at hq
          rcases hq with rfl | rfl | rfl
          · exact Or.inl ho
          · exact Or.inr ⟨k, rfl⟩
          · exact Or.inl hn
        · exact ih' st h q hq

/-- **Ignored paths are never addressed.**  For every tree, delta and ignore
list in which no rename (and no kind change below a renamed directory) crosses
the ignore boundary, every remote path named
by a step of the incremental plan (either discipline, either symlink variant)
(the new path of a rename included) is a path that is not ignored, or one of
the temporary names; and a full upload names only paths that are not ignored.
The paths of `finish_renames` / `finish_deletions` are those recorded by the
`stage` / `rmdirMaybe` steps.  The statement about the remote STATE is
`incremental_upload_reaches_tree_partial` (ignored paths keep their listing).  (`ignored_rename_boundary_witness`
shows what happens when a rename does cross the boundary.) -/
theorem ignored_never_addressed (c : Cfg) (ign : List String) (t : Tree) (d : Delta)
    (hb : ∀ r ∈ d.renamed, ignored ign r.old = ignored ign r.new)
    (hk : ∀ k ∈ d.kindChanged, ignored ign k.old = ignored ign k.path) :
    (∀ st ∈ planInc c ign t d, ∀ q ∈ st.paths, okPath ign q) ∧
    (∀ st ∈ planFull ign t, ∀ q ∈ st.paths, ignored ign q = false) := by
  constructor
  · intro st hst q hq
    unfold planInc at hst
    simp only [List.mem_append] at hst
    rcases hst with ((((h | h) | h) | h) | h) | h
    · obtain ⟨x, hx, he⟩ := List.mem_map.mp h
      have hx2 := (List.mem_filter.mp hx).2
      simp only [Bool.not_eq_eq_eq_not, Bool.not_true] at hx2
      cases hk : x.kind <;> rw [hk] at he <;> subst he <;> simp [Step.paths] at hq <;> subst hq <;>
        exact Or.inl hx2
    · cases hr : c.renames with
      | asFound => rw [hr] at h; exact renameSteps_ok ign _ 0 hb st h q hq
      | childrenFirst =>
        rw [hr] at h
        exact renameSteps_ok ign _ 0 (fun r hr => hb r (List.mem_reverse.mp hr)) st h q hq
    · simp at h
      rcases h with rfl | rfl <;> simp [Step.paths] at hq
    · obtain ⟨x, hx, he⟩ := List.mem_flatMap.mp h
      have hx2 := (List.mem_filter.mp hx).2
      simp only [Bool.not_eq_eq_eq_not, Bool.not_true] at hx2
      rcases List.mem_append.mp he with he | he
      · have hxo : ignored ign x.old = false := by rw [hk x (List.mem_filter.mp hx).1]; exact hx2
        cases hko : x.oldKind <;> rw [hko] at he <;> simp at he <;> subst he <;> simp [Step.paths] at hq <;>
          subst hq <;> (split <;> first | exact Or.inl hx2 | exact Or.inl hxo)
      · exact createSteps_ok c ign t x.path hx2 st he q hq
    · obtain ⟨x, hx, he⟩ := List.mem_flatMap.mp h
      have hx2 := (List.mem_filter.mp hx).2
      simp only [Bool.not_eq_eq_eq_not, Bool.not_true] at hx2
      exact createSteps_ok c ign t x hx2 st he q hq
    · obtain ⟨x, hx, he⟩ := List.mem_flatMap.mp h
      have hx2 := (List.mem_filter.mp hx).2
      simp only [Bool.not_eq_eq_eq_not, Bool.not_true] at hx2
      cases ht : t.find x with
      | none => rw [ht] at he; simp at he; subst he; simp [Step.paths] at hq
      | some e =>
        rw [ht] at he
        simp only at he
        cases hk : e.kind <;> rw [hk] at he <;> simp [symlinkStep] at he
        · subst he; simp [Step.paths] at hq; subst hq; exact Or.inl hx2
        · subst he; simp [Step.paths] at hq
        · split at he <;> (subst he; simp [Step.paths] at hq; subst hq; exact Or.inl hx2)
  · intro st hst q hq
    unfold planFull at hst
    obtain ⟨e, he, hs⟩ := List.mem_map.mp hst
    have h2 := (List.mem_filter.mp he).2
    simp only [Bool.and_eq_true, Bool.not_eq_eq_eq_not, Bool.not_true] at h2
    cases hk : e.kind <;> rw [hk] at hs <;> subst hs <;> simp [Step.paths] at hq <;> subst hq <;> exact h2.2

example : ∀ r ∈ ([⟨["a"], ["b"], false⟩] : List Renamed), ignored ["x"] r.old = ignored ["x"] r.new := by decide

/-! ## uploads reach the tree (adds, deletes, kind changes, modifications, the ignore list) -/

/-- **A full upload onto an empty remote yields exactly the tree.**  For every
uploader variant, every ignore list and every well-formed tree (any size and
depth; `treeWF`: distinct non-empty paths, parents listed before their children
as `iter_entries_by_dir` does, the two special names not directories) the full
upload succeeds and the remote listing is, path by path, the tree's listing
(kind, content, executable bit, link target) on the paths that are neither
ignored nor one of the two special files, and empty everywhere else. -/
theorem full_upload_onto_empty_reaches_tree (c : Cfg) (ign : List String) (t : Tree) (hbad : c.badLinks = [])
    (hwf : treeWF t = true) :
    ∃ r', uploadFull c ign t (.dir []) = (r', none) ∧
      (∀ q, q ≠ [] → look r' q = if ignored ign q || special q then none else t.look q) ∧
      Matches ign t r' ∧ Clean ign r' := by
  obtain ⟨r', h1, h2⟩ := uploadFull_empty c ign t hbad hwf
  exact ⟨r', h1, h2.2, h2.matches.1, h2.matches.2.1⟩

/-- **A full upload is idempotent.**  For every uploader variant that escapes its
symlink paths, every ignore list, every well-formed tree and EVERY remote that
already shows the tree on the paths that are not ignored (whatever it holds at
ignored paths): the full upload succeeds and every path of the listing -
ignored or not - shows exactly what it showed before.  In particular a second
full upload right after the first changes nothing. -/
theorem full_upload_idempotent (c : Cfg) (ign : List String) (t : Tree) (remote : Node) (hbad : c.badLinks = [])
    (hwf : treeWF t = true) (hm : Matches ign t remote) :
    ∃ r', uploadFull c ign t remote = (r', none) ∧ (∀ q, look r' q = look remote q) ∧ Matches ign t r' := by
  obtain ⟨r', h1, h2⟩ := uploadFull_same c ign t remote hbad hwf hm
  refine ⟨r', h1, h2, ?_⟩
  intro p hp hi
  rw [h2 p]
  exact hm p hp hi

theorem full_upload_twice (c : Cfg) (ign : List String) (t : Tree) (hbad : c.badLinks = []) (hwf : treeWF t = true) :
    ∃ r1 r2, uploadFull c ign t (.dir []) = (r1, none) ∧ uploadFull c ign t r1 = (r2, none) ∧
      ∀ q, look r2 q = look r1 q := by
  obtain ⟨r1, h1, _, h3, _⟩ := full_upload_onto_empty_reaches_tree c ign t hbad hwf
  obtain ⟨r2, g1, g2, _⟩ := full_upload_idempotent c ign t r1 hbad hwf h3
  exact ⟨r1, r2, h1, g1, g2⟩

/-- a tree with nested directories, an executable, a symlink below the top level and the ignore file -/
def exTree1 : Tree :=
  [⟨[".bzrignore-upload"], .file, "b\n", false, ""⟩, ⟨["a"], .dir, "", false, ""⟩, ⟨["f"], .file, "1", true, ""⟩,
   ⟨["k"], .file, "k", false, ""⟩, ⟨["a", "b"], .dir, "", false, ""⟩, ⟨["a", "l"], .symlink, "", false, "t1"⟩,
   ⟨["a", "x"], .dir, "", false, ""⟩, ⟨["a", "b", "g"], .file, "2", false, ""⟩, ⟨["a", "x", "y"], .file, "3", false, ""⟩]

example : treeWF exTree1 = true := by decide

/-- **An incremental upload of a delta without renames reaches the tree.**  For
the uploader as it is now (robust symlinks; either rename discipline, either
kind-change variant), every ignore list, every old tree, every well-formed new
tree and every delta that is a correct rename-free delta between them
(`deltaOK`: removals - whole subtrees, parents listed first -, kind changes
file/dir/symlink, additions - parents first, a path may be removed and added
again -, content / mode / target modifications; renames only where both sides are
ignored), on EVERY remote that shows the old tree on the paths that are not
ignored (`Matches`; ignored remote content is arbitrary except directly below a
directory that is removed, `NoIgnoredBelow`):
the upload succeeds, the remote then shows the new tree on every path that is
not ignored, every ignored path shows what it showed before, and the root is
still a directory.

Partial: deltas with renames are not covered (see
`upload_renames_reach_tree_partial` for top-level renames and the witnesses for
what goes wrong when renames meet other changes); the two special files must
not be removed or change kind (`special_file_removed_witness`). -/
theorem incremental_upload_reaches_tree_partial (c : Cfg) (ign : List String) (old new : Tree) (d : Delta)
    (remote : Node) (hrob : c.robustSymlinks = true) (hbad : c.badLinks = []) (hnew : treeWF new = true)
    (hd : deltaOK ign old new d = true) (hroot : look remote [] = some .dir)
    (hm : Matches ign old remote) (hig : NoIgnoredBelow ign d remote) :
    ∃ r', uploadInc c ign new d remote = (r', none) ∧ Matches ign new r' ∧
      (∀ q, ignored ign q = true → look r' q = look remote q) ∧ look r' [] = some .dir :=
  uploadInc_rename_free c ign old new d remote hrob hbad hnew hd hroot hm hig

/-- the exact listing after such an upload: changed paths show the new tree,
removed paths nothing, every other path - ignored or not - what it showed -/
theorem incremental_upload_frame (c : Cfg) (ign : List String) (old new : Tree) (d : Delta)
    (remote : Node) (hrob : c.robustSymlinks = true) (hbad : c.badLinks = []) (hnew : treeWF new = true)
    (hd : deltaOK ign old new d = true) (hroot : look remote [] = some .dir)
    (hm : Matches ign old remote) (hig : NoIgnoredBelow ign d remote) :
    ∃ r', uploadInc c ign new d remote = (r', none) ∧
      ∀ q, look r' q =
        if q ∈ mdL ign d ∨ q ∈ adL ign d ∨ q ∈ (kcL ign d).map (·.path) then new.look q
        else if q ∈ (rmL ign d).map (·.path) then none else look remote q :=
  uploadInc_look c ign old new d remote hrob hbad hnew hd hroot hm hig

/-- **Copied paths reach the remote.**  (Only git trees report copies.)  Under the
hypotheses of `incremental_upload_reaches_tree_partial`, every copied path that
is not ignored shows the new tree's entry after the upload - `upload_tree`
treats `changes.added + changes.copied` alike. -/
theorem copied_paths_reach_remote (c : Cfg) (ign : List String) (old new : Tree) (d : Delta)
    (remote : Node) (hrob : c.robustSymlinks = true) (hbad : c.badLinks = []) (hnew : treeWF new = true)
    (hd : deltaOK ign old new d = true) (hroot : look remote [] = some .dir)
    (hm : Matches ign old remote) (hig : NoIgnoredBelow ign d remote) :
    ∃ r', uploadInc c ign new d remote = (r', none) ∧
      ∀ p ∈ d.copied, ignored ign p = false → look r' p = new.look p := by
  obtain ⟨r', h1, h2⟩ := uploadInc_look c ign old new d remote hrob hbad hnew hd hroot hm hig
  refine ⟨r', h1, ?_⟩
  intro p hp hi
  have : p ∈ adL ign d := by
    unfold adL
    exact List.mem_filter.mpr ⟨List.mem_append_right _ hp, by simp [hi]⟩
  rw [h2 p]
  simp [this]

/-- **Dropping `copied` loses exactly those paths.**  `a` is moved to `b` and its
text duplicated at `d/e` (git: renamed a -> b, copied a -> d/e, the new directory
`d` added): with the delta as reported the remote equals the tree; with the
copied list dropped (iterating `changes.added` only) the upload still succeeds,
`d/e` - and nothing else - is missing, and the remote no longer equals the tree. -/
theorem copied_dropped_witness :
    let c : Cfg := { renames := .childrenFirst, robustSymlinks := true, kindChangeAtNew := true }
    let new : Tree := [⟨["b"], .file, "x", false, ""⟩, ⟨["d"], .dir, "", false, ""⟩, ⟨["k"], .file, "k", false, ""⟩,
      ⟨["d", "e"], .file, "x", false, ""⟩]
    let remote : Node := .dir [("a", .file "x" false), ("k", .file "k" false)]
    let d : Delta := { renamed := [⟨["a"], ["b"], false⟩], added := [["d"]], copied := [["d", "e"]] }
    let r := uploadInc c [] new d remote
    let r' := uploadInc c [] new { d with copied := [] } remote
    r.2 = none ∧ look r.1 ["d", "e"] = some (.file "x" false) ∧ look r.1 ["b"] = some (.file "x" false) ∧ look r.1 ["a"] = none ∧
    r'.2 = none ∧ look r'.1 ["d", "e"] = none ∧ look r'.1 ["b"] = look r.1 ["b"] ∧ look r'.1 ["d"] = look r.1 ["d"] ∧
    look r'.1 ["k"] = look r.1 ["k"] ∧ look r'.1 ["a"] = none := by decide

/-- the successor of `exTree1`: the subtree `a/b` and `k` removed (deferred
directory deletion), `f` modified, `a/l` re-targeted, `a/x` turned into a file
(its child removed), a new directory with a file and a nested symlink added, `k`
removed and `m` added below the ignored name -/
def exTree2 : Tree :=
  [⟨[".bzrignore-upload"], .file, "b\n", false, ""⟩, ⟨["a"], .dir, "", false, ""⟩, ⟨["f"], .file, "11", false, ""⟩,
   ⟨["n"], .dir, "", false, ""⟩, ⟨["a", "l"], .symlink, "", false, "t2"⟩, ⟨["a", "x"], .file, "x", false, ""⟩,
   ⟨["n", "h"], .file, "4", true, ""⟩, ⟨["n", "s"], .symlink, "", false, "t1"⟩]

def exDelta12 : Delta :=
  { removed := [⟨["a", "b"], .dir⟩, ⟨["a", "b", "g"], .file⟩, ⟨["a", "x", "y"], .file⟩, ⟨["k"], .file⟩],
    kindChanged := [⟨["a", "x"], ["a", "x"], .dir, .file⟩],
    added := [["n"], ["n", "h"], ["n", "s"]],
    modified := [["a", "l"], ["f"]] }

example : treeWF exTree2 = true ∧ deltaOK [] exTree1 exTree2 exDelta12 = true
    ∧ deltaOK ["b"] exTree1 exTree2 exDelta12 = true := by decide

/-- **Any sequence of uploads without renames keeps the remote equal to the
tree.**  Start from the empty remote, upload the first tree in full (what
`upload_tree` does when there is no marker), then any number of trees
incrementally, each with a correct rename-free delta from the tree before
(`seqOK`), under one ignore list: no upload fails, and the remote finally shows
the last tree on every path that is not ignored and nothing on ignored paths.
(Induction over the sequence with the invariant `Matches ∧ Clean`.)

Partial: sequences whose deltas contain renames are not covered. -/
theorem upload_sequence_reaches_tree_partial (c : Cfg) (ign : List String) (hrob : c.robustSymlinks = true)
    (hbad : c.badLinks = [])
    (t0 : Tree) (steps : List (Tree × Delta)) (h0 : treeWF t0 = true) (hok : seqOK ign t0 steps = true) :
    ∃ r0 r, uploadFull c ign t0 (.dir []) = (r0, none) ∧ uploadSeq c ign r0 steps = (r, none) ∧
      Matches ign (lastTree t0 steps) r ∧ Clean ign r := by
  obtain ⟨r0, h1, h2⟩ := uploadFull_empty c ign t0 hbad h0
  obtain ⟨r, f1, f2, f3⟩ := uploadSeq_spec c ign hrob hbad steps t0 r0 hok h2.matches.1 h2.matches.2.1 h2.matches.2.2
  exact ⟨r0, r, h1, f1, f2, f3⟩

example : seqOK ["b"] exTree1 [(exTree2, exDelta12), (exTree2, {})] = true := by decide

/-- what `Matches` means on a concrete remote: the result of the two uploads is
the second tree (and the ignore file, which the full upload skipped, is absent) -/
example :
    let c : Cfg := { renames := .childrenFirst, robustSymlinks := true, kindChangeAtNew := true }
    let r := uploadSeq c [] (uploadFull c [] exTree1 (.dir [])).1 [(exTree2, exDelta12)]
    r.2 = none ∧ look r.1 ["a", "x"] = some (.file "x" false) ∧ look r.1 ["a", "b"] = none ∧
      look r.1 ["n", "s"] = some (.link "t1") ∧ look r.1 ["f"] = some (.file "11" false) ∧
      look r.1 [".bzrignore-upload"] = none := by decide

/-- **Symlink paths are not URL-escaped** (as found): `upload_symlink` is the one
remote operation that does not go through `urlutils.escape`; for a link whose
path the transport cannot take unescaped (`badLinks`) the upload stops with
InvalidURL after `_force_clear` has already removed what was there, or the link
lands at the percent-decoded path; an uploader that escapes (`badLinks = []`)
succeeds. -/
theorem unescaped_symlink_witness :
    let t : Tree := [⟨["u"], .symlink, "", false, "t2"⟩, ⟨["z"], .file, "1", false, ""⟩]
    let remote : Node := .dir [("u", .link "t1")]
    let c : Cfg := { renames := .childrenFirst, robustSymlinks := true, kindChangeAtNew := true }
    let r := uploadFull { c with badLinks := [(["u"], none)] } [] t remote
    let r' := uploadFull { c with badLinks := [(["u"], some ["v"])] } [] t remote
    r.2 = some .invalidURL ∧ present r ["u"] = false ∧ present r ["z"] = false ∧
    r'.2 = none ∧ present r' ["u"] = false ∧ isLink r' ["v"] "t2" = true ∧
    (uploadFull c [] t remote).2 = none ∧ isLink (uploadFull c [] t remote) ["u"] "t2" = true := by decide

/-- **The special files.**  A full upload does not copy `.bzrignore-upload` (nor
`.bzrignore`); an incremental upload treats them like any file.  Removing one of
them after a full upload therefore deletes a remote file that was never
created: NoSuchFile, the upload stops (reproduced on the real code). -/
theorem special_file_removed_witness :
    let c : Cfg := { renames := .childrenFirst, robustSymlinks := true, kindChangeAtNew := true }
    let t1 : Tree := [⟨[".bzrignore-upload"], .file, "x", false, ""⟩, ⟨["a"], .file, "1", false, ""⟩]
    let t2 : Tree := [⟨["a"], .file, "1", false, ""⟩]
    let r1 := uploadFull c [] t1 (.dir [])
    let r2 := uploadInc c [] t2 { removed := [⟨[".bzrignore-upload"], .file⟩] } r1.1
    r1.2 = none ∧ r2.2 = some .noSuchFile ∧
      (uploadInc { c with tolerantSpecialDelete := true } [] t2 { removed := [⟨[".bzrignore-upload"], .file⟩] } r1.1).2 = none := by
  decide

end BreezyVerif.C43
