import BreezyVerif.Common
import BreezyVerif.Driver.C26Lib
import BreezyVerif.Model.C27
namespace BreezyVerif.C27
open BreezyVerif.C26

/-- the events of the C26 driver plus `l<i><T|P>`: lost reply -/
def parseEv27 (s : String) : Option Ev27 :=
  match s.toList with
  | 'l' :: rest =>
    match rest.reverse with
    | k :: ds => do
        let k ← (if k == 'T' then some FaultKind.T else if k == 'P' then some FaultKind.P else none)
        let i ← (String.ofList ds.reverse).toNat?
        pure (.lost i k)
    | [] => none
  | _ => (parseEv s).map .base

def traceWith27 (fx : Bool) (f : Sys → String) (s : Sys) : List Ev27 → List String
  | [] => [f s]
  | e :: es => f s :: traceWith27 fx f (step27 fx s e) es

/-- `crash <T|F variant> n cfgs held events`: after every prefix, the classification of the lock on disk
followed by the rendering of the whole state | `rec held` -/
def handle : List String → String
  | ["crash", fx, n, cfgs, held, evs] =>
    match parseBool fx with
    | none => "bad-op"
    | some fx =>
    match n.toNat?, (splitList cfgs).mapM parseCfg, parseHeld held, (splitList evs).mapM parseEv27 with
    | some n, some cs, some h, some evs =>
      if cs.length = n then
        "|".intercalate (traceWith27 fx (fun s => (classify s.held).show ++ " " ++ s.show n) (Sys.init (cfgFun cs) h) evs)
      else "bad-op"
    | _, _, _, _ => "bad-op"
  | ["rec", held] =>
    match parseHeld held with
    | some h => showBool (recoverable h)
    | none => "bad-op"
  | _ => "bad-op"

end BreezyVerif.C27

def main : IO Unit := BreezyVerif.runDriver BreezyVerif.C27.handle
