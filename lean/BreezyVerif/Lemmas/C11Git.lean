import BreezyVerif.Lemmas.C11
import BreezyVerif.Lemmas.C11Idem
/-! C11 — lemmas: in a git tree the flags of directory entries play no role. -/
namespace BreezyVerif.C11
open BreezyVerif.C46 Forest

variable {c : Cfg} {pre pre' : Pre}

@[simp] theorem eraseDirI_name (i : Info) : (eraseDirI i).name = i.name := by
  unfold eraseDirI; split <;> rfl
@[simp] theorem eraseDirI_kind (i : Info) : (eraseDirI i).kind = i.kind := by
  unfold eraseDirI; split <;> rfl
@[simp] theorem eraseDirI_ignored (i : Info) : (eraseDirI i).ignored = i.ignored := by
  unfold eraseDirI; split <;> rfl
@[simp] theorem eraseDirI_helper (i : Info) : (eraseDirI i).helper = i.helper := by
  unfold eraseDirI; split <;> rfl
@[simp] theorem eraseDirI_valid (i : Info) : (eraseDirI i).valid = i.valid := by
  unfold eraseDirI; split <;> rfl

theorem eraseDirV_hasCtl (f : Forest) : hasCtl (eraseDirV f) = hasCtl f := by
  induction f with
  | nil => rfl
  | cons i kids rest _ ih2 => simp [eraseDirV, hasCtl, ih2]

theorem eraseDirV_get (f : Forest) (q : Path) :
    (eraseDirV f).get q = (f.get q).map fun x => (eraseDirI x.1, eraseDirV x.2) := by
  induction f generalizing q with
  | nil => simp [eraseDirV, Forest.get]
  | cons j kids rest ih1 ih2 =>
    cases q with
    | nil => simp [eraseDirV, Forest.get]
    | cons n t =>
      by_cases e : j.name = n
      · subst e
        cases t with
        | nil => simp [eraseDirV, Forest.get]
        | cons a b =>
          have := ih1 (a :: b)
          simp [eraseDirV, Forest.get] at this ⊢
          exact this
      · have := ih2 (n :: t)
        simp [eraseDirV, Forest.get, e] at this ⊢
        exact this

theorem eraseDirV_userDirs (c : Cfg) (f : Forest) : userDirs c (eraseDirV f) = userDirs c f := by
  unfold userDirs
  apply List.filter_congr
  intro n _
  rw [eraseDirV_get]
  cases f.get n <;> simp

theorem eraseDirV_checkNames (fmt : Fmt) (r : Bool) (f : Forest) (ns : List Path) :
    checkNames fmt r (eraseDirV f) ns = checkNames fmt r f ns := by
  induction ns with
  | nil => rfl
  | cons p ps ih =>
    have : ((eraseDirV f).get p).isNone = (f.get p).isNone := by
      rw [eraseDirV_get]; cases f.get p <;> rfl
    simp only [checkNames, this, ih]

/-- git: `step` does not look at the conversions of phase 1 -/
theorem step_git_pre (hf : c.fmt = .git) (hu : pre'.ud = pre.ud) (p : Path) (m : Mode) (i : Info) (k : Forest) :
    step c pre' p m i k = step c pre p m i k := by
  rw [step_git hf, step_git hf, hu]

theorem pass_git_pre (hf : c.fmt = .git) (hu : pre'.ud = pre.ud) (here : Path) (m : Mode) (f : Forest) :
    pass c pre' here m f = pass c pre here m f := by
  induction f generalizing here m with
  | nil => rfl
  | cons i kids rest ih1 ih2 => simp only [pass, step_git_pre hf hu, ih1, ih2]

/-- git: one entry — erasing the directory flag commutes with `step` -/
theorem step_git_erase (hf : c.fmt = .git) (p : Path) (m : Mode) (i : Info) (k : Forest) :
    ({ eraseDirI i with versioned := (step c pre p m (eraseDirI i) (eraseDirV k)).1 } : Info)
        = eraseDirI { i with versioned := (step c pre p m i k).1 } ∧
      (step c pre p m (eraseDirI i) (eraseDirV k)).2 = (step c pre p m i k).2 := by
  rw [step_git hf, step_git hf]
  have ho : opens c p (eraseDirI i) (eraseDirV k) = opens c p i k := by
    simp [opens, passedOver, eraseDirV_hasCtl]
  have hs : sched c pre.ud p (eraseDirI i) = sched c pre.ud p i := by simp [sched]
  have hp : onPath c p (eraseDirI i) = onPath c p i := by simp [onPath]
  simp only [ho, hs, hp, eraseDirI_kind, eraseDirI_ignored, eraseDirI_helper]
  by_cases hk : i.kind = .dir
  · have hk' : (i.kind == Kind.dir) = true := by simp [hk]
    have hop : onPath c p i = false := by simp [onPath, hf, hk]
    simp only [eraseDirI, hk', if_true, flagB, visB, hop]
    constructor
    · cases (m == Mode.walk && (!p.head? == some ".git" && if false = true then false || false || !i.ignored else !i.ignored) ||
          sched c pre.ud p i && !(false && false && false)) <;> simp
    · simp
  · have hk' : (i.kind == Kind.dir) = false := by simp [hk]
    simp [eraseDirI, hk']

theorem pass_git_erase (hf : c.fmt = .git) (here : Path) (m : Mode) (f : Forest) :
    pass c pre here m (eraseDirV f) = eraseDirV (pass c pre here m f) := by
  induction f generalizing here m with
  | nil => rfl
  | cons i kids rest ih1 ih2 =>
    have hs := step_git_erase (c := c) (pre := pre) hf (here ++ [i.name]) m i kids
    simp only [pass, eraseDirV]
    congr 1
    · simpa only [eraseDirI_name] using hs.1
    · rw [eraseDirI_name, hs.2, ih1]
    · exact ih2 _ _

end BreezyVerif.C11
