"""C14 family contentless-entry-moved-below-a-file.

A registered tree path without contents (it does not exist, or its contents are deleted) is
moved below a file.  _parent_type_conflicts ignores parents whose children have no contents, so
find_raw_conflicts() is empty, yet
 (a) unversioned entry, bzr and git: _apply_insertions renames limbo/<id> to <file>/<name>, the OS
     answers ENOTDIR (not the ENOENT the code swallows): apply() raises TransformRenameFailed
     (rolled back);
 (b) versioned entry (bzr): the inventory delta puts the entry below a file: InconsistentDelta
     ("This parent is not a directory") after the files have been moved — partially applied.
Exit 1 = defect present, 0 = absent."""
import sys
from _boot import *
bad = 0
for fmt in ("2a", "git"):
    wt = make_tree(fmt, [("c", "file", "C", True)])
    tt = wt.transform()
    try:
        tt.adjust_path("f", tt.trans_id_tree_path("c"), tt.trans_id_tree_path("y"))
        print("(a) %s raw conflicts:" % fmt, tt.find_raw_conflicts())
        resolve_conflicts(tt)
        tt.apply()
        print("(a) %s applied" % fmt)
    except MalformedTransform as e:
        print("(a) MalformedTransform (acceptable)", e.conflicts)
    except Exception as e:
        print("(a) %s DEFECT: conflict-free transform does not apply: %s" % (fmt, type(e).__name__))
        bad = 1
    finally:
        try:
            tt.finalize()
        except Exception as e:
            print("    finalize:", type(e).__name__)
wt = make_tree("2a", [("b", "directory", "", True), ("c", "file", "C", True)])
before = listing(wt)
tt = wt.transform()
try:
    b = tt.trans_id_tree_path("b")
    tt.delete_contents(b)
    tt.adjust_path("f", tt.trans_id_tree_path("c"), b)
    print("(b) raw conflicts:", tt.find_raw_conflicts())
    resolve_conflicts(tt)
    tt.apply()
    print("(b) applied", listing(wt))
except MalformedTransform as e:
    print("(b) MalformedTransform (acceptable)", e.conflicts)
except Exception as e:
    after = listing(wt)
    print("(b) DEFECT: apply raised %s; tree %s" % (type(e).__name__, "PARTIALLY APPLIED %r -> %r" % (before, after) if after != before else "unchanged"))
    bad = 1
finally:
    try:
        tt.finalize()
    except Exception as e:
        print("    finalize:", type(e).__name__)
sys.exit(bad)
