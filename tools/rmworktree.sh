#!/bin/sh
d=/var/tmp/wt-$1
git -C /repo worktree remove --force "$d" 2>/dev/null || rm -rf "$d"
rm -rf "/var/tmp/wt-$1-target"
git -C /repo worktree prune
