import BreezyVerif.Lemmas.C27
/-!
C27 — lock operations leave recoverable state at every crash point.

As in C26 the theorems quantify over every event list: every interleaving of
every program of any number of lockers, where any process may stop at any point
(`Ev.crash`, or simply no further events for it: every reachable state *is* a
crash point of every running operation) and any transport call may raise
(`Ev.fault`).  Nothing restricts who breaks which lock here.
-/
namespace BreezyVerif.C27
open BreezyVerif.C26

/-- **Every crash point is recoverable.**  Starting from a lock that is free or held
with readable info, after any events whatsoever the lock on disk is again
`Free` or `HeldReadable` — `info` is written before the rename into place and
deleted only after the rename away. -/
theorem crash_recoverable (cfg : Nat → Cfg) (h0 : Option Dir) (evs : List Ev)
    (h : recoverable h0 = true) : recoverable ((Sys.init cfg h0).run evs).held = true :=
  (RInv.run ⟨h, PendOk.init cfg h0⟩ evs).disk

example : recoverable (some (some (.ok ⟨7, 3⟩))) = true ∧ recoverable none = true ∧
    recoverable (some none) = false ∧ recoverable (some (some (.bad 1))) = false := by decide

/-- the directory a locker is about to rename into place always carries its complete info
(whatever else happened, including faults and leftovers of crashed lockers) -/
theorem pending_complete (cfg : Nat → Cfg) (h0 : Option Dir) (evs : List Ev) (i : Nat)
    (h : (((Sys.init cfg h0).run evs).lk i).pc = .aRename) :
    (((Sys.init cfg h0).run evs).lk i).pend =
      some (some (.ok ⟨i, (((Sys.init cfg h0).run evs).lk i).nonce⟩)) :=
  (PendOk.init cfg h0).run evs i (by simp [h, Pc.hasPend])

/-- a free lock is acquired directly by any idle live locker: mkdir, put, rename, peek -/
theorem fresh_acquires_free (s : Sys) (i : Nat) (hfree : s.held = none) (hidle : (s.lk i).pc = .idle)
    (hal : s.crashed i = false) :
    ((s.run (acquireEvs i)).lk i).held = true ∧ ((s.run (acquireEvs i)).lk i).last = .ok ∧
      ownerOf (s.run (acquireEvs i)).held = some i := by
  simp [acquireEvs, Sys.run, Sys.step, hal, hidle, hfree, startOp, lstep, peekDir, Locker.done, ownerOf]

/-- a lock held with readable info is freed by `break_lock` of any idle live locker that does not hold it,
which then acquires it -/
theorem fresh_acquires_after_break (s : Sys) (i : Nat) (x : Nonce) (hheld : s.held = some (some (.ok x)))
    (hidle : (s.lk i).pc = .idle) (hnh : (s.lk i).held = false) (hal : s.crashed i = false) :
    (s.run (breakEvs i)).held = none ∧ ((s.run (breakEvs i)).lk i).last = .broken ∧
      ((s.run (breakEvs i ++ acquireEvs i)).lk i).held = true ∧
      ownerOf (s.run (breakEvs i ++ acquireEvs i)).held = some i := by
  simp [breakEvs, acquireEvs, Sys.run, Sys.step, hal, hidle, hnh, hheld, startOp, lstep, peekDir,
    Locker.done, ownerOf]

/-- the hypotheses of the three recovery theorems are satisfiable (free / readable / corrupt lock, idle live locker) -/
example :
    let cfg : Nat → Cfg := fun _ => ⟨1, 1, false⟩
    ((Sys.init cfg).held = none ∧ ((Sys.init cfg).lk 5).pc = .idle ∧ (Sys.init cfg).crashed 5 = false) ∧
    ((Sys.init cfg (some (some (.ok ⟨9, 2⟩)))).held = some (some (.ok ⟨9, 2⟩)) ∧
      ((Sys.init cfg (some (some (.ok ⟨9, 2⟩)))).lk 5).held = false) ∧
    ((Sys.init cfg (some (some (.bad 3)))).held = some (some (.bad 3)) ∧
      (((Sys.init cfg (some (some (.bad 3)))).run (breakCorruptEvs 5 ++ acquireEvs 5)).lk 5).last = .ok) := by
  decide +kernel

/-- **Recovery after any crash**: whatever happened before (any interleaving, crashes, faults, breaks), a live
idle locker that does not hold the lock acquires it directly or after one explicit break. -/
theorem recover_after_any_crash (cfg : Nat → Cfg) (h0 : Option Dir) (evs : List Ev) (i : Nat)
    (h : recoverable h0 = true)
    (hidle : (((Sys.init cfg h0).run evs).lk i).pc = .idle)
    (hnh : (((Sys.init cfg h0).run evs).lk i).held = false)
    (hal : ((Sys.init cfg h0).run evs).crashed i = false) :
    ((((Sys.init cfg h0).run evs).run (acquireEvs i)).lk i).held = true ∨
      ((((Sys.init cfg h0).run evs).run (breakEvs i ++ acquireEvs i)).lk i).held = true := by
  have hr := crash_recoverable cfg h0 evs h
  generalize (Sys.init cfg h0).run evs = s at *
  match hs : s.held with
  | none => exact Or.inl (fresh_acquires_free s i hs hidle hal).1
  | some (some (.ok x)) => exact Or.inr (fresh_acquires_after_break s i x hs hidle hnh hal).2.2.1
  | some none => simp [hs, recoverable, classify] at hr
  | some (some (.bad t)) => simp [hs, recoverable, classify] at hr

/-- non-vacuity: a locker crashes after each call of its attempt / unlock; a second locker recovers -/
example : ∀ k ∈ [0, 1, 2, 3, 4, 5, 6, 7, 8, 9],
    let evs := ([.start 0 .attempt, .step 0, .step 0, .step 0, .step 0, .start 0 .unlock, .step 0, .step 0,
      .step 0, .step 0] : List Ev).take k ++ [.crash 0]
    let s := (Sys.init (fun _ => ⟨1, 1, false⟩)).run evs
    (s.lk 1).pc = .idle ∧ (s.lk 1).held = false ∧ s.crashed 1 = false ∧
      (((s.run (acquireEvs 1)).lk 1).held = true ∨ ((s.run (breakEvs 1 ++ acquireEvs 1)).lk 1).held = true) := by
  decide +kernel

/-- if `held/` carries unparsable info, `break_lock` (→ `force_break_corrupt`) of any idle live locker frees it -/
theorem corrupt_info_break (s : Sys) (i : Nat) (t : Nat) (hheld : s.held = some (some (.bad t)))
    (hidle : (s.lk i).pc = .idle) (hnh : (s.lk i).held = false) (hal : s.crashed i = false) :
    (s.run (breakCorruptEvs i)).held = none ∧ ((s.run (breakCorruptEvs i)).lk i).last = .broken ∧
      ((s.run (breakCorruptEvs i ++ acquireEvs i)).lk i).held = true := by
  simp [breakCorruptEvs, acquireEvs, Sys.run, Sys.step, hal, hidle, hnh, hheld, startOp, lstep, peekDir,
    Locker.done]

/-- **A failed acquisition does not leave the lock held by the failing process (partial).**  In every reachable
state: if the lock on disk carries locker `i`'s info, then `i` believes it holds the lock, or is just about to
confirm it (`aConfirm`), or — the missing part — a transport error hit `i`'s confirming `peek` right after
its rename succeeded (`orphan i`); see `failed_attempt_witness`. -/
theorem failed_attempt_not_held_partial (cfg : Nat → Cfg) (h0 : Option Dir) (evs : List Ev) (i : Nat)
    (h : ownerOf h0 ≠ some i) (ho : ownerOf ((Sys.init cfg h0).run evs).held = some i) :
    (((Sys.init cfg h0).run evs).lk i).held = true ∨ (((Sys.init cfg h0).run evs).lk i).pc = .aConfirm ∨
      ((Sys.init cfg h0).run evs).orphan i = true := by
  have inv : OInv i ((Sys.init cfg h0).run evs) :=
    OInv.run ⟨PendOk.init cfg h0, fun ho => absurd ho h⟩ evs
  rcases inv.own ho with h1 | h1 | h1
  · exact Or.inl h1
  · exact Or.inr (Or.inr h1)
  · exact Or.inr (Or.inl h1.1)

/-- non-vacuity: the lock on disk carries locker 0's info right after its rename (second disjunct), and after
its confirming peek (first disjunct); neither run involves a fault -/
example :
    let cfg : Nat → Cfg := fun _ => ⟨1, 1, false⟩
    let s3 := (Sys.init cfg).run [.start 0 .attempt, .step 0, .step 0, .step 0]
    let s4 := s3.run [.step 0]
    ownerOf s3.held = some 0 ∧ (s3.lk 0).pc = .aConfirm ∧ (s3.lk 0).held = false ∧
      ownerOf s4.held = some 0 ∧ (s4.lk 0).held = true ∧ s4.orphan 0 = false := by
  decide +kernel

/-- the `orphan` flag is raised only by a fault injected into a confirming peek -/
theorem orphan_only_by_fault_at_confirm (s : Sys) (e : Ev) (i : Nat) (h : (s.step e).orphan i = true) :
    s.orphan i = true ∨ (∃ k, e = .fault i k ∧ (s.lk i).pc = .aConfirm) := by
  cases e with
  | crash a => exact Or.inl h
  | start a op => simp only [Sys.step] at h; split at h <;> (try split at h) <;> exact Or.inl h
  | step a => simp only [Sys.step] at h; split at h <;> exact Or.inl h
  | fault a k =>
    simp only [Sys.step] at h
    split at h
    · exact Or.inl h
    · split at h
      · rename_i hpc
        by_cases hi : i = a
        · subst hi; exact Or.inr ⟨k, rfl, hpc⟩
        · simp [upd, hi] at h; exact Or.inl h
      · exact Or.inl h

/-- **Witness (finding).**  Locker 0 attempts the free lock; its rename succeeds; the confirming `peek`
raises a transport error: `attempt_lock` fails, `_lock_held` is false, and the lock on disk stays held with
locker 0's info. -/
theorem failed_attempt_witness :
    let s := (Sys.init (fun _ => ⟨1, 1, false⟩)).run
      [.start 0 .attempt, .step 0, .step 0, .step 0, .fault 0 .T]
    (s.lk 0).pc = .idle ∧ (s.lk 0).last = .faultT ∧ (s.lk 0).held = false ∧
      s.held = some (some (.ok ⟨0, 1⟩)) := by
  decide +kernel

/-- `_lock_held` is set only by a confirming peek that reads the locker's own nonce; faults never set it -/
theorem flag_set_only_by_successful_confirm (id : Nat) (cfg : Nat → Cfg) (crashed : Nat → Bool) (me : Locker)
    (held : Option Dir) (k : FaultKind) :
    ((lstep id cfg crashed me held).1.held = true →
      me.held = true ∨ (me.pc = .aConfirm ∧ held = some (some (.ok ⟨id, me.nonce⟩)))) ∧
    (lfault k me).held = me.held := by
  refine ⟨fun h => ?_, lfault_held k me⟩
  rcases lstep_flag id cfg crashed me held h with h1 | ⟨h1, h2, _⟩
  · exact Or.inl h1
  · exact Or.inr ⟨h1, h2⟩

/-- a fault at any call of an attempt other than the confirming peek: the failed attempt leaves `held/`
exactly as it was and `_lock_held` false (solo run to completion; `k` = index of the failing call) -/
theorem failed_attempt_solo (s : Sys) (i : Nat) (fk : FaultKind) (k : Nat) (hk : k < 3)
    (hidle : (s.lk i).pc = .idle) (hnh : (s.lk i).held = false) (hal : s.crashed i = false)
    (hsteal : (s.cfg i).steal = false) :
    let evs := [Ev.start i .attempt] ++ List.replicate k (Ev.step i) ++ [Ev.fault i fk] ++
      List.replicate 4 (Ev.step i)
    (s.run evs).held = s.held ∧ ((s.run evs).lk i).held = false ∧ ((s.run evs).lk i).pc = .idle := by
  have hk' : k = 0 ∨ k = 1 ∨ k = 2 := by omega
  rcases hk' with rfl | rfl | rfl
  · simp [Sys.run, Sys.step, hal, hidle, hnh, startOp, lstep, lfault, Locker.done]
  · simp [Sys.run, Sys.step, hal, hidle, hnh, startOp, lstep, lfault, Locker.done, dropPend]
  · cases hh : s.held with
    | none =>
      simp [Sys.run, Sys.step, hal, hidle, hnh, hh, startOp, lstep, lfault, Locker.done, dropPend, peekDir]
    | some d =>
      cases hp : peekDir (some d) <;>
        simp [Sys.run, Sys.step, hal, hidle, hnh, hh, hp, hsteal, startOp, lstep, lfault, Locker.done,
          dropPend]

/-- non-vacuity of `failed_attempt_solo`: the rename of a contended attempt raises; the attempt cleans up its
pending directory and fails with the other holder's lock untouched -/
example :
    let cfg : Nat → Cfg := fun _ => ⟨1, 1, false⟩
    let s := (Sys.init cfg (some (some (.ok ⟨9, 2⟩))))
    let evs := [Ev.start 0 .attempt] ++ List.replicate 2 (Ev.step 0) ++ [Ev.fault 0 .P] ++ List.replicate 4 (Ev.step 0)
    (s.lk 0).pc = .idle ∧ (s.cfg 0).steal = false ∧ (s.run evs).held = s.held ∧
      ((s.run evs).lk 0).last = .contention ∧ ((s.run evs).lk 0).pend = none ∧ ((s.run evs).lk 0).junk = [] := by
  decide +kernel

end BreezyVerif.C27
