import BreezyVerif.Lemmas.C29CK
import BreezyVerif.Lemmas.C29Misc
/-!
C29 — smart protocol messages survive the wire unchanged.

For every decoder `D ∈ {LengthPrefixedBodyDecoder (LP), ChunkedBodyDecoder (CK),
ProtocolThreeDecoder (V3), SmartServerRequestProtocolOne/Two (Req)}`:

* `*_feed_append`: `accept_bytes(a); accept_bytes(b)` leaves the decoder in exactly
  the state `accept_bytes(a ++ b)` does — for EVERY state (not only reachable
  ones) and all byte strings, hence
* `*_segmentation_independent`: any two ways of cutting the same byte stream
  into (at least one) reads give the same state, and
* `*_roundtrip`: decoding `encode m ++ rest`, cut into reads arbitrarily, ends
  finished with exactly `m` decoded and `unused_data = rest`.

All statements are unbounded (any sizes, any number of reads).
-/
namespace BreezyVerif.C29

/-- generic corollary of an append law: the state only depends on the concatenation -/
theorem segmentation_of_append {S : Type} (feed : S → Bytes → S)
    (happ : ∀ s a b, feed (feed s a) b = feed s (a ++ b))
    (s : S) (segs₁ segs₂ : List Bytes) (h₁ : segs₁ ≠ []) (h₂ : segs₂ ≠ [])
    (h : segs₁.flatten = segs₂.flatten) :
    feedAll feed s segs₁ = feedAll feed s segs₂ := by
  match segs₁, segs₂, h₁, h₂ with
  | a :: r₁, b :: r₂, _, _ =>
    simp only [feedAll, feedAll_eq_of_append feed happ]
    simp only [List.flatten_cons] at h
    rw [h]

/-! ## LengthPrefixedBodyDecoder -/

theorem lp_feed_append (s : LP) (a b : Bytes) : (s.feed a).feed b = s.feed (a ++ b) :=
  LP.feed_append s a b

theorem lp_segmentation_independent (s : LP) (segs₁ segs₂ : List Bytes)
    (h₁ : segs₁ ≠ []) (h₂ : segs₂ ≠ []) (h : segs₁.flatten = segs₂.flatten) :
    feedAll LP.feed s segs₁ = feedAll LP.feed s segs₂ :=
  segmentation_of_append LP.feed LP.feed_append s _ _ h₁ h₂ h

/-- `_encode_bulk_data(body)` followed by any bytes `rest`, delivered in any
reads: the decoder finishes with exactly `body` and `unused_data = rest`. -/
theorem lp_roundtrip (body rest : Bytes) (segs : List Bytes) (hne : segs ≠ [])
    (h : segs.flatten = lpEncode body ++ rest) :
    feedAll LP.feed LP.init segs = .done body rest := by
  match segs, hne with
  | a :: r, _ =>
    simp only [feedAll, feedAll_eq_of_append LP.feed LP.feed_append]
    simp only [List.flatten_cons] at h
    rw [h, LP.feed_init_encode]

/-- `read_pending_data()` between reads does not change what is decoded: the bytes
returned before plus the bytes returned after equal what an undrained decoder returns -/
theorem lp_drain_commutes (s : LP) (x : Bytes) :
    (LP.drain (LP.feed (LP.drain s).2 x)).2 = (LP.drain (LP.feed s x)).2 ∧
    (LP.drain s).1 ++ (LP.drain (LP.feed (LP.drain s).2 x)).1 = (LP.drain (LP.feed s x)).1 :=
  LP.drain_feed s x

example : feedAll LP.feed LP.init [[51], [10, 97], [98, 99, 100, 111], [110, 101, 10, 88]]
    = .done [97, 98, 99] [88] := by decide

/-! ## ChunkedBodyDecoder -/

theorem ck_feed_append (s : CK) (a b : Bytes) : (s.feed a).feed b = s.feed (a ++ b) :=
  CK.feed_append s a b

theorem ck_segmentation_independent (s : CK) (segs₁ segs₂ : List Bytes)
    (h₁ : segs₁ ≠ []) (h₂ : segs₂ ≠ []) (h : segs₁.flatten = segs₂.flatten) :
    feedAll CK.feed s segs₁ = feedAll CK.feed s segs₂ :=
  segmentation_of_append CK.feed CK.feed_append s _ _ h₁ h₂ h

/-- `_send_stream` of any chunks, optionally ended by a
`FailedSmartServerResponse(args)` (an error raised mid-stream), followed by any
`rest`, delivered in any reads: the decoder yields exactly those chunks, then the
failure, and `unused_data = rest`. -/
theorem ck_roundtrip (chunks : List Bytes) (err : Option (List Bytes)) (rest : Bytes)
    (segs : List Bytes) (hne : segs ≠ []) (h : segs.flatten = ckEncode chunks err ++ rest) :
    feedAll CK.feed CK.init segs = .done (ckExpected chunks err) rest := by
  match segs, hne with
  | a :: r, _ =>
    simp only [feedAll, feedAll_eq_of_append CK.feed CK.feed_append]
    simp only [List.flatten_cons] at h
    rw [h, CK.feed_init_encode]

example : feedAll CK.feed CK.init
    [[99, 104, 117, 110, 107], [101, 100, 10, 50, 10, 97], [98, 69, 82, 82, 10, 49, 10, 120, 69],
     [78, 68, 10, 33]]
    = .done [.data [97, 98], .failure [[120]]] [33] := by decide +kernel

/-! ## ProtocolThreeDecoder -/

theorem v3_feed_append (s : V3) (a b : Bytes) : (s.feed a).feed b = s.feed (a ++ b) :=
  V3.feed_append s a b

theorem v3_segmentation_independent (s : V3) (segs₁ segs₂ : List Bytes)
    (h₁ : segs₁ ≠ []) (h₂ : segs₂ ≠ []) (h : segs₁.flatten = segs₂.flatten) :
    feedAll V3.feed s segs₁ = feedAll V3.feed s segs₂ :=
  segmentation_of_append V3.feed V3.feed_append s _ _ h₁ h₂ h

/-- Server side (the medium has consumed the version marker): headers, any
sequence of parts (`o?`, `b…`, `s…`) and the final `e`, followed by any `rest`,
in any reads: the handler receives exactly those parts in order, then
`end_received`, and `unused_data = rest`.  Each length must fit `struct.pack("!L")`. -/
theorem v3_roundtrip_server (headers : Bytes) (parts : List Part) (rest : Bytes)
    (hh : headers.length < 4294967296) (hp : V3.partsOk parts = true)
    (segs : List Bytes) (hne : segs ≠ []) (h : segs.flatten = v3EncodeBody headers parts ++ rest) :
    feedAll V3.feed (V3.init false) segs
      = .done (.headers headers :: (parts.map Part.ev ++ [.end_])) rest := by
  match segs, hne with
  | a :: r, _ =>
    simp only [feedAll, feedAll_eq_of_append V3.feed V3.feed_append]
    simp only [List.flatten_cons] at h
    rw [h]
    simp only [V3.init, Bool.false_eq_true, if_false, V3.feed_run, List.nil_append]
    rw [V3.proc_headers_encode _ _ _ _ hh hp]
    rfl

/-- Client side (`expect_version_marker=True`): the same for a whole message
including the version marker. -/
theorem v3_roundtrip_client (headers : Bytes) (parts : List Part) (rest : Bytes)
    (hh : headers.length < 4294967296) (hp : V3.partsOk parts = true)
    (segs : List Bytes) (hne : segs ≠ []) (h : segs.flatten = v3Encode headers parts ++ rest) :
    feedAll V3.feed (V3.init true) segs
      = .done (.headers headers :: (parts.map Part.ev ++ [.end_])) rest := by
  match segs, hne with
  | a :: r, _ =>
    simp only [feedAll, feedAll_eq_of_append V3.feed V3.feed_append]
    simp only [List.flatten_cons] at h
    rw [h]
    simp only [V3.init, if_true, V3.feed_run, List.nil_append]
    exact V3.proc_version_encode _ _ _ hh hp

example : V3.partsOk [.byte 83, .struct [108, 101], .bytes [1, 2, 3]] = true := by decide

/-- the bencoded argument list written by `_write_structure(args)` decodes to `args` -/
theorem v3_args_bencode_roundtrip (args : List Bytes) :
    bdecodeArgs (bencodeArgs args) = some args :=
  bdecodeArgs_bencodeArgs args

/-! ### conventional response on top of the v3 framing -/

/-- what `ConventionalResponseHandler` should hold after a response -/
def respExpected (ok : Bool) (args : Bytes) : RespBody → Resp
  | .none_ => { status := some (if ok then 83 else 69), args := some args, ended := true }
  | .body b => { status := some (if ok then 83 else 69), args := some args, parts := [b],
                 bodyStarted := true, ended := true }
  | .stream cs none => { status := some (if ok then 83 else 69), args := some args, parts := cs,
                         bodyStarted := !cs.isEmpty, ended := true }
  | .stream cs (some e) => { status := some (if ok then 83 else 69), args := some args, parts := cs,
                             bodyStarted := true, streamStatus := some 69, errArgs := some e,
                             ended := true }

/-- the input family on which the real handler fails (see `resp_stream_error_first_witness`) -/
def errorBeforeFirstChunk : RespBody → Bool
  | .stream [] (some _) => true
  | _ => false

/-- PARTIAL (the code as found, `fx = false`): status, args, body / streamed chunks and a
mid-stream error reach the response handler unchanged — except when the stream fails
before its first chunk (excluded by `hex`; that family is a real defect of the code,
witnessed below). -/
theorem resp_handler_roundtrip_partial (ok : Bool) (headers args : Bytes) (body : RespBody)
    (hex : errorBeforeFirstChunk body = false) :
    Resp.run false {} (.headers headers :: ((respParts ok args body).map Part.ev ++ [.end_]))
      = .ok (respExpected ok args body) := by
  cases body with
  | none_ => cases ok <;> simp [respParts, Resp.run, Resp.step, Part.ev, respExpected]
  | body b => cases ok <;> simp [respParts, Resp.run, Resp.step, Part.ev, respExpected]
  | stream cs err =>
    have hmap : ∀ l : List Bytes, List.map Part.ev (List.map Part.bytes l) = l.map Ev.bytes := by
      intro l; simp [Part.ev]
    cases err with
    | none =>
      cases cs with
      | nil => cases ok <;> simp [respParts, Resp.run, Resp.step, Part.ev, respExpected]
      | cons c cs' =>
        simp only [respParts, List.append_nil, List.map_append, List.map_cons, List.map_nil,
          List.cons_append, List.nil_append, Resp.run, Resp.step, Part.ev, hmap, List.append_assoc]
        cases ok <;>
        · simp only [Bool.false_eq_true, if_false, if_true]
          simp [Resp.run_append, Resp.run_bytes, Resp.run, Resp.step, respExpected]
    | some e =>
      cases cs with
      | nil => simp [errorBeforeFirstChunk] at hex
      | cons c cs' =>
        simp only [respParts, List.map_append, List.map_cons, List.map_nil,
          List.cons_append, List.nil_append, Resp.run, Resp.step, Part.ev, hmap, List.append_assoc]
        cases ok <;>
        · simp only [Bool.false_eq_true, if_false, if_true]
          simp [Resp.run_append, Resp.run_bytes, Resp.run, Resp.step, respExpected]

example : errorBeforeFirstChunk (.stream [[1, 2]] (some [108, 101])) = false := by decide

/-- WITNESS (finding F15, code as found): a successful response whose body stream fails
before yielding a chunk is written as `oS s(args) oE s(err) e`; the response handler
takes the `oE` for a second status byte and raises instead of delivering `err`. -/
theorem resp_stream_error_first_witness :
    Resp.run false {} (.headers [100, 101] ::
        ((respParts true [108, 101] (.stream [] (some [108, 101]))).map Part.ev ++ [.end_]))
      = .error .unexpectedByte := by
  simp [respParts, Resp.run, Resp.step, Part.ev]

/-- expected handler state for the handler with the proposed fix: as `respExpected`,
and a stream that failed before its first chunk delivers its error too -/
def respExpectedFixed (ok : Bool) (args : Bytes) : RespBody → Resp
  | .stream [] (some e) => { status := some (if ok then 83 else 69), args := some args,
                             streamStatus := some 69, errArgs := some e, ended := true }
  | b => respExpected ok args b

/-- With the proposed fix (`fx = true`) the round trip holds for EVERY conventional
response, including a body stream that fails before its first chunk. -/
theorem resp_handler_roundtrip_fixed (ok : Bool) (headers args : Bytes) (body : RespBody) :
    Resp.run true {} (.headers headers :: ((respParts ok args body).map Part.ev ++ [.end_]))
      = .ok (respExpectedFixed ok args body) := by
  cases body with
  | none_ => cases ok <;> simp [respParts, Resp.run, Resp.step, Part.ev, respExpected, respExpectedFixed]
  | body b => cases ok <;> simp [respParts, Resp.run, Resp.step, Part.ev, respExpected, respExpectedFixed]
  | stream cs err =>
    have hmap : ∀ l : List Bytes, List.map Part.ev (List.map Part.bytes l) = l.map Ev.bytes := by
      intro l; simp [Part.ev]
    cases err with
    | none =>
      cases cs with
      | nil => cases ok <;> simp [respParts, Resp.run, Resp.step, Part.ev, respExpected, respExpectedFixed]
      | cons c cs' =>
        simp only [respParts, List.append_nil, List.map_append, List.map_cons, List.map_nil,
          List.cons_append, List.nil_append, Resp.run, Resp.step, Part.ev, hmap, List.append_assoc]
        cases ok <;>
        · simp only [Bool.false_eq_true, if_false, if_true]
          simp [Resp.run_append, Resp.run_bytes, Resp.run, Resp.step, respExpected, respExpectedFixed]
    | some e =>
      cases cs with
      | nil => cases ok <;> simp [respParts, Resp.run, Resp.step, Part.ev, respExpectedFixed]
      | cons c cs' =>
        simp only [respParts, List.map_append, List.map_cons, List.map_nil,
          List.cons_append, List.nil_append, Resp.run, Resp.step, Part.ev, hmap, List.append_assoc]
        cases ok <;>
        · simp only [Bool.false_eq_true, if_false, if_true]
          simp [Resp.run_append, Resp.run_bytes, Resp.run, Resp.step, respExpected, respExpectedFixed]

/-! ## protocol 1 / 2 -/

/-- `_decode_tuple(_encode_tuple(args)) == args` for every non-empty tuple whose
elements do not contain the separator byte `\x01` -/
theorem tuple_roundtrip (args : List Bytes) (h : tupleOk args = true) :
    decodeTuple (encodeTuple args) = .ok args :=
  decodeTuple_encodeTuple h

example : tupleOk [[104, 105], [], [10, 0, 255]] = true := by decide

/-- the two excluded families really do not round-trip (inherent to the v1/v2 wire format) -/
theorem tuple_empty_witness : decodeTuple (encodeTuple []) = .ok [[]] := by decide
theorem tuple_separator_witness : decodeTuple (encodeTuple [[97, 1, 98]]) = .ok [[97], [98]] := by
  decide

theorem req_feed_append (w : List Bytes → Bool) (s : Req) (a b : Bytes) :
    (s.feed w a).feed w b = s.feed w (a ++ b) :=
  Req.feed_append w s a b

/-- A version 1 (or, after the marker, version 2) request — argument tuple plus
an optional length-prefixed body — followed by any `rest`, in any reads: the
server protocol dispatches exactly `args`, hands the command exactly `body`, and
keeps `rest` as `unused_data` for the next request.  `w` says whether the verb
reads a body. -/
theorem req_roundtrip (w : List Bytes → Bool) (args : List Bytes) (body : Option Bytes)
    (rest : Bytes) (hok : Req.argsOk args = true) (hw : w args = body.isSome)
    (segs : List Bytes) (hne : segs ≠ []) (h : segs.flatten = reqEncode args body ++ rest) :
    feedAll (Req.feed w) (.line []) segs = .done args body rest := by
  match segs, hne with
  | a :: r, _ =>
    simp only [feedAll, feedAll_eq_of_append (Req.feed w) (Req.feed_append w)]
    simp only [List.flatten_cons] at h
    rw [h, Req.feed_init_encode w args body rest hok hw]

example : Req.argsOk [[103, 101, 116], [47, 97]] = true := by decide

end BreezyVerif.C29
