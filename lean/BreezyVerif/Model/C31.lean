import BreezyVerif.Common
/-
C31 — smart server clients cannot reach files outside the served directory.

Executable model, byte level (`Bytes = List UInt8`; client paths are UTF-8, every
delimiter the code looks at is ASCII).

breezy code modelled (anchors):
* `SmartServerRequest.__init__` root-client-path normalisation      → `normRoot`
* `SmartServerRequest.translate_client_path`                         → `translate`
* `VfsRequest.translate_client_path` (as found: unescape AFTER the
  normalising join; proposed fix: unescape BEFORE it)                → `vfsTranslate fx`
* `BzrServerFactory._expand_userdirs`                                → `expandUserdirs`
* `_pre_open_hook` (jail)                                            → `jailAllows`

external code (dromedary, compiled Rust) specified here and compared per case:
* `urlutils.joinpath("/", p)`, `escape`, `unescape`                  → `joinpathRoot`, `escape`, `unescape`
* the path combination of PathFilteringTransport / ChrootTransport   → `combine`
  (percent-normalisation of unreserved characters, then `.`/`..`/empty
  segment resolution clamped at the root)
* LocalTransport: `unescape`, NUL check, the OS resolving `..`        → `osString`, `osResolve`
* `os.path.expanduser` with an explicit user table                   → `expanduser`
* `Transport.relpath` as used by the jail                            → `isChildUrl`
-/
namespace BreezyVerif.C31

abbrev Seg := List UInt8

def SL : UInt8 := 47      -- '/'
def DOT : UInt8 := 46     -- '.'
def PCT : UInt8 := 37     -- '%'
def TILDE : UInt8 := 126  -- '~'

def dotSeg : Seg := [DOT]
def dotdot : Seg := [DOT, DOT]

inductive Err
  | unicode       -- client path is not UTF-8
  | aboveRoot     -- InvalidURLJoin from joinpath
  | notChild      -- PathNotChild
  | invalidUrl    -- InvalidURL('URL not ascii') from unescape
  | nul           -- embedded NUL refused by the OS layer
  | internal      -- unreachable branches of the transcribed code
  deriving DecidableEq, Repr

def Err.toString : Err → String
  | .unicode => "E:Unicode"
  | .aboveRoot => "E:AboveRoot"
  | .notChild => "E:NotChild"
  | .invalidUrl => "E:InvalidURL"
  | .nul => "E:Nul"
  | .internal => "E:Internal"

/-! ### splitting and joining on '/' (Python `str.split("/")`, `"/".join`) -/

def splitSl : Bytes → List Seg
  | [] => [[]]
  | c :: rest =>
    if c = SL then [] :: splitSl rest
    else match splitSl rest with
      | [] => [[c]]
      | s :: ss => (c :: s) :: ss

def joinSl : List Seg → Bytes
  | [] => []
  | [s] => s
  | s :: t :: ss => s ++ SL :: joinSl (t :: ss)

/-! ### UTF-8 validity (what `bytes.decode("utf-8")` / `String::from_utf8` accept) -/

def isCont (c : UInt8) : Bool := 128 ≤ c && c ≤ 191

def validUtf8 : Bytes → Bool
  | [] => true
  | c :: rest =>
    if c < 128 then validUtf8 rest
    else if 194 ≤ c && c ≤ 223 then
      match rest with
      | a :: r => isCont a && validUtf8 r
      | _ => false
    else if 224 ≤ c && c ≤ 239 then
      match rest with
      | a :: b :: r =>
        isCont a && isCont b
          && (c != 224 || 160 ≤ a) && (c != 237 || a ≤ 159) && validUtf8 r
      | _ => false
    else if 240 ≤ c && c ≤ 244 then
      match rest with
      | a :: b :: d :: r =>
        isCont a && isCont b && isCont d
          && (c != 240 || 144 ≤ a) && (c != 244 || a ≤ 143) && validUtf8 r
      | _ => false
    else false

/-! ### dromedary.urlutils: joinpath, escape, unescape -/

/-- one chunk of `joinpath`; the path is kept as a stack (last segment first) -/
def jpStep (stk : List Seg) (chunk : Seg) : Except Err (List Seg) :=
  if chunk = dotSeg then .ok stk
  else if chunk = dotdot then
    if stk = [[]] then .error .aboveRoot
    else match stk with
      | [] => .error .internal
      | _ :: t => .ok t
  else .ok (chunk :: stk)

def jpFold (stk : List Seg) : List Seg → Except Err (List Seg)
  | [] => .ok stk
  | c :: cs => match jpStep stk c with
    | .error e => .error e
    | .ok s => jpFold s cs

/-- `urlutils.joinpath("/", arg)`: base "/" is the path `[""]`; an argument
starting with "/" resets the path -/
def joinpathRoot (arg : Bytes) : Except Err Bytes :=
  let start : List Seg := if arg.head? = some SL then [] else [[]]
  match jpFold start (splitSl arg) with
  | .error e => .error e
  | .ok stk => if stk = [[]] then .ok [SL] else .ok (joinSl stk.reverse)

def isUnreserved (c : UInt8) : Bool :=
  (65 ≤ c && c ≤ 90) || (97 ≤ c && c ≤ 122) || (48 ≤ c && c ≤ 57)
    || c == 45 || c == 46 || c == 95 || c == 126

def isSafe (c : UInt8) : Bool := isUnreserved c || c == SL

/-- upper-case hex digit -/
def hexU (n : Nat) : UInt8 := if n < 10 then UInt8.ofNat (48 + n) else UInt8.ofNat (55 + n)

def hexV (c : UInt8) : Option Nat :=
  if 48 ≤ c && c ≤ 57 then some (c.toNat - 48)
  else if 65 ≤ c && c ≤ 70 then some (c.toNat - 55)
  else if 97 ≤ c && c ≤ 102 then some (c.toNat - 87)
  else none

/-- `urlutils.escape`: every byte of the UTF-8 form outside `A-Za-z0-9-._~/` becomes %XX -/
def escape : Bytes → Bytes
  | [] => []
  | c :: r =>
    if isSafe c then c :: escape r
    else PCT :: hexU (c.toNat / 16) :: hexU (c.toNat % 16) :: escape r

/-- percent-decoding to bytes; a '%' not followed by two hex digits is kept -/
def pctDecode : Bytes → Bytes
  | [] => []
  | [c] => [c]
  | [c, a] => [c, a]
  | c :: a :: b :: r =>
    if c = PCT then
      match hexV a, hexV b with
      | some x, some y => UInt8.ofNat (16 * x + y) :: pctDecode r
      | _, _ => c :: pctDecode (a :: b :: r)
    else c :: pctDecode (a :: b :: r)

/-- `urlutils.unescape` (str → str): non-ASCII input is refused; when the decoded
bytes are not UTF-8 the input comes back unchanged -/
def unescape (s : Bytes) : Except Err Bytes :=
  if s.any (fun c => 128 ≤ c) then .error .invalidUrl
  else
    let d := pctDecode s
    if validUtf8 d then .ok d else .ok s

/-! ### breezy/bzr/smart/request.py -/

/-- `SmartServerRequest.__init__`: the root client path gets a leading and a trailing "/" -/
def normRoot (rcp : Bytes) : Bytes :=
  let r := if rcp.head? = some SL then rcp else SL :: rcp
  if r.getLast? = some SL then r else r ++ [SL]

/-- `if not client_path.startswith("/"): client_path = "/" + client_path` -/
def addSlash (cp : Bytes) : Bytes := if cp.head? = some SL then cp else SL :: cp

/-- the body of `translate_client_path` once the client path starts with "/" -/
def translateAbs (root : Bytes) (cp : Bytes) : Except Err Bytes :=
  if cp ++ [SL] = root then .ok [DOT]
  else if root.isPrefixOf cp then
    match joinpathRoot (cp.drop root.length) with
    | .error e => .error e
    | .ok rel =>
      if rel.head? = some SL then .ok (escape (DOT :: rel)) else .error .internal
  else .error .notChild

/-- `SmartServerRequest.translate_client_path` (root already normalised) -/
def translate (root : Bytes) (cp : Bytes) : Except Err Bytes :=
  if !validUtf8 cp then .error .unicode
  else translateAbs root (addSlash cp)

/-- `VfsRequest.translate_client_path`.
`fx = false`: as found — translate, then unescape the result.
`fx = true` : proposed fix — unescape the client path, then translate. -/
def vfsTranslate (fx : Bool) (root : Bytes) (cp : Bytes) : Except Err Bytes :=
  if fx then
    if !validUtf8 cp then .error .unicode
    else match unescape cp with
      | .error e => .error e
      | .ok u => translate root u
  else
    match translate root cp with
    | .error e => .error e
    | .ok x => unescape x

/-! ### path combination of PathFilteringTransport / ChrootTransport (dromedary) -/

/-- %XX of an unreserved character is decoded, other valid escapes get upper-case hex -/
def normPct : Bytes → Bytes
  | [] => []
  | [c] => [c]
  | [c, a] => [c, a]
  | c :: a :: b :: r =>
    if c = PCT then
      match hexV a, hexV b with
      | some x, some y =>
        let v := UInt8.ofNat (16 * x + y)
        if isUnreserved v then v :: normPct r
        else PCT :: hexU x :: hexU y :: normPct r
      | _, _ => c :: normPct (a :: b :: r)
    else c :: normPct (a :: b :: r)

/-- one segment: empty and "." are dropped, ".." pops and is clamped at the root -/
def cmbStep (stk : List Seg) (seg : Seg) : List Seg :=
  if seg = [] || seg = dotSeg then stk
  else if seg = dotdot then stk.drop 1
  else seg :: stk

/-- combine the (stacked) base path of a transport with a relpath -/
def combine (baseStk : List Seg) (rel : Bytes) : List Seg :=
  let r := normPct rel
  let start := if r.head? = some SL then [] else baseStk
  (splitSl r).foldl cmbStep start

def stkPath (stk : List Seg) : Bytes := joinSl stk.reverse

/-! ### breezy/bzr/smart/server.py: `_expand_userdirs` -/

def withSlash (p : Bytes) : Bytes := if p.getLast? = some SL then p else p ++ [SL]

/-- `BzrServerFactory._expand_userdirs` for an arbitrary `userdir_expander` -/
def expandUserdirs (expander : Bytes → Bytes) (basePath : Bytes) (path : Bytes) : Bytes :=
  if path.head? = some TILDE then
    let expanded := withSlash (expander path)
    if basePath.isPrefixOf expanded then expanded.drop basePath.length else path
  else path

/-- PROPOSED FIX of `_expand_userdirs` (not in the tree; the harness probes which variant the
tree has): the URL-escaped path is unescaped before it is expanded, and the part of the
expanded OS path below the base path is escaped again -/
def expandUserdirsFx (expander : Bytes → Bytes) (basePath : Bytes) (path : Bytes) : Bytes :=
  if path.head? = some TILDE then
    match unescape path with
    | .error _ => path
    | .ok fs =>
      let expanded := withSlash (expander fs)
      if basePath.isPrefixOf expanded then escape (expanded.drop basePath.length) else path
  else path

def rstripSl (p : Bytes) : Bytes := (p.reverse.dropWhile (· = SL)).reverse

def lookupHome (tbl : List (Bytes × Bytes)) (name : Bytes) : Option Bytes :=
  match tbl.find? (fun e => e.1 = name) with
  | some e => some e.2
  | none => none

/-- `posixpath.expanduser` with the password database / $HOME given as a table
(name "" = the current user) -/
def expanduser (tbl : List (Bytes × Bytes)) (p : Bytes) : Bytes :=
  match p with
  | [] => p
  | c :: rest =>
    if c = TILDE then
      let name := rest.takeWhile (· ≠ SL)
      let tail := rest.dropWhile (· ≠ SL)
      match lookupHome tbl name with
      | none => p
      | some home =>
        let r := rstripSl home ++ tail
        if r = [] then [SL] else r
    else p

/-! ### the whole backing stack: userdir filter over chroot over a local directory -/

structure Cfg where
  /-- the served directory, as absolute path segments -/
  rootDir : List Seg
  /-- `None`: no userdir filter installed (base path unknown) -/
  basePath : Option Bytes
  filter : Bytes → Bytes

/-- the relpath that reaches the local transport for an operation on `rel`
issued on a transport cloned at `cloneStk` -/
def backingRel (cfg : Cfg) (cloneStk : List Seg) (rel : Bytes) : Bytes :=
  match cfg.basePath with
  | none => stkPath (combine cloneStk rel)
  | some _ =>
    let p1 := stkPath (combine cloneStk rel)
    stkPath (combine [] (cfg.filter p1))

/-- what LocalTransport hands to the operating system, relative to the served directory -/
def osRel (b : Bytes) : Except Err Bytes :=
  match unescape b with
  | .error e => .error e
  | .ok u => if u.contains 0 then .error .nul else .ok u

/-- the operating system resolving a path: "" and "." are skipped, ".." goes to
the parent (the parent of "/" is "/"); directories are assumed to exist and
not to be symlinks -/
def osStep (stk : List Seg) (seg : Seg) : List Seg :=
  if seg = [] || seg = dotSeg then stk
  else if seg = dotdot then stk.drop 1
  else seg :: stk

def osResolve (rootDir : List Seg) (rel : Bytes) : List Seg :=
  ((splitSl rel).foldl osStep rootDir.reverse).reverse

/-- absolute location (path segments) an operation on `rel` finally touches -/
def locate (cfg : Cfg) (cloneStk : List Seg) (rel : Bytes) : Except Err (List Seg) :=
  match osRel (backingRel cfg cloneStk rel) with
  | .error e => .error e
  | .ok u => .ok (osResolve cfg.rootDir u)

/-- "inside the served directory" -/
def inside (rootDir loc : List Seg) : Prop := rootDir <+: loc

instance (r l : List Seg) : Decidable (inside r l) := by unfold inside; infer_instance

/-! ### the jail (`_pre_open_hook`) -/

/-- `Transport.relpath(abspath)` does not raise PathNotChild -/
def isChildUrl (base url : Bytes) : Bool := url == base.dropLast || base.isPrefixOf url

/-- `_pre_open_hook`: `none` = no jail installed → everything allowed -/
def jailAllows (allowed : Option (List Bytes)) (url : Bytes) : Bool :=
  match allowed with
  | none => true
  | some bases => bases.any (fun b => isChildUrl b url)

/-! ### decidable shape predicates on URL paths -/

/-- the string is exactly what `urlutils.escape` produces (escape ∘ decode is the
identity on it): no escape of an unreserved character or of "/" (so no `%2E`,
`%2F`, `%41`), hex digits upper-case, every "%" starts an escape -/
def isCanon (p : Bytes) : Bool := escape (pctDecode p) == p

/-- every "%" starts an upper-case escape of a byte outside `A-Za-z0-9-._~/`;
all other bytes are arbitrary (space, non-ASCII, ...).  This is what a home
directory has to look like for `_expand_userdirs` to be harmless: in particular
every path without a "%" qualifies. -/
def isMild : Bytes → Bool
  | [] => true
  | [c] => c != PCT
  | [c, a] => c != PCT && a != PCT
  | c :: a :: b :: r =>
    if c = PCT then
      match hexV a, hexV b with
      | some x, some y =>
        a == hexU x && b == hexU y && !isSafe (UInt8.ofNat (16 * x + y)) && isMild r
      | _, _ => false
    else isMild (a :: b :: r)

/-- a URL path (or a relpath used below it) in normal form: canonical escaping
and no ".." segment.  "." and empty segments are allowed (they are harmless). -/
def normalisedUrl (p : Bytes) : Bool := isCanon p && (splitSl p).all (fun s => s != dotdot)

/-! ### a transport built from a URL (`get_transport_from_url(prefix ++ p)`)

Unlike a transport reached by `clone`, a Chroot/PathFiltering transport built
from a URL keeps the path AS WRITTEN for its operations, while its `.base` —
the string the jail looks at — has the dot segments resolved.  (Specified from
observation of compiled dromedary; compared per case, op `jurl`.) -/

def dotLike (s : Seg) : Bool := normPct s == dotSeg || normPct s == dotdot

/-- one segment of `.base`: compared after percent-normalisation, kept as written;
empty segments are kept -/
def baseStep (stk : List Seg) (seg : Seg) : List Seg :=
  if normPct seg = dotSeg then stk
  else if normPct seg = dotdot then stk.drop 1
  else seg :: stk

/-- path part of `get_transport_from_url(prefix ++ p).base` -/
def urlBase (p : Bytes) : Bytes :=
  let segs := splitSl p
  let segs := match segs.getLast? with
    | some l => if dotLike l then segs ++ [[]] else segs
    | none => segs
  let r := joinSl (segs.foldl baseStep []).reverse
  if r = [] then [] else withSlash r

/-- the path handed downwards for an operation on `rel` (a normal-form relpath):
the URL path as written, a "/", the relpath -/
def rawJoin (p rel : Bytes) : Bytes := if p = [] then rel else withSlash p ++ rel

/-- the relpath that reaches the local transport for an operation on `rel`
issued on the transport built from the URL `prefix ++ p`: the layer the URL
belongs to does not normalise; with a userdir filter installed the filter sees
the raw path and the chroot layer below it normalises once -/
def urlBackingRel (cfg : Cfg) (p rel : Bytes) : Bytes :=
  match cfg.basePath with
  | none => rawJoin p rel
  | some _ => stkPath (combine [] (cfg.filter (rawJoin p rel)))

/-- absolute location an operation on `rel` through the transport built from
the URL `prefix ++ p` finally touches -/
def urlLocate (cfg : Cfg) (p rel : Bytes) : Except Err (List Seg) :=
  match osRel (urlBackingRel cfg p rel) with
  | .error e => .error e
  | .ok u => .ok (osResolve cfg.rootDir u)

/-- a segment of a jail root reached by cloning the backing transport: canonical
escaping, no "/", not empty, not "." / ".." (clone drops / resolves those) -/
def goodJailSeg (s : Seg) : Bool :=
  isCanon s && !(s.contains SL) && decide (s ≠ [] ∧ s ≠ dotSeg) && s != dotdot

/-- path part of the `.base` of a transport reached by cloning: `a/b/` ("" for the root) -/
def cloneBase (stk : List Seg) : Bytes := if stk = [] then [] else stkPath stk ++ [SL]

/-! ## the jail state while several connections are served (`request.jail_info`)

`SmartTCPServer` serves every connection in its own thread.  `setup_jail` / `teardown_jail`
(run around every call into request-handler code) write `jail_info.transports`, and
`_pre_open_hook` reads it.  `jail_info` is a `threading.local`: one slot per thread
(`JailTL`).  `runShared` is the variant with one slot for the whole process. -/

abbrev Tid := Nat

inductive JOp where
  /-- `setup_jail()` on thread `t`: `jail_info.transports = [jail_root]` (bases of the allowed transports) -/
  | setup (t : Tid) (roots : List Bytes)
  /-- `teardown_jail()` on thread `t`: `jail_info.transports = None` -/
  | teardown (t : Tid)
  /-- `ControlDir.open…` on thread `t`: the pre_open hook is run on a transport with this `.base` -/
  | open_ (t : Tid) (url : Bytes)
  deriving DecidableEq, Repr

def JOp.tid : JOp → Tid
  | .setup t _ => t
  | .teardown t => t
  | .open_ t _ => t

/-- a write to this thread's own slot -/
def JOp.writes : JOp → Bool
  | .open_ .. => false
  | _ => true

/-- `threading.local`: every thread has its own `transports` (None until it sets it) -/
abbrev JailTL := Tid → Option (List Bytes)

def JailTL.init : JailTL := fun _ => none

def JailTL.set (st : JailTL) (t : Tid) (v : Option (List Bytes)) : JailTL :=
  fun u => if u = t then v else st u

def JailTL.step (st : JailTL) : JOp → JailTL
  | .setup t roots => st.set t (some roots)
  | .teardown t => st.set t none
  | .open_ .. => st

def JailTL.final (st : JailTL) : List JOp → JailTL
  | [] => st
  | op :: ops => JailTL.final (st.step op) ops

/-- for every open in the trace: (thread, did the hook let it through) -/
def runTL (st : JailTL) : List JOp → List (Tid × Bool)
  | [] => []
  | .open_ t url :: ops => (t, jailAllows (st t) url) :: runTL st ops
  | op :: ops => runTL (st.step op) ops

/-- one slot shared by all threads (a plain module-level object) -/
def sharedStep (st : Option (List Bytes)) : JOp → Option (List Bytes)
  | .setup _ roots => some roots
  | .teardown _ => none
  | .open_ .. => st

def runShared (st : Option (List Bytes)) : List JOp → List (Tid × Bool)
  | [] => []
  | .open_ t url :: ops => (t, jailAllows st url) :: runShared st ops
  | op :: ops => runShared (sharedStep st op) ops

end BreezyVerif.C31
