#!/venv/bin/python
"""C12 finding: `remove` (no --force, no --keep) deletes an UNKNOWN file without backup when its path is the
path of a file that is still in the basis tree but was removed from the working tree (brz rm f0; echo new > f0;
brz rm f0): the unversioned file at a removed path is not reported by iter_changes(want_unversioned=True), so it
never reaches files_to_backup, and InventoryWorkingTree.remove falls through to delete_any().

usage: repro_remove_unknown_at_removed_path.py [repo-root]   (exit 1 = user content lost)"""
import os, sys, tempfile, shutil
repo = sys.argv[1] if len(sys.argv) > 1 else os.environ.get("VERIF_REPO", "/repo")
sys.path.insert(0, repo)
home = tempfile.mkdtemp(prefix="c12repro-", dir="/var/tmp")
os.environ.update(HOME=home, BRZ_HOME=home, BRZ_EMAIL="t <t@example.com>", BRZ_PLUGIN_PATH="-user:-site", BRZ_LOG=os.path.join(home, "brz.log"))
import breezy
breezy.initialize()
import breezy.bzr, breezy.git
from breezy.controldir import ControlDir, format_registry
from breezy import ui, trace
ui.ui_factory = ui.SilentUIFactory(); trace.be_quiet(True)
import logging; logging.getLogger("brz").setLevel(logging.CRITICAL + 1)

bad = 0
for fmt in ("2a", "git"):
    d = tempfile.mkdtemp(prefix="c12r-", dir=home)
    wt = ControlDir.create_standalone_workingtree(os.path.join(d, "main"), format=format_registry.make_controldir(fmt))
    open(os.path.join(wt.basedir, "f0"), "w").write("base\n")
    open(os.path.join(wt.basedir, "f1"), "w").write("base\n")
    wt.add(["f0", "f1"]); wt.commit("r1")
    wt.remove(["f0"], keep_files=False, force=True)           # brz rm f0
    user = "USER: new file, never versioned\n"
    open(os.path.join(wt.basedir, "f0"), "w").write(user)     # a new, unknown f0
    with wt.lock_read():
        ic = [(c.path, c.versioned, c.kind) for c in wt.iter_changes(wt.basis_tree(), include_unchanged=True,
              require_versioned=False, want_unversioned=True, specific_files=["f0"])]
    wt.remove(["f0"], keep_files=False, force=False)          # brz rm f0   (no --force)
    found = [f for f in os.listdir(wt.basedir) if os.path.isfile(os.path.join(wt.basedir, f)) and open(os.path.join(wt.basedir, f)).read() == user]
    print("%-3s: iter_changes=%r\n     user's bytes found at %s" % (fmt, ic, found or "NOWHERE (lost)"))
    if not found:
        bad = 1
shutil.rmtree(home, ignore_errors=True)
sys.exit(bad)
