import BreezyVerif.Model.C41
import Std.Data.String.ToInt
/-!
Helper lemmas for C41: unique parsing of the testament text.
-/
namespace BreezyVerif.C41

/-! ### generic list lemmas -/

/-- a delimiter-free prefix is determined by the first delimiter -/
theorem split_at_first (p : Char → Prop) :
    ∀ {s t x y : Str} {c d : Char}, (∀ a ∈ s, ¬ p a) → (∀ a ∈ t, ¬ p a) → p c → p d →
      s ++ c :: x = t ++ d :: y → s = t ∧ c = d ∧ x = y
  | [], [], _, _, _, _, _, _, _, _, h => by simpa using h
  | [], b :: t, _, _, c, _, _, ht, hc, _, h => by
    simp only [List.nil_append, List.cons_append, List.cons.injEq] at h
    exact absurd (h.1 ▸ hc) (ht b (by simp))
  | a :: s, [], _, _, _, d, hs, _, _, hd, h => by
    simp only [List.nil_append, List.cons_append, List.cons.injEq] at h
    exact absurd (h.1 ▸ hd) (hs a (by simp))
  | a :: s, b :: t, x, y, c, d, hs, ht, hc, hd, h => by
    simp only [List.cons_append, List.cons.injEq] at h
    have := split_at_first p (s := s) (t := t) (fun a ha => hs a (by simp [ha]))
      (fun a ha => ht a (by simp [ha])) hc hd h.2
    simp [h.1, this]

theorem split_at_char {c : Char} {s t x y : Str} (hs : c ∉ s) (ht : c ∉ t)
    (h : s ++ c :: x = t ++ c :: y) : s = t ∧ x = y := by
  have := split_at_first (fun a => a = c) (s := s) (t := t) (x := x) (y := y) (c := c) (d := c)
    (fun a ha e => hs (e ▸ ha)) (fun a ha e => ht (e ▸ ha)) rfl rfl h
  exact ⟨this.1, this.2.2⟩

/-- a line: no newline except the final one -/
def IsLine (l : Str) : Prop := ∃ s, l = s ++ ['\n'] ∧ '\n' ∉ s

theorem isLine_mk {s : Str} (h : '\n' ∉ s) : IsLine (s ++ ['\n']) := ⟨s, rfl, h⟩

/-- the concatenation of lines determines the lines -/
theorem flatten_lines_inj : ∀ {A B : List Str}, (∀ l ∈ A, IsLine l) → (∀ l ∈ B, IsLine l) →
    A.flatten = B.flatten → A = B
  | [], [], _, _, _ => rfl
  | [], b :: B, _, hB, h => by
    obtain ⟨s, rfl, _⟩ := hB b (by simp)
    simp at h
  | a :: A, [], hA, _, h => by
    obtain ⟨s, rfl, _⟩ := hA a (by simp)
    simp at h
  | a :: A, b :: B, hA, hB, h => by
    obtain ⟨s, rfl, hs⟩ := hA a (by simp)
    obtain ⟨t, rfl, ht⟩ := hB b (by simp)
    simp only [List.flatten_cons, List.append_assoc, List.cons_append, List.nil_append] at h
    have := split_at_char hs ht h
    have ih := flatten_lines_inj (A := A) (B := B) (fun l hl => hA l (by simp [hl]))
      (fun l hl => hB l (by simp [hl])) this.2
    simp [this.1, ih]

/-- two texts made of an item block followed by a block that starts with a
non-item line (or is empty) have the same item block -/
theorem sections_inj (P : Str → Prop) :
    ∀ {A A' B B' : List Str}, (∀ x ∈ A, P x) → (∀ x ∈ A', P x) →
      (∀ h ∈ B.head?, ¬ P h) → (∀ h ∈ B'.head?, ¬ P h) →
      A ++ B = A' ++ B' → A = A' ∧ B = B'
  | [], [], _, _, _, _, _, _, h => by simpa using h
  | [], a' :: A', B, B', _, hA', hB, _, h => by
    simp only [List.nil_append, List.cons_append] at h
    subst h
    exact absurd (hA' a' (by simp)) (hB a' (by simp))
  | a :: A, [], B, B', hA, _, _, hB', h => by
    simp only [List.nil_append, List.cons_append] at h
    subst h
    exact absurd (hA a (by simp)) (hB' a (by simp))
  | a :: A, a' :: A', B, B', hA, hA', hB, hB', h => by
    simp only [List.cons_append, List.cons.injEq] at h
    have := sections_inj P (A := A) (A' := A') (fun x hx => hA x (by simp [hx]))
      (fun x hx => hA' x (by simp [hx])) hB hB' h.2
    simp [h.1, this]

theorem map_inj_of_inj {α β} {f : α → β} (hf : ∀ a b, f a = f b → a = b) :
    ∀ {l l' : List α}, l.map f = l'.map f → l = l'
  | [], [], _ => rfl
  | [], _ :: _, h => by simp at h
  | _ :: _, [], h => by simp at h
  | a :: l, b :: l', h => by
    simp only [List.map_cons, List.cons.injEq] at h
    rw [hf a b h.1, map_inj_of_inj hf h.2]

/-! ### `_escape_path` -/

@[simp] theorem escSpace_nil : escSpace [] = [] := rfl
theorem escSpace_cons_space (q : Str) : escSpace (' ' :: q) = '\\' :: ' ' :: escSpace q := by
  simp [escSpace]
theorem escSpace_cons_other {c : Char} (q : Str) (h : c ≠ ' ') : escSpace (c :: q) = c :: escSpace q := by
  simp [escSpace, h]

theorem replBackslash_noBs (p : Str) : '\\' ∉ replBackslash p := by
  unfold replBackslash
  simp only [List.mem_map, not_exists, not_and]
  intro c _
  split <;> simp_all

/-- the escaped form of a backslash-free string is self-delimiting: it can be
followed by a space (or by any other character that does not occur in it) -/
theorem escSpace_delim {d : Char} (hd : d ≠ '\\') :
    ∀ {q q' x y : Str}, '\\' ∉ q → '\\' ∉ q' → (d ≠ ' ' → d ∉ q) → (d ≠ ' ' → d ∉ q') →
      escSpace q ++ d :: x = escSpace q' ++ d :: y → q = q' ∧ x = y := by
  intro q
  induction q with
  | nil =>
    intro q' x y _ hq' _ hd' h
    cases q' with
    | nil => simpa using h
    | cons c r =>
      by_cases hc : c = ' '
      · subst hc
        rw [escSpace_cons_space] at h
        simp at h
        exact absurd h.1 hd
      · rw [escSpace_cons_other r hc] at h
        simp at h
        have : d ≠ ' ' := fun e => hc (h.1 ▸ e)
        exact absurd (by simp [h.1]) (hd' this)
  | cons a s ih =>
    intro q' x y hq hq' hdq hdq' h
    have hs : '\\' ∉ s := fun m => hq (by simp [m])
    have hds : d ≠ ' ' → d ∉ s := fun e m => hdq e (by simp [m])
    cases q' with
    | nil =>
      by_cases ha : a = ' '
      · subst ha
        rw [escSpace_cons_space] at h
        simp at h
        exact absurd h.1.symm hd
      · rw [escSpace_cons_other s ha] at h
        simp at h
        have : d ≠ ' ' := fun e => ha (h.1.symm ▸ e)
        exact absurd (by simp [h.1]) (hdq this)
    | cons c r =>
      have hr : '\\' ∉ r := fun m => hq' (by simp [m])
      have hdr : d ≠ ' ' → d ∉ r := fun e m => hdq' e (by simp [m])
      by_cases ha : a = ' ' <;> by_cases hc : c = ' '
      · subst ha; subst hc
        rw [escSpace_cons_space, escSpace_cons_space] at h
        simp only [List.cons_append, List.cons.injEq, true_and] at h
        have := ih hs hr hds hdr h
        simp [this]
      · subst ha
        rw [escSpace_cons_space, escSpace_cons_other r hc] at h
        simp only [List.cons_append, List.cons.injEq] at h
        exact absurd (by simp [← h.1]) hq'
      · subst hc
        rw [escSpace_cons_space, escSpace_cons_other s ha] at h
        simp only [List.cons_append, List.cons.injEq] at h
        exact absurd (by simp [h.1]) hq
      · rw [escSpace_cons_other s ha, escSpace_cons_other r hc] at h
        simp only [List.cons_append, List.cons.injEq] at h
        have := ih hs hr hds hdr h.2
        simp [h.1, this]


/-! ### `_entry_to_line` -/

/-- ' ' or '\n': the characters that end a field of an entry line -/
def isSep (c : Char) : Prop := c = ' ' ∨ c = '\n'

instance : DecidablePred isSep := fun c => by unfold isSep; infer_instance

def noSep (s : Str) : Bool := !(s.any fun c => c == ' ' || c == '\n')

theorem noSep_iff {s : Str} : noSep s = true ↔ ∀ a ∈ s, ¬ isSep a := by
  simp [noSep, isSep]

/-- The two facts `_entry_to_line` relies on without checking them: a file's
`text_sha1` and (strict classes) `ie.revision` contain no space / newline.
(Repositories guarantee both: sha1s are 40 hex digits, revision ids are
whitespace free.) -/
def EntryWF (v : Variant) (e : Entry) : Bool :=
  (e.kind != .file || noSep e.sha1) && (!isStrict v || noSep e.revision)

theorem hasWs_false {s : Str} (h : hasWs s = false) : ∀ a ∈ s, ¬ isSep a := by
  intro a ha hs
  have := (List.any_eq_false.mp h) a ha
  rcases hs with rfl | rfl <;> exact absurd this (by decide)

theorem hasLb_false {s : Str} (h : hasLb s = false) : '\n' ∉ s := by
  intro ha
  exact absurd ((List.any_eq_false.mp h) _ ha) (by decide)

theorem entryErr_none {e : Entry} (h : entryErr e = none) :
    hasWs e.fileId = false ∧ hasLb e.path = false ∧ (e.kind = .file → e.sha1 ≠ []) ∧
    (e.kind = .symlink → e.target ≠ [] ∧ hasLb e.target = false) := by
  unfold entryErr at h
  cases hk : e.kind <;> simp only [hk] at h <;> grind

theorem kindStr_noSep (k : Kind) : ∀ a ∈ k.str, ¬ isSep a := by
  cases k <;> decide

theorem kindStr_inj {k k' : Kind} (h : k.str = k'.str) : k = k' := by
  cases k <;> cases k' <;> first | rfl | exact absurd h (by decide)

theorem nl_not_mem_norm (v : Variant) {t : Str} (h : '\n' ∉ t) : '\n' ∉ replBackslash (dotRoot v t) := by
  unfold replBackslash dotRoot
  simp only [List.mem_map, not_exists, not_and]
  intro c hc
  split at hc
  · simp at hc; subst hc; decide
  · split
    · decide
    · intro e; exact h (e ▸ hc)

theorem strictPart_inj {v : Variant} {e e' : Entry} (hv : isStrict v = true)
    (hr : noSep e.revision = true) (hr' : noSep e'.revision = true)
    (h : strictPart v e ++ ['\n'] = strictPart v e' ++ ['\n']) :
    e.revision = e'.revision ∧ e.executable = e'.executable := by
  unfold strictPart at h
  simp only [hv, if_true, List.cons_append, List.cons.injEq, true_and, List.append_assoc] at h
  have hs : ∀ {x : Bool}, ∃ t, (if x then " yes".toList else " no".toList) ++ ['\n'] = ' ' :: t ∧
      (t = "yes\n".toList ↔ x = true) := by
    intro x; cases x
    · exact ⟨"no\n".toList, by decide, by decide⟩
    · exact ⟨"yes\n".toList, by decide, by decide⟩
  obtain ⟨t, ht, hx⟩ := hs (x := e.executable)
  obtain ⟨t', ht', hx'⟩ := hs (x := e'.executable)
  rw [ht, ht'] at h
  have := split_at_first isSep (noSep_iff.mp hr) (noSep_iff.mp hr') (Or.inl rfl) (Or.inl rfl) h
  refine ⟨this.1, ?_⟩
  have e1 : t = t' := this.2.2
  subst e1
  cases h1 : e.executable <;> cases h2 : e'.executable <;> simp_all


/-- the part of an entry line after the file id -/
def lineTail (v : Variant) (e : Entry) : Str := contentPart v e ++ (strictPart v e ++ ['\n'])

theorem entryLine_eq (v : Variant) (e : Entry) :
    entryLine v e = ' ' :: ' ' :: (e.kind.str ++ ' ' :: (escapePath v e.path ++ ' ' :: (e.fileId ++ lineTail v e))) := by
  simp [entryLine, lineTail, List.append_assoc]

theorem strictTail_head (v : Variant) (e : Entry) :
    ∃ c t, strictPart v e ++ ['\n'] = c :: t ∧ isSep c ∧ (isStrict v = true → c = ' ') ∧
      (isStrict v = false → c = '\n' ∧ t = []) := by
  unfold strictPart
  cases hv : isStrict v
  · exact ⟨'\n', [], by simp, Or.inr rfl, by simp, by simp⟩
  · exact ⟨' ', _, by simp; rfl, Or.inl rfl, by simp, by simp⟩

theorem lineTail_head (v : Variant) (e : Entry) : ∃ c t, lineTail v e = c :: t ∧ isSep c := by
  unfold lineTail contentPart
  obtain ⟨c, t, h, hc, _⟩ := strictTail_head v e
  cases e.kind
  · exact ⟨' ', _, by simp; rfl, Or.inl rfl⟩
  · exact ⟨c, t, by simp [h], hc⟩
  · exact ⟨' ', _, by simp; rfl, Or.inl rfl⟩
  · exact ⟨c, t, by simp [h], hc⟩

/-- Field-by-field parsing of an entry line. -/
theorem entryLine_fields {v : Variant} {e e' : Entry}
    (he : entryErr e = none) (he' : entryErr e' = none)
    (hw : EntryWF v e = true) (hw' : EntryWF v e' = true)
    (h : entryLine v e = entryLine v e') :
    e.kind = e'.kind ∧
    replBackslash (dotRoot v e.path) = replBackslash (dotRoot v e'.path) ∧
    e.fileId = e'.fileId ∧
    (e.kind = .file → e.sha1 = e'.sha1) ∧
    (e.kind = .symlink →
      replBackslash (dotRoot v e.target) = replBackslash (dotRoot v e'.target)) ∧
    (isStrict v = true → e.revision = e'.revision ∧ e.executable = e'.executable) := by
  obtain ⟨hf, hp, hsha, hsym⟩ := entryErr_none he
  obtain ⟨hf', hp', hsha', hsym'⟩ := entryErr_none he'
  rw [entryLine_eq, entryLine_eq] at h
  simp only [List.cons.injEq, true_and] at h
  -- kind
  have h1 := split_at_first isSep (kindStr_noSep _) (kindStr_noSep _) (Or.inl rfl) (Or.inl rfl) h
  have hk : e.kind = e'.kind := kindStr_inj h1.1
  -- path
  have h2 := escSpace_delim (d := ' ') (by decide) (replBackslash_noBs _) (replBackslash_noBs _)
    (fun x => absurd rfl x) (fun x => absurd rfl x) h1.2.2
  -- file id
  obtain ⟨c, t, hc, hcs⟩ := lineTail_head v e
  obtain ⟨c', t', hc', hcs'⟩ := lineTail_head v e'
  have h3' := h2.2
  rw [hc, hc'] at h3'
  have h3 := split_at_first isSep (hasWs_false hf) (hasWs_false hf') hcs hcs' h3'
  have htail : lineTail v e = lineTail v e' := by rw [hc, hc', h3.2.1, h3.2.2]
  refine ⟨hk, h2.1, h3.1, ?_⟩
  -- the tail
  simp only [EntryWF, Bool.and_eq_true, Bool.or_eq_true, bne_iff_ne, ne_eq, Bool.not_eq_true'] at hw hw'
  unfold lineTail contentPart at htail
  obtain ⟨s, ts, hs, hss, hs1, hs2⟩ := strictTail_head v e
  obtain ⟨s', ts', hs', hss', hs1', hs2'⟩ := strictTail_head v e'
  have strictOf : strictPart v e ++ ['\n'] = strictPart v e' ++ ['\n'] →
      (isStrict v = true → e.revision = e'.revision ∧ e.executable = e'.executable) := by
    intro hh hv
    have r1 : noSep e.revision = true := by rcases hw.2 with x | x <;> simp_all
    have r2 : noSep e'.revision = true := by rcases hw'.2 with x | x <;> simp_all
    exact strictPart_inj hv r1 r2 hh
  cases hk1 : e.kind <;> rw [← hk, hk1] at htail <;> simp only [hk1] at hw hsha hsym <;>
    rw [← hk, hk1] at hw' hsha' hsym' <;> simp only [List.cons_append, List.nil_append, List.cons.injEq, true_and] at htail
  · -- file
    have n1 : noSep e.sha1 = true := by rcases hw.1 with x | x <;> simp_all
    have n2 : noSep e'.sha1 = true := by rcases hw'.1 with x | x <;> simp_all
    rw [hs, hs'] at htail
    have := split_at_first isSep (noSep_iff.mp n1) (noSep_iff.mp n2) hss hss' htail
    refine ⟨fun _ => this.1, by simp, ?_⟩
    apply strictOf
    rw [hs, hs', this.2.1, this.2.2]
  · refine ⟨by simp, by simp, strictOf htail⟩
  · -- symlink
    have hl := hasLb_false (hsym trivial).2
    have hl' := hasLb_false (hsym' rfl).2
    unfold escapePath at htail
    cases hv : isStrict v
    · have a1 := hs2 hv
      have a2 := hs2' hv
      rw [hs, hs', a1.1, a1.2, a2.1, a2.2] at htail
      have := escSpace_delim (d := '\n') (by decide) (replBackslash_noBs _) (replBackslash_noBs _)
        (fun _ => nl_not_mem_norm v hl) (fun _ => nl_not_mem_norm v hl') htail
      exact ⟨by simp, fun _ => this.1, by simp⟩
    · have a1 := hs1 hv
      have a2 := hs1' hv
      rw [hs, hs', a1, a2] at htail
      have := escSpace_delim (d := ' ') (by decide) (replBackslash_noBs _) (replBackslash_noBs _)
        (fun x => absurd rfl x) (fun x => absurd rfl x) htail
      refine ⟨by simp, fun _ => this.1, fun _ => ?_⟩
      refine strictOf ?_ hv
      rw [hs, hs', a1, a2, this.2]
  · refine ⟨by simp, by simp, strictOf htail⟩

/-! ### sorting -/

theorem leKey_trans {a b c : List Nat} (h1 : leKey a b = true) (h2 : leKey b c = true) : leKey a c = true := by
  simp only [leKey, decide_eq_true_eq] at *
  exact List.le_trans h1 h2

theorem leKey_total (a b : List Nat) : (leKey a b || leKey b a) = true := by
  simp only [leKey, Bool.or_eq_true, decide_eq_true_eq]
  exact List.le_total a b

theorem leKey_antisymm {a b : List Nat} (h1 : leKey a b = true) (h2 : leKey b a = true) : a = b := by
  simp only [leKey, decide_eq_true_eq] at *
  exact List.le_antisymm h1 h2

/-- sorting by an injective-on-the-list key does not depend on the input order -/
theorem mergeSort_perm_eq {α} (key : α → List Nat) {l l' : List α} (hp : l.Perm l')
    (hinj : ∀ a ∈ l, ∀ b ∈ l, key a = key b → a = b) :
    l.mergeSort (fun a b => leKey (key a) (key b)) = l'.mergeSort (fun a b => leKey (key a) (key b)) := by
  have tr : ∀ (a b c : α), leKey (key a) (key b) = true → leKey (key b) (key c) = true →
      leKey (key a) (key c) = true := fun a b c => leKey_trans
  have tot : ∀ (a b : α), (leKey (key a) (key b) || leKey (key b) (key a)) = true :=
    fun a b => leKey_total _ _
  apply List.Perm.eq_of_pairwise (le := fun a b => leKey (key a) (key b) = true)
  · intro a b ha hb h1 h2
    have ha' : a ∈ l := (List.mem_mergeSort.mp ha)
    have hb' : b ∈ l := hp.symm.subset (List.mem_mergeSort.mp hb)
    exact hinj a ha' b hb' (leKey_antisymm h1 h2)
  · exact List.pairwise_mergeSort tr tot l
  · exact List.pairwise_mergeSort tr tot l'
  · exact (List.mergeSort_perm l _).trans (hp.trans (List.mergeSort_perm l' _).symm)

theorem strKey_inj {a b : Str} (h : strKey a = strKey b) : a = b := by
  unfold strKey at h
  exact map_inj_of_inj (fun x y hxy => Char.toNat_inj.mp hxy) h  

theorem pathKey_inj {a b : Str} (h : pathKey a = pathKey b) : a = b := by
  unfold pathKey at h
  refine map_inj_of_inj (fun x y hxy => ?_) h
  by_cases hx : x = '/' <;> by_cases hy : y = '/' <;> simp_all [Char.toNat_inj]

theorem inj_of_nodup_map {α β} (f : α → β) : ∀ {l : List α}, (l.map f).Nodup →
    ∀ a ∈ l, ∀ b ∈ l, f a = f b → a = b
  | [], _, _, h, _, _, _ => by simp at h
  | x :: l, hn, a, ha, b, hb, hab => by
    simp only [List.map_cons, List.nodup_cons, List.mem_map, not_exists, not_and] at hn
    simp only [List.mem_cons] at ha hb
    rcases ha with rfl | ha <;> rcases hb with rfl | hb
    · rfl
    · exact absurd hab.symm (hn.1 b hb)
    · exact absurd hab (hn.1 a ha)
    · exact inj_of_nodup_map f hn.2 a ha b hb hab

theorem sortStrs_perm {l l' : List Str} (hp : l.Perm l') : sortStrs l = sortStrs l' :=
  mergeSort_perm_eq strKey hp (fun _ _ _ _ h => strKey_inj h)

theorem sortEntries_perm {l l' : List Entry} (hp : l.Perm l') (hn : (l.map Entry.path).Nodup) :
    sortEntries l = sortEntries l' :=
  mergeSort_perm_eq (fun e : Entry => pathKey e.path) hp
    (fun a ha b hb h => inj_of_nodup_map Entry.path hn a ha b hb (pathKey_inj h))

theorem sortProps_perm {l l' : List (Str × Str)} (hp : l.Perm l') (hn : (l.map Prod.fst).Nodup) :
    sortProps l = sortProps l' :=
  mergeSort_perm_eq (fun e : Str × Str => strKey e.1) hp
    (fun a ha b hb h => inj_of_nodup_map Prod.fst hn a ha b hb (strKey_inj h))

/-! ### splitlines -/

theorem splitlines_no_break (s : Str) : ∀ l ∈ splitlines s, ∀ c ∈ l, isBreak c = false := by
  fun_induction splitlines s with
  | case1 => simp
  | case2 rest ih =>
    intro l hl
    simp only [List.mem_cons] at hl
    rcases hl with rfl | hl
    · simp
    · exact ih l hl
  | case3 c rest hne hb ih =>
    intro l hl
    simp only [List.mem_cons] at hl
    rcases hl with rfl | hl
    · simp
    · exact ih l hl
  | case4 c rest hne hb hnil ih =>
    intro l hl
    simp only [List.mem_cons, List.not_mem_nil, or_false] at hl
    subst hl
    simpa using hb
  | case5 c rest hne hb l0 ls heq ih =>
    intro l hl
    simp only [List.mem_cons] at hl
    rcases hl with rfl | hl
    · intro a ha
      simp only [List.mem_cons] at ha
      rcases ha with rfl | ha
      · simpa using hb
      · exact ih l0 (by simp [heq]) a ha
    · exact ih l (by simp [heq, hl])


/-! ### the checks -/

theorem orElse_none {α} {a : Option α} {f : Unit → Option α} :
    a.orElse f = none ↔ a = none ∧ f () = none := by
  cases a <;> simp [Option.orElse]

theorem wsErr_none {s : Str} : wsErr s = none ↔ hasWs s = false := by
  unfold wsErr; cases hasWs s <;> simp

theorem check_none {r : Rev} (h : check r = none) :
    hasWs r.revisionId = false ∧ hasLb r.committer = false ∧
    (∀ p ∈ sortStrs r.parents, hasWs p = false) ∧
    (∀ e ∈ sortEntries r.entries, entryErr e = none) ∧
    (∀ nv ∈ sortProps r.props, hasWs nv.1 = false) := by
  unfold check at h
  simp only [orElse_none, wsErr_none, List.findSome?_eq_none_iff] at h
  obtain ⟨h1, h2, h3, h4, h5⟩ := h
  refine ⟨h1, ?_, h3, h4, h5⟩
  cases hc : hasLb r.committer <;> simp_all

/-- the unchecked well-formedness facts, for every entry -/
def RevWF (v : Variant) (r : Rev) : Bool := r.entries.all (EntryWF v)

theorem RevWF_sorted {v : Variant} {r : Rev} (h : RevWF v r = true) :
    ∀ e ∈ sortEntries r.entries, EntryWF v e = true := by
  intro e he
  exact (List.all_eq_true.mp h) e (List.mem_mergeSort.mp he)

/-! ### every rendered line is a line -/

theorem showInt_digits (n : Int) : ∀ c ∈ showInt n, c.isDigit = true ∨ c = '-' := by
  intro c hc
  unfold showInt at hc
  rw [Int.repr_eq_if] at hc
  split at hc
  · simp only [Nat.toList_repr] at hc
    exact Or.inl (Nat.isDigit_of_mem_toDigits (by decide) (by decide) hc)
  · simp only [String.toList_append, Nat.toList_repr, List.mem_append] at hc
    rcases hc with hc | hc
    · right; simpa using hc
    · exact Or.inl (Nat.isDigit_of_mem_toDigits (by decide) (by decide) hc)

theorem showInt_no_nl (n : Int) : '\n' ∉ showInt n := by
  intro h
  rcases showInt_digits n _ h with h | h
  · exact absurd h (by decide)
  · exact absurd h (by decide)

theorem mem_escSpace {c : Char} {q : Str} (h : c ∈ escSpace q) : c = '\\' ∨ c ∈ q := by
  induction q with
  | nil => simp at h
  | cons a s ih =>
    by_cases ha : a = ' '
    · subst ha
      rw [escSpace_cons_space] at h
      simp only [List.mem_cons] at h
      rcases h with h | h | h
      · exact Or.inl h
      · exact Or.inr (by simp [h])
      · rcases ih h with h | h
        · exact Or.inl h
        · exact Or.inr (by simp [h])
    · rw [escSpace_cons_other s ha] at h
      simp only [List.mem_cons] at h
      rcases h with h | h
      · exact Or.inr (by simp [h])
      · rcases ih h with h | h
        · exact Or.inl h
        · exact Or.inr (by simp [h])

theorem escapePath_no_nl (v : Variant) {p : Str} (h : hasLb p = false) : '\n' ∉ escapePath v p := by
  intro hm
  rcases mem_escSpace hm with hm | hm
  · exact absurd hm (by decide)
  · exact nl_not_mem_norm v (hasLb_false h) hm

theorem noSep_no_nl {s : Str} (h : noSep s = true) : '\n' ∉ s :=
  fun hm => (noSep_iff.mp h) _ hm (Or.inr rfl)

theorem entryLine_isLine {v : Variant} {e : Entry} (he : entryErr e = none)
    (hw : EntryWF v e = true) : IsLine (entryLine v e) := by
  obtain ⟨hf, hp, hsha, hsym⟩ := entryErr_none he
  simp only [EntryWF, Bool.and_eq_true, Bool.or_eq_true, bne_iff_ne, ne_eq, Bool.not_eq_true'] at hw
  unfold entryLine
  apply isLine_mk
  have hk : '\n' ∉ e.kind.str := fun hm => kindStr_noSep _ _ hm (Or.inr rfl)
  have hfid : '\n' ∉ e.fileId := fun hm => hasWs_false hf _ hm (Or.inr rfl)
  have hcont : '\n' ∉ contentPart v e := by
    unfold contentPart
    cases hk1 : e.kind <;> simp only [List.mem_cons, List.not_mem_nil, not_false_eq_true, not_or]
    · refine ⟨by decide, ?_⟩
      rcases hw.1 with x | x
      · exact absurd hk1 x
      · exact noSep_no_nl x
    · exact ⟨by decide, escapePath_no_nl v (hsym hk1).2⟩
  have hstrict : '\n' ∉ strictPart v e := by
    unfold strictPart
    cases hv : isStrict v
    · simp
    · have hr : '\n' ∉ e.revision := by
        rcases hw.2 with x | x
        · simp [hv] at x
        · exact noSep_no_nl x
      simp only [if_true, List.mem_cons, List.mem_append, not_or]
      refine ⟨⟨by decide, hr⟩, ?_⟩
      cases e.executable <;> decide
  simp only [List.mem_append, List.mem_cons, not_or]
  exact ⟨⟨⟨⟨⟨by decide, by decide, hk⟩, by decide, escapePath_no_nl v hp⟩, by decide, hfid⟩, hcont⟩, hstrict⟩

theorem indent2_isLine {s : Str} (h : '\n' ∉ s) : IsLine (indent2 s) := by
  unfold indent2
  exact ⟨' ' :: ' ' :: s, by simp, by simp only [List.mem_cons, not_or]; exact ⟨by decide, by decide, h⟩⟩

theorem indent4_isLine {s : Str} (h : '\n' ∉ s) : IsLine (indent4 s) := by
  unfold indent4
  exact ⟨' ' :: ' ' :: ' ' :: ' ' :: s, by simp,
    by simp only [List.mem_cons, not_or]; exact ⟨by decide, by decide, by decide, by decide, h⟩⟩

theorem splitlines_no_nl {s l : Str} (h : l ∈ splitlines s) : '\n' ∉ l :=
  fun hm => absurd (splitlines_no_break s l h _ hm) (by decide)

theorem header_isLine (v : Variant) : IsLine (header v) := by
  cases v
  · exact ⟨"bazaar-ng testament version 1".toList, by decide, by decide⟩
  · exact ⟨"bazaar-ng testament version 2.1".toList, by decide, by decide⟩
  · exact ⟨"bazaar testament version 3 strict".toList, by decide, by decide⟩

theorem propLines_isLine : ∀ {l : List (Str × Str)}, (∀ nv ∈ l, hasWs nv.1 = false) →
    ∀ x ∈ propLines l, IsLine x
  | [], _, x, hx => by simp [propLines] at hx
  | (n, val) :: rest, h, x, hx => by
    simp only [propLines, List.mem_cons, List.mem_append, List.mem_map] at hx
    rcases hx with rfl | ⟨s, hs, rfl⟩ | hx
    · have hn : '\n' ∉ n := fun hm => hasWs_false (h (n, val) (by simp)) _ hm (Or.inr rfl)
      exact ⟨' ' :: ' ' :: n ++ [':'], by simp, by
        simp only [List.mem_cons, List.mem_append, List.not_mem_nil, or_false, not_or]
        exact ⟨⟨by decide, by decide, hn⟩, by decide⟩⟩
    · exact indent4_isLine (splitlines_no_nl hs)
    · exact propLines_isLine (fun nv hnv => h nv (by simp [hnv])) x hx

theorem render_isLine {v : Variant} {r : Rev} (hc : check r = none) (hw : RevWF v r = true) :
    ∀ l ∈ render v r, IsLine l := by
  obtain ⟨h1, h2, h3, h4, h5⟩ := check_none hc
  intro l hl
  unfold render at hl
  simp only [List.cons_append, List.nil_append, List.mem_cons, List.mem_append, List.mem_map] at hl
  rcases hl with rfl | rfl | rfl | rfl | rfl | rfl | ⟨p, hp, rfl⟩ | rfl | ⟨m, hm, rfl⟩ | rfl |
    ⟨e, he, rfl⟩ | hl
  · exact header_isLine v
  · rw [List.append_assoc]
    refine ⟨_, by rw [List.append_assoc], ?_⟩
    simp only [List.mem_append, not_or]
    exact ⟨by decide, fun hm => hasWs_false h1 _ hm (Or.inr rfl)⟩
  · refine ⟨_, rfl, ?_⟩
    simp only [List.mem_append, not_or]
    exact ⟨by decide, hasLb_false h2⟩
  · refine ⟨_, rfl, ?_⟩
    simp only [List.mem_append, not_or]
    exact ⟨by decide, showInt_no_nl _⟩
  · refine ⟨_, rfl, ?_⟩
    simp only [List.mem_append, not_or]
    exact ⟨by decide, showInt_no_nl _⟩
  · exact ⟨"parents:".toList, by decide, by decide⟩
  · exact indent2_isLine (fun hm => hasWs_false (h3 p hp) _ hm (Or.inr rfl))
  · exact ⟨"message:".toList, by decide, by decide⟩
  · exact indent2_isLine (splitlines_no_nl hm)
  · exact ⟨"inventory:".toList, by decide, by decide⟩
  · exact entryLine_isLine (h4 e he) (RevWF_sorted hw e he)
  · unfold revpropsLines at hl
    split at hl
    · simp at hl
    · simp only [List.mem_cons] at hl
      rcases hl with rfl | hl
      · exact ⟨"properties:".toList, by decide, by decide⟩
      · exact propLines_isLine h5 l hl


/-! ### parsing the sections -/

/-- item lines of the parents / message / inventory sections start with a space -/
def sp (l : Str) : Prop := l.head? = some ' '

/-- value lines of the properties section start with three spaces -/
def sp3 (l : Str) : Prop := l.take 3 = [' ', ' ', ' ']

instance : DecidablePred sp := fun l => by unfold sp; infer_instance
instance : DecidablePred sp3 := fun l => by unfold sp3; infer_instance

theorem indent2_inj {a b : Str} (h : indent2 a = indent2 b) : a = b := by
  unfold indent2 at h
  simpa using List.append_cancel_right h

theorem indent4_inj {a b : Str} (h : indent4 a = indent4 b) : a = b := by
  unfold indent4 at h
  simpa using List.append_cancel_right h

theorem normEntry_of_fields {v : Variant} {e e' : Entry}
    (he : entryErr e = none) (he' : entryErr e' = none)
    (hw : EntryWF v e = true) (hw' : EntryWF v e' = true)
    (h : entryLine v e = entryLine v e') : normEntry v e = normEntry v e' := by
  obtain ⟨hk, hp, hf, hs, ht, hr⟩ := entryLine_fields he he' hw hw' h
  unfold normEntry
  rw [← hk, hp, hf]
  cases hv : isStrict v
  · cases hk1 : e.kind <;> simp_all
  · obtain ⟨h1, h2⟩ := hr hv
    cases hk1 : e.kind <;> simp_all

theorem map_entryLine_inj {v : Variant} : ∀ {l l' : List Entry},
    (∀ e ∈ l, entryErr e = none ∧ EntryWF v e = true) →
    (∀ e ∈ l', entryErr e = none ∧ EntryWF v e = true) →
    l.map (entryLine v) = l'.map (entryLine v) → l.map (normEntry v) = l'.map (normEntry v)
  | [], [], _, _, _ => rfl
  | [], _ :: _, _, _, h => by simp at h
  | _ :: _, [], _, _, h => by simp at h
  | a :: l, b :: l', ha, hb, h => by
    simp only [List.map_cons, List.cons.injEq] at h ⊢
    exact ⟨normEntry_of_fields (ha a (by simp)).1 (hb b (by simp)).1 (ha a (by simp)).2
        (hb b (by simp)).2 h.1,
      map_entryLine_inj (fun e he => ha e (by simp [he])) (fun e he => hb e (by simp [he])) h.2⟩

theorem propLines_head_not_sp3 {l : List (Str × Str)} (h : ∀ nv ∈ l, hasWs nv.1 = false) :
    ∀ x ∈ (propLines l).head?, ¬ sp3 x := by
  cases l with
  | nil => simp [propLines]
  | cons nv rest =>
    obtain ⟨n, val⟩ := nv
    intro x hx
    simp only [propLines, List.head?_cons, Option.mem_def, Option.some.injEq] at hx
    subst hx
    have hn := hasWs_false (h (n, val) (by simp))
    unfold sp3
    cases n with
    | nil => decide
    | cons c t =>
      simp only [List.cons_append, List.take_succ_cons, List.take_zero, List.cons.injEq, true_and,
        and_true]
      intro hc
      exact hn c (by simp) (Or.inl hc)

theorem propLines_inj : ∀ {l l' : List (Str × Str)},
    (∀ nv ∈ l, hasWs nv.1 = false) → (∀ nv ∈ l', hasWs nv.1 = false) →
    propLines l = propLines l' →
    l.map (fun nv => (nv.1, splitlines nv.2)) = l'.map (fun nv => (nv.1, splitlines nv.2))
  | [], [], _, _, _ => rfl
  | [], (_, _) :: _, _, _, h => by simp [propLines] at h
  | (_, _) :: _, [], _, _, h => by simp [propLines] at h
  | (n, val) :: l, (n', val') :: l', hl, hl', h => by
    simp only [propLines, List.cons.injEq] at h
    have hn : n = n' := by simpa using List.append_cancel_right h.1
    have hl1 : ∀ nv ∈ l, hasWs nv.1 = false := fun nv hnv => hl nv (by simp [hnv])
    have hl1' : ∀ nv ∈ l', hasWs nv.1 = false := fun nv hnv => hl' nv (by simp [hnv])
    have hsec := sections_inj sp3
      (A := (splitlines val).map indent4) (A' := (splitlines val').map indent4)
      (by intro x hx; simp only [List.mem_map] at hx; obtain ⟨s, _, rfl⟩ := hx; simp [sp3, indent4])
      (by intro x hx; simp only [List.mem_map] at hx; obtain ⟨s, _, rfl⟩ := hx; simp [sp3, indent4])
      (propLines_head_not_sp3 hl1) (propLines_head_not_sp3 hl1') h.2
    have hv : splitlines val = splitlines val' := map_inj_of_inj (fun _ _ => indent4_inj) hsec.1
    simp only [List.map_cons, List.cons.injEq, Prod.mk.injEq]
    exact ⟨⟨hn, hv⟩, propLines_inj hl1 hl1' hsec.2⟩

theorem showInt_inj {a b : Int} (h : showInt a = showInt b) : a = b := by
  unfold showInt at h
  exact Int.repr_injective (String.toList_inj.mp h)

theorem revpropsLines_head (props : List (Str × Str)) : ∀ x ∈ (revpropsLines props).head?, ¬ sp x := by
  unfold revpropsLines
  split
  · simp
  · intro x hx
    simp only [List.head?_cons, Option.mem_def, Option.some.injEq] at hx
    subst hx
    decide

theorem sortProps_nil_iff {l : List (Str × Str)} : sortProps l = [] ↔ l = [] := by
  constructor
  · intro h
    have := (List.mergeSort_perm l (fun a b => leKey (strKey a.1) (strKey b.1))).length_eq
    unfold sortProps at h
    rw [h] at this
    exact List.length_eq_zero_iff.mp this.symm
  · rintro rfl; simp [sortProps]

/-- **Unique parsing.**  Two records that pass the checks and render to the same
text agree on everything the text attests. -/
theorem attested_of_render_eq {v : Variant} {r r' : Rev}
    (hc : check r = none) (hc' : check r' = none)
    (hw : RevWF v r = true) (hw' : RevWF v r' = true)
    (h : (render v r).flatten = (render v r').flatten) : attested v r = attested v r' := by
  have hl := flatten_lines_inj (render_isLine hc hw) (render_isLine hc' hw') h
  obtain ⟨_, _, _, h4, h5⟩ := check_none hc
  obtain ⟨_, _, _, h4', h5'⟩ := check_none hc'
  unfold render at hl
  simp only [List.cons_append, List.nil_append, List.cons.injEq, true_and] at hl
  obtain ⟨hrid, hcom, hts, htz, hrest⟩ := hl
  have e1 : r.revisionId = r'.revisionId := List.append_cancel_left (List.append_cancel_right hrid)
  have e2 : r.committer = r'.committer := List.append_cancel_left (List.append_cancel_right hcom)
  have e3 : timestampOf r = timestampOf r' :=
    showInt_inj (List.append_cancel_left (List.append_cancel_right hts))
  have e4 : timezoneOf r = timezoneOf r' :=
    showInt_inj (List.append_cancel_left (List.append_cancel_right htz))
  have isp : ∀ (l : List Str), ∀ x ∈ l.map indent2, sp x := by
    intro l x hx; simp only [List.mem_map] at hx; obtain ⟨s, _, rfl⟩ := hx; simp [sp, indent2]
  -- parents
  have s1 := sections_inj sp (isp _) (isp _)
    (by intro x hx; simp at hx; subst hx; decide) (by intro x hx; simp at hx; subst hx; decide) hrest
  have e5 : sortStrs r.parents = sortStrs r'.parents := map_inj_of_inj (fun _ _ => indent2_inj) s1.1
  have hrest2 := s1.2
  simp only [List.cons.injEq, true_and] at hrest2
  -- message
  have s2 := sections_inj sp (isp _) (isp _)
    (by intro x hx; simp at hx; subst hx; decide) (by intro x hx; simp at hx; subst hx; decide) hrest2
  have e6 : splitlines r.message = splitlines r'.message :=
    map_inj_of_inj (fun _ _ => indent2_inj) s2.1
  have hrest3 := s2.2
  simp only [List.cons.injEq, true_and] at hrest3
  -- inventory
  have esp : ∀ (l : List Entry), ∀ x ∈ l.map (entryLine v), sp x := by
    intro l x hx; simp only [List.mem_map] at hx; obtain ⟨s, _, rfl⟩ := hx; simp [sp, entryLine]
  have s3 := sections_inj sp (esp _) (esp _) (revpropsLines_head _) (revpropsLines_head _) hrest3
  have e7 := map_entryLine_inj (fun e he => ⟨h4 e he, RevWF_sorted hw e he⟩)
    (fun e he => ⟨h4' e he, RevWF_sorted hw' e he⟩) s3.1
  -- properties
  have e8 : (sortProps r.props).map (fun nv => (nv.1, splitlines nv.2)) =
      (sortProps r'.props).map (fun nv => (nv.1, splitlines nv.2)) := by
    have hp := s3.2
    unfold revpropsLines at hp
    by_cases hn : r.props = [] <;> by_cases hn' : r'.props = []
    · simp [hn, hn', sortProps]
    · simp [hn, hn'] at hp
    · simp [hn, hn'] at hp
    · simp only [hn, hn', if_false, List.cons.injEq, true_and] at hp
      exact propLines_inj h5 h5' hp
  simp only [attested, e1, e2, e3, e4, e5, e6, e7, e8]

end BreezyVerif.C41
