import BreezyVerif.Model.C09
/-!
C09 — path-space status (`pathStatus`, the git comparison): lookups by path and
the soundness / completeness lemmas over arbitrary listings.
-/
namespace BreezyVerif.C09
open BreezyVerif.C10

/-- the node a listing has at path `p` (first match) -/
def lookup (l : List (Path × Node)) (p : Path) : Option Node := (l.find? (·.1 == p)).map (·.2)

/-- the path a path-space record talks about -/
def PathChange.path : PathChange → Path
  | .added p _ => p
  | .removed p _ => p
  | .modified p => p

/-- `pathStatus` over two arbitrary listings -/
def pstat (b w : List (Path × Node)) : List PathChange :=
  (b.filterMap fun x => match w.find? (·.1 == x.1) with
      | none => some (.removed x.1 x.2.kind)
      | some y => if x.2 == y.2 then none else some (.modified x.1))
  ++ (w.filterMap fun y => match b.find? (·.1 == y.1) with
      | none => some (.added y.1 y.2.kind)
      | some _ => none)

theorem pathStatus_eq (s : State) : pathStatus s = pstat (listing s.basis) (listing (wtTree s)) := rfl

theorem find_first_of_nodup {l : List (Path × Node)} (hn : (l.map (·.1)).Nodup) {x : Path × Node} (hx : x ∈ l) :
    l.find? (·.1 == x.1) = some x := by
  induction l with
  | nil => cases hx
  | cons a rest ih =>
    simp only [List.map_cons, List.nodup_cons] at hn
    rcases List.mem_cons.mp hx with h | h
    · subst h; simp
    · have hne : ¬ a.1 = x.1 := by
        intro heq
        exact hn.1 (heq ▸ List.mem_map_of_mem (f := (·.1)) h)
      simp only [List.find?_cons]
      have : (a.1 == x.1) = false := by simpa using hne
      rw [this]
      exact ih hn.2 h

/-- completeness: a path whose entries differ is named by some record -/
theorem pstat_complete (b w : List (Path × Node)) (p : Path) (h : lookup b p ≠ lookup w p) :
    ∃ c ∈ pstat b w, c.path = p := by
  unfold lookup at h
  cases hb : b.find? (·.1 == p) with
  | some x =>
    have hxb : x ∈ b := List.mem_of_find?_eq_some hb
    have hxp : x.1 = p := by simpa using List.find?_some hb
    cases hw : w.find? (·.1 == p) with
    | none =>
      refine ⟨.removed x.1 x.2.kind, ?_, hxp⟩
      unfold pstat
      apply List.mem_append_left
      rw [List.mem_filterMap]
      exact ⟨x, hxb, by rw [hxp, hw]⟩
    | some y =>
      rw [hb, hw] at h
      have hne : ¬ x.2 = y.2 := by simpa using h
      refine ⟨.modified x.1, ?_, hxp⟩
      unfold pstat
      apply List.mem_append_left
      rw [List.mem_filterMap]
      refine ⟨x, hxb, ?_⟩
      rw [hxp, hw]
      have : (x.2 == y.2) = false := by simpa using hne
      simp [this]
  | none =>
    rw [hb] at h
    cases hw : w.find? (·.1 == p) with
    | none => rw [hw] at h; exact absurd rfl h
    | some y =>
      have hyw : y ∈ w := List.mem_of_find?_eq_some hw
      have hyp : y.1 = p := by simpa using List.find?_some hw
      refine ⟨.added y.1 y.2.kind, ?_, hyp⟩
      unfold pstat
      apply List.mem_append_right
      rw [List.mem_filterMap]
      exact ⟨y, hyw, by rw [hyp, hb]⟩

/-- soundness: every record names a path whose entries differ (the basis listing
must not list a path twice) -/
theorem pstat_sound (b w : List (Path × Node)) (hn : (b.map (·.1)).Nodup) (c : PathChange) (hc : c ∈ pstat b w) :
    lookup b c.path ≠ lookup w c.path := by
  unfold pstat at hc
  rcases List.mem_append.mp hc with hc | hc
  · rw [List.mem_filterMap] at hc
    obtain ⟨x, hxb, hx⟩ := hc
    have hfirst := find_first_of_nodup hn hxb
    cases hw : w.find? (·.1 == x.1) with
    | none =>
      rw [hw] at hx
      simp at hx; subst hx
      simp [lookup, PathChange.path, hfirst, hw]
    | some y =>
      rw [hw] at hx
      by_cases hxy : x.2 = y.2
      · simp [hxy] at hx
      · have : (x.2 == y.2) = false := by simpa using hxy
        simp [this] at hx; subst hx
        simp [lookup, PathChange.path, hfirst, hw, hxy]
  · rw [List.mem_filterMap] at hc
    obtain ⟨y, hyw, hy⟩ := hc
    cases hb : b.find? (·.1 == y.1) with
    | some _ => rw [hb] at hy; cases hy
    | none =>
      rw [hb] at hy
      simp at hy; subst hy
      have hsome : (w.find? (·.1 == y.1)).isSome = true := by
        rw [List.find?_isSome]
        exact ⟨y, hyw, by simp⟩
      cases hw : w.find? (·.1 == y.1) with
      | none => rw [hw] at hsome; cases hsome
      | some z => simp [lookup, PathChange.path, hb, hw]

end BreezyVerif.C09
