import BreezyVerif.Common
import BreezyVerif.Model.C38
/-
C38 driver.  Byte strings are hex (`-` = empty), `~` = None.

ops     = `c:<revid>:<sha>:<tree>:<testament|~>` | `b:<sha>:<fid>:<rev>` | `t:<sha>:<fid>:<rev>`
          joined by `;` (`-` = none)
queries = `g:<sha>` | `b:<fid>:<rev>` | `t:<fid>:<rev>` | `c:<revid>` | `R` | `S` | `m:<revid>,<revid>…` (`m:-` = empty)
          joined by `;`

requests
  run <dict|sqlite|index> <ops> <queries>  → answers joined by `;`
       g → entries `c:<revid>:<tree>:<testament|~>` / `b:<fid>:<rev>` / `t:<fid>:<rev>` sorted, joined by `,`; `E` = KeyError
       b, c → `<sha>` | `E`;   t → `<sha>` | `E` | `N` (not implemented)
       R, S, m → sorted, duplicate-free, joined by `,` (`-` = empty)
  hyp <ops>                                → `<okSeq okSqlite T|F> <okSeq okIndex T|F>`
  idx <script>                             → layered index store: script items joined by `;`
       `s` start write group, `w` commit write group, `a:<k1>:<k2>:<k3>:<v>` add node, `o:<perm>` reopen with the
       committed files permuted (perm = comma-separated indices), `q:<k1>:<k2>:<k3>` query;
       reply: answers of the `q` items (`<v>` | `E`) joined by `;`, `!` appended when an item was impossible
-/
namespace BreezyVerif.C38

def showOptB : Option B → String
  | none => "~"
  | some b => toHex b

def parseOptB (s : String) : Option (Option B) :=
  if s == "~" then some none else (fromHex s).map some

def parseOp (s : String) : Option Op :=
  match s.splitOn ":" with
  | ["c", r, h, t, tm] => do pure (.commit (← fromHex r) (← fromHex h) (← fromHex t) (← parseOptB tm))
  | ["b", h, f, r] => do pure (.blob (← fromHex h) (← fromHex f) (← fromHex r))
  | ["t", h, f, r] => do pure (.tree (← fromHex h) (← fromHex f) (← fromHex r))
  | _ => none

def parseOps (s : String) : Option (List Op) :=
  if s == "-" then some [] else (s.splitOn ";").mapM parseOp

def parseBackend (s : String) : Option Backend :=
  if s == "dict" then some .dict else if s == "sqlite" then some .sqlite
  else if s == "index" then some .index else none

def sortStrings (l : List String) : List String := l.mergeSort (fun a b => decide (a ≤ b))

def joinComma (l : List String) : String := if l.isEmpty then "-" else ",".intercalate l

def showEntry : Entry → String
  | .commit r t tm => s!"c:{toHex r}:{toHex t}:{showOptB tm}"
  | .blob f r => s!"b:{toHex f}:{toHex r}"
  | .tree f r => s!"t:{toHex f}:{toHex r}"

def showSet (l : List B) : String := joinComma (sortStrings (l.map toHex).eraseDups)

def answer (b : Backend) (st : St) (q : String) : Option String :=
  match q.splitOn ":" with
  | ["g", h] => do
    let h ← fromHex h
    let es := gitSha st h
    pure (if es.isEmpty then "E" else ",".intercalate (sortStrings (es.map showEntry)))
  | ["b", f, r] => do
    pure (match blobId st (← fromHex f, ← fromHex r) with | some s => toHex s | none => "E")
  | ["t", f, r] => do
    pure (match treeId b st (← fromHex f, ← fromHex r) with
      | .found s => toHex s | .missing => "E" | .unsupported => "N")
  | ["c", r] => do
    pure (match commitId st (← fromHex r) with | some s => toHex s | none => "E")
  | ["R"] => some (showSet (revids st))
  | ["S"] => some (showSet (sha1s st))
  | ["m", xs] => do
    let xs ← (splitList xs).mapM fromHex
    pure (showSet (missing st xs))
  | _ => none

def parseIKey (a b c : String) : Option IKey := do pure (← fromHex a, ← fromHex b, ← fromHex c)

def permute (ls : List Layer) (idx : List Nat) : Option (List Layer) :=
  if idx.length == ls.length && (List.range ls.length).all (fun i => idx.contains i) then
    idx.mapM fun i => ls[i]?
  else none

/-- returns (store, answers reversed, impossible flag) -/
def idxStep (acc : IdxStore × List String × Bool) (item : String) : Option (IdxStore × List String × Bool) :=
  let (s, out, bad) := acc
  match item.splitOn ":" with
  | ["s"] => some (match s.startWriteGroup with | some s' => (s', out, bad) | none => (s, out, true))
  | ["w"] => some (match s.commitWriteGroup with | some s' => (s', out, bad) | none => (s, out, true))
  | ["a", a, b, c, v] => do
    let k ← parseIKey a b c
    let v ← fromHex v
    pure (match s.addNode k v with | some s' => (s', out, bad) | none => (s, out, true))
  | ["o", p] => do
    let idx ← parseNatList p
    match permute s.files idx with
    | some fs => pure (IdxStore.reopen fs, out, bad)
    | none => none
  | ["q", a, b, c] => do
    let k ← parseIKey a b c
    pure (s, (match s.get k with | some v => toHex v | none => "E") :: out, bad)
  | _ => none

/-- the in-memory backend as it is: blob and tree ids come from the one shared dict -/
def answerShared (ops : List Op) (st : St) (q : String) : Option String :=
  match q.splitOn ":" with
  | ["b", f, r] => do
    pure (match sharedId ops (← fromHex f, ← fromHex r) with | some s => toHex s | none => "E")
  | ["t", f, r] => do
    pure (match sharedId ops (← fromHex f, ← fromHex r) with | some s => toHex s | none => "E")
  | _ => answer .dict st q

def showNode (n : IKey × B) : String :=
  s!"{toHex n.1.1}:{toHex n.1.2.1}:{toHex n.1.2.2}={toHex n.2}"

def parseGroups (s : String) : Option (List (List Op)) :=
  if s == "-" then some [] else (s.splitOn "|").mapM parseOps

/-- raw node queries: `G:<sha>`, `B:<fid>:<rev>`, `C:<revid>` -/
def nodeKey (q : String) : Option IKey :=
  match q.splitOn ":" with
  | ["G", h] => (fromHex h).map gitKey
  | ["B", f, r] => do pure (blobKey (← fromHex f) (← fromHex r))
  | ["C", r] => (fromHex r).map commitKey
  | _ => none

def showGet (s : IdxStore) (k : IKey) : String :=
  match s.get k with | some v => toHex v | none => "E"

def handle : List String → String
  | ["run", "dictshared", ops, qs] =>
    match parseOps ops with
    | some ops =>
      let st := run .dict St.empty ops
      match (qs.splitOn ";").mapM (answerShared ops st) with
      | some as => ";".intercalate as
      | none => "bad-op"
    | none => "bad-op"
  | ["nodes", op] =>
    match parseOp op with
    | some o => ";".intercalate ((opNodes o).map showNode)
    | none => "bad-op"
  | ["groups", gs, qs] =>
    match parseGroups gs, (qs.splitOn ";").mapM nodeKey with
    | some gs, some ks =>
      match IdxStore.empty.runGroups gs with
      | some s =>
        let s' := IdxStore.reopen s.files.reverse
        ";".intercalate (ks.map (showGet s)) ++ " " ++ ";".intercalate (ks.map (showGet s')) ++ " " ++
          toString s.files.length
      | none => "E:script"
    | _, _ => "bad-op"
  | ["run", b, ops, qs] =>
    match parseBackend b, parseOps ops with
    | some b, some ops =>
      let st := run b St.empty ops
      match (qs.splitOn ";").mapM (answer b st) with
      | some as => ";".intercalate as
      | none => "bad-op"
    | _, _ => "bad-op"
  | ["hyp", ops] =>
    match parseOps ops with
    | some ops => s!"{showBool (okSeq okSqlite St.empty ops)} {showBool (okSeq okIndex St.empty ops)}"
    | none => "bad-op"
  | ["idx", script] =>
    let items := script.splitOn ";"
    let r := items.foldlM idxStep (({ files := [], builder := none } : IdxStore), ([] : List String), false)
    match r with
    | some (_, out, bad) => joinComma' out.reverse ++ (if bad then "!" else "")
    | none => "bad-op"
  | _ => "bad-op"
where joinComma' (l : List String) : String := if l.isEmpty then "-" else ";".intercalate l

end BreezyVerif.C38

def main : IO Unit := BreezyVerif.runDriver BreezyVerif.C38.handle
