import BreezyVerif.Lemmas.C50W
/-! C50 — mixed command lines: arguments made of quoted and unquoted segments,
separated by arbitrary whitespace (`layout`). -/
namespace BreezyVerif.C50

/-- the end of an argument (end of line or a whitespace character) in a plain
state that has a token in progress -/
theorem end_read (sq : Bool) (rest : Str) (hb : Boundary rest) (x : Ctx) (o : Outer)
    (h : o = .word ∨ x.touched = true) :
    run sq (.at (.plain o)) x rest
      = emitQ x.quoted x.chars (run sq (.at (.plain .ws)) {} rest) := by
  rcases hb with rfl | ⟨c, more, rfl, hc⟩
  · simp [run, finish, emit_eq, emitQ]
  · have this : run sq (.at (.plain .ws)) {} (c :: more) = run sq (.at (.plain .ws)) {} more := by
      rw [run_cons]; simp [step1, procExit, hc, cont]
    rw [this, run_cons]
    rcases h with rfl | h
    · simp [step1, procExit, hc, cont, emit_eq]
    · cases o <;> simp [step1, procExit, hc, h, cont, emit_eq]

theorem getLast?_cons_of_ne_nil {c : Char} {cs : Str} (h : cs ≠ []) :
    (c :: cs).getLast? = cs.getLast? := by
  cases cs with
  | nil => exact absurd rfl h
  | cons d ds => simp

/-- an unquoted segment that does not end in a backslash is read completely,
whatever follows, and leaves the machine in `_Word`: `A` from
`_Whitespace`/`_Word`, `B` from `_Backslash` with a positive count -/
theorem word_pass (sq : Bool) (rest : Str) (w : Str) :
    w ≠ [] → w.all (wordChar sq) = true → w.getLast? ≠ some '\\' →
    (∀ x o, run sq (.at (.plain o)) x (w ++ rest)
        = run sq (.at (.plain .word)) (x.app w) rest) ∧
    (∀ x o n, 0 < n → run sq (.bs (.plain o) n) x (w ++ rest)
        = run sq (.at (.plain .word)) (x.app (rep n ++ w)) rest) := by
  induction w with
  | nil => intro h; exact absurd rfl h
  | cons c cs ih =>
    intro _ hw hl
    simp only [List.all_cons, Bool.and_eq_true] at hw
    obtain ⟨hc, hcs⟩ := hw
    by_cases hnil : cs = []
    · subst hnil
      have hbs : c ≠ '\\' := by
        intro e; subst e; simp at hl
      have hp : plain sq c = true := by simpa [wordChar, hbs] using hc
      simp only [plain, Bool.and_eq_true, Bool.not_eq_true', decide_eq_false_iff_not] at hp
      obtain ⟨⟨h1, h2⟩, _⟩ := hp
      refine ⟨?_, ?_⟩
      · intro x o
        simp only [List.cons_append, List.nil_append]
        rw [run_cons]
        cases o <;> simp_all [step1, procExit, cont]
      · intro x o n hn
        simp only [List.cons_append, List.nil_append]
        rw [run_cons]
        cases o <;> simp_all [step1, procExit, cont]
    · rw [getLast?_cons_of_ne_nil hnil] at hl
      obtain ⟨ihA, ihB⟩ := ih hnil hcs hl
      refine ⟨?_, ?_⟩
      · intro x o
        simp only [List.cons_append]
        rw [run_cons]
        by_cases hbs : c = '\\'
        · subst hbs
          have := ihB x o 1 (by omega)
          cases o <;> simp_all [step1, procExit, cont, rep]
        · have hp : plain sq c = true := by simpa [wordChar, hbs] using hc
          simp only [plain, Bool.and_eq_true, Bool.not_eq_true', decide_eq_false_iff_not] at hp
          obtain ⟨⟨h1, h2⟩, _⟩ := hp
          have := ihA (x.app [c]) .word
          cases o <;> simp_all [step1, procExit, cont]
      · intro x o n hn
        simp only [List.cons_append]
        rw [run_cons]
        by_cases hbs : c = '\\'
        · subst hbs
          have := ihB x o (n + 1) (by omega)
          simp_all [step1, cont, rep_succ]
        · have hp : plain sq c = true := by simpa [wordChar, hbs] using hc
          simp only [plain, Bool.and_eq_true, Bool.not_eq_true', decide_eq_false_iff_not] at hp
          obtain ⟨⟨h1, h2⟩, _⟩ := hp
          have := ihA ((x.app (rep n)).app [c]) .word
          cases o <;> simp_all [step1, procExit, cont]

/-- `context.quoted = True` happens only when the quote is met in `_Whitespace` -/
def markQ : Outer → Ctx → Ctx
  | .ws, x => { x with quoted := true }
  | .word, x => x

def isWsState : Outer → Bool
  | .ws => true
  | .word => false

/-- a quoted segment met in a plain state is read back and returns to that state -/
theorem quote_read (sq : Bool) (o : Outer) (x : Ctx) (a rest : Str) :
    run sq (.at (.plain o)) x (quote sq a ++ rest)
      = run sq (.at (.plain o)) ((markQ o x).app a) rest := by
  have h := (esc_read sq o rest a).1
  have e : quote sq a ++ rest = '"' :: (esc sq a ++ '"' :: rest) := by simp [quote]
  rw [e, run_cons]
  cases o
  · simp only [step1, procExit, isWs_dq, allowed_dq, Bool.false_eq_true, if_false, if_true, cont]
    exact h _
  · simp only [step1, procExit, isWs_dq, allowed_dq, Bool.false_eq_true, if_false, if_true, cont]
    exact h _

@[simp] theorem itemText_nil (sq : Bool) : itemText sq [] = [] := rfl
@[simp] theorem itemText_cons (sq : Bool) (s : Seg) (r : List Seg) :
    itemText sq (s :: r) = s.text sq ++ itemText sq r := by simp [itemText]
@[simp] theorem itemVal_nil : itemVal [] = [] := rfl
@[simp] theorem itemVal_cons (s : Seg) (r : List Seg) : itemVal (s :: r) = s.val ++ itemVal r := by
  simp [itemVal]

/-- one argument (a run of segments) up to the end or the next whitespace -/
theorem item_read (sq : Bool) (rest : Str) (hb : Boundary rest) :
    ∀ (it : List Seg) (x : Ctx) (o : Outer), itemOk sq it = true →
      (it ≠ [] ∨ o = .word ∨ x.touched = true) →
      run sq (.at (.plain o)) x (itemText sq it ++ rest)
        = emitQ (x.quoted || (isWsState o && itemQuoted it)) (x.chars ++ itemVal it)
            (run sq (.at (.plain .ws)) {} rest) := by
  intro it
  induction it with
  | nil =>
    intro x o _ h
    have h' : o = .word ∨ x.touched = true := by
      rcases h with h | h
      · exact absurd rfl h
      · exact h
    simp only [itemText_nil, List.nil_append, itemVal_nil, List.append_nil]
    rw [end_read sq rest hb x o h']
    simp [itemQuoted]
  | cons s r ih =>
    intro x o hok _
    cases s with
    | q a =>
      have hok' : itemOk sq r = true := by simpa [itemOk] using hok
      simp only [itemText_cons, Seg.text, List.append_assoc, itemVal_cons, Seg.val]
      rw [quote_read, ih _ o hok' (Or.inr (Or.inr rfl))]
      cases o <;> simp [markQ, isWsState, itemQuoted]
    | w s =>
      simp only [itemOk, Bool.and_eq_true, Bool.not_eq_true', List.isEmpty_eq_false_iff,
        Bool.or_eq_true, List.isEmpty_iff, bne_iff_ne, ne_eq] at hok
      obtain ⟨⟨⟨hne, hw⟩, hlast⟩, hok'⟩ := hok
      simp only [itemText_cons, Seg.text, List.append_assoc, itemVal_cons, Seg.val]
      cases r with
      | nil =>
        simp only [itemText_nil, List.nil_append, itemVal_nil, List.append_nil]
        rw [(word_read sq rest hb s).1 x o (Or.inr hne) hw]
        simp [itemQuoted]
      | cons s2 r' =>
        have hl : s.getLast? ≠ some '\\' := by
          rcases hlast with h | h
          · exact absurd h (by simp)
          · exact h
        rw [(word_pass sq _ s hne hw hl).1 x o, ih _ .word hok' (Or.inl (by simp))]
        simp [isWsState, itemQuoted]

/-- a well-formed non-empty argument is never dropped: it is quoted or has text -/
theorem item_nonvoid (sq : Bool) (it : List Seg) (hne : it ≠ []) (hok : itemOk sq it = true) :
    itemQuoted it = true ∨ itemVal it ≠ [] := by
  cases it with
  | nil => exact absurd rfl hne
  | cons s r =>
    cases s with
    | q a => left; rfl
    | w s =>
      right
      simp only [itemOk, Bool.and_eq_true, Bool.not_eq_true', List.isEmpty_eq_false_iff] at hok
      have : s ≠ [] := hok.1.1.1
      simp [Seg.val, this]

/-- one argument at the start of a token -/
theorem tokens_item (sq : Bool) (it : List Seg) (rest : Str) (hb : Boundary rest) (hne : it ≠ [])
    (hok : itemOk sq it = true) :
    tokens sq (itemText sq it ++ rest) = (itemQuoted it, itemVal it) :: tokens sq rest := by
  have := item_read sq rest hb it {} .ws hok (Or.inl hne)
  simp only [tokens]
  rw [this]
  rcases item_nonvoid sq it hne hok with h | h
  · simp [emitQ, isWsState, h]
  · simp [emitQ, isWsState, h]

/-- general form of `tokens_mixed_line` -/
theorem tokens_layout (sq : Bool) (trail : Str) (ht : trail.all isWs = true) :
    ∀ items : List (Str × List Seg),
      (∀ p ∈ items, p.1.all isWs = true ∧ p.2 ≠ [] ∧ itemOk sq p.2 = true) →
      (∀ p ∈ items.tail, p.1 ≠ []) →
      tokens sq (layout sq items ++ trail) = items.map (fun p => (itemQuoted p.2, itemVal p.2)) := by
  intro items
  induction items with
  | nil =>
    intro _ _
    have := tokens_ws sq trail [] ht
    simp only [List.append_nil] at this
    simp only [layout, List.nil_append, List.map_nil]
    rw [this]
    simp [tokens, run, finish, emit, result]
  | cons p r ih =>
    intro h1 h2
    obtain ⟨sep, it⟩ := p
    obtain ⟨hs, hne, hok⟩ := h1 (sep, it) (by simp)
    simp only [layout, List.append_assoc, List.map_cons]
    rw [tokens_ws sq sep _ hs]
    have hb : Boundary (layout sq r ++ trail) := by
      cases r with
      | nil =>
        cases trail with
        | nil => left; rfl
        | cons c t =>
          right; simp only [List.all_cons, Bool.and_eq_true] at ht
          exact ⟨c, t, rfl, ht.1⟩
      | cons q r' =>
        obtain ⟨sep', it'⟩ := q
        have hq := h1 (sep', it') (by simp)
        have hne' : sep' ≠ [] := h2 (sep', it') (by simp)
        cases sep' with
        | nil => exact absurd rfl hne'
        | cons c t =>
          right
          have := hq.1
          simp only [List.all_cons, Bool.and_eq_true] at this
          exact ⟨c, t ++ (itemText sq it' ++ layout sq r') ++ trail, by simp [layout], this.1⟩
    rw [tokens_item sq it _ hb hne hok]
    rw [ih (fun p hp => h1 p (by simp [hp])) (fun p hp => h2 p (by
      simp only [List.tail_cons]; exact List.mem_of_mem_tail hp))]

/-! ### the older layouts are instances of `layout` -/

/-- `" ".join(quote(a) for a in args)` as a layout: no whitespace before the
first argument, one space before each of the others -/
def spItems : List Str → List (Str × List Seg)
  | [] => []
  | a :: r => ([], [.q a]) :: r.map (fun b => ([' '], [.q b]))

theorem joinSp_cons_layout (sq : Bool) (r : List Str) : ∀ a : Str,
    joinSp ((a :: r).map (quote sq))
      = quote sq a ++ layout sq (r.map (fun b => ([' '], [Seg.q b]))) := by
  induction r with
  | nil => intro a; simp [joinSp, layout]
  | cons b r' ih =>
    intro a
    have := ih b
    simp only [List.map_cons] at this ⊢
    simp only [joinSp, layout, this, itemText_cons, itemText_nil, Seg.text]
    simp

theorem joinSp_layout (sq : Bool) (args : List Str) :
    joinSp (args.map (quote sq)) = layout sq (spItems args) := by
  cases args with
  | nil => rfl
  | cons a r =>
    rw [joinSp_cons_layout]
    simp [spItems, layout, Seg.text]

theorem wsJoin_layout (sq : Bool) (items : List (Str × Str)) :
    wsJoin items = layout sq (items.map (fun p => (p.1, [Seg.w p.2]))) := by
  induction items with
  | nil => rfl
  | cons p r ih =>
    obtain ⟨sep, w⟩ := p
    simp [wsJoin, layout, ih, Seg.text]

end BreezyVerif.C50
