"""C21 — pull and push never silently drop history.

Mechanism: breezy/branch.py (Branch._revision_relations,
_check_if_descendant_or_diverged, GenericInterBranch._update_revisions,
_basic_push, pull, push incl. bound targets), breezy/bzr/branch.py
(BzrBranch.set_last_revision_info, BzrBranch8._check_history_violation),
breezy/git/branch.py (_update_tip, GitBranch.generate_revision_history).

T1: `_revision_relations` and `_check_if_descendant_or_diverged` are
    transcribed from the source into Generated/C21.lean and proved equal to the
    model (Props/C21T1.lean).
T2: (a) `_revision_relations` / `_check_if_descendant_or_diverged` on every
    possible answer of graph.heads (all subsets of {a, b}, a == b and a != b,
    null: included) — exhaustive;
    (b) random revision DAGs (merges, several roots, ghost parents, left-hand
    ghosts) built with real commits (BranchBuilder); for every pair of
    revisions the model's graph functions (is_ancestor, heads, relation,
    left-hand history, revno) are compared with what vcsgraph and the real
    Branch methods answer on the real repository;
    (c) for every (target tip, stop revision) pair of every DAG and every
    (source tip, target tip) pair with stop_revision=None, real Branch.pull /
    Branch.push between branches with separate repositories, with random
    overwrite value (False, True, {"tags"}, {"history"}), append-only flag,
    bound target (master in or out of step, master append-only); compared with
    the model on: exception class, persisted (tip, revno) of target and master;
    (d) git: random merge DAGs committed through git working trees, real
    pull/push between local git branches, compared with `updateTipGit`;
    (e) pull(local=True) (bound and unbound targets) and pulls from the
    target's own master (source_is_master), compared with `pullOpX`;
    (f) the target opened through bzr:// (RemoteBranch; an in-process
    SmartTCPServer over the memory transport): push goes through the
    Branch.set_last_revision_info verb, pull through the VFS branch; compared
    with the same model modulo the error class of an append-only refusal
    (RevisionNotPresent for null: through the client-side graph);
    (g) sequences of 2..4 pulls/pushes over 3..4 persistent branches (own
    repositories holding the whole DAG, some append-only, the target bound to a
    third branch for some ops): the persisted (tip, revno) of ALL branches
    after EVERY op is compared with the model's `step`/`run` (driver `seq`).
Oracle (independent of the Lean model, on a Python reference of the DAG):
    without overwrite the old tip is an ancestor of (or equal to) the new tip,
    for the target and for its master; on any exception the target tip is
    unchanged; stop descends from tip => tip moves to stop, tip contains stop
    => unchanged and no error, neither => DivergedBranches; with overwrite the
    tip is the requested revision; the recorded revno equals the length of the
    left-hand history; with append-only no accepted tip lacks the old tip in
    its left-hand history; a failed bound operation: diverged from the master
    => DivergedBranches and the master unchanged, master moved/contained => the
    error is justified by the target; local=True never moves the master and
    needs a bound target; pulling from the master never moves it; in sequences
    additionally: branches that are neither target nor master never change, and
    the run-level statements (original tip is an ancestor of the final tip when
    nothing overwrote; append-only: on its left-hand history; final revnos).

Mutation self-test (scratch worktree, quick tier, seed 0; all caught):
 M1  _revision_relations: 'b_descends_from_a' / 'a_descends_from_b' swapped     -> oracle (+T1, T2)
 M2  _revision_relations: diverged heads answered 'a_descends_from_b'          -> oracle "tip moved to a
     revision that does not contain it" (+T1, T2)
 M3  _pull: overwrite=("history" in overwrite) -> bool(overwrite) ({"tags"} now
     overwrites history; needs overwrite={"tags"} and a diverged pair)          -> oracle
 M4  set_last_revision_info: _check_history_violation call dropped              -> oracle (append-only)
 M5  _check_history_violation walks iter_ancestry instead of the left-hand side
     (needs old tip merged as a NON-left-hand parent)                           -> oracle
 M6  _check_history_violation: is_null early return removed (differs only when
     the new tip has a left-hand ghost: the walk yields null: at its end)       -> T2 mismatch
 M7  _update_revisions: stop_revno = other_revno also when stop_revision given -> oracle (revno)
 M8  push: master_inter._basic_push skipped for a bound target                  -> oracle (master)
 M9  git _update_tip: is_ancestor(revid, last_rev) arguments swapped            -> oracle (git)
 M10 known revnos swapped between the two find_distance_to_null seeds           -> oracle (revno)
 M11 _basic_push short-circuit compares stop_revision with the SOURCE tip       -> oracle
 M12 git generate_revision_history without the divergence check                 -> oracle (git)
 H1  harmless: elif chain of _check_if_descendant_or_diverged reordered,
     last_revision() -> last_revision_info()[1]                                 -> clean, T1 still proved
Improvement round (streams e-g):
 M13 pull: `not local` dropped from the master-pull condition                   -> oracle "pull(local=True) moved the master"
 M14 pull: LocalRequiresBoundBranch test removed                                -> oracle (local=True, unbound)
 M15 RemoteBranch.set_last_revision_info sends old_revno + 1                    -> oracle (revno, bzr:// stream only)
 M16 push: target pushed before the master of a bound target                    -> oracle "raised but the target tip changed" (+ sequences)
 H2  harmless: `if master_branch:` -> `if master_branch is not None:`           -> clean
 stored seeds C21-bound-push-updates-local-before-master, C21-push-overwrite-set-truthiness -> oracle, seeds 0..3
"""
import ast
import itertools
import os
import random
import sys

from vlib import env

THEOREMS = [
    "isAnc_refl", "isAnc_antisymm", "isAnc_trans",
    "relations_total", "update_contained", "update_descends", "update_diverged",
    "overwrite_sets", "update_error_unchanged", "no_overwrite_never_drops",
    "revno_is_lefthand_length", "append_only", "push_pull_never_drop",
    "run_revno_invariant", "run_never_drops", "git_agrees_with_bzr",
    "update_descends_append_only", "overwrite_sets_append_only", "run_append_only", "op_append_only",
    "bound_eq_update", "bound_master_diverged", "bound_both_contained", "bound_both_descend",
    "bound_master_moves_target_diverged", "bound_in_step_stays", "pull_local_or_from_master",
]
T1_EQUALITY_THEOREMS = ["revision_relations_gen_eq", "check_relation_gen_eq"]
RULE = ("scenario = random revision DAG (3..N revisions, merges, extra roots, ghost parents, left-hand ghosts) "
        "committed with BranchBuilder (2a) or git working trees; cases = all (target tip, stop) pairs and all "
        "(source tip, target tip) pairs with stop=None, each with random pull/push, overwrite in "
        "{False,True,{tags},{history}}, append-only, bound master, local=True, source = master; for the first DAGs "
        "also random cases with the target opened through bzr://; per DAG 3..5 sequences of 2..4 ops over 3..4 "
        "persistent branches (non-trivial = at least two ops moved a tip); plus every heads() answer for "
        "_revision_relations; non-trivial = the target tip and the requested revision are both non-null and "
        "differ; distinct by (graph, case)")
ASSUMPTIONS = [
    "a revision missing from one repository is missing from all (ghosts are global); source repository holds every revision of the DAG",
    "vcsgraph (compiled) answers heads/is_ancestor/iter_lefthand_ancestry/find_distance_to_null as the Lean graph model specifies — compared per revision pair of every generated DAG",
    "recorded revnos of the initial branches equal the length of their left-hand history (hypothesis of the revno invariant); tips with a ghost in their left-hand history are an excluded-input stream compared with the model but not with the revno oracle",
]
TRUSTED = [
    "tag merging, reference updates, hooks and locking are not modelled; fetch is modelled as 'the stop revision must be present'",
    "the smart-server path (RemoteBranch target) is not modelled separately: it is compared with the model of the local code, modulo the error class of an append-only refusal",
    "a master that is itself bound (pull recurses into the master's master) is not modelled",
]

NULL = b"null:"
GH0 = 100          # ghost ids are >= GH0


# ---------------------------------------------------------------------------
# T1

class _Tr:
    """decision-function transcription for the two C21 functions (extends the
    shape handled by tools/extract.py with set displays and raise)"""

    def __init__(self, ex, ret, raises, consts, names):
        self.ex, self.ret, self.raises, self.consts, self.names = ex, ret, raises, consts, names

    def expr(self, e):
        if isinstance(e, ast.Name):
            if e.id not in self.names:
                raise self.ex.ExtractError("unexpected name %s" % e.id)
            return self.names[e.id]
        if isinstance(e, ast.Constant) and e.value in self.consts:
            return self.consts[e.value]
        raise self.ex.ExtractError("unsupported expression: %s" % ast.unparse(e))

    def cond(self, e):
        if isinstance(e, ast.Compare) and len(e.ops) == 1 and isinstance(e.ops[0], ast.Eq):
            l, r = e.left, e.comparators[0]
            if isinstance(r, ast.Set):
                return "(sameSet %s [%s] = true)" % (self.expr(l), ", ".join(self.expr(x) for x in r.elts))
            return "(%s = %s)" % (self.expr(l), self.expr(r))
        raise self.ex.ExtractError("unsupported condition: %s" % ast.unparse(e))

    def block(self, stmts, indent="  "):
        stmts = [s for s in stmts if not (isinstance(s, ast.Expr) and isinstance(s.value, ast.Constant))]
        if not stmts:
            raise self.ex.ExtractError("path without return")
        s, rest = stmts[0], stmts[1:]
        if isinstance(s, ast.Return):
            return self.ret(s.value)
        if isinstance(s, ast.Raise):
            name = ast.unparse(s.exc.func) if isinstance(s.exc, ast.Call) else ast.unparse(s.exc)
            if name not in self.raises:
                raise self.ex.ExtractError("unexpected raise %s" % name)
            return self.raises[name]
        if isinstance(s, ast.If):
            then = self.block(s.body, indent + "  ")
            els = self.block(s.orelse if s.orelse else rest, indent + "  ")
            return "if %s then %s\n%selse %s" % (self.cond(s.test), then, indent, els)
        raise self.ex.ExtractError("unsupported statement: %s" % ast.unparse(s)[:80])


def extract(ctx):
    sys.path.insert(0, os.path.join(env.VERIF, "tools"))
    import extract as ex
    path = os.path.join(env.REPO, "breezy/branch.py")
    rel_names = {"b_descends_from_a": "Relation.bDescendsFromA", "diverged": "Relation.diverged",
                 "a_descends_from_b": "Relation.aDescendsFromB"}

    def body_of(f):
        return [s for s in f.body if not (isinstance(s, ast.Expr) and isinstance(s.value, ast.Constant))]

    f = ex.find_func(path, "Branch._revision_relations")
    if [a.arg for a in f.args.args] != ["self", "revision_a", "revision_b", "graph"]:
        raise ex.ExtractError("unexpected parameters of _revision_relations")
    body = body_of(f)
    if ast.unparse(body[0]) != "heads = graph.heads([revision_a, revision_b])":
        raise ex.ExtractError("unexpected first statement: %s" % ast.unparse(body[0]))

    def ret_rel(v):
        if isinstance(v, ast.Constant) and v.value in rel_names:
            return rel_names[v.value]
        raise ex.ExtractError("unexpected return %s" % ast.unparse(v))
    t1 = _Tr(ex, ret_rel, {"AssertionError": "Relation.invalid"}, {},
             {"heads": "hs", "revision_a": "revision_a", "revision_b": "revision_b"})
    rel_body = t1.block(body[1:])

    f = ex.find_func(path, "Branch._check_if_descendant_or_diverged")
    if [a.arg for a in f.args.args] != ["self", "revision_a", "revision_b", "graph", "other_branch"]:
        raise ex.ExtractError("unexpected parameters of _check_if_descendant_or_diverged")
    body = body_of(f)
    if ast.unparse(body[0]) != "relation = self._revision_relations(revision_a, revision_b, graph)":
        raise ex.ExtractError("unexpected first statement: %s" % ast.unparse(body[0]))

    def ret_chk(v):
        if isinstance(v, ast.Constant) and v.value is True:
            return "Except.ok true"
        if isinstance(v, ast.Constant) and v.value is False:
            return "Except.ok false"
        raise ex.ExtractError("unexpected return %s" % ast.unparse(v))
    t2 = _Tr(ex, ret_chk, {"errors.DivergedBranches": "Except.error Err.diverged",
                           "AssertionError": "Except.error Err.assertion"},
             rel_names, {"relation": "relation"})
    chk_body = t2.block(body[1:])
    text = ("-- GENERATED by harness/checks/c21.py from breezy/branch.py — do not edit\n"
            "import BreezyVerif.Model.C21\nnamespace BreezyVerif.C21\n"
            "def revisionRelationsGen (hs : List Tip) (revision_a revision_b : Tip) : Relation :=\n  "
            + rel_body + "\n"
            "def checkRelationGen (relation : Relation) : Except Err Bool :=\n  "
            + chk_body + "\nend BreezyVerif.C21\n")
    ex.write_if_changed(os.path.join(env.VERIF, "lean/BreezyVerif/Generated/C21.lean"), text)
    return "regenerated revisionRelationsGen, checkRelationGen from Branch._revision_relations, _check_if_descendant_or_diverged"


# ---------------------------------------------------------------------------
# DAGs and the Python reference (independent of the Lean model)

def gen_dag(rng, n, ghosts=True, multi_root=True, max_parents=3):
    """-> dict(order=[1..n], parents={rev: [parents]}); ghost ids >= GH0"""
    parents = {}
    ng = 0
    for i in range(1, n + 1):
        earlier = list(range(1, i))
        ps = []
        if earlier:
            r = rng.random()
            if multi_root and r < 0.07:
                ps = []
            elif ghosts and r < 0.13:
                ps = [GH0 + ng]
                ng += 1
            else:
                # prefer recent revisions so that chains and merges both occur
                ps = [rng.choice(earlier[-3:]) if rng.random() < 0.6 else rng.choice(earlier)]
        elif ghosts and rng.random() < 0.08:
            ps = [GH0 + ng]
            ng += 1
        if ps and earlier:
            while len(ps) < max_parents and rng.random() < 0.35:
                if ghosts and rng.random() < 0.2:
                    ps.append(GH0 + ng)
                    ng += 1
                else:
                    cand = [e for e in earlier if e not in ps]
                    if not cand:
                        break
                    ps.append(rng.choice(cand))
        parents[i] = ps
    return dict(order=list(range(1, n + 1)), parents=parents)


def enc_graph(dag):
    return ";".join("%d:%s" % (r, ",".join(map(str, dag["parents"][r]))) for r in reversed(dag["order"])) or "-"


def ref_anc(dag, r):
    """ancestors of r (inclusive); None = null:"""
    if r is None:
        return set()
    seen, todo = set(), [r]
    while todo:
        x = todo.pop()
        if x in seen:
            continue
        seen.add(x)
        todo.extend(dag["parents"].get(x, []))
    return seen


def ref_is_anc(dag, a, b):
    if a is None:
        return True
    if b is None:
        return False
    return a in ref_anc(dag, b)


def ref_lh(dag, r):
    """left-hand history (newest first) or None when it runs into a ghost"""
    out = []
    while r is not None:
        if r not in dag["parents"]:
            return None
        out.append(r)
        ps = dag["parents"][r]
        r = ps[0] if ps else None
    return out


def ref_lh_stop_at_ghost(dag, r):
    """Branch._lefthand_history semantics: ghosts end the walk silently"""
    out = []
    while r is not None and r in dag["parents"]:
        out.append(r)
        ps = dag["parents"][r]
        r = ps[0] if ps else None
    return out


def rid(r):
    if r is None:
        return NULL
    return (b"g%d" % r) if r >= GH0 else (b"r%d" % r)


def unrid(b):
    if b == NULL:
        return None
    return int(b[1:])


def tip_s(t):
    return "~" if t is None else str(t)


ERRS = {
    "DivergedBranches": "E:Diverged", "NoSuchRevision": "E:NoSuchRevision",
    "GhostRevisionsHaveNoRevno": "E:GhostRevno", "AppendRevisionsOnlyViolation": "E:AppendOnly",
    "RevisionNotPresent": "E:NotPresent", "AssertionError": "E:Assertion",
    "LocalRequiresBoundBranch": "E:LocalRequiresBound",
}
# connection-level failures of the in-process smart server are infrastructure problems, never outcomes
INFRA_ERRS = ("ConnectionError", "ConnectionReset", "ConnectionTimeout", "TooManyConcurrentRequests",
              "SmartProtocolError", "SmartMessageHandlerError", "timeout", "TimeoutError",
              "ConnectionRefusedError", "ConnectionResetError", "BrokenPipeError", "LockContention", "LockFailed")


def err_s(e):
    name = type(e).__name__
    if name == "UnknownErrorFromSmartServer":
        # an exception of the server side that has no wire translation: (b"error", <class name>, <message>)
        tup = getattr(e, "error_tuple", ()) or ()
        inner = tup[1].decode("ascii", "replace") if len(tup) > 1 and isinstance(tup[1], bytes) else "?"
        inner = inner.split(".")[-1]          # e.g. vcsgraph.errors.RevisionNotPresent
        return ERRS.get(inner, "E:other:server:" + inner)
    if name in INFRA_ERRS:
        raise env.InfraError("smart-server / locking problem while running a case: %s: %s" % (name, e))
    return ERRS.get(name, "E:other:" + name)


# ---------------------------------------------------------------------------
# real code: bzr

class Universe:
    """all revisions of a DAG committed into one 2a branch on a memory server"""

    def new_branch(self, tip, revno, whole=False):
        from breezy.controldir import ControlDir, format_registry
        self.n += 1
        br = ControlDir.create_branch_convenience(
            self.base + "b%d" % self.n, format=format_registry.make_controldir("2a"), force_new_tree=False)
        if whole:
            br.repository.fetch(self.U.repository)
        elif tip is not None:
            br.repository.fetch(self.U.repository, revision_id=rid(tip))
        if tip is not None:
            br.set_last_revision_info(revno, rid(tip))
        return br


def build_universe(dag):
    from breezy.branchbuilder import BranchBuilder
    from breezy.transport import get_transport
    from dromedary.memory import MemoryServer
    u = Universe.__new__(Universe)
    u.dag = dag
    u.srv = MemoryServer()
    u.srv.start_server()
    u.base = u.srv.get_url()
    t = get_transport(u.base)
    t.mkdir("u")
    bb = BranchBuilder(t.clone("u"), format="2a")
    u.U = bb.get_branch()
    u.recorded = {None: 0}
    u.n = 0
    for r in dag["order"]:
        ps = dag["parents"][r]
        base = ps[0] if ps else None
        base_revno = u.recorded.get(base, 0)
        if base is not None and base >= GH0:
            # left-hand ghost: the memory tree has to be created while the
            # branch still points at a present revision
            u.U.set_last_revision_info(0, NULL)
            tree = u.U.create_memorytree()
            with tree.lock_write():
                tree.set_parent_ids([rid(p) for p in ps], allow_leftmost_as_ghost=True)
                tree.add("")
                u.U.set_last_revision_info(0, rid(base))
                tree.commit("rev %d" % r, rev_id=rid(r))
        else:
            u.U.set_last_revision_info(base_revno, rid(base))
            # the root directory has to be added when the basis tree is empty
            bb.build_snapshot([rid(p) for p in ps],
                              [("add", ("", b"root-id", "directory", None))] if base is None else [],
                              revision_id=rid(r))
        u.recorded[r] = u.U.last_revision_info()[0]
    return u


def recorded_revno(dag, t):
    """the revno a branch at tip t records in a natural history: number of
    present revisions on the left-hand chain"""
    return len(ref_lh_stop_at_ghost(dag, t))


def gen_cases(rng, dag, pairs_only=False):
    """all (tgt, stop) pairs + all (src, tgt) pairs with stop=None, random options"""
    nodes = dag["order"]
    ghosts = sorted({p for ps in dag["parents"].values() for p in ps if p >= GH0})
    tips = [None] + nodes
    cases = []

    def opts(src, tgt, stop):
        kind = rng.choice(["pull", "push"])
        ow = rng.choice(["F", "F", "F", "T", "tags", "history"])
        ao = rng.random() < 0.3
        master = None
        if rng.random() < 0.3:
            r = rng.random()
            mt = tgt if r < 0.4 else rng.choice(tips)
            master = [mt, rng.random() < 0.25]
        lo = sm = False
        if kind == "pull":
            r = rng.random()
            if r < 0.10:
                lo = True                 # pull(local=True): bound (mostly) or not
                if master is None and rng.random() < 0.7:
                    master = [tgt if rng.random() < 0.4 else rng.choice(tips), rng.random() < 0.25]
            elif r < 0.18:
                sm, master = True, None   # the target is bound to the SOURCE: pull from the master itself
        return dict(kind=kind, src=src, tgt=tgt, stop=stop, ow=ow, ao=ao, master=master, lo=lo, sm=sm)
    for tgt in tips:
        for stop in tips + ghosts[:2]:
            cases.append(opts(rng.choice(tips), tgt, "~" if stop is None else stop))
    for src in tips:
        for tgt in tips:
            cases.append(opts(src, tgt, "N"))
    return cases


OW = {"F": False, "T": True, "tags": {"tags"}, "history": {"history"}}


def ow_history(ow):
    return ow in ("T", "history")


def case_line(dag, revno, c):
    def br(t, ao):
        return "%s/%d/%s" % (tip_s(t), revno(t), "T" if ao else "F")
    m = "-" if c["master"] is None else br(c["master"][0], c["master"][1])
    stop = c["stop"] if c["stop"] in ("N", "~") else str(c["stop"])
    if c.get("lo") or c.get("sm"):
        if c.get("sm"):
            m = br(c["src"], False)
        return "bzrx %s %s %s %s %s %s %s %s" % (
            enc_graph(dag), br(c["src"], False), br(c["tgt"], c["ao"]), m, stop,
            "T" if ow_history(c["ow"]) else "F", "T" if c.get("lo") else "F", "T" if c.get("sm") else "F")
    return "bzr %s %s %s %s %s %s %s" % (
        c["kind"], enc_graph(dag), br(c["src"], False), br(c["tgt"], c["ao"]), m, stop,
        "T" if ow_history(c["ow"]) else "F")


class BzrRunner:
    """runs cases of one DAG on real branches; targets are pooled per tip and
    reset after every case"""

    def __init__(self, dag):
        self.dag = dag
        self.u = build_universe(dag)
        self.pool = {}
        self.smart = None

    def revno(self, t):
        return recorded_revno(self.dag, t)

    def branch(self, role, tip):
        key = (role, tip)
        if key not in self.pool:
            self.pool[key] = self.u.new_branch(tip, self.revno(tip))
        return self.pool[key]

    def reset(self, br, tip, ao):
        from breezy.branch import Branch
        if br.get_append_revisions_only():
            br.set_append_revisions_only(False)
        if br.last_revision_info() != (self.revno(tip), rid(tip)):
            br.set_last_revision_info(self.revno(tip), rid(tip))
        if br.get_bound_location():
            br.set_bound_location(None)
        if ao:
            br.set_append_revisions_only(True)

    def remote(self, br):
        """the same branch opened through an in-process smart server (bzr://) that serves the memory transport"""
        from breezy.branch import Branch
        if self.smart is None:
            from breezy.transport import get_transport
            from breezy.bzr.smart import server as S
            self.smart = S.SmartTCPServer(get_transport(self.u.base), client_timeout=120)
            self.smart.start_server("127.0.0.1", 0)
            self.smart.start_background_thread("-c21")
        rb = Branch.open(self.smart.get_url() + br.base[len(self.u.base):])
        if type(rb).__name__ != "RemoteBranch":
            raise env.InfraError("bzr:// did not give a RemoteBranch but %s" % type(rb).__name__)
        return rb

    def run_case(self, c):
        """-> (canonical output string, observation dict)"""
        from breezy.branch import Branch
        U = self.u.U
        U.set_last_revision_info(self.revno(c["src"]), rid(c["src"]))
        T = self.branch("t", c["tgt"])
        self.reset(T, c["tgt"], c["ao"])
        M = None
        if c["master"] is not None:
            M = self.branch("m", c["master"][0])
            self.reset(M, c["master"][0], c["master"][1])
            T.bind(M)
        elif c.get("sm"):
            T.bind(U)
        stop = None if c["stop"] == "N" else (NULL if c["stop"] == "~" else rid(c["stop"]))
        err = "ok"
        TT = self.remote(T) if c.get("remote") else T
        kw = dict(local=True) if c.get("lo") else {}
        try:
            if c["kind"] == "pull":
                TT.pull(U, overwrite=OW[c["ow"]], stop_revision=stop, **kw)
            else:
                U.push(TT, overwrite=OW[c["ow"]], stop_revision=stop)
        except Exception as e:
            err = err_s(e)
        # what was persisted
        tr, tt = Branch.open(T.base).last_revision_info()
        obs = dict(err=err, tgt=[unrid(tt), tr], master=None)
        out = "%s %s/%d" % (err, tip_s(unrid(tt)), tr)
        if M is not None or c.get("sm"):
            mr, mt = Branch.open((M or U).base).last_revision_info()
            obs["master"] = [unrid(mt), mr]
            out += " %s/%d" % (tip_s(unrid(mt)), mr)
            T.set_bound_location(None)
        else:
            out += " -"
        return out, obs

    def run_seq(self, q):
        """a sequence of pulls / pushes among persistent branches (each with its own repository that
        holds the whole DAG) -> (state of all branches after every op, [(pseudo case, observation)])"""
        from breezy.branch import Branch
        brs = [self.u.new_branch(t, self.revno(t), whole=True) for t, ao in q["brs"]]
        for b, (t, ao) in zip(brs, q["brs"]):
            if ao:
                b.set_append_revisions_only(True)

        def state():
            out = []
            for b in brs:
                rn, t = Branch.open(b.base).last_revision_info()
                out.append([unrid(t), rn])
            return out
        cur = state()
        trace, steps = [], []
        for op in q["ops"]:
            S, T = Branch.open(brs[op["si"]].base), Branch.open(brs[op["ti"]].base)
            if op["mi"] is not None:
                T.bind(brs[op["mi"]])
            stop = None if op["stop"] == "N" else (NULL if op["stop"] == "~" else rid(op["stop"]))
            err = "ok"
            try:
                if op["kind"] == "pull":
                    T.pull(S, overwrite=OW[op["ow"]], stop_revision=stop)
                else:
                    S.push(T, overwrite=OW[op["ow"]], stop_revision=stop)
            except Exception as e:
                err = err_s(e)
            if op["mi"] is not None:
                Branch.open(brs[op["ti"]].base).set_bound_location(None)
            new = state()
            steps.append(dict(err=err, before=cur, after=new))
            trace.append(",".join("%s/%d" % (tip_s(t), rn) for t, rn in new))
            cur = new
        return ";".join(trace), steps

    def graph_obs(self, a, b):
        """what vcsgraph / Branch answer about the pair (a, b) on the real repository"""
        import vcsgraph.errors as ve
        U = self.u.U
        with U.lock_read():
            g = U.repository.get_graph()
            ra, rb = rid(a), rid(b)
            hs = sorted((unrid(h) for h in g.heads([ra, rb])), key=lambda t: -1 if t is None else t)
            try:
                rel = U._revision_relations(ra, rb, g)
            except AssertionError:
                rel = "invalid"
            try:
                lh = [unrid(x) for x in g.iter_lefthand_ancestry(rb)]
                if lh and lh[-1] is None:
                    lh.pop()
                lh_s = ",".join(map(str, lh)) or "-"
            except ve.RevisionNotPresent:
                lh_s = "ghost"
            try:
                rn = str(g.find_distance_to_null(rb, []))
            except ve.GhostRevisionsHaveNoRevno:
                rn = "~"
            present = "T" if (b is None or U.repository.has_revision(rb)) else "F"
            return "%s %s %s %s %s %s %s" % (
                "T" if g.is_ancestor(ra, rb) else "F", "T" if g.is_ancestor(rb, ra) else "F",
                ",".join(tip_s(h) for h in hs) or "-", rel, lh_s, rn, present)

    def close(self):
        if self.smart is not None:
            try:
                self.smart.stop_background_thread()
            except Exception:
                pass
        self.u.srv.stop_server()


def oracle(dag, c, obs, revno, sink):
    """the property's own predicate on the observed outcome; sink(what, family)"""
    old_t = c["tgt"]
    new_t, new_rn = obs["tgt"]
    hist = ow_history(c["ow"])
    eff = c["src"] if c["stop"] == "N" else (None if c["stop"] == "~" else c["stop"])
    noop = c["stop"] == "N" and c["src"] is None          # nothing to pull
    err = obs["err"]
    lo, sm = bool(c.get("lo")), bool(c.get("sm"))
    checks = [("target", old_t, new_t, new_rn, c["ao"])]
    if c["master"] is not None and obs["master"] is not None:
        checks.append(("master", c["master"][0], obs["master"][0], obs["master"][1], c["master"][1]))
        if lo and obs["master"][0] != c["master"][0]:
            sink("pull(local=True) moved the master %s -> %s" % (tip_s(c["master"][0]), tip_s(obs["master"][0])), None)
    if sm and obs["master"] is not None and obs["master"][0] != c["src"]:
        sink("pull from the master moved the master (= source) %s -> %s" % (tip_s(c["src"]), tip_s(obs["master"][0])), None)
    if lo and c["master"] is None and not sm:
        # local=True needs a bound branch
        if err != "E:LocalRequiresBound" or new_t != old_t:
            sink("pull(local=True) into an unbound branch: %s, tip %s -> %s" % (err, tip_s(old_t), tip_s(new_t)), None)
        return
    for who, old, new, rn, ao in checks:
        if not hist and not ref_is_anc(dag, old, new):
            sink("%s tip moved from %s to %s which does not contain it (no overwrite)" % (who, tip_s(old), tip_s(new)), None)
        lh = ref_lh(dag, new)
        if lh is not None and ref_lh(dag, c["src"]) is not None and ref_lh(dag, old) is not None and rn != len(lh):
            sink("%s records revno %d for tip %s whose left-hand history has length %d" % (who, rn, tip_s(new), len(lh)), None)
        if ao and new != old and old is not None:
            full = ref_lh_stop_at_ghost(dag, new)
            if old not in full:
                sink("append-only %s moved from %s to %s whose left-hand history lacks it" % (who, tip_s(old), tip_s(new)), None)
    if err != "ok" and new_t != old_t:
        sink("%s raised but the target tip changed %s -> %s" % (err, tip_s(old_t), tip_s(new_t)), None)
    if err.startswith("E:other") or err == "E:Assertion":
        sink("unexpected exception %s" % err, None)
    if noop or (eff is not None and eff >= GH0):
        return
    lh_eff = ref_lh(dag, eff)
    if c["master"] is None or lo:
        # no master, or a master that is left alone (local=True; source is the master): the target alone decides
        _classify(dag, "target", old_t, new_t, eff, err, hist, lh_eff, c["ao"], sink)
    elif err == "ok" and obs["master"] is not None:
        # a bound operation that succeeded has updated the master and then the target: each of
        # them must look like a successful stand-alone operation
        _classify(dag, "target", old_t, new_t, eff, "ok", hist, lh_eff, c["ao"], sink)
        _classify(dag, "master", c["master"][0], obs["master"][0], eff, "ok", hist, lh_eff, c["master"][1], sink)
    elif obs["master"] is not None:
        # the bound operation failed: the master decides first, and when it refuses nothing has changed;
        # when the master accepted (moved or contained) the error is the target's
        m_old, m_new = c["master"][0], obs["master"][0]
        if not hist and not ref_is_anc(dag, eff, m_old) and not ref_is_anc(dag, m_old, eff):
            if err != "E:Diverged" or m_new != m_old:
                sink("%s and master tip %s diverged but outcome is %s, master tip %s" % (
                    tip_s(eff), tip_s(m_old), err, tip_s(m_new)), None)
        elif m_new != m_old or (not hist and ref_is_anc(dag, eff, m_old)):
            # the master has moved or already contained the revision, so it accepted: then the refusal
            # must be justified by the TARGET
            _classify(dag, "master", m_old, m_new, eff, "ok", hist, lh_eff, c["master"][1], sink)
            _classify(dag, "target", old_t, new_t, eff, err, hist, lh_eff, c["ao"], sink)


def _classify(dag, who, old_t, new_t, eff, err, hist, lh_eff, ao, sink):
    """the statement's case analysis for one branch"""
    # nothing may legitimately refuse: the requested revision has a revno, and an append-only
    # branch has no tip yet or finds its tip in the requested revision's left-hand history
    clean = lh_eff is not None and (not ao or old_t is None or old_t in lh_eff)
    if ao and lh_eff is not None and old_t is not None and old_t not in lh_eff and new_t != old_t:
        sink("append-only %s accepted %s whose left-hand history lacks %s" % (who, tip_s(eff), tip_s(old_t)), None)
    if hist:
        if clean and not (err == "ok" and new_t == eff):
            sink("overwrite: expected %s tip %s, got %s %s" % (who, tip_s(eff), err, tip_s(new_t)), None)
    else:
        if ref_is_anc(dag, eff, old_t):
            if err != "ok" or new_t != old_t:
                sink("%s contains %s but outcome is %s tip %s" % (who, tip_s(eff), err, tip_s(new_t)), None)
        elif ref_is_anc(dag, old_t, eff):
            if clean and not (err == "ok" and new_t == eff):
                sink("%s descends from %s tip %s but outcome is %s tip %s" % (tip_s(eff), who, tip_s(old_t), err, tip_s(new_t)), None)
        else:
            if err != "E:Diverged":
                sink("%s and %s tip %s diverged but outcome is %s tip %s" % (tip_s(eff), who, tip_s(old_t), err, tip_s(new_t)), None)


def _lefthand_ghost_tip(dag, c):
    tips = [c["src"], c["tgt"]] + ([c["master"][0]] if c["master"] else [])
    return any(ref_lh(dag, t) is None for t in tips)


def _nontrivial(c):
    eff = c["src"] if c["stop"] == "N" else (None if c["stop"] == "~" else c["stop"])
    return c["tgt"] is not None and eff is not None and eff != c["tgt"]


def gen_remote_cases(rng, dag, k):
    """pull into / push to the target opened through bzr:// (RemoteBranch): unbound targets, all overwrite
    values, append-only; the (target tip, requested revision) pairs are drawn from all pairs"""
    tips = [None] + dag["order"]
    out = []
    for _ in range(k):
        tgt, src = rng.choice(tips), rng.choice(tips)
        stop = rng.choice(["N", "N", "~"] + dag["order"] + dag["order"])
        out.append(dict(kind=rng.choice(["pull", "push"]), src=src, tgt=tgt, stop=stop,
                        ow=rng.choice(["F", "F", "F", "T", "tags", "history"]), ao=rng.random() < 0.3,
                        master=None, lo=False, sm=False, remote=True))
    return out


def gen_seqs(rng, dag, k):
    """sequences of 2..4 pulls / pushes over 3..4 persistent branches (tips with a ghost-free left-hand
    history; some append-only; the target bound to a third branch for some ops)"""
    good = [None] + [r for r in dag["order"] if ref_lh(dag, r) is not None]
    ghosts = sorted({p for ps in dag["parents"].values() for p in ps if p >= GH0})
    seqs = []
    for _ in range(k):
        nb = rng.randint(3, 4)
        brs = [[rng.choice(good), rng.random() < 0.3] for _ in range(nb)]
        ops = []
        for _ in range(rng.randint(2, 4)):
            si, ti = rng.sample(range(nb), 2)
            mi = None
            if rng.random() < 0.35:
                mi = rng.choice([i for i in range(nb) if i not in (si, ti)])
            stop = "N" if rng.random() < 0.6 else rng.choice(["~"] + dag["order"] + ghosts[:1])
            ops.append(dict(kind=rng.choice(["pull", "push"]), si=si, ti=ti, mi=mi, stop=stop,
                            ow=rng.choice(["F", "F", "F", "T", "tags", "history"])))
        seqs.append(dict(brs=brs, ops=ops))
    return seqs


def seq_line(dag, q):
    brs = ",".join("%s/%d/%s" % (tip_s(t), recorded_revno(dag, t), "T" if ao else "F") for t, ao in q["brs"])
    ops = ",".join("%s:%d:%d:%s:%s:%s" % (
        o["kind"], o["si"], o["ti"], "-" if o["mi"] is None else str(o["mi"]),
        o["stop"] if o["stop"] in ("N", "~") else str(o["stop"]), "T" if ow_history(o["ow"]) else "F") for o in q["ops"])
    return "seq %s %s %s" % (enc_graph(dag), brs, ops)


def seq_oracle(dag, q, steps, sink):
    """the statement, step by step, on the persisted states of ALL branches of a sequence"""
    n = len(q["brs"])
    for k, (op, st) in enumerate(zip(q["ops"], steps)):
        tag = "op %d (%s %d->%d%s stop=%s ow=%s): " % (k, op["kind"], op["si"], op["ti"],
                                                       "" if op["mi"] is None else " master %d" % op["mi"], op["stop"], op["ow"])
        for i in range(n):
            if i not in (op["ti"], op["mi"]) and st["after"][i] != st["before"][i]:
                sink(tag + "branch %d is neither target nor master but changed %r -> %r" % (i, st["before"][i], st["after"][i]), None)
        c = dict(kind=op["kind"], src=st["before"][op["si"]][0], tgt=st["before"][op["ti"]][0], stop=op["stop"], ow=op["ow"],
                 ao=q["brs"][op["ti"]][1], lo=False, sm=False,
                 master=None if op["mi"] is None else [st["before"][op["mi"]][0], q["brs"][op["mi"]][1]])
        obs = dict(err=st["err"], tgt=st["after"][op["ti"]], master=None if op["mi"] is None else st["after"][op["mi"]])
        oracle(dag, c, obs, None, lambda what, fam: sink(tag + what, fam))
    # the whole run
    if steps:
        first, last = steps[0]["before"], steps[-1]["after"]
        for i in range(n):
            if all(not ow_history(o["ow"]) for o in q["ops"]) and not ref_is_anc(dag, first[i][0], last[i][0]):
                sink("after the whole sequence (no overwrite) branch %d went from %s to %s which does not contain it" % (
                    i, tip_s(first[i][0]), tip_s(last[i][0])), None)
            if q["brs"][i][1] and first[i][0] is not None and last[i][0] != first[i][0] and (
                    first[i][0] not in ref_lh_stop_at_ghost(dag, last[i][0])):
                sink("after the whole sequence append-only branch %d went from %s to %s whose left-hand history lacks it" % (
                    i, tip_s(first[i][0]), tip_s(last[i][0])), None)
            lh = ref_lh(dag, last[i][0])
            if lh is not None and last[i][1] != len(lh):
                sink("after the whole sequence branch %d records revno %d for %s (left-hand history %d)" % (
                    i, last[i][1], tip_s(last[i][0]), len(lh)), None)


def _bzr_worker(job):
    """one DAG: graph observations for all pairs + all cases + op sequences.  Module-level for pmap."""
    dag, cases, seqs = job
    r = BzrRunner(dag)
    try:
        nodes = [None] + dag["order"] + sorted({p for ps in dag["parents"].values() for p in ps if p >= GH0})[:2]
        pairs = [(a, b) for a in nodes for b in nodes]
        gobs = [r.graph_obs(a, b) for a, b in pairs]
        outs = [r.run_case(c) for c in cases]
        souts = [r.run_seq(q) for q in seqs]
        return pairs, gobs, outs, souts
    finally:
        r.close()


def _remote_canon(out):
    """through the smart server an append-only refusal can surface as RevisionNotPresent (the client-side
    graph has no null: entry) - both are the append-only refusal"""
    return out.replace("E:NotPresent", "E:AppendOnly")


# ---------------------------------------------------------------------------
# real code: git

def gen_git_dag(rng, n):
    return gen_dag(rng, n, ghosts=False, multi_root=False, max_parents=2)


class GitRunner:
    def __init__(self, dag):
        from breezy.controldir import ControlDir, format_registry
        self.dag = dag
        self.dir = env.fresh_dir("git")
        wt = env.make_tree("git", os.path.join(self.dir, "u"))
        self.ids = {None: NULL}
        for r in dag["order"]:
            ps = dag["parents"][r]
            if ps:
                wt.branch.set_last_revision(self.ids[ps[0]])
                wt.set_parent_ids([self.ids[p] for p in ps])
            self.ids[r] = wt.commit("rev %d" % r, allow_pointless=True)
        self.back = {v: k for k, v in self.ids.items()}
        self.U = wt.branch
        self.fmt = format_registry.make_controldir("git")
        self.n = 0
        self.pool = {}

    def target(self, tip):
        from breezy.controldir import ControlDir
        if tip not in self.pool:
            self.n += 1
            self.pool[tip] = ControlDir.create_branch_convenience(
                os.path.join(self.dir, "t%d" % self.n), format=self.fmt, force_new_tree=False)
        T = self.pool[tip]
        if tip is not None:
            T.repository.fetch(self.U.repository, revision_id=self.ids[tip])
        if T.last_revision() != self.ids[tip]:
            T.set_last_revision(self.ids[tip])
        return T

    def run_case(self, c):
        from breezy.branch import Branch
        self.U.set_last_revision(self.ids[c["src"]])
        T = self.target(c["tgt"])
        stop = None if c["stop"] == "N" else self.ids[c["stop"]]
        err = "ok"
        try:
            if c["kind"] == "pull":
                T.pull(self.U, overwrite=OW[c["ow"]], stop_revision=stop)
            else:
                self.U.push(T, overwrite=OW[c["ow"]], stop_revision=stop)
        except Exception as e:
            err = err_s(e)
        rn, tip = Branch.open(T.base).last_revision_info()
        return "%s %s" % (err, tip_s(self.back[tip])), dict(err=err, tgt=[self.back[tip], rn], master=None)


def gen_git_cases(rng, dag):
    tips = [None] + dag["order"]
    cases = []
    for tgt in tips:
        for stop in ["N"] + dag["order"]:
            # an empty source with stop=None is answered by git with a KeyError-free no-op; keep src non-null
            src = rng.choice(dag["order"])
            cases.append(dict(kind=rng.choice(["pull", "push"]), src=src, tgt=tgt, stop=stop,
                              ow=rng.choice(["F", "F", "T", "tags", "history"]), ao=False, master=None))
    return cases


def git_line(dag, c):
    eff = c["src"] if c["stop"] == "N" else c["stop"]
    return "git %s %s %s %s" % (enc_graph(dag), tip_s(c["tgt"]), tip_s(eff), "T" if ow_history(c["ow"]) else "F")


def _git_worker(job):
    dag, cases = job
    r = GitRunner(dag)
    return [r.run_case(c) for c in cases]


# ---------------------------------------------------------------------------
# exhaustive tie of the two decision functions

class _FakeGraph:
    def __init__(self, hs):
        self.hs = hs

    def heads(self, keys):
        return set(self.hs)


def run_relations(ctx):
    from breezy.branch import Branch
    from breezy import errors
    vals = {"a": b"ra", "b": b"rb", "n": NULL}
    num = {b"ra": "1", b"rb": "2", NULL: "~"}
    cases, lines, outs = [], [], []
    for an, bn in itertools.product("abn", repeat=2):
        a, b = vals[an], vals[bn]
        univ = sorted({a, b, b"rc"})
        for k in range(len(univ) + 1):
            for hs in itertools.combinations(univ, k):
                try:
                    rel = Branch._revision_relations(None, a, b, _FakeGraph(hs))
                except AssertionError:
                    rel = "invalid"
                fake = type("B", (), {"_revision_relations": lambda self, x, y, g: Branch._revision_relations(None, x, y, g),
                                      "_check_if_descendant_or_diverged": Branch._check_if_descendant_or_diverged})()
                try:
                    chk = "T" if fake._check_if_descendant_or_diverged(a, b, _FakeGraph(hs), None) else "F"
                except errors.DivergedBranches:
                    chk = "E:Diverged"
                except AssertionError:
                    chk = "E:Assertion"
                case = dict(f="relations", a=an, b=bn, heads=[h.decode() for h in hs])
                ctx.case(case, nontrivial=a != b)
                ctx.count("relation:" + rel)
                cases.append(case)
                num2 = dict(num)
                num2[b"rc"] = "3"
                lines.append("relraw %s %s %s" % (",".join(num2[h] for h in hs) or "-", num[a], num[b]))
                outs.append("%s %s" % (rel, chk))
    ctx.diff(cases, lines, outs)


# ---------------------------------------------------------------------------

def run(ctx, ndags=None, ngit=None, maxn=None, nremote=None):
    run_relations(ctx)
    ndags = ndags or ctx.pick(20, 200)
    ngit = ngit if ngit is not None else ctx.pick(4, 24)
    maxn = maxn or ctx.pick(7, 10)
    nremote = nremote if nremote is not None else ctx.pick(8, 60)
    jobs = []
    for i in range(ndags):
        n = ctx.rng.randint(3, maxn)
        dag = gen_dag(ctx.rng, n)
        cs = gen_cases(ctx.rng, dag)
        if i < nremote:
            cs += gen_remote_cases(ctx.rng, dag, ctx.pick(10, 14))
        jobs.append((dag, cs, gen_seqs(ctx.rng, dag, ctx.pick(3, 5))))
    results = ctx.pmap(_bzr_worker, jobs, chunksize=1)
    cases, lines, outs = [], [], []
    rcases, rlines, routs = [], [], []
    for (dag, cs, seqs), (pairs, gobs, res, sres) in zip(jobs, results):
        genc = enc_graph(dag)
        ctx.count("dag_size:%d" % len(dag["order"]))
        ctx.count("dag_merges:%d" % sum(1 for ps in dag["parents"].values() if len(ps) > 1))
        ctx.count("dag_ghosts:%d" % sum(1 for ps in dag["parents"].values() for p in ps if p >= GH0))
        for (a, b), o in zip(pairs, gobs):
            case = dict(f="graph", g=genc, a=tip_s(a), b=tip_s(b))
            ctx.case(case, nontrivial=a is not None and b is not None and a != b)
            cases.append(case)
            lines.append("rel %s %s %s" % (genc, tip_s(a), tip_s(b)))
            outs.append(o)
            ctx.count("rel:" + o.split(" ")[3])
            # spec check of the external graph package against the Python reference
            exp = "%s %s" % ("T" if ref_is_anc(dag, a, b) else "F", "T" if ref_is_anc(dag, b, a) else "F")
            if " ".join(o.split(" ")[:2]) != exp:
                ctx.violation(case, "vcsgraph is_ancestor answers %s, reference graph says %s" % (o, exp), family=None)

        def revno(t, dag=dag):
            return recorded_revno(dag, t)
        for c, (out, obs) in zip(cs, res):
            case = dict(f="bzr", g=genc, **c)
            ctx.case(case, nontrivial=_nontrivial(c))
            ctx.count("op:%s ow:%s ao:%s bound:%s" % (c["kind"], c["ow"], "T" if c["ao"] else "F",
                                                      "T" if c["master"] else "F"))
            via = "remote:" if c.get("remote") else ("local-flag:" if c.get("lo") else ("from-master:" if c.get("sm") else ""))
            ctx.count("outcome:" + via + obs["err"])
            oracle(dag, c, obs, revno, lambda what, fam, case=case: ctx.violation(case, what, family=fam))
            if c.get("remote"):
                if c["stop"] != "N" and _lefthand_ghost_tip(dag, c):
                    ctx.count("excluded-input:lefthand-ghost-tip:" + obs["err"])
                    continue
                rcases.append(case)
                rlines.append(case_line(dag, revno, c))
                routs.append(_remote_canon(out))
                continue
            if c["stop"] != "N" and _lefthand_ghost_tip(dag, c):
                # excluded input of the revno theorems: a branch tip whose own left-hand history runs
                # into a ghost has no well-defined revno, and find_distance_to_null's answer then depends
                # on its search order; the real code is run and judged by the oracle only
                ctx.count("excluded-input:lefthand-ghost-tip:" + obs["err"])
                continue
            cases.append(case)
            lines.append(case_line(dag, revno, c))
            outs.append(out)
        for q, (trace, steps) in zip(seqs, sres):
            case = dict(f="seq", g=genc, **q)
            moved = sum(1 for st in steps if st["after"] != st["before"])
            ctx.case(case, nontrivial=moved >= 2)
            ctx.count("seq ops:%d moved:%d" % (len(q["ops"]), moved))
            for st in steps:
                ctx.count("seq outcome:" + st["err"])
            seq_oracle(dag, q, steps, lambda what, fam, case=case: ctx.violation(case, "sequence: " + what, family=fam))
            cases.append(case)
            lines.append(seq_line(dag, q))
            outs.append(trace)
    ctx.diff(cases, lines, outs)
    # through the smart server: compared modulo the error class of an append-only refusal
    if rcases:
        rm = [_remote_canon(m) for m in ctx.model(rlines)]
        for c_, l_, i_, m_ in zip(rcases, rlines, routs, rm):
            ctx.traces += 1
            if i_ != m_:
                ctx.mismatch(c_, i_, m_, line=l_, tie="T2 (bzr://)")
    # git
    gjobs = []
    for i in range(ngit):
        dag = gen_git_dag(ctx.rng, ctx.rng.randint(3, min(maxn, 7)))
        gjobs.append((dag, gen_git_cases(ctx.rng, dag)))
    gres = ctx.pmap(_git_worker, gjobs, chunksize=1)
    cases, lines, outs = [], [], []
    for (dag, cs), res in zip(gjobs, gres):
        genc = enc_graph(dag)
        for c, (out, obs) in zip(cs, res):
            case = dict(f="git", g=genc, **c)
            ctx.case(case, nontrivial=_nontrivial(c))
            ctx.count("git op:%s ow:%s" % (c["kind"], c["ow"]))
            ctx.count("git outcome:" + obs["err"])
            oracle(dag, c, obs, lambda t: len(ref_lh(dag, t)),
                   lambda what, fam, case=case: ctx.violation(case, "git: " + what, family=fam))
            cases.append(case)
            lines.append(git_line(dag, c))
            outs.append(out)
    ctx.diff(cases, lines, outs)
    ctx.extra["dags"] = dict(bzr=ndags, git=ngit, max_revisions=maxn, with_remote_cases=min(nremote, ndags))


def widen(ctx):
    run(ctx, ndags=150, ngit=10, maxn=10, nremote=30)


def _dag_from_enc(genc):
    parents, order = {}, []
    if genc != "-":
        for e in genc.split(";"):
            n, ps = e.split(":")
            parents[int(n)] = [int(p) for p in ps.split(",")] if ps else []
            order.append(int(n))
    order.reverse()
    return dict(order=order, parents=parents)


def replay(ctx, case):
    f = case.get("f")
    if f == "relations":
        return dict(case=case, note="exhaustive decision-table case; re-run the check")
    dag = _dag_from_enc(case["g"])
    if f == "graph":
        r = BzrRunner(dag)
        a = None if case["a"] == "~" else int(case["a"])
        b = None if case["b"] == "~" else int(case["b"])
        impl = r.graph_obs(a, b)
        model = ctx.model(["rel %s %s %s" % (case["g"], case["a"], case["b"])])[0]
        return dict(case=case, impl=impl, model=model)
    viol = []
    if f == "seq":
        q = dict(brs=case["brs"], ops=case["ops"])
        r = BzrRunner(dag)
        try:
            trace, steps = r.run_seq(q)
        finally:
            r.close()
        model = ctx.model([seq_line(dag, q)])[0]
        seq_oracle(dag, q, steps, lambda what, fam: viol.append(what))
        for v in viol:
            ctx.violation(case, "sequence: " + v)
        return dict(case=case, impl=trace.split(";"), model=model.split(";"), oracle_failures=viol)
    c = {k: case[k] for k in ("kind", "src", "tgt", "stop", "ow", "ao", "master")}
    for k in ("lo", "sm", "remote"):
        c[k] = bool(case.get(k))
    if f == "git":
        out, obs = GitRunner(dag).run_case(c)
        model = ctx.model([git_line(dag, c)])[0]
        oracle(dag, c, obs, lambda t: len(ref_lh(dag, t)), lambda what, fam: viol.append(what))
    else:
        r = BzrRunner(dag)
        try:
            out, obs = r.run_case(c)
        finally:
            r.close()
        model = ctx.model([case_line(dag, r.revno, c)])[0]
        if c["remote"]:
            out, model = _remote_canon(out), _remote_canon(model)
        oracle(dag, c, obs, r.revno, lambda what, fam: viol.append(what))
    for v in viol:
        ctx.violation(case, v)
    return dict(case=case, impl=out, model=model, oracle_failures=viol)
