import BreezyVerif.Common
import BreezyVerif.Model.C06
/-
C06 driver.

  run <fmt C|K> <base> <ops>
      fmt   C = CHK inventory checks (2a), K = knit pack format (pack-0.92)
      base  initially listed packs joined by `|` (`-` = none); pack = records joined by `;`
      rec   `<kind r|i|c|t|s>:<id>:<cparent ~|n>:<invParents>:<roots>:<items>` (lists `n,n` or `-`)
      ops   joined by `/`: `S` start, `I<rec>` insert, `A` abort, `U` suspend, `C` commit, `O` new Repository object,
            `R<toks>` resume, toks joined by `+` (`R-` = no token): `k<n>` = the n-th token
            returned by the suspends so far (0-based), `m` malformed, `u` well-formed but unknown
  reply: `<results> <packs> <upload> <wg T|F>`
      results joined by `,`: `ok` | `T:<pack>&<pack>` (`T:-` none) | `E:<AlreadyInWG|NotInWG|Check|Unresumable|Assertion>`
      pack = sorted keys `<kind><id>` joined by `+` (`.` = empty pack); packs / upload sorted, joined by `|`, `-` = none
-/
namespace BreezyVerif.C06

def parseNatsC (s : String) : Option (List Nat) :=
  if s == "-" then some [] else (s.splitOn ",").mapM String.toNat?

def parseKind (s : String) : Option Kind :=
  match s with
  | "r" => some .rev | "i" => some .inv | "c" => some .chk | "t" => some .text | "s" => some .sig
  | _ => none

def showKind : Kind → String
  | .rev => "r" | .inv => "i" | .chk => "c" | .text => "t" | .sig => "s"

def parseRec (s : String) : Option Rec :=
  match s.splitOn ":" with
  | [k, i, cp, ips, rs, its] => do
    let k ← parseKind k
    let i ← i.toNat?
    let cp ← optNat cp
    let ips ← parseNatsC ips
    let rs ← parseNatsC rs
    let its ← parseNatsC its
    pure ⟨⟨k, i⟩, cp, ips, rs, its⟩
  | _ => none

def parsePack (s : String) : Option Pack :=
  if s == "." then some [] else (s.splitOn ";").mapM parseRec

def parseBase (s : String) : Option (List Pack) :=
  if s == "-" then some [] else (s.splitOn "|").mapM parsePack

def sortStrs (l : List String) : List String := l.mergeSort (fun a b => decide (a ≤ b))

def showPack (p : Pack) : String :=
  if p.isEmpty then "." else "+".intercalate (sortStrs (p.map fun r => showKind r.key.kind ++ toString r.key.id))

def showPacks (l : List Pack) : String :=
  if l.isEmpty then "-" else "|".intercalate (sortStrs (l.map showPack))

def showErr : Err → String
  | .alreadyInWG => "E:AlreadyInWG"
  | .notInWG => "E:NotInWG"
  | .check => "E:Check"
  | .unresumable => "E:Unresumable"
  | .assertion => "E:Assertion"
  | .attribute => "E:AttributeError"

def showRes : Res → String
  | .ok => "ok"
  | .tokens l => "T:" ++ (if l.isEmpty then "-" else "&".intercalate (l.map showPack))
  | .err e => showErr e

/-- a pack no insertion script can produce: the name of a well-formed unknown token -/
def bogusPack : Pack := [⟨⟨.sig, 0⟩, some 0, [0], [0], [0]⟩]

def parseTok (issued : List Pack) (s : String) : Option Tok :=
  if s == "m" then some .malformed
  else if s == "u" then some (.pack bogusPack)
  else if s.startsWith "k" then
    match (s.drop 1).toString.toNat? with
    | some n => some (match issued[n]? with | some p => .pack p | none => .pack bogusPack)
    | none => none
  else none

/-- interpret the script; `issued` = all tokens returned so far -/
def runScript (fmt : Fmt) : Repo → List Pack → List String → Option (Repo × List Res)
  | r, _, [] => some (r, [])
  | r, issued, o :: rest =>
    let op : Option Op :=
      if o == "S" then some .start
      else if o == "A" then some .abort
      else if o == "U" then some .suspend
      else if o == "C" then some .commit
      else if o == "O" then some .reopen
      else if o.startsWith "I" then (parseRec (o.drop 1).toString).map Op.insert
      else if o.startsWith "R" then
        let t := (o.drop 1).toString
        (if t == "-" then some [] else (t.splitOn "+").mapM (parseTok issued)).map Op.resume
      else none
    match op with
    | none => none
    | some op =>
      let (r1, res) := step fmt r op
      let issued1 := match res with | .tokens l => issued ++ l | _ => issued
      match runScript fmt r1 issued1 rest with
      | some (r2, rs) => some (r2, res :: rs)
      | none => none

def handle : List String → String
  | ["run", f, base, ops] =>
    match (if f == "C" then some (Fmt.mk true) else if f == "K" then some (Fmt.mk false) else none),
          parseBase base with
    | some fmt, some packs =>
      match runScript fmt ⟨packs, [], none, []⟩ [] (if ops == "-" then [] else ops.splitOn "/") with
      | some (r, rs) =>
        s!"{",".intercalate (rs.map showRes)} {showPacks r.packs} {showPacks r.upload} {showBool r.wg.isSome}"
      | none => "bad-op"
    | _, _ => "bad-op"
  | _ => "bad-op"

end BreezyVerif.C06

def main : IO Unit := BreezyVerif.runDriver BreezyVerif.C06.handle
