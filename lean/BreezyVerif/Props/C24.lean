import BreezyVerif.Lemmas.C24
import BreezyVerif.Lemmas.C24Bencode
import BreezyVerif.Lemmas.C24Git
/-!
C24 — theorems.  Tag dictionaries are arbitrary finite maps (association lists
with unique keys, `Nodup` of the key list being the explicit hypothesis where it
is needed) over *any* key and value types with decidable equality; selectors
are arbitrary predicates; nothing is bounded.

`srcSel sel src n` is the source's definition of `n` if `n` passes the selector,
`specVal`/`specUpd` (Lemmas/C24.lean) spell out the statement per tag name.
-/
namespace BreezyVerif.C24

section reconcile
variable {κ ν : Type} [DecidableEq κ] [DecidableEq ν]

/-- Complete pointwise characterisation of the resulting dictionary. -/
theorem reconcile_result_pointwise (src dst : Dict κ ν) (ow : Bool) (sel : Option (κ → Bool))
    (hn : (dkeys src).Nodup) (n : κ) :
    dget (reconcile src dst ow sel).result n = specVal (srcSel sel src n) (dget dst n) ow :=
  foldl_result ow sel src hn _ n

/-- Complete pointwise characterisation of the reported updates. -/
theorem reconcile_updates_pointwise (src dst : Dict κ ν) (ow : Bool) (sel : Option (κ → Bool))
    (hn : (dkeys src).Nodup) (n : κ) :
    dget (reconcile src dst ow sel).updates n = specUpd (srcSel sel src n) (dget dst n) ow := by
  have := foldl_updates ow sel src hn ⟨dst, [], []⟩ n
  unfold reconcile
  rw [this]
  cases specUpd (srcSel sel src n) (dget dst n) ow <;> simp

/-- The reported conflicts are exactly the selected names defined differently on
both sides, when overwrite is off — as `(name, source value, destination value)`. -/
theorem reconcile_conflicts_exact (src dst : Dict κ ν) (ow : Bool) (sel : Option (κ → Bool))
    (hn : (dkeys src).Nodup) (c : κ × ν × ν) :
    c ∈ (reconcile src dst ow sel).conflicts ↔
      (ow = false ∧ srcSel sel src c.1 = some c.2.1 ∧ dget dst c.1 = some c.2.2 ∧ c.2.1 ≠ c.2.2) := by
  have := foldl_conflicts ow sel src hn ⟨dst, [], []⟩ c
  unfold reconcile
  rw [this]; simp

/-- every tag only in the source (and selected) is added, and reported as an update -/
theorem reconcile_source_only_added (src dst : Dict κ ν) (ow : Bool) (sel : Option (κ → Bool))
    (hn : (dkeys src).Nodup) (n : κ) (v : ν)
    (hsel : selected sel n = true) (hs : dget src n = some v) (hd : dget dst n = none) :
    dget (reconcile src dst ow sel).result n = some v
      ∧ dget (reconcile src dst ow sel).updates n = some v := by
  rw [reconcile_result_pointwise _ _ _ _ hn, reconcile_updates_pointwise _ _ _ _ hn]
  simp [srcSel, hsel, hs, hd, specVal, specUpd]

/-- every tag not (selectably) in the source is kept with the destination's
value — in particular every tag only in the destination — and is not reported -/
theorem reconcile_dest_only_kept (src dst : Dict κ ν) (ow : Bool) (sel : Option (κ → Bool))
    (hn : (dkeys src).Nodup) (n : κ) (hs : srcSel sel src n = none) :
    dget (reconcile src dst ow sel).result n = dget dst n
      ∧ dget (reconcile src dst ow sel).updates n = none
      ∧ ∀ v w, (n, v, w) ∉ (reconcile src dst ow sel).conflicts := by
  rw [reconcile_result_pointwise _ _ _ _ hn, reconcile_updates_pointwise _ _ _ _ hn]
  refine ⟨by simp [hs, specVal_none], by simp [hs, specUpd_none], ?_⟩
  intro v w h
  rw [reconcile_conflicts_exact _ _ _ _ hn] at h
  simp [hs] at h

/-- identical definitions are unchanged and not reported -/
theorem reconcile_same_unchanged (src dst : Dict κ ν) (ow : Bool) (sel : Option (κ → Bool))
    (hn : (dkeys src).Nodup) (n : κ) (v : ν) (hs : dget src n = some v) (hd : dget dst n = some v) :
    dget (reconcile src dst ow sel).result n = some v
      ∧ dget (reconcile src dst ow sel).updates n = none
      ∧ ∀ x w, (n, x, w) ∉ (reconcile src dst ow sel).conflicts := by
  rw [reconcile_result_pointwise _ _ _ _ hn, reconcile_updates_pointwise _ _ _ _ hn]
  refine ⟨?_, ?_, ?_⟩
  · cases h : selected sel n <;> simp [srcSel, h, hs, hd, specVal]
  · cases h : selected sel n <;> simp [srcSel, h, hs, hd, specUpd]
  · intro x w hc
    rw [reconcile_conflicts_exact _ _ _ _ hn] at hc
    obtain ⟨_, h1, h2, h3⟩ := hc
    cases h : selected sel n <;> simp [srcSel, h, hs, hd] at h1 h2
    exact h3 (h1.symm.trans h2)

/-- differing definitions without overwrite: the destination value is kept, the
conflict `(name, source, dest)` is reported, nothing is listed as updated -/
theorem reconcile_conflict_keeps_dest (src dst : Dict κ ν) (sel : Option (κ → Bool))
    (hn : (dkeys src).Nodup) (n : κ) (v w : ν) (hsel : selected sel n = true)
    (hs : dget src n = some v) (hd : dget dst n = some w) (hne : v ≠ w) :
    dget (reconcile src dst false sel).result n = some w
      ∧ (n, v, w) ∈ (reconcile src dst false sel).conflicts
      ∧ dget (reconcile src dst false sel).updates n = none := by
  rw [reconcile_result_pointwise _ _ _ _ hn, reconcile_updates_pointwise _ _ _ _ hn,
    reconcile_conflicts_exact _ _ _ _ hn]
  simp [srcSel, hsel, hs, hd, hne, specVal, specUpd]

/-- differing definitions with overwrite: the source value wins, is reported as
an update and no conflict is reported for the name -/
theorem reconcile_overwrite_takes_source (src dst : Dict κ ν) (sel : Option (κ → Bool))
    (hn : (dkeys src).Nodup) (n : κ) (v w : ν) (hsel : selected sel n = true)
    (hs : dget src n = some v) (hd : dget dst n = some w) (hne : v ≠ w) :
    dget (reconcile src dst true sel).result n = some v
      ∧ dget (reconcile src dst true sel).updates n = some v
      ∧ (reconcile src dst true sel).conflicts = [] := by
  rw [reconcile_result_pointwise _ _ _ _ hn, reconcile_updates_pointwise _ _ _ _ hn]
  refine ⟨by simp [srcSel, hsel, hs, hd, hne, specVal], by simp [srcSel, hsel, hs, hd, hne, specUpd], ?_⟩
  apply List.eq_nil_iff_forall_not_mem.mpr
  intro c hc
  rw [reconcile_conflicts_exact _ _ _ _ hn] at hc
  simp at hc

/-- `updates` is exactly the set of names whose value changed, with the new value -/
theorem updates_exact (src dst : Dict κ ν) (ow : Bool) (sel : Option (κ → Bool))
    (hn : (dkeys src).Nodup) (n : κ) :
    dget (reconcile src dst ow sel).updates n
      = if dget (reconcile src dst ow sel).result n = dget dst n then none
        else dget (reconcile src dst ow sel).result n := by
  rw [reconcile_result_pointwise _ _ _ _ hn, reconcile_updates_pointwise _ _ _ _ hn]
  unfold specVal specUpd
  cases srcSel sel src n with
  | none => simp
  | some v =>
    cases dget dst n with
    | none => simp
    | some w =>
      by_cases h : v = w
      · simp [h]
      · cases ow <;> simp [h]

/-- a name rejected by the selector is left exactly as it is in the destination -/
theorem selector_respected (src dst : Dict κ ν) (ow : Bool) (f : κ → Bool)
    (hn : (dkeys src).Nodup) (n : κ) (hf : f n = false) :
    dget (reconcile src dst ow (some f)).result n = dget dst n
      ∧ dget (reconcile src dst ow (some f)).updates n = none
      ∧ ∀ v w, (n, v, w) ∉ (reconcile src dst ow (some f)).conflicts :=
  reconcile_dest_only_kept src dst ow (some f) hn n (by simp [srcSel, selected, hf])

/-- no tag of the destination is ever lost -/
theorem reconcile_never_loses (src dst : Dict κ ν) (ow : Bool) (sel : Option (κ → Bool))
    (hn : (dkeys src).Nodup) (n : κ) (h : n ∈ dkeys dst) :
    n ∈ dkeys (reconcile src dst ow sel).result := by
  rw [← dget_isSome_iff] at h ⊢
  rw [reconcile_result_pointwise _ _ _ _ hn]
  unfold specVal
  cases hd : dget dst n with
  | none => simp [hd] at h
  | some w =>
    cases srcSel sel src n with
    | none => simp
    | some v => by_cases e : v = w <;> cases ow <;> simp [e]

/-- the resulting key set: destination names plus selected source names -/
theorem reconcile_keys (src dst : Dict κ ν) (ow : Bool) (sel : Option (κ → Bool))
    (hn : (dkeys src).Nodup) (n : κ) :
    n ∈ dkeys (reconcile src dst ow sel).result ↔
      n ∈ dkeys dst ∨ (selected sel n = true ∧ n ∈ dkeys src) := by
  rw [← dget_isSome_iff, ← dget_isSome_iff, ← dget_isSome_iff, reconcile_result_pointwise _ _ _ _ hn]
  unfold specVal srcSel
  cases hsel : selected sel n <;> cases hs : dget src n <;> cases hd : dget dst n <;> simp
  rename_i v w
  by_cases e : v = w <;> cases ow <;> simp [e]

/-- the result is again a dictionary (unique keys) -/
theorem reconcile_result_nodup (src dst : Dict κ ν) (ow : Bool) (sel : Option (κ → Bool))
    (hd : (dkeys dst).Nodup) : (dkeys (reconcile src dst ow sel).result).Nodup :=
  foldl_result_nodup ow sel src _ hd

/-! ### `InterTags._merge_to` / `InterTags.merge` -/

/-- `_merge_to` skips the write when `result == dest_dict`; what is stored is
the reconciled dictionary in every case (as a map) -/
theorem mergeTo_stored (dst src : Dict κ ν) (ow : Bool) (sel : Option (κ → Bool))
    (hd : (dkeys dst).Nodup) (n : κ) :
    dget (mergeTo dst src ow sel).1 n = dget (reconcile src dst ow sel).result n := by
  unfold mergeTo
  simp only
  split
  · rfl
  · rename_i h
    exact (dictNe_false _ _ (reconcile_result_nodup src dst ow sel hd) (by simpa using h) n).symm

/-- nothing happens when source and target are the same branch, the source does
not support tags, or the source has no tags -/
theorem merge_noop (same sup : Bool) (src tgt : Dict κ ν) (m : Option (Dict κ ν)) (ow ign : Bool)
    (sel : Option (κ → Bool)) (h : same = true ∨ sup = false ∨ src = []) :
    merge same sup src tgt m ow ign sel = ⟨tgt, m, [], []⟩ := by
  unfold merge
  have : (same || !sup || src.isEmpty) = true := by
    rcases h with h | h | h <;> simp [h]
  simp [this]

/-- the target branch's tags after `merge`: the reconciliation of source and target -/
theorem merge_target_pointwise (src tgt : Dict κ ν) (m : Option (Dict κ ν)) (ow ign : Bool)
    (sel : Option (κ → Bool)) (hs : (dkeys src).Nodup) (ht : (dkeys tgt).Nodup) (hne : src ≠ [])
    (n : κ) :
    dget (merge false true src tgt m ow ign sel).target n
      = specVal (srcSel sel src n) (dget tgt n) ow := by
  have he : src.isEmpty = false := by cases src <;> simp_all
  rw [← reconcile_result_pointwise src tgt ow sel hs, ← mergeTo_stored tgt src ow sel ht]
  unfold merge
  simp only [he, Bool.not_true, Bool.or_self, Bool.false_eq_true, if_false]
  split <;> rfl

/-- the master branch's tags after `merge`: reconciled with the *source* (not
with the target) unless `ignore_master`; untouched otherwise -/
theorem merge_master_pointwise (src tgt : Dict κ ν) (m : Dict κ ν) (ow : Bool)
    (sel : Option (κ → Bool)) (hs : (dkeys src).Nodup) (hm : (dkeys m).Nodup) (hne : src ≠ []) :
    (∃ m', (merge false true src tgt (some m) ow false sel).master = some m'
        ∧ ∀ n, dget m' n = specVal (srcSel sel src n) (dget m n) ow)
      ∧ (merge false true src tgt (some m) ow true sel).master = some m
      ∧ (merge false true src tgt none ow false sel).master = none := by
  have he : src.isEmpty = false := by cases src <;> simp_all
  refine ⟨⟨(mergeTo m src ow sel).1, ?_, ?_⟩, ?_, ?_⟩
  · unfold merge; simp [he]
  · intro n
    rw [← reconcile_result_pointwise src m ow sel hs, mergeTo_stored m src ow sel hm]
  · unfold merge; simp [he]
  · unfold merge; simp [he]

/-- the reported conflict set is the union of the target's and the master's conflicts -/
theorem merge_conflicts_exact (src tgt : Dict κ ν) (m : Option (Dict κ ν)) (ow ign : Bool)
    (sel : Option (κ → Bool)) (hne : src ≠ []) (c : κ × ν × ν) :
    c ∈ (merge false true src tgt m ow ign sel).conflicts ↔
      c ∈ (reconcile src tgt ow sel).conflicts
        ∨ ∃ md, m = some md ∧ ign = false ∧ c ∈ (reconcile src md ow sel).conflicts := by
  have he : src.isEmpty = false := by cases src <;> simp_all
  unfold merge
  simp only [he, Bool.not_true, Bool.or_self, Bool.false_eq_true, if_false]
  cases ign <;> cases m <;> simp [mergeTo, List.mem_eraseDups]

/-- the reported updates: the master's update for a name if there is one, else the target's -/
theorem merge_updates_pointwise (src tgt m : Dict κ ν) (ow : Bool) (sel : Option (κ → Bool))
    (hs : (dkeys src).Nodup) (hne : src ≠ []) (n : κ) :
    dget (merge false true src tgt (some m) ow false sel).updates n
        = (match specUpd (srcSel sel src n) (dget m n) ow with
           | some x => some x
           | none => specUpd (srcSel sel src n) (dget tgt n) ow)
      ∧ dget (merge false true src tgt none ow false sel).updates n
        = specUpd (srcSel sel src n) (dget tgt n) ow := by
  have he : src.isEmpty = false := by cases src <;> simp_all
  constructor
  · unfold merge
    simp only [he, Bool.not_true, Bool.or_self, Bool.false_eq_true, if_false, mergeTo]
    have hu : (dkeys (reconcile src m ow sel).updates).Nodup :=
      foldl_updates_nodup ow sel src ⟨m, [], []⟩ (by simp [dkeys])
    rw [dget_dupdate _ _ hu,
      reconcile_updates_pointwise _ _ _ _ hs, reconcile_updates_pointwise _ _ _ _ hs]
    cases specUpd (srcSel sel src n) (dget m n) ow <;> rfl
  · unfold merge
    simp only [he, Bool.not_true, Bool.or_self, Bool.false_eq_true, if_false, mergeTo]
    exact reconcile_updates_pointwise _ _ _ _ hs n

example : (reconcile [(1, 10), (2, 20), (3, 30), (5, 50)] [(2, 21), (3, 30), (4, 40)] false
    (some fun n => n != 5)).result = [(2, 21), (3, 30), (4, 40), (1, 10)] := by decide
example : (reconcile [(1, 10), (2, 20), (3, 30), (5, 50)] [(2, 21), (3, 30), (4, 40)] false
    (some fun n => n != 5)).conflicts = [(2, 20, 21)] := by decide
example : (reconcile [(1, 10), (2, 20), (3, 30)] [(2, 21), (3, 30), (4, 40)] true none).updates
    = [(1, 10), (2, 20)] := by decide
example : (dkeys [(1, 10), (2, 20), (3, 30), (5, 50)]).Nodup := by decide

end reconcile

/-! ### local git destinations

`cls` says how the destination git repository sees a revision id (a commit it
has / not a git revision id at all = ghost / a git revision id whose commit it
does not have = absent); it is an arbitrary function, `refs` are the
destination's raw tag refs (they may contain broken refs, which `get_tag_dict`
does not show), `strict` selects whether `set_tag` refuses absent commits.
Everything is for all dictionaries, selectors, classifications — unbounded. -/
section git
variable {κ ν : Type} [DecidableEq κ] [DecidableEq ν]

/-- `LocalGitTagDict._set_tag_dict(to)`, raw refs afterwards: a tag named in
`to` holds the new value if `set_tag` could write it and keeps its previous ref
otherwise (the ghost is skipped — it does not end the loop); every tag ref not
named in `to` is deleted, no other. -/
theorem gitSetTagDict_pointwise (strict : Bool) (cls : ν → RevClass) (refs to : Dict κ ν)
    (hn : (dkeys to).Nodup) (n : κ) :
    dget (gitSetTagDict strict cls refs to) n
      = match dget to n with
        | some v => if setTagWrites strict (cls v) then some v else dget refs n
        | none => none :=
  gitSetTagDict_get strict cls refs to hn n

/-- Complete pointwise characterisation of what is readable in a local git
destination after `merge_to` from a non-git source (`MemoryTags`, `BasicTags`),
including the write-skipping `result != dest_dict`. -/
theorem git_merge_read_pointwise (strict : Bool) (cls : ν → RevClass) (refs src : Dict κ ν) (ow : Bool)
    (sel : Option (κ → Bool)) (hr : (dkeys refs).Nodup) (hs : (dkeys src).Nodup) (n : κ) :
    dget (gitRead cls (gitMergeTo strict cls refs src ow sel).1) n
      = gitSpec strict cls (srcSel sel src n) (dget (gitRead cls refs) n) ow := by
  have hd := gitRead_nodup cls refs hr
  have hR := reconcile_result_pointwise src (gitRead cls refs) ow sel hs n
  have hRn := reconcile_result_nodup src (gitRead cls refs) ow sel hd
  unfold gitMergeTo
  simp only
  split
  · -- written
    rw [gitRead_get cls _ (gitSetTagDict_nodup strict cls refs _ hr),
      gitSetTagDict_get strict cls refs _ hRn, hR]
    unfold gitSpec
    cases hsv : specVal (srcSel sel src n) (dget (gitRead cls refs) n) ow with
    | none => simp
    | some v =>
      simp only
      rw [gitRead_get cls refs hr]
      cases hc : cls v <;> cases strict <;> simp [setTagWrites, hc, RevClass.isCommit, Option.filter]
  · -- not written: the reconciled dictionary equals the destination's
    rename_i hne
    have heq := dictNe_false _ _ hRn (by simpa using hne) n
    rw [hR] at heq
    unfold gitSpec
    rw [heq]
    cases hd' : dget (gitRead cls refs) n with
    | none => rfl
    | some v =>
      have hc := gitRead_commit cls refs n v hd'
      cases hcv : cls v <;> simp_all [RevClass.isCommit]

/-- what a merge onto a git store reports: `updates` lists every selected source
definition that is new to, or (with overwrite) differs from, the destination's
*readable* tags — whether or not the repository could hold it (a ghost is listed
although it is skipped) — and `conflicts` is exactly the set of selected names
whose readable destination definition differs, when overwrite is off -/
theorem git_merge_reports (strict : Bool) (cls : ν → RevClass) (refs src : Dict κ ν) (ow : Bool)
    (sel : Option (κ → Bool)) (hs : (dkeys src).Nodup) (n : κ) (c : κ × ν × ν) :
    dget (gitMergeTo strict cls refs src ow sel).2.1 n
        = specUpd (srcSel sel src n) (dget (gitRead cls refs) n) ow
      ∧ (c ∈ (gitMergeTo strict cls refs src ow sel).2.2 ↔
          (ow = false ∧ srcSel sel src c.1 = some c.2.1
            ∧ dget (gitRead cls refs) c.1 = some c.2.2 ∧ c.2.1 ≠ c.2.2)) :=
  ⟨reconcile_updates_pointwise src (gitRead cls refs) ow sel hs n,
   reconcile_conflicts_exact src (gitRead cls refs) ow sel hs c⟩

/-- when every selected source value is a commit of the destination repository,
a git destination obeys the statement exactly (added / kept / unchanged /
conflict keeps destination / overwrite takes source) -/
theorem git_merge_follows_statement (strict : Bool) (cls : ν → RevClass) (refs src : Dict κ ν)
    (ow : Bool) (sel : Option (κ → Bool)) (hr : (dkeys refs).Nodup) (hs : (dkeys src).Nodup)
    (hc : ∀ n v, srcSel sel src n = some v → cls v = .commit) (n : κ) :
    dget (gitRead cls (gitMergeTo strict cls refs src ow sel).1) n
      = specVal (srcSel sel src n) (dget (gitRead cls refs) n) ow := by
  rw [git_merge_read_pointwise strict cls refs src ow sel hr hs]
  unfold gitSpec
  cases hsv : specVal (srcSel sel src n) (dget (gitRead cls refs) n) ow with
  | none => rfl
  | some v =>
    have : cls v = .commit := by
      unfold specVal at hsv
      cases hs' : srcSel sel src n with
      | none =>
        simp only [hs'] at hsv
        have := gitRead_commit cls refs n v hsv
        cases hcv : cls v <;> simp_all [RevClass.isCommit]
      | some x =>
        have hx := hc n x hs'
        cases hd' : dget (gitRead cls refs) n with
        | none => simp [hs', hd'] at hsv; subst hsv; exact hx
        | some w =>
          have hw := gitRead_commit cls refs n w hd'
          have hw' : cls w = .commit := by cases hcw : cls w <;> simp_all [RevClass.isCommit]
          simp only [hs', hd'] at hsv
          split at hsv
          · simp at hsv; subst hsv; exact hw'
          · split at hsv <;> (simp at hsv; subst hsv) <;> assumption
    simp [this]

/-- a source tag that is selected, new to the destination and a commit the
destination has is added — whatever else (ghosts included) is in the source -/
theorem git_merge_source_only_added (strict : Bool) (cls : ν → RevClass) (refs src : Dict κ ν)
    (ow : Bool) (sel : Option (κ → Bool)) (hr : (dkeys refs).Nodup) (hs : (dkeys src).Nodup)
    (n : κ) (v : ν) (h1 : srcSel sel src n = some v) (h2 : dget (gitRead cls refs) n = none)
    (hc : cls v = .commit) :
    dget (gitRead cls (gitMergeTo strict cls refs src ow sel).1) n = some v := by
  rw [git_merge_read_pointwise strict cls refs src ow sel hr hs]
  simp [gitSpec, specVal, h1, h2, hc]

/-- every tag only in the destination (or not selected) is kept — whatever else
(ghosts included) is in the source -/
theorem git_merge_dest_only_kept (strict : Bool) (cls : ν → RevClass) (refs src : Dict κ ν)
    (ow : Bool) (sel : Option (κ → Bool)) (hr : (dkeys refs).Nodup) (hs : (dkeys src).Nodup)
    (n : κ) (h1 : srcSel sel src n = none) :
    dget (gitRead cls (gitMergeTo strict cls refs src ow sel).1) n = dget (gitRead cls refs) n := by
  rw [git_merge_read_pointwise strict cls refs src ow sel hr hs]
  unfold gitSpec
  rw [h1, specVal_none]
  cases hd' : dget (gitRead cls refs) n with
  | none => rfl
  | some v =>
    have hc := gitRead_commit cls refs n v hd'
    cases hcv : cls v <;> simp_all [RevClass.isCommit]

/-- a source definition the destination cannot hold (a ghost) leaves the
destination's definition of that name — or its absence — exactly as it was -/
theorem git_merge_ghost_leaves_dest (strict : Bool) (cls : ν → RevClass) (refs src : Dict κ ν)
    (ow : Bool) (sel : Option (κ → Bool)) (hr : (dkeys refs).Nodup) (hs : (dkeys src).Nodup)
    (n : κ) (v : ν) (h1 : srcSel sel src n = some v) (hg : cls v = .ghost) :
    dget (gitRead cls (gitMergeTo strict cls refs src ow sel).1) n = dget (gitRead cls refs) n := by
  rw [git_merge_read_pointwise strict cls refs src ow sel hr hs]
  unfold gitSpec specVal
  rw [h1]
  cases hd' : dget (gitRead cls refs) n with
  | none => simp [hg]
  | some w =>
    have hc := gitRead_commit cls refs n w hd'
    have hw : cls w = .commit := by cases hcw : cls w <;> simp_all [RevClass.isCommit]
    by_cases e : v = w
    · subst e; simp [hg] at hw
    · cases ow <;> simp [e, hg, hw]

/-- No readable destination tag is ever lost, provided `set_tag` is strict or no
selected source value is an absent commit.  (Full statement — without the
proviso — is false for the non-strict `set_tag`: `git_merge_absent_loses_witness`.) -/
theorem git_merge_never_loses_partial (strict : Bool) (cls : ν → RevClass) (refs src : Dict κ ν)
    (ow : Bool) (sel : Option (κ → Bool)) (hr : (dkeys refs).Nodup) (hs : (dkeys src).Nodup)
    (hp : strict = true ∨ ∀ n v, srcSel sel src n = some v → cls v ≠ .absent)
    (n : κ) (h : (dget (gitRead cls refs) n).isSome) :
    (dget (gitRead cls (gitMergeTo strict cls refs src ow sel).1) n).isSome := by
  rw [git_merge_read_pointwise strict cls refs src ow sel hr hs]
  cases hd' : dget (gitRead cls refs) n with
  | none => simp [hd'] at h
  | some w =>
    have hc := gitRead_commit cls refs n w hd'
    have hw : cls w = .commit := by cases hcw : cls w <;> simp_all [RevClass.isCommit]
    unfold gitSpec specVal
    cases hs' : srcSel sel src n with
    | none => simp [hw]
    | some v =>
      by_cases e : v = w
      · subst e; simp [hw]
      · cases ow
        · simp [e, hw]
        · simp only [e, if_false, if_true]
          cases hcv : cls v
          · simp
          · simp
          · rcases hp with hp | hp
            · simp [hp]
            · exact absurd hcv (hp n v hs')

/-- the non-strict `set_tag` loses a destination tag: overwriting `t ↦ 1` with
the absent commit `2` leaves a broken ref, nothing readable under `t` -/
theorem git_merge_absent_loses_witness :
    let cls : Nat → RevClass := fun v => if v = 2 then .absent else .commit
    dget (gitRead cls [(7, 1)]) 7 = some 1
      ∧ dget (gitRead cls (gitMergeTo false cls [(7, 1)] [(7, 2)] true none).1) 7 = none
      ∧ dget (gitRead cls (gitMergeTo true cls [(7, 1)] [(7, 2)] true none).1) 7 = some 1 := by
  decide

/-! #### git → local git (`InterTagsFromGitToLocalGit.merge`) -/

/-- raw target refs afterwards, per tag name -/
theorem g2g_refs_pointwise (cls : ν → RevClass) (refs src : Dict κ ν) (ow : Bool)
    (sel : Option (κ → Bool)) (hs : (dkeys src).Nodup) (n : κ) :
    dget (gitToGit cls refs src ow sel).refs n
      = g2gSpec cls (srcSel sel src n) (dget refs n) ow :=
  foldl_g2g_refs cls ow sel src hs _ n

/-- reported updates: exactly the refs that were written, with the new value -/
theorem g2g_updates_pointwise (cls : ν → RevClass) (refs src : Dict κ ν) (ow : Bool)
    (sel : Option (κ → Bool)) (hs : (dkeys src).Nodup) (n : κ) :
    dget (gitToGit cls refs src ow sel).updates n
      = g2gUpd cls (srcSel sel src n) (dget refs n) ow := by
  have := foldl_g2g_updates cls ow sel src hs ⟨refs, [], []⟩ n
  unfold gitToGit
  rw [this]
  cases g2gUpd cls (srcSel sel src n) (dget refs n) ow <;> simp

/-- reported conflicts: the selected names whose (readable) target definition
differs, when overwrite is off -/
theorem g2g_conflicts_exact (cls : ν → RevClass) (refs src : Dict κ ν) (ow : Bool)
    (sel : Option (κ → Bool)) (hs : (dkeys src).Nodup) (c : κ × ν × ν) :
    c ∈ (gitToGit cls refs src ow sel).conflicts ↔
      (ow = false ∧ srcSel sel src c.1 = some c.2.1 ∧ dget refs c.1 = some c.2.2
        ∧ c.2.1 ≠ c.2.2 ∧ (cls c.2.2).isCommit = true) := by
  have := foldl_g2g_conflicts cls ow sel src hs ⟨refs, [], []⟩ c
  unfold gitToGit
  rw [this]; simp

/-- when the target has no broken refs, git → local git leaves readable exactly
what the strict git specification says: the statement for commits the target
has, the destination's definition for commits it does not have -/
theorem g2g_read_pointwise (cls : ν → RevClass) (refs src : Dict κ ν) (ow : Bool)
    (sel : Option (κ → Bool)) (hr : (dkeys refs).Nodup) (hs : (dkeys src).Nodup)
    (hg : ∀ v, cls v ≠ .ghost)
    (hb : ∀ n w, dget refs n = some w → cls w = .commit) (n : κ) :
    dget (gitRead cls (gitToGit cls refs src ow sel).refs) n
      = gitSpec true cls (srcSel sel src n) (dget (gitRead cls refs) n) ow := by
  have hn : (dkeys (gitToGit cls refs src ow sel).refs).Nodup :=
    foldl_g2g_nodup cls ow sel src ⟨refs, [], []⟩ hr
  rw [gitRead_get cls _ hn, gitRead_get cls refs hr, g2g_refs_pointwise cls refs src ow sel hs]
  unfold gitSpec g2gSpec specVal
  cases hs' : srcSel sel src n with
  | none =>
    cases hd : dget refs n with
    | none => simp
    | some w => simp [Option.filter, hb n w hd, RevClass.isCommit]
  | some v =>
    have hgv := hg v
    cases hd : dget refs n with
    | none =>
      cases hcv : cls v <;> simp_all [Option.filter, RevClass.isCommit]
    | some w =>
      have hw := hb n w hd
      by_cases e : v = w
      · subst e; simp [Option.filter, hw, RevClass.isCommit]
      · cases ow <;> cases hcv : cls v <;> simp_all [Option.filter, RevClass.isCommit]

/-- git → local git never loses a readable target tag -/
theorem g2g_never_loses (cls : ν → RevClass) (refs src : Dict κ ν) (ow : Bool)
    (sel : Option (κ → Bool)) (hr : (dkeys refs).Nodup) (hs : (dkeys src).Nodup) (n : κ)
    (h : (dget (gitRead cls refs) n).isSome) :
    (dget (gitRead cls (gitToGit cls refs src ow sel).refs) n).isSome := by
  have hn : (dkeys (gitToGit cls refs src ow sel).refs).Nodup :=
    foldl_g2g_nodup cls ow sel src ⟨refs, [], []⟩ hr
  rw [gitRead_get cls _ hn, g2g_refs_pointwise cls refs src ow sel hs]
  rw [gitRead_get cls refs hr] at h
  cases hd : dget refs n with
  | none => simp [hd] at h
  | some w =>
    have hw : (cls w).isCommit = true := by simpa [hd, Option.filter] using h
    unfold g2gSpec
    cases hs' : srcSel sel src n with
    | none => simp [Option.filter, hw]
    | some v =>
      by_cases e : v = w
      · simp [e, Option.filter, hw]
      · by_cases hcv : (cls v).isCommit = true <;> cases ow <;> simp [e, hcv, Option.filter, hw]

-- non-vacuity of the hypotheses: a classification with ghosts and absent commits, a
-- destination with a broken ref, a source whose selected values are all commits
example :
    let cls : Nat → RevClass := fun v => if v = 0 then .ghost else if v = 2 then .absent else .commit
    ∀ n v, srcSel (some fun k => k != 4) [(1, 1), (4, 0), (3, 3)] n = some v → cls v = .commit := by
  intro cls n v h
  unfold srcSel at h
  split at h
  · have hm := dget_some_mem _ _ _ h
    simp at hm
    rcases hm with ⟨rfl, rfl⟩ | ⟨rfl, rfl⟩ | ⟨rfl, rfl⟩ <;> simp_all [selected, cls]
  · simp at h
example :
    let cls : Nat → RevClass := fun v => if v = 0 then .ghost else if v = 2 then .absent else .commit
    ∀ n v, srcSel none [(1, 1), (4, 0), (3, 3)] n = some v → cls v ≠ .absent := by
  intro cls n v h
  have hm := dget_some_mem _ _ _ (by simpa [srcSel, selected] using h)
  simp at hm
  rcases hm with ⟨rfl, rfl⟩ | ⟨rfl, rfl⟩ | ⟨rfl, rfl⟩ <;> simp [cls]
example :
    let cls : Nat → RevClass := fun v => if v = 2 then .absent else .commit
    (∀ v, cls v ≠ .ghost) ∧ ∀ n w, dget [(9, 1), (5, 3)] n = some w → cls w = .commit := by
  refine ⟨fun v => by by_cases h : v = 2 <;> simp [h], ?_⟩
  intro n w h
  have hm := dget_some_mem _ _ _ h
  simp at hm
  rcases hm with ⟨rfl, rfl⟩ | ⟨rfl, rfl⟩ <;> simp

-- non-vacuity: a ghost in the middle of the source; the tags after it are still
-- added, the destination-only tag 9 survives, the broken ref 8 is cleaned up
example :
    let cls : Nat → RevClass := fun v => if v = 0 then .ghost else if v = 2 then .absent else .commit
    gitMergeTo true cls [(9, 1), (8, 2)] [(1, 1), (2, 0), (3, 3)] false none
      = ([(9, 1), (1, 1), (3, 3)], [(1, 1), (2, 0), (3, 3)], []) := by decide
example :
    let cls : Nat → RevClass := fun v => if v = 0 then .ghost else if v = 2 then .absent else .commit
    (gitToGit cls [(9, 1), (5, 1)] [(1, 1), (4, 2), (5, 3), (3, 3)] false none).refs
        = [(9, 1), (5, 1), (1, 1), (3, 3)]
      ∧ (gitToGit cls [(9, 1), (5, 1)] [(1, 1), (4, 2), (5, 3), (3, 3)] false none).conflicts
        = [(5, 3, 1)] := by decide
example : (dkeys [(9, 1), (8, 2)]).Nodup ∧ (dkeys [(1, 1), (2, 0), (3, 3)]).Nodup := by decide

end git

/-! ### serialisation -/

/-- the stored order is the sorted order; as a map nothing changes -/
theorem sortKV_same_map (d : Dict Bytes Bytes) (hn : (dkeys d).Nodup) (k : Bytes) :
    dget (sortKV d) k = dget d k := dget_sortKV d hn k

/-- bencode round trip for every dictionary of byte strings with unique keys:
decoding the encoding gives back the items, in key order -/
theorem bencode_dict_roundtrip (d : Dict Bytes Bytes) (hn : (dkeys d).Nodup) :
    decode (encDict d) = .ok (sortKV d) := by
  unfold decode encDict
  simp only
  have hlen := encItems_length (sortKV d)
  rw [decItems_enc (sortKV d) (sortKV_sorted d hn) _ (by simp; omega) none (by simp) []]

/-- `_deserialize_tag_dict (_serialize_tag_dict d) = d` for every tag dictionary
whose names are valid UTF-8 (i.e. every Python `str` without lone surrogates),
values arbitrary byte strings: same names, same values (`sortKV_same_map`),
stored in sorted order -/
theorem tags_roundtrip (d : Dict Bytes Bytes) (hn : (dkeys d).Nodup)
    (hu : ∀ k ∈ dkeys d, validUTF8 k = true) :
    deserialize (serialize d) = .ok (sortKV d) := by
  unfold deserialize serialize
  have hne : (encDict d).isEmpty = false := by simp [encDict]
  rw [hne, bencode_dict_roundtrip d hn]
  have : (sortKV d).all (fun e => validUTF8 e.1) = true := by
    rw [List.all_eq_true]
    intro e he
    exact hu e.1 ((dkeys_sortKV e.1 d).mp (by simp only [dkeys, List.mem_map]; exact ⟨e, he, rfl⟩))
  simp [this]

/-- two tag dictionaries with the same stored bytes are the same map: nothing
is lost or merged by the serialisation -/
theorem serialize_injective (d1 d2 : Dict Bytes Bytes) (h1 : (dkeys d1).Nodup) (h2 : (dkeys d2).Nodup)
    (h : serialize d1 = serialize d2) (k : Bytes) : dget d1 k = dget d2 k := by
  have e1 := bencode_dict_roundtrip d1 h1
  have e2 := bencode_dict_roundtrip d2 h2
  unfold serialize at h
  rw [h, e2] at e1
  have : sortKV d2 = sortKV d1 := by injection e1
  rw [← sortKV_same_map d1 h1, ← sortKV_same_map d2 h2, this]

/-- `BasicTags.set_tag(k, v)` = read, `d[k] = v`, write: reading the file again
gives `v` for `k` and every other tag exactly as before -/
theorem set_tag_roundtrip (d : Dict Bytes Bytes) (hn : (dkeys d).Nodup)
    (hu : ∀ n ∈ dkeys d, validUTF8 n = true) (k v : Bytes) (hk : validUTF8 k = true) :
    ∃ d', deserialize (serialize (dset d k v)) = .ok d'
      ∧ ∀ n, dget d' n = if k = n then some v else dget d n := by
  have hn' := dset_nodup d k v hn
  have hu' : ∀ n ∈ dkeys (dset d k v), validUTF8 n = true := by
    intro n hm
    rw [dkeys_dset] at hm
    split at hm
    · exact hu n hm
    · rcases List.mem_append.mp hm with hm | hm
      · exact hu n hm
      · simp at hm; subst hm; exact hk
  refine ⟨_, tags_roundtrip _ hn' hu', ?_⟩
  intro n
  rw [sortKV_same_map _ hn']
  by_cases e : k = n
  · subst e; simp [dget_dset_self]
  · simp [e, dget_dset_ne _ _ _ _ e]

/-- `BasicTags.delete_tag(k)` = read, `del d[k]`, write: reading the file again
gives no tag `k` and every other tag exactly as before -/
theorem delete_tag_roundtrip (d : Dict Bytes Bytes) (hn : (dkeys d).Nodup)
    (hu : ∀ n ∈ dkeys d, validUTF8 n = true) (k : Bytes) :
    ∃ d', deserialize (serialize (ddel d k)) = .ok d'
      ∧ ∀ n, dget d' n = if n = k then none else dget d n := by
  have hn' := ddel_nodup d k hn
  have hu' : ∀ n ∈ dkeys (ddel d k), validUTF8 n = true :=
    fun n hm => hu n ((dkeys_filter_sublist d _).subset hm)
  refine ⟨_, tags_roundtrip _ hn' hu', ?_⟩
  intro n
  rw [sortKV_same_map _ hn', dget_ddel]

/-- the empty file is the empty dictionary (initial state of a branch) -/
theorem deserialize_empty : deserialize [] = .ok [] := rfl

-- non-vacuity: "é" ↦ "r1", "a" ↦ "", both hypotheses hold and the order changes
example : (dkeys [([0xC3, 0xA9], [114, 49]), ([97], ([] : Bytes))]).Nodup := by decide
example : ∀ k ∈ dkeys [([0xC3, 0xA9], [114, 49]), ([97], ([] : Bytes))], validUTF8 k = true := by decide
example : serialize [([0xC3, 0xA9], [114, 49]), ([97], [])]
    = [100, 49, 58, 97, 48, 58, 50, 58, 0xC3, 0xA9, 50, 58, 114, 49, 101] := by decide
example : validUTF8 [0xED, 0xA0, 0x80] = false ∧ validUTF8 [0xC0, 0x80] = false
    ∧ validUTF8 [0xF4, 0x90, 0x80, 0x80] = false ∧ validUTF8 [0xF0, 0x9F, 0x98, 0x80] = true := by decide
example : deserialize [100, 49, 58, 98, 48, 58, 49, 58, 97, 48, 58, 101] = .error .malformed := by rfl

end BreezyVerif.C24
