"""C27 — lock operations leave recoverable state at every crash point
(breezy/lockdir.py: _create_pending_dir, _remove_pending_dir, _attempt_lock,
unlock, confirm, force_break, force_break_corrupt).

Model: the lock-directory model of C26 (lean/BreezyVerif/Model/C26.lean, not
touched here) plus Model/C27.lean: classification of the on-disk state, the
recovery procedures, and a *layer* with one more event, the lost reply
(`l<i><T|P>`: a pending rename of held/ takes effect and then raises), in two
variants of the contention handler of `_attempt_lock` (probed on the real code
on every run: does it recognise its own current nonce in held/?).

T2 (gated-transport engine of C26, see checks/c26.py; `LostGate`/`World27`
here add the lost-reply directive): real LockDir objects on a MemoryTransport
(thorough: also a local directory) execute
  * every crash prefix of 14 victim scenarios — attempt on a free / contended /
    foreign-held lock, stealing attempt, a second attempt after an orphaned
    one, unlock, unlock of a lock that was broken / broken and retaken behind
    the victim's back, confirm (held / broken), break_lock of a live / dead /
    corrupt lock: the victim stops after k transport calls for every k and
    never moves again (no finally runs);
  * every single fault: call k of each of those operations raises a
    TransportError (kind T) or a PathError (kind P), the operation then runs to
    completion; every single lost reply (each rename of each scenario);
  * every pair of faults (both kinds each) within one operation for attempt
    free / contended / stealing, unlock and break_lock of a dead holder's lock:
    second fault at every call after the first one, cleanup calls included;
  * torn / empty / garbage `held/info` files (malformed stream);
  * random interleavings of 2-4 lockers with crashes, faults and lost replies;
each followed by a *fresh* real LockDir that recovers (attempt; if contended
break_lock then attempt).  After every event the directory listing, the
classification of the lock seen by a fresh `peek()`, pending calls, is_held and
results are compared with the model.
Oracle only (the model starts from an existing lock directory): the same crash /
fault / lost-reply enumeration for attempt, break_lock and unlock when the lock
directory itself does not exist yet (`_create_pending_dir` -> `create()` ->
second mkdir).
Oracle (real objects only): (R1) after every event `held/` is absent or
`peek()` returns holder info (from a lock with unparsable info: never `held/`
without any info); (R2) the fresh locker ends up holding the lock;
(R3) when attempt_lock raised, is_held is False and `held/info` does not carry
the nonce of the failed attempt.

Findings (families computed from the concrete events):
  attempt-fault-at-confirming-peek-after-rename (known, F20): a transport error
    in a peek right after the rename into place took effect;
  attempt-rename-lost-reply: the rename into place takes effect but raises; the
    contention handler finds a live holder (itself) and raises LockContention
    with held/ carrying its own nonce (Lean: lost_reply_rename_witness; with the
    three-line fix the variant probe selects the other model variant and
    lost_reply_rename_fixed applies).

Mutants this was built against (scratch worktree; result of the run in brackets):
  N1 `_create_pending_dir`/`_attempt_lock`: info written after the rename into place
     [oracle R1: "after t2 the lock on disk is HeldNoInfo" — crash between rename and put]
  N2 `unlock`: info deleted before `held` is renamed away [R1: HeldNoInfo at the crash point between]
  N3 `_attempt_lock`: `_lock_held = True` before the confirming peek [R3: "attempt_lock raised E:FaultT but
     is_held is True" — needs the fault at exactly that call]
  N4 `force_break`: info deleted before the rename, re-check dropped [R1: HeldNoInfo]
  N5 `force_break_corrupt`: renames the emptied directory back to `held` [R2: "a fresh locker cannot take the
     lock, neither directly nor after break_lock ... held/info=e"]
  N6 `_remove_pending_dir`: deletes `held/info` instead of the pending info [R1: HeldNoInfo after a contended attempt]
  N7 `_attempt_lock`: `_remove_pending_dir` dropped on contention [T2 only (listing differs): leftovers are not
     a violation of C27's statement]
  N8 `_create_pending_dir`: `return tmpname` right after the second mkdir of the create() branch (info never
     written when the lock directory had to be created) [R1: HeldNoInfo — only in the no-lock-directory cases]
  N9 `unlock`: LockBroken from confirm() swallowed, the rename away goes ahead [T2 only: unlock-retaken /
     unlock-broken scenarios; removing somebody else's lock is C26's property]
  N10 `_remove_pending_dir`: on NoSuchFile "takes held/ out of the way again" (delete held/info, rmdir held)
     [R1: HeldNoInfo between the two calls — only after a lost reply of the rename into place]
  N11 `confirm`: a lock with another nonce but the same pid is accepted [T2 only: unlock-retaken, confirm scenarios]
  S2 (seeded by the coordinator, /var/tmp/seed-C27b) `force_break_corrupt` dismantles held/ in place (delete info,
     rmdir held) instead of renaming it away [R1/R2: crash after call 3 or fault at call 4 of break_lock on a corrupt
     lock: HeldNoInfo, "a fresh locker cannot take the lock"; memory transport (strict rename)]
  H2 harmless: temporaries renamed / built with str.format [clean: 0 mismatches, only the known family]
  H3 harmless: `unlock` builds the releasing name with "/".join [clean: 0 mismatches]
"""
import os

from vlib import env
from checks import c26

THEOREMS = [
    "crash_recoverable", "pending_complete", "fresh_acquires_free", "fresh_acquires_after_break",
    "recover_after_any_crash", "corrupt_info_break", "failed_attempt_not_held_partial",
    "disk_serial_le_current", "latest_attempt_leaves_no_nonce", "orphan_serial_origin",
    "failed_attempt_witness", "flag_set_only_by_successful_confirm", "failed_attempt_solo", "failed_steal_solo",
    "heldNoInfo_unrecoverable", "heldNoInfo_witness",
    "crash_recoverable_lost", "run27_base", "lost_reply_rename_witness", "lost_reply_rename_fixed",
]
RUST = ("cmd-py",)
RULE = ("a case is (lockers, initial held/, event list incl. crash, fault and lost-reply events, recovery by a fresh "
        "locker); crash prefixes, single faults and single lost replies of 14 victim scenarios and all pairs of faults "
        "of five of them are enumerated completely; non-trivial = the victim stopped or failed strictly inside an "
        "operation (at least one transport call done, not all)")
ASSUMPTIONS = list(c26.ASSUMPTIONS) + [
    "a crash is 'the process performs no further transport call' (no finally/except runs); a single "
    "transport call is atomic (put_bytes_non_atomic of the small info file into a private directory is not torn "
    "in place: torn info files are covered as initial states, and are shown unreachable in held/)",
    "a lost reply is modelled for the four renames of held/ only (on other calls the event is the plain fault); a "
    "rename of a directory is atomic",
    "a lock directory that does not exist yet (create() path of _create_pending_dir) is outside the model: those "
    "cases are checked by the oracle (R1-R3) only",
]
TRUSTED = list(c26.TRUSTED)
FAMILY_CONFIRM = "attempt-fault-at-confirming-peek-after-rename"

FAMILY_LOST = "attempt-rename-lost-reply"

V, O, R = 0, 1, 2          # victim, other, recovering locker


class LostGate(c26.GateTransport):
    """the gate of C26 plus the directives LT / LP (event `l<i><T|P>`): a *lost reply* — a pending rename is
    performed on the real transport and then raises the transport error; on any other pending call the
    directive is the ordinary fault (raised before the call)"""

    def _exc(self, d, call):
        return self._w.FaultT("injected") if d == "LT" else self._w.FaultP(call, "injected")

    def _gate(self, call):
        super()._gate(call)
        d = self._w.workers[self._lid].directive
        if d in ("LT", "LP") and not call.startswith("rename:"):
            raise self._exc(d, call)

    def rename(self, a, b):
        call = "rename:%s>%s" % (c26._kind_of(a), c26._kind_of(b))
        self._gate(call)
        d = self._w.workers[self._lid].directive
        if not self._w.t.has(a):
            from dromedary.errors import NoSuchFile
            raise NoSuchFile(a)
        r = self._w.t.rename(a, b)          # a rename that fails by itself has no effect to lose
        if d in ("LT", "LP"):
            raise self._exc(d, call)
        return r


class World27(c26.World):
    """c26.World with lost-reply events and, optionally, no lock directory to start with"""

    def __init__(self, cfgs, held="-", local=False, crashers=(), nolockdir=False):
        super().__init__(cfgs, held=held, local=local, crashers=crashers)
        for i, ld in enumerate(self.lds):
            ld.transport = LostGate(self, i)
        if nolockdir:
            self.t.rmdir(c26.LOCK)

    def event(self, ev):
        if ev[0] != "l":
            return super().event(ev)
        lid, directive = int(ev[1:-1]), "L" + ev[-1]
        w = self.workers[lid]
        if self.crashed[lid] or not w.busy:
            return
        self._set_env(lid)
        w.calls += 1
        w.directive = directive
        w.go.release()
        self._wait(w)

    def show(self):
        if not self.t.has(c26.LOCK):
            return "NOLOCKDIR " + " ".join(
                "%s/%s/%d/%s" % (w.pending if w.busy and w.pending else "-", "T" if self.lds[i].is_held else "F",
                                 self.serial[i], w.last) for i, w in enumerate(self.workers))
        return super().show()


def _scenarios():
    """(name, cfgs, held, setup events, victim op, max victim calls)"""
    plain = [1, 1, False]
    steal = [1, 1, True]
    acq_o = ["s1a", "t1", "t1", "t1", "t1"]
    acq_v = ["s0a", "t0", "t0", "t0", "t0"]
    brk_o = ["s1b"] + ["t1"] * 6
    return [
        ("attempt-free", [plain, plain, plain], "-", [], "a", 4),
        ("attempt-contended", [plain, plain, plain], "-", acq_o, "a", 6),
        ("attempt-steal", [steal, plain, plain], "-", acq_o + ["x1"], "a", 11),
        ("unlock", [plain, plain, plain], "-", acq_v, "u", 4),
        ("break-live", [plain, plain, plain], "-", acq_o, "b", 6),
        ("break-dead", [plain, plain, plain], "-", acq_o + ["x1"], "b", 6),
        ("break-corrupt", [plain, plain, plain], "b1", [], "b", 5),
        ("attempt-on-foreign", [plain, plain, plain], "o99.1", [], "a", 6),
        # the victim's lock was broken (and possibly retaken) behind its back
        ("unlock-broken", [plain, plain, plain], "-", acq_v + brk_o, "u", 2),
        ("unlock-retaken", [plain, plain, plain], "-", acq_v + brk_o + acq_o, "u", 2),
                ("confirm", [plain, plain, plain], "-", acq_v, "c", 1),
        ("confirm-broken", [plain, plain, plain], "-", acq_v + brk_o, "c", 1),
        # a second attempt of a locker whose first attempt lost its confirming peek (the known finding): the lock
        # on disk is its own, older nonce
        ("attempt-after-orphan", [plain, plain, plain], "-", ["s0a", "t0", "t0", "t0", "f0T"], "a", 6),
    ]


# scenarios whose pairs of fault points are enumerated as well
DOUBLE = ("attempt-free", "attempt-contended", "attempt-steal", "unlock", "break-dead")


class Runner:
    """drives one case on the real code, building the event list as it goes"""

    def __init__(self, cfgs, held, local=False, crashers=(), nolockdir=False):
        self.case = dict(cfgs=[list(c) for c in cfgs], held=held, events=[], local=local)
        if nolockdir:
            self.case["nolockdir"] = True
        self.w = World27([tuple(c) for c in cfgs], held=held, local=local, crashers=set(crashers),
                         nolockdir=nolockdir)
        self.obs = [self.show()]
        self.viol = []
        self.initial_ok = held == "-" or (held.startswith("o"))

    def disk(self):
        """what a fresh LockDir sees"""
        w = self.w
        if not w.t.has(c26.LOCK + "/held"):
            return "Free"
        ld = w.lockdir.LockDir(w.t, c26.LOCK)
        try:
            info = ld.peek()
        except w.lockdir.errors.LockCorrupt:
            return "HeldCorrupt:%s" % w.held_content()[1:]
        if info is None:
            return "HeldNoInfo"
        return "HeldReadable:%s" % w.held_content()[1:]

    def show(self):
        return self.disk() + " " + self.w.show()

    def ev(self, e):
        w = self.w
        wk = w.workers[int(e[1:-1] if e[0] in "sfl" else e[1:])]
        pending_before = wk.pending if wk.busy else None
        prev_call = getattr(wk, "c27_prev", None)
        was_busy = wk.busy
        if e[0] == "s" and not was_busy:
            wk.c27_held_before = w.lds[wk.lid].is_held
            wk.c27_serial_before = w.serial[wk.lid]
        w.event(e)
        self.case["events"].append(e)
        self.obs.append(self.show())
        lid = wk.lid
        if e[0] == "t" and was_busy:
            wk.c27_prev = pending_before
        if e[0] == "s" and not was_busy:
            wk.c27_prev = None
            wk.c27_lost = False
        if e[0] == "s" and not was_busy:
            wk.c27_after_rename = False
        if e[0] in "tl" and was_busy and pending_before is not None:
            if pending_before == "rename:P>H" and w.held_content() == "o%d.%d" % (wk.lid, w.serial[wk.lid]):
                wk.c27_after_rename = True     # the rename into place took effect; only peeks since then
                if e[0] == "l":
                    wk.c27_lost = True         # ... and its reply was lost
            elif pending_before != "get:H" and not (e[0] == "l" and not pending_before.startswith("rename:")):
                wk.c27_after_rename = False
        # R1
        d = self.obs[-1].split(" ")[0]
        if self.initial_ok:
            if not (d == "Free" or d.startswith("HeldReadable")):
                self.viol.append(("after %s the lock on disk is %s: neither free nor held with readable info" % (e, d), None))
        elif d == "HeldNoInfo" and self.case["held"] != "e":
            # from a lock with unparsable info (which break_lock can still clear) no operation may go to held/
            # without any info (which nothing can clear)
            self.viol.append(("after %s the lock on disk is HeldNoInfo (it started as %s): nothing can clear that"
                              % (e, self.case["held"]), None))
        # R3: a failed attempt
        if was_busy and not wk.busy and wk.op == "a" and wk.last != "ok":
            ld = w.lds[lid]
            cur = w.held_content()
            mine = "o%d.%d" % (lid, w.serial[lid])
            fam = None
            if e[0] in "fl" and pending_before == "get:H" and (
                    prev_call == "rename:P>H" or getattr(wk, "c27_after_rename", False)):
                fam = FAMILY_CONFIRM           # a transport error in a peek right after the rename took effect
            elif getattr(wk, "c27_lost", False):
                fam = FAMILY_LOST
            if ld.is_held and not getattr(wk, "c27_held_before", False):
                self.viol.append(("attempt_lock of locker %d raised %s but is_held is True" % (lid, wk.last), None))
            if cur == mine and w.serial[lid] > getattr(wk, "c27_serial_before", 0):
                self.viol.append((
                    "attempt_lock of locker %d raised %s but held/info carries the nonce of this failed attempt "
                    "(%s): the lock stays held by the failing process" % (lid, wk.last, cur), fam))

    def run_to_idle(self, lid, limit=40):
        n = 0
        while self.w.workers[lid].busy and not self.w.crashed[lid] and n < limit:
            self.ev("t%d" % lid)
            n += 1

    def op(self, lid, op):
        self.ev("s%d%s" % (lid, op))
        self.run_to_idle(lid)
        return self.w.workers[lid].last

    def recover(self, lid):
        """a fresh process: attempt; if that fails, break_lock and attempt again"""
        w = self.w
        r = self.op(lid, "a")
        if r != "ok":
            self.op(lid, "b")
            r = self.op(lid, "a")
        cur = w.held_content()
        mine = "o%d.%d" % (lid, w.serial[lid])
        if not (r == "ok" and w.lds[lid].is_held and cur == mine):
            self.viol.append((
                "a fresh locker cannot take the lock, neither directly nor after break_lock: attempt=%s is_held=%s "
                "held/info=%s" % (r, w.lds[lid].is_held, cur), None))

    def close(self):
        self.w.close()


def crash_case(sc, k, local=False):
    name, cfgs, held, setup, op, _ = sc
    crashers = {int(e[1:]) for e in setup if e[0] == "x"} | {V}
    r = Runner(cfgs, held, local=local, crashers=crashers)
    try:
        for e in setup:
            r.ev(e)
        r.ev("s%d%s" % (V, op))
        for _ in range(k):
            if not r.w.workers[V].busy:
                break
            r.ev("t%d" % V)
        inside = r.w.workers[V].busy and k > 0
        r.ev("x%d" % V)
        r.recover(R)
        return dict(r.case, kind="crash:%s:%d" % (name, k)), r.obs, r.viol, inside
    finally:
        r.close()


def fault_case(sc, k, fk, local=False):
    name, cfgs, held, setup, op, _ = sc
    crashers = {int(e[1:]) for e in setup if e[0] == "x"}
    r = Runner(cfgs, held, local=local, crashers=crashers)
    try:
        for e in setup:
            r.ev(e)
        r.ev("s%d%s" % (V, op))
        for _ in range(k):
            if not r.w.workers[V].busy:
                break
            r.ev("t%d" % V)
        inside = r.w.workers[V].busy
        if inside:
            r.ev("f%d%s" % (V, fk))
        r.run_to_idle(V)
        r.recover(R)
        return dict(r.case, kind="fault:%s:%d%s" % (name, k, fk)), r.obs, r.viol, inside
    finally:
        r.close()


def lost_case(sc, k, fk, local=False):
    """call k of the victim's operation is a rename: it takes effect, then raises (lost reply)"""
    name, cfgs, held, setup, op, _ = sc
    crashers = {int(e[1:]) for e in setup if e[0] == "x"}
    r = Runner(cfgs, held, local=local, crashers=crashers)
    try:
        for e in setup:
            r.ev(e)
        r.ev("s%d%s" % (V, op))
        for _ in range(k):
            if not r.w.workers[V].busy:
                break
            r.ev("t%d" % V)
        wk = r.w.workers[V]
        if not (wk.busy and (wk.pending or "").startswith("rename:")):
            return None                       # same as the plain fault case
        r.ev("l%d%s" % (V, fk))
        r.run_to_idle(V)
        r.recover(R)
        return dict(r.case, kind="lost:%s:%d%s" % (name, k, fk)), r.obs, r.viol, True
    finally:
        r.close()


def double_case(sc, k1, k2, fk1, fk2, local=False):
    """two faults in one operation: at call k1, and at the k2-th call after it (cleanup included)"""
    name, cfgs, held, setup, op, _ = sc
    crashers = {int(e[1:]) for e in setup if e[0] == "x"}
    r = Runner(cfgs, held, local=local, crashers=crashers)
    try:
        for e in setup:
            r.ev(e)
        r.ev("s%d%s" % (V, op))
        n = 0
        for kk, fk in ((k1, fk1), (k2, fk2)):
            for _ in range(kk):
                if not r.w.workers[V].busy:
                    break
                r.ev("t%d" % V)
            if r.w.workers[V].busy:
                r.ev("f%d%s" % (V, fk))
                n += 1
        if n < 2:
            return None                       # the operation was over before the second fault
        r.run_to_idle(V)
        r.recover(R)
        return dict(r.case, kind="double:%s:%d%s+%d%s" % (name, k1, fk1, k2, fk2)), r.obs, r.viol, True
    finally:
        r.close()


def nolockdir_case(op, mode, k, fk, local=False):
    """the lock directory itself does not exist yet (`_create_pending_dir` -> `create()` -> second mkdir): oracle
    only (the model starts from an existing lock directory).  mode: crash / fault / lost at call k"""
    r = Runner([[1, 1, False]] * 3, "-", local=local, crashers={V} if mode == "crash" else (), nolockdir=True)
    try:
        r.ev("s%d%s" % (V, op))
        for _ in range(k):
            if not r.w.workers[V].busy:
                break
            r.ev("t%d" % V)
        inside = r.w.workers[V].busy
        if mode == "crash":
            r.ev("x%d" % V)
        elif inside:
            r.ev("%s%d%s" % ("f" if mode == "fault" else "l", V, fk))
            r.run_to_idle(V)
        r.recover(R)
        return dict(r.case, kind="nolockdir:%s:%s:%d%s" % (op, mode, k, fk)), r.obs, r.viol, inside
    finally:
        r.close()


def torn_case(held, local=False):
    r = Runner([[1, 1, False]] * 3, held, local=local)
    try:
        r.recover(R)
        return dict(r.case, kind="torn:" + held), r.obs, r.viol, True
    finally:
        r.close()


def random_case_job(arg):
    seed_case, local = arg
    cfgs = seed_case["cfgs"] + [[1, 1, False]]
    fresh = len(cfgs) - 1
    crashers = {int(e[1:]) for e in seed_case["events"] if e[0] == "x"}
    r = Runner(cfgs, "-", local=local, crashers=crashers)
    try:
        for e in seed_case["events"]:
            r.ev(e)
        # everybody else stops where they are: the fresh process recovers
        r.recover(fresh)
        inside = any(w.busy for w in r.w.workers[:fresh])
        return dict(r.case, kind="random"), r.obs, r.viol, inside
    finally:
        r.close()


def corpus_case(case):
    crashers = {int(e[1:]) for e in case["events"] if e[0] == "x"}
    r = Runner(case["cfgs"], case.get("held", "-"), local=case.get("local", False), crashers=crashers,
               nolockdir=case.get("nolockdir", False))
    try:
        for e in case["events"]:
            r.ev(e)
        return dict(r.case, kind="corpus"), r.obs, r.viol, True
    finally:
        r.close()


def _job(j):
    c26.install()
    kind = j[0]
    if kind == "crash":
        return crash_case(*j[1:])
    if kind == "fault":
        return fault_case(*j[1:])
    if kind == "torn":
        return torn_case(*j[1:])
    if kind == "lost":
        return lost_case(*j[1:])
    if kind == "double":
        sc, k1, fk1, fk2, local = j[1:]
        out = []
        for k2 in range(0, 16):
            r = double_case(sc, k1, k2, fk1, fk2, local)
            if r is None:
                break
            out.append(r)
        return out
    if kind == "nolockdir":
        return nolockdir_case(*j[1:])
    if kind == "corpus":
        return corpus_case(j[1])
    return random_case_job(j[1:])


_VARIANT = ["F"]


def probe_variant():
    """which `_attempt_lock` is this: does the contention handler recognise its own current nonce in held/ (a
    rename whose reply was lost) and go on to the confirming peek?  -> model variant T, else F"""
    r = Runner([[1, 1, False]], "-")
    try:
        for e in ["s0a", "t0", "t0", "l0T"]:
            r.ev(e)
        r.run_to_idle(0)
        fixed = r.w.workers[0].last == "ok" and r.w.lds[0].is_held
    finally:
        r.close()
    _VARIANT[0] = "T" if fixed else "F"
    return _VARIANT[0]


def model_line(case):
    cfgs = ",".join("%d.%d.%s" % (h, u, "T" if s else "F") for h, u, s in case["cfgs"])
    return "crash %s %d %s %s %s" % (_VARIANT[0], len(case["cfgs"]), cfgs, case.get("held", "-"),
                                     ",".join(case["events"]) or "-")


def run(ctx):
    c26.install()
    ctx.extra["attempt_lock_variant"] = ("own-nonce-recognised" if probe_variant() == "T" else "plain-contention")
    scs = _scenarios()
    jobs = []
    corpus = os.path.join(env.VERIF, "corpus", "C27")
    if os.path.isdir(corpus):
        import json
        for fn in sorted(os.listdir(corpus)):
            jobs.append(("corpus", json.load(open(os.path.join(corpus, fn)))))
    locals_ = [False, True] if ctx.thorough() else [False]
    for local in locals_:
        for sc in scs:
            for k in range(sc[5] + 1):
                jobs.append(("crash", sc, k, local))
                for fk in "TP":
                    jobs.append(("fault", sc, k, fk, local))
                    jobs.append(("lost", sc, k, fk, local))
            if sc[0] in DOUBLE:
                for k1 in range(sc[5] + 1):
                    for fk1 in "TP":
                        for fk2 in "TP":
                            jobs.append(("double", sc, k1, fk1, fk2, local))
        for held in ["b0", "b1", "b2", "b3", "o98.0", "o99.7"]:
            jobs.append(("torn", held, local))
        for op, n in (("a", 6), ("b", 1), ("u", 0)):
            for k in range(n + 1):
                jobs.append(("nolockdir", op, "crash", k, "", local))
                for fk in "TP":
                    jobs.append(("nolockdir", op, "fault", k, fk, local))
                    jobs.append(("nolockdir", op, "lost", k, fk, local))
    for _ in range(ctx.pick(800, 20000)):
        rc = c26.random_case(ctx.rng, faults=True)
        # some of the faults are lost replies
        rc["events"] = ["l" + e[1:] if e[0] == "f" and ctx.rng.random() < 0.3 else e for e in rc["events"]]
        jobs.append(("random", rc, ctx.thorough() and ctx.rng.random() < 0.1))
    cases, lines, outs = [], [], []
    results = []
    for res in ctx.pmap(_job, jobs):
        if res is None:
            ctx.count("skipped-duplicate")       # a lost reply on a call that is not a rename = the plain fault
        elif isinstance(res, list):
            results.extend(res)
        else:
            results.append(res)
    for case, obs, viol, inside in results:
        for what, fam in viol[:3]:
            ctx.violation(case, what, family=fam)
        ctx.case(case, nontrivial=bool(inside))
        ctx.count("kind:" + case["kind"].split(":")[0])
        if case["kind"].startswith(("crash", "fault")):
            ctx.count("scenario:" + case["kind"].split(":")[1])
        ctx.count("final:" + obs[-1].split(" ")[0].split(":")[0])
        for e in case["events"]:
            if e[0] in "fxl":
                ctx.count("ev:" + e[0])
        if case.get("nolockdir"):
            ctx.count("oracle-only")          # outside the model (it starts from an existing lock directory)
            continue
        cases.append(case)
        lines.append(model_line(case))
        outs.append("|".join(obs))
    ctx.diff(cases, lines, outs)
    ctx.exhaustive = True
    ctx.extra["enumerated"] = ("all crash prefixes, all single faults (kinds T,P) and all single lost replies of %d "
                               "victim scenarios; all pairs of faults of %d of them; the same from a missing lock "
                               "directory (oracle only)" % (len(scs), len(DOUBLE)))
    ctx.violations.sort(key=lambda v: v["family"] is not None)


def replay(ctx, case):
    c26.install()
    probe_variant()
    crashers = {int(e[1:]) for e in case["events"] if e[0] == "x"}
    r = Runner(case["cfgs"], case.get("held", "-"), local=case.get("local", False), crashers=crashers,
               nolockdir=case.get("nolockdir", False))
    try:
        for e in case["events"]:
            r.ev(e)
        # the recovery verdict (R2) is re-evaluated on the final state
        last = len(case["cfgs"]) - 1
        w = r.w
        if case.get("kind", "").split(":")[0] in ("crash", "fault", "torn", "random", "lost", "double", "nolockdir"):
            cur = w.held_content()
            if not (w.lds[last].is_held and cur == "o%d.%d" % (last, w.serial[last])):
                r.viol.append(("the recovering locker does not hold the lock at the end (held/info=%s)" % cur, None))
        obs, viol = r.obs, r.viol
    finally:
        r.close()
    for what, fam in viol:
        ctx.violation(case, what, family=fam)
    m = ctx.model([model_line(case)])[0].split("|")
    first = next((i for i in range(max(len(obs), len(m))) if i >= len(obs) or i >= len(m) or obs[i] != m[i]), None)
    return dict(case=case, impl=obs, model=m, first_difference=first, oracle_failures=[w_ for w_, _ in viol])
