"""C27 — lock operations leave recoverable state at every crash point
(breezy/lockdir.py: _create_pending_dir, _remove_pending_dir, unlock,
force_break, force_break_corrupt).

Model: the lock-directory model of C26 (lean/BreezyVerif/Model/C26.lean) plus
Model/C27.lean (classification of the on-disk state, recovery procedures).

T2 (same gated-transport engine as C26, see checks/c26.py): real LockDir objects
on a MemoryTransport (thorough: also a local directory) execute
  * every crash prefix of attempt (free / contended / stealing from a dead
    holder), unlock, break_lock and break_lock on corrupt info: the victim stops
    after k transport calls for every k and never moves again (no finally runs);
  * every single fault: call k of each of those operations raises a
    TransportError (kind T) or a PathError (kind P), the operation then runs to
    completion;
  * torn / empty / garbage `held/info` files (malformed stream);
  * random interleavings of 2-4 lockers with crashes and faults;
each followed by a *fresh* real LockDir that recovers (attempt; if contended
break_lock then attempt).  After every event the directory listing, the
classification of the lock seen by a fresh `peek()`, pending calls, is_held and
results are compared with the model.
Oracle (real objects only): (R1) after every event `held/` is absent or
`peek()` returns holder info; (R2) the fresh locker ends up holding the lock;
(R3) when attempt_lock raised, is_held is False and `held/info` does not carry
the nonce of the failed attempt.

Mutants this was built against (scratch worktree; result of the run in brackets):
  N1 `_create_pending_dir`/`_attempt_lock`: info written after the rename into place
     [oracle R1: "after t2 the lock on disk is HeldNoInfo" — crash between rename and put]
  N2 `unlock`: info deleted before `held` is renamed away [R1: HeldNoInfo at the crash point between]
  N3 `_attempt_lock`: `_lock_held = True` before the confirming peek [R3: "attempt_lock raised E:FaultT but
     is_held is True" — needs the fault at exactly that call]
  N4 `force_break`: info deleted before the rename, re-check dropped [R1: HeldNoInfo]
  N5 `force_break_corrupt`: renames the emptied directory back to `held` [R2: "a fresh locker cannot take the
     lock, neither directly nor after break_lock ... held/info=e"]
  N6 `_remove_pending_dir`: deletes `held/info` instead of the pending info [R1: HeldNoInfo after a contended attempt]
  N7 `_attempt_lock`: `_remove_pending_dir` dropped on contention [T2 only (listing differs): leftovers are not
     a violation of C27's statement]
  H2 harmless: temporaries renamed / built with str.format [clean: 0 mismatches, only the known family]
"""
import os

from vlib import env
from checks import c26

THEOREMS = [
    "crash_recoverable", "pending_complete", "fresh_acquires_free", "fresh_acquires_after_break",
    "recover_after_any_crash", "corrupt_info_break", "failed_attempt_not_held_partial",
    "orphan_only_by_fault_at_confirm", "failed_attempt_witness", "flag_set_only_by_successful_confirm",
    "failed_attempt_solo",
]
RUST = ("cmd-py",)
RULE = ("a case is (lockers, initial held/, event list incl. crash and fault events, recovery by a fresh locker); "
        "crash prefixes and single faults of six victim scenarios are enumerated completely; non-trivial = the "
        "victim stopped or failed strictly inside an operation (at least one transport call done, not all)")
ASSUMPTIONS = list(c26.ASSUMPTIONS) + [
    "a crash is 'the process performs no further transport call' (no finally/except runs); a single "
    "transport call is atomic (put_bytes_non_atomic of the small info file into a private directory is not torn "
    "in place: torn info files are covered as initial states, and are shown unreachable in held/)",
]
TRUSTED = list(c26.TRUSTED)
FAMILY_CONFIRM = "attempt-fault-at-confirming-peek-after-rename"

V, O, R = 0, 1, 2          # victim, other, recovering locker


def _scenarios():
    """(name, cfgs, held, setup events, victim op, max victim calls)"""
    plain = [1, 1, False]
    steal = [1, 1, True]
    acq_o = ["s1a", "t1", "t1", "t1", "t1"]
    acq_v = ["s0a", "t0", "t0", "t0", "t0"]
    return [
        ("attempt-free", [plain, plain, plain], "-", [], "a", 4),
        ("attempt-contended", [plain, plain, plain], "-", acq_o, "a", 6),
        ("attempt-steal", [steal, plain, plain], "-", acq_o + ["x1"], "a", 11),
        ("unlock", [plain, plain, plain], "-", acq_v, "u", 4),
        ("break-live", [plain, plain, plain], "-", acq_o, "b", 6),
        ("break-dead", [plain, plain, plain], "-", acq_o + ["x1"], "b", 6),
        ("break-corrupt", [plain, plain, plain], "b1", [], "b", 5),
        ("attempt-on-foreign", [plain, plain, plain], "o99.1", [], "a", 6),
    ]


class Runner:
    """drives one case on the real code, building the event list as it goes"""

    def __init__(self, cfgs, held, local=False, crashers=()):
        self.case = dict(cfgs=[list(c) for c in cfgs], held=held, events=[], local=local)
        self.w = c26.World([tuple(c) for c in cfgs], held=held, local=local, crashers=set(crashers))
        self.obs = [self.show()]
        self.viol = []
        self.initial_ok = held == "-" or (held.startswith("o"))

    def disk(self):
        """what a fresh LockDir sees"""
        w = self.w
        if not w.t.has(c26.LOCK + "/held"):
            return "Free"
        ld = w.lockdir.LockDir(w.t, c26.LOCK)
        try:
            info = ld.peek()
        except w.lockdir.errors.LockCorrupt:
            return "HeldCorrupt:%s" % w.held_content()[1:]
        if info is None:
            return "HeldNoInfo"
        return "HeldReadable:%s" % w.held_content()[1:]

    def show(self):
        return self.disk() + " " + self.w.show()

    def ev(self, e):
        w = self.w
        wk = w.workers[int(e[1:-1] if e[0] in "sf" else e[1:])]
        pending_before = wk.pending if wk.busy else None
        prev_call = getattr(wk, "c27_prev", None)
        was_busy = wk.busy
        if e[0] == "s" and not was_busy:
            wk.c27_held_before = w.lds[wk.lid].is_held
            wk.c27_serial_before = w.serial[wk.lid]
        w.event(e)
        self.case["events"].append(e)
        self.obs.append(self.show())
        lid = wk.lid
        if e[0] == "t" and was_busy:
            wk.c27_prev = pending_before
        if e[0] == "s" and not was_busy:
            wk.c27_prev = None
        # R1
        if self.initial_ok:
            d = self.obs[-1].split(" ")[0]
            if not (d == "Free" or d.startswith("HeldReadable")):
                self.viol.append(("after %s the lock on disk is %s: neither free nor held with readable info" % (e, d), None))
        # R3: a failed attempt
        if was_busy and not wk.busy and wk.op == "a" and wk.last != "ok":
            ld = w.lds[lid]
            cur = w.held_content()
            mine = "o%d.%d" % (lid, w.serial[lid])
            fam = None
            if e[0] == "f" and pending_before == "get:H" and prev_call == "rename:P>H":
                fam = FAMILY_CONFIRM
            if ld.is_held and not getattr(wk, "c27_held_before", False):
                self.viol.append(("attempt_lock of locker %d raised %s but is_held is True" % (lid, wk.last), None))
            if cur == mine and w.serial[lid] > getattr(wk, "c27_serial_before", 0):
                self.viol.append((
                    "attempt_lock of locker %d raised %s but held/info carries the nonce of this failed attempt "
                    "(%s): the lock stays held by the failing process" % (lid, wk.last, cur), fam))

    def run_to_idle(self, lid, limit=40):
        n = 0
        while self.w.workers[lid].busy and not self.w.crashed[lid] and n < limit:
            self.ev("t%d" % lid)
            n += 1

    def op(self, lid, op):
        self.ev("s%d%s" % (lid, op))
        self.run_to_idle(lid)
        return self.w.workers[lid].last

    def recover(self, lid):
        """a fresh process: attempt; if that fails, break_lock and attempt again"""
        w = self.w
        r = self.op(lid, "a")
        if r != "ok":
            self.op(lid, "b")
            r = self.op(lid, "a")
        cur = w.held_content()
        mine = "o%d.%d" % (lid, w.serial[lid])
        if not (r == "ok" and w.lds[lid].is_held and cur == mine):
            self.viol.append((
                "a fresh locker cannot take the lock, neither directly nor after break_lock: attempt=%s is_held=%s "
                "held/info=%s" % (r, w.lds[lid].is_held, cur), None))

    def close(self):
        self.w.close()


def crash_case(sc, k, local=False):
    name, cfgs, held, setup, op, _ = sc
    crashers = {int(e[1:]) for e in setup if e[0] == "x"} | {V}
    r = Runner(cfgs, held, local=local, crashers=crashers)
    try:
        for e in setup:
            r.ev(e)
        r.ev("s%d%s" % (V, op))
        for _ in range(k):
            if not r.w.workers[V].busy:
                break
            r.ev("t%d" % V)
        inside = r.w.workers[V].busy and k > 0
        r.ev("x%d" % V)
        r.recover(R)
        return dict(r.case, kind="crash:%s:%d" % (name, k)), r.obs, r.viol, inside
    finally:
        r.close()


def fault_case(sc, k, fk, local=False):
    name, cfgs, held, setup, op, _ = sc
    crashers = {int(e[1:]) for e in setup if e[0] == "x"}
    r = Runner(cfgs, held, local=local, crashers=crashers)
    try:
        for e in setup:
            r.ev(e)
        r.ev("s%d%s" % (V, op))
        for _ in range(k):
            if not r.w.workers[V].busy:
                break
            r.ev("t%d" % V)
        inside = r.w.workers[V].busy
        if inside:
            r.ev("f%d%s" % (V, fk))
        r.run_to_idle(V)
        r.recover(R)
        return dict(r.case, kind="fault:%s:%d%s" % (name, k, fk)), r.obs, r.viol, inside
    finally:
        r.close()


def torn_case(held, local=False):
    r = Runner([[1, 1, False]] * 3, held, local=local)
    try:
        r.recover(R)
        return dict(r.case, kind="torn:" + held), r.obs, r.viol, True
    finally:
        r.close()


def random_case_job(arg):
    seed_case, local = arg
    cfgs = seed_case["cfgs"] + [[1, 1, False]]
    fresh = len(cfgs) - 1
    crashers = {int(e[1:]) for e in seed_case["events"] if e[0] == "x"}
    r = Runner(cfgs, "-", local=local, crashers=crashers)
    try:
        for e in seed_case["events"]:
            r.ev(e)
        # everybody else stops where they are: the fresh process recovers
        r.recover(fresh)
        inside = any(w.busy for w in r.w.workers[:fresh])
        return dict(r.case, kind="random"), r.obs, r.viol, inside
    finally:
        r.close()


def corpus_case(case):
    crashers = {int(e[1:]) for e in case["events"] if e[0] == "x"}
    r = Runner(case["cfgs"], case.get("held", "-"), local=case.get("local", False), crashers=crashers)
    try:
        for e in case["events"]:
            r.ev(e)
        return dict(r.case, kind="corpus"), r.obs, r.viol, True
    finally:
        r.close()


def _job(j):
    c26.install()
    kind = j[0]
    if kind == "crash":
        return crash_case(*j[1:])
    if kind == "fault":
        return fault_case(*j[1:])
    if kind == "torn":
        return torn_case(*j[1:])
    if kind == "corpus":
        return corpus_case(j[1])
    return random_case_job(j[1:])


def model_line(case):
    cfgs = ",".join("%d.%d.%s" % (h, u, "T" if s else "F") for h, u, s in case["cfgs"])
    return "crash %d %s %s %s" % (len(case["cfgs"]), cfgs, case.get("held", "-"), ",".join(case["events"]) or "-")


def run(ctx):
    c26.install()
    scs = _scenarios()
    jobs = []
    corpus = os.path.join(env.VERIF, "corpus", "C27")
    if os.path.isdir(corpus):
        import json
        for fn in sorted(os.listdir(corpus)):
            jobs.append(("corpus", json.load(open(os.path.join(corpus, fn)))))
    locals_ = [False, True] if ctx.thorough() else [False]
    for local in locals_:
        for sc in scs:
            for k in range(sc[5] + 1):
                jobs.append(("crash", sc, k, local))
                for fk in "TP":
                    jobs.append(("fault", sc, k, fk, local))
        for held in ["b0", "b1", "b2", "b3", "o98.0", "o99.7"]:
            jobs.append(("torn", held, local))
    for _ in range(ctx.pick(1500, 20000)):
        jobs.append(("random", c26.random_case(ctx.rng, faults=True),
                     ctx.thorough() and ctx.rng.random() < 0.1))
    cases, lines, outs = [], [], []
    for case, obs, viol, inside in ctx.pmap(_job, jobs):
        for what, fam in viol[:3]:
            ctx.violation(case, what, family=fam)
        ctx.case(case, nontrivial=bool(inside))
        ctx.count("kind:" + case["kind"].split(":")[0])
        if case["kind"].startswith(("crash", "fault")):
            ctx.count("scenario:" + case["kind"].split(":")[1])
        ctx.count("final:" + obs[-1].split(" ")[0].split(":")[0])
        for e in case["events"]:
            if e[0] in "fx":
                ctx.count("ev:" + e[0])
        cases.append(case)
        lines.append(model_line(case))
        outs.append("|".join(obs))
    ctx.diff(cases, lines, outs)
    ctx.exhaustive = True
    ctx.extra["enumerated"] = "all crash prefixes and all single faults (kinds T,P) of %d victim scenarios" % len(scs)
    ctx.violations.sort(key=lambda v: v["family"] is not None)


def replay(ctx, case):
    c26.install()
    crashers = {int(e[1:]) for e in case["events"] if e[0] == "x"}
    r = Runner(case["cfgs"], case.get("held", "-"), local=case.get("local", False), crashers=crashers)
    try:
        for e in case["events"]:
            r.ev(e)
        # the recovery verdict (R2) is re-evaluated on the final state
        last = len(case["cfgs"]) - 1
        w = r.w
        if case.get("kind", "").split(":")[0] in ("crash", "fault", "torn", "random"):
            cur = w.held_content()
            if not (w.lds[last].is_held and cur == "o%d.%d" % (last, w.serial[last])):
                r.viol.append(("the recovering locker does not hold the lock at the end (held/info=%s)" % cur, None))
        obs, viol = r.obs, r.viol
    finally:
        r.close()
    for what, fam in viol:
        ctx.violation(case, what, family=fam)
    m = ctx.model([model_line(case)])[0].split("|")
    first = next((i for i in range(max(len(obs), len(m))) if i >= len(obs) or i >= len(m) or obs[i] != m[i]), None)
    return dict(case=case, impl=obs, model=m, first_difference=first, oracle_failures=[w_ for w_, _ in viol])
