"""C35 — git object export is consistent and round-trips.

Mechanism: breezy/git/object_store.py (_tree_to_objects, directory_to_tree,
BazaarObjectStore._revision_to_objects / _update_sha_map_revision and the SHA
map it fills), breezy/git/fetch.py (import_git_objects / import_git_commit /
import_git_tree / import_git_blob), breezy/git/interrepo.py
(InterToLocalGitRepository.fetch_revs = push/dpush of native revisions,
InterLocalGitNonGitRepository.fetch = fetch into a native repository),
breezy/git/mapping.py (object_mode, mode_kind, mode_is_executable).

Model (lean/BreezyVerif/Model/C35.lean): the from-scratch export `expRoot`
(git's real object ids: SHA-1 and the tree serialisation are implemented in
the model, so model and code are compared on the actual 40-hex ids), the
incremental export `incrRoot` (cache re-use, other-parent re-use, pointless
commit), whole histories `runHist` (the SHA map filled revision by revision,
with evictions), the import `impRoot` from an object store, the native form
`nativeOfL` of a fetched tree, well-formed git trees `gitTreeOK`, the canonical
form `canonRoot` of a round trip, the items a round trip must preserve
(`itemsNC`, independent of the export) and the mode functions.
Model/C35Y.lean: the file-id based model of WHICH objects
`_tree_to_objects(tree, parents, idmap)` yields (iter_changes by file id,
dirty directories with `find_target_path` and the upward closure, re-use of
texts found in other parents) — `yielded`.

Theorems (Props/C35.lean, all for every tree / history / store and every
object-id function H): incr_eq_scratch, run_history_roots (induction over the
history: every recorded root id is the from-scratch id and the SHA map stays
correct, under the repository invariant that (file_id, revision) names one
text — witness run_history_keys_witness), export_import_tree,
import_export_git (ANY well-formed git tree is re-exported under its own id;
needs no injectivity of H; witness for unsorted trees), canon_items /
roundtrip_items (the round trip returns exactly the files, symlinks, contents,
executable bits and non-empty directories of the original, `.git` entries
excepted; witness for recorded unusual modes), yielded_tree_correct /
yielded_root_eq_scratch (every tree object the file-id model yields for a dirty
directory is the from-scratch tree object of that directory, the yielded root
is the from-scratch root; the completeness of the yielded set is NOT proved —
it is evaluated per case by `yield` and by the push oracle), reexport_canon,
sorting and mode theorems.

T2 per generated native history (working-tree scripts over a namespace chosen
for git's entry order — `ab` as directory next to `ab-c`, `ab.c`, `ab0` —,
single-character and non-ASCII names, files, symlinks, empty and nested
directories, exec flips, kind changes, renames of files and directories,
removals, copies of a text under a second file id, forks and merges):
  * every revision: `_tree_to_objects(tree, [], empty map)` (path -> id of every
    object) against `exp`;
  * every revision in topological order through `_update_sha_map_revision`
    with (a) the default on-disk index map and (b) a dict map from which
    random blob entries are evicted between revisions: the recorded root tree
    id against `incr` run on the map's content at that moment, the first
    parent's recorded root tree id and the parent trees;
  * push of all heads into a git repository in two stages
    (`InterRepository.get(native, git).fetch_revs(..., lossy=True)`), fetch
    back into a fresh native repository in two stages; the dump of each
    fetched-back tree against `rt` (= import(export) and the canonical form)
    and against `imp` run on the objects actually found in the git repository.
T2 per generated git history (dulwich objects: default and unusual modes,
symlinks, nested trees, merges): fetch into a native repository; the dump of
each imported tree against `imp`; `exp` of the imported tree (with the
unusual modes the revision records) against the original tree id.
  * (added in the improvement round) every revision: the objects the real
    `_tree_to_objects(tree, parent trees, idmap)` yields — with an empty SHA map
    and with one that knows every text of the parents — against `yield`
    (path=id of every yielded blob and tree), and the model's own check that
    these objects plus the parents' objects cover the revision's tree;
  * the whole history through `hist` (the model keeps its own SHA map, the keys
    the real map lost are evicted in the model too): every recorded root id;
  * which branch of the incremental conversion each leaf took (`incrstat`:
    new / other-parent re-use hit / miss / unchanged hit / miss / pointless) is
    counted in the evidence (`incr:*`);
  * `items`: the model's specification of what must survive against the
    oracle's dump of the original, and the items of the canonical form against
    the tree that really came back;
  * git histories also: `reexp` (expRootP and expRoot . nativeOfL of the import,
    and gitTreeOK) against the real re-export, `impn` (kind, executable flag
    and recorded unusual mode of every imported entry).
Names include `.git` below directories (BANNED_FILENAMES; corpus case
banned-names.json runs first), paths go five levels deep (corpus
deep-change.json), merges include "merge -s ours" (corpus merge-ours.json).
T2 modes: `mode_kind`, `mode_is_executable`, stat dispatch, unusual-mode rule
and `object_mode` against the model for a sweep of modes.

Oracle (independent of the model): warm root id == evicted-map root id ==
from-scratch root id for every revision; the tree id of the pushed commit is
that id and every object reachable from it exists in the target repository;
the fetched-back tree has the same paths, kinds, contents, executable bits and
symlink targets as the original (directories without files excepted);
for git histories the re-exported root id (from scratch, and through a fresh
SHA map) equals the original tree id and a second from-scratch run with the
parents gives the same id.

Mutants this was built against (scratch worktrees; all caught on seeds 0 and 1
with a concrete history):
  M1 _tree_to_objects: dirty_dirs only gets the new path's directory
     (`for p in change.path[1:]`; a removal-only commit keeps its parent's
     root tree) — oracle: warm id != from-scratch id;
  M2 ie_to_hexsha: the blob rebuilt after a SHA-map miss takes only the first
     line of the text — caught only by the evicted dict map (warm index map
     and from-scratch agree);
  M3 directory_to_tree: the empty-directory rule disabled — T2 (ids differ
     from the model's) and oracle (the empty tree object is never sent:
     reachable object missing in the target);
  M4 find_unchanged_parent_ie: other-parent re-use without comparing the sha1
     (needs a merge whose text differs from both parents) — oracle;
  M5 import_git_blob: executable taken from the base mode — oracle (round trip)
     and T2 (`rt`/`imp` dumps);
  M6 import_git_tree: remove_disappeared_children skipped — oracle + T2;
  M7 object_mode: 0o755 and 0o644 swapped — mode sweep, T2, oracle;
  M9 InterToLocalGitRepository.missing_revisions: parents not walked —
     oracle (revision not pushed);
  M10 _tree_to_objects: symlink blob yielded iff *not* changed_content —
     oracle (reachable object missing in the target repository);
  R1 fix 29406e9 reverted (fetch.import_git_blob calls find_source_paths with a
     str): fetching back a changed file named `a` / `a/a` raises TypeError —
     plain VIOLATION (corpus/C35/single-char-path.json runs first);
  R2 fix 9095241 reverted (_tree_to_objects does not mark the new location of
     a renamed directory dirty when a child left it in the same revision): the
     renamed directory's tree object is never sent — plain VIOLATION
     (corpus/C35/moved-dir-lost-child.json);
  harmless: `sorted(dirty_dirs, reverse=True)` replaced by a sort on
  (-depth, path): stays clean.
Improvement round (all on seed 0, /var/tmp/imp-C35C36/dev/{n,m,r}*.py):
  N1 directory_to_tree skips `.git` only at the root — oracle (warm != scratch,
     dangling object) + T2;
  N2 the `change.name[1] in BANNED_FILENAMES` skip removed (an unreferenced
     blob is sent) — T2 `exp`/`yield` only (root ids are unaffected);
  N6 pointless commit takes the LAST parent's root tree — oracle, through the
     new `merge-ours` family (was invisible before);
  M11 a text re-used from another parent is sent again — T2 `yield` only;
  M12 upward closure of the dirty directories cut after one level — oracle
     (dangling tree) through the deep-change family (was invisible before);
  R2 (revert of 9095241) now also breaks T2 `yield`, not only the oracle;
  M1 became an EQUIVALENT mutant after fix 9095241 (the old directory's new
     location is marked dirty by find_target_path): stays clean.
Environment problems (ENOSPC, EMFILE, MemoryError ...) in a worker are
infrastructure failures (exit 2), not violations.

Findings of the improvement round, FIXED in /repo by 4eb826d (plain VIOLATIONs
if they return; corpus cases banned-symlink-renamed.json and
renamed-to-banned.json run first; reverting the commit gives them back).  Both come from the `.git` names added to
the generator; both families are computed from the concrete history:
  symlink-renamed-from-banned-name   a symlink called `.git` (never exported) is renamed to a legal name without a
      change of target: _tree_to_objects only sends a symlink's blob when its content changed, so the blob is never
      sent and the pushed tree refers to a missing object (the missing id is the blob of such a symlink).
      Lean: yield_incomplete_witness.
  entry-renamed-to-banned-name       an entry is renamed TO `.git`: the change is skipped as a whole, including the
      bookkeeping for the directory it left.  Alone in a revision: nothing is yielded, the revision re-uses its
      parent's root tree (incremental id != from-scratch id, the file is back after push + fetch); with other
      changes: the directory's new tree is never sent (dangling id).  Lean: recorded_root_banned_rename_witness.
The file-id model has both repairs as variants (`Variant`: fixBanned, fixRen); `banned_name_probe` asks the code
under test which it has and the ties (`yield`, `incrf`, `histf`) use that variant — so T2 stays exact on the code as
found (0 mismatches, the defects are reproduced by the model) and on a repaired tree (where the path based model of
the theorems must agree everywhere).  Repros and tested patches (breezy.git.tests: 486 OK with and without; C35
clean in both tiers with fix-C35-banned-names-both.diff): /var/tmp/imp-C35C36/c35/.
"""
import hashlib
import os
import shutil
import stat

from vlib import env

THEOREMS = [
    "incr_eq_scratch", "incrNode_eq_expNode", "sameGit_export_eq",
    "export_import_tree", "import_fuel_mono_partial", "reexport_canon",
    "mode_roundtrip", "mode_roundtrip_git", "mode_kind_agrees_with_import",
    "sortBy_sorted", "sortBy_id_of_sorted", "objsRoot_wf",
    "run_history_roots", "run_history_from", "run_history_keys_witness",
    "import_export_git", "import_export_git_unsorted_witness",
    "canon_items", "roundtrip_items", "canon_items_unusual_witness",
    "yielded_tree_correct", "yielded_root_eq_scratch", "yield_incomplete_witness",
    "recorded_root_banned_rename_witness",
]
RULE = ("native case = one revision of a generated history (script of working-tree operations on up to 3 lanes "
        "with forks and merges), identified by the digest of its tree and parents; non-trivial = the revision has a "
        "parent and its tree has at least one directory with a represented child; git case = one commit of a generated "
        "dulwich history; mode cases = swept modes (only the structured ones count as distinct non-trivial cases, the "
        "random ones are explored but not counted); distinct by tree digest + parent digests")
ASSUMPTIONS = [
    "sibling names in a versioned tree are unique (inventory invariant; the model's tree objects keep duplicates, dulwich's Tree is a dict)",
    "(file_id, revision) identifies one text (repository invariant; this is what makes any SHA map filled from ancestors 'correct' in the sense of cacheOK)",
    "iter_changes reports every path whose leaf differs from the base (C10); the model decides 'nothing changed' by structural comparison",
    "git repositories are built from the same value space as native histories (no empty trees, no submodules, no '.git' entries, default file modes)",
    "entries named '.git' (BANNED_FILENAMES) cannot exist in a git tree: the export drops them and the round-trip oracle excepts them (and everything below a directory of that name), as the model's itemsNC does",
    "no ghost parents: a parent that is not present is skipped by the model; the pointless-commit branch of _revision_to_objects with a ghost leftmost parent is not modelled",
]
TRUSTED = [
    "sha-1, zlib and pack files are dulwich's; the model's SHA-1 and tree serialisation are tied by T2 on real ids, not proved",
    "InterTree.iter_changes / find_source_path, inventories and texts (bzrformats) are exercised, not modelled",
    "commit objects (C34) are not part of this property; only tree and blob ids are compared",
]

NAMES = ["ab", "ab-c", "ab.c", "ab0", "a", "b", "ff", "gg", "dd", "eé", "zz", "Ab"]
BANNED = ".git"          # BANNED_FILENAMES: only ever generated below a directory (never at the tree root)
CONTENTS = [b"", b"x\n", b"hello\n", b"hello2\n", b"\x00\xff bin", b"a\r\nb", b"tgt", b"same\n"]
TARGETS = ["tgt", "ab", "../x", "eé", "a b"]


# --------------------------------------------------------------------------
# script generation (pure: only the rng)

# --------------------------------------------------------------------------
# interpretation on real working trees

class Lane:
    def __init__(self, wt):
        self.wt = wt
        self.commits = []


def _mirror(wt):
    out = {}
    with wt.lock_read():
        for p, ie in wt.iter_entries_by_dir():
            if p:
                out[p] = {"file": "f", "directory": "d", "symlink": "l"}.get(ie.kind, "?")
    return out


def _rm(path):
    if os.path.islink(path) or not os.path.isdir(path):
        os.unlink(path)
    else:
        shutil.rmtree(path)


def apply_step(lanes, s, root):
    lane, op = s[0], s[1]
    if op == "fork":
        main = lanes[0]
        revid = main.commits[s[2]]
        d = os.path.join(root, "lane%d" % lane)
        wt = main.wt.controldir.sprout(d, revision_id=revid).open_workingtree()
        lanes[lane] = Lane(wt)
        return
    L = lanes[lane]
    wt = L.wt
    ab = wt.abspath
    if op == "write":
        with open(ab(s[2]), "wb") as f:
            f.write(bytes.fromhex(s[3]))
        os.chmod(ab(s[2]), 0o755 if s[4] else 0o644)
        wt.add([s[2]])
    elif op == "mkdir":
        os.mkdir(ab(s[2]))
        wt.add([s[2]])
    elif op == "symlink":
        os.symlink(s[3], ab(s[2]))
        wt.add([s[2]])
    elif op == "modify":
        with open(ab(s[2]), "wb") as f:
            f.write(bytes.fromhex(s[3]))
    elif op == "chmod":
        os.chmod(ab(s[2]), 0o755 if s[3] else 0o644)
    elif op == "retarget":
        os.unlink(ab(s[2]))
        os.symlink(s[3], ab(s[2]))
    elif op == "rename":
        wt.rename_one(s[2], s[3])
    elif op == "remove":
        wt.remove([s[2]], keep_files=False, force=True)
        if os.path.lexists(ab(s[2])):
            _rm(ab(s[2]))
    elif op == "tolink":
        os.unlink(ab(s[2]))
        os.symlink(s[3], ab(s[2]))
    elif op == "tofile":
        os.unlink(ab(s[2]))
        with open(ab(s[2]), "wb") as f:
            f.write(bytes.fromhex(s[3]))
    elif op == "copy":
        with open(ab(s[2]), "rb") as f:
            data = f.read()
        with open(ab(s[3]), "wb") as f:
            f.write(data)
        wt.add([s[3]])
    elif op == "merge":
        other = lanes[s[2]]
        from breezy.workingtree import PointlessMerge
        try:
            wt.merge_from_branch(other.wt.branch, force=True)
        except PointlessMerge:
            pass
        from breezy.conflicts import ConflictList
        try:
            wt.set_conflicts(ConflictList())
        except Exception:
            wt.set_conflicts([])
        for p in list(wt.unknowns()):
            if os.path.lexists(ab(p)):
                _rm(ab(p))
    elif op == "merge-ours":
        # a merge that takes nothing from the other side ("-s ours"): the tree stays the first parent's
        other = lanes[s[2]]
        from breezy.workingtree import PointlessMerge
        try:
            wt.merge_from_branch(other.wt.branch, force=True)
        except PointlessMerge:
            pass
        with wt.lock_tree_write():
            paths = set(p for p, _ie in wt.iter_entries_by_dir() if p)
            paths.update(p for p, _ie in wt.basis_tree().iter_entries_by_dir() if p)
            if paths:
                wt.revert(sorted(paths), backups=False)
        from breezy.conflicts import ConflictList
        try:
            wt.set_conflicts(ConflictList())
        except Exception:
            wt.set_conflicts([])
        for p in list(wt.unknowns()):
            if os.path.lexists(ab(p)):
                _rm(ab(p))
    elif op == "commit":
        n = len([1 for l in lanes.values() for _ in l.commits])
        revid = wt.commit("m %s" % s[2], rev_id=s[2].encode(), timestamp=1500000000 + 60 * n, timezone=0,
                          committer="C <c@example.com>", allow_pointless=True)
        L.commits.append(revid)
    elif op == "sync":
        pass
    else:
        raise ValueError(op)


def build_history(seed_tuple, nsteps):
    """generate and interpret a script; returns (script, lanes, root).  The
    script is concrete: re-interpreting it reproduces the same history."""
    import random
    rng = random.Random(repr(seed_tuple))
    root = env.fresh_dir("h")
    wt = env.make_tree("2a", os.path.join(root, "lane0"))
    lanes = {0: Lane(wt)}
    state = {0: {}}
    script = []
    ncommit = [0]

    def do(s):
        apply_step(lanes, s, root)
        script.append(s)

    def commit(lane):
        ncommit[0] += 1
        do([lane, "commit", "r%d-l%d" % (ncommit[0], lane)])

    sub = _StepGen(rng)
    merged = set()
    for _ in range(nsteps):
        lane = rng.choice(sorted(lanes))
        r = rng.random()
        if r < 0.10 and len(lanes) < 3 and lanes[0].commits:
            new = max(lanes) + 1
            do([new, "fork", rng.randrange(len(lanes[0].commits))])
            state[new] = _mirror(lanes[new].wt)
            fs = sorted(p for p, k in state[new].items() if k == "f")
            if fs and rng.random() < 0.6:
                do([new, "modify", rng.choice(fs), (rng.choice(CONTENTS) + b"F").hex()])
            for _k in range(rng.randrange(1, 4)):
                s = sub.step(new, state[new])
                if s:
                    do(s)
            commit(new)
            continue
        mergeable = [l for l in sorted(lanes) if l != 0 and lanes[l].commits and lanes[l].commits[-1] not in merged]
        if r < 0.24 and mergeable:
            src = rng.choice(mergeable)
            merged.add(lanes[src].commits[-1])
            if rng.random() < 0.2:
                do([0, "merge-ours", src])
                state[0] = _mirror(lanes[0].wt)
                commit(0)
                continue
            do([0, "merge", src])
            state[0] = _mirror(lanes[0].wt)
            if rng.random() < 0.5:
                # edit on top of the merge result: the text then differs from both parents
                fs = sorted(p for p, k in state[0].items() if k == "f")
                if fs:
                    do([0, "modify", rng.choice(fs), (rng.choice(CONTENTS) + b"M").hex()])
            commit(0)
            continue
        if r < 0.32:
            commit(lane)
            continue
        s = sub.step(lane, state[lane])
        if s:
            do(s)
    for lane in sorted(lanes):
        commit(lane)
    return script, lanes, root


def replay_history(script):
    root = env.fresh_dir("h")
    wt = env.make_tree("2a", os.path.join(root, "lane0"))
    lanes = {0: Lane(wt)}
    for s in script:
        apply_step(lanes, s, root)
    return lanes, root


class _StepGen:
    def __init__(self, rng):
        self.rng = rng

    def step(self, lane, st):
        rng = self.rng

        def dirs():
            return [""] + sorted(p for p, k in st.items() if k == "d")

        def newpath(excl=None):
            ds = dirs()
            # half of the time the deepest directory there is: changes far below the root exercise the
            # upward closure of the dirty directories
            d = max(ds, key=lambda q: (q.count("/") + (1 if q else 0), q)) if rng.random() < 0.5 else rng.choice(ds)
            if excl and (d == excl or d.startswith(excl + "/")):
                return None
            n = rng.choice(NAMES)
            if d and rng.random() < 0.07:
                n = BANNED
            p = n if not d else d + "/" + n
            return None if p in st or p.count("/") > 3 else p

        def under(p):
            return [q for q in sorted(st) if q == p or q.startswith(p + "/")]

        def target(p):
            # not the link's own name: a self-referential link makes WorkingTree.remove fail with ELOOP
            return rng.choice([t for t in TARGETS if t != p.rpartition("/")[2]])

        files = sorted(p for p, k in st.items() if k == "f")
        links = sorted(p for p, k in st.items() if k == "l")
        r = rng.random()
        if r < 0.24 or not st:
            p = newpath()
            if p:
                st[p] = "f"
                return [lane, "write", p, rng.choice(CONTENTS).hex(), rng.random() < 0.3]
        elif r < 0.33:
            p = newpath()
            if p:
                st[p] = "d"
                return [lane, "mkdir", p]
        elif r < 0.40:
            p = newpath()
            if p:
                st[p] = "l"
                return [lane, "symlink", p, target(p)]
        elif r < 0.53 and files:
            return [lane, "modify", rng.choice(files), (rng.choice(CONTENTS) + bytes([rng.randrange(97, 123)])).hex()]
        elif r < 0.61 and files:
            return [lane, "chmod", rng.choice(files), rng.random() < 0.5]
        elif r < 0.65 and links:
            p = rng.choice(links)
            return [lane, "retarget", p, target(p)]
        elif r < 0.78 and st:
            src = rng.choice(sorted(st))
            dst = newpath(excl=src)
            if dst and dst not in st:
                for q in under(src):
                    st[dst + q[len(src):]] = st.pop(q)
                return [lane, "rename", src, dst]
        elif r < 0.88 and st:
            p = rng.choice(sorted(st))
            for q in under(p):
                del st[q]
            return [lane, "remove", p]
        elif r < 0.93 and (files or links):
            p = rng.choice(files + links)
            if st[p] == "f":
                st[p] = "l"
                return [lane, "tolink", p, target(p)]
            st[p] = "f"
            return [lane, "tofile", p, rng.choice(CONTENTS).hex()]
        elif files:
            p = newpath()
            if p:
                st[p] = "f"
                return [lane, "copy", rng.choice(files), p]
        return None


# --------------------------------------------------------------------------
# dumps and encodings

def hx(b):
    return b.hex() or "-"


def enc_name(s):
    return s.encode("utf-8", "surrogateescape")


def tree_nodes(tree, unusual=None):
    """nested dict name(bytes) -> node; node = ('F', fid, rev, content, exec, um) |
    ('L', fid, rev, target, um) | ('D', children)"""
    unusual = unusual or {}
    root = {}
    index = {"": root}
    with tree.lock_read():
        for path, ie in tree.iter_entries_by_dir():
            if path == "":
                continue
            parent, _, name = path.rpartition("/")
            um = unusual.get(path)
            if ie.kind == "directory":
                ch = {}
                index[path] = ch
                node = ("D", ch, ie.file_id)
            elif ie.kind == "file":
                node = ("F", ie.file_id, ie.revision, tree.get_file_text(path), bool(ie.executable), um)
            elif ie.kind == "symlink":
                node = ("L", ie.file_id, ie.revision, enc_name(tree.get_symlink_target(path)), um)
            else:
                raise AssertionError(ie.kind)
            index[parent][enc_name(name)] = node
    return root


def enc_children(ch):
    toks = [str(len(ch))]
    for name in sorted(ch):
        toks.append(hx(name))
        toks.extend(enc_node(ch[name]))
    return toks


def enc_node(n):
    if n[0] == "F":
        return ["F", hx(n[1]), hx(n[2]), hx(n[3]), "T" if n[4] else "F", "~" if n[5] is None else str(n[5])]
    if n[0] == "L":
        return ["L", hx(n[1]), hx(n[2]), hx(n[3]), "~" if n[4] is None else str(n[4])]
    return ["D"] + enc_children(n[1])


def enc_tree(ch):
    return ",".join(enc_children(ch))


def enc_fchildren(ch):
    toks = [str(len(ch))]
    for name in sorted(ch):
        n = ch[name]
        toks.append(hx(name))
        if n[0] == "F":
            toks += ["F", hx(n[1]), hx(n[2]), hx(n[3]), "T" if n[4] else "F"]
        elif n[0] == "L":
            toks += ["L", hx(n[1]), hx(n[2]), hx(n[3])]
        else:
            toks += ["D", hx(n[2])] + enc_fchildren(n[1])
    return toks


def enc_ftree(root_fid, ch):
    """the file-id form of a tree (directories carry their file ids) for the driver's `yield`"""
    return ",".join([hx(root_fid)] + enc_fchildren(ch))


def leaves_payload(ch, out=None):
    out = {} if out is None else out
    for n in ch.values():
        if n[0] == "D":
            leaves_payload(n[1], out)
        else:
            out[(n[1], n[2])] = n[3]
    return out


def real_yield(tree, parent_trees, idmap):
    from breezy.git.object_store import _tree_to_objects
    from breezy.git.mapping import default_mapping
    out = []
    with tree.lock_read():
        for path, obj, _key in _tree_to_objects(tree, parent_trees, idmap, {}, default_mapping.BZR_DUMMY_FILE):
            out.append("%s=%s" % (enc_path(path), obj.id.decode()))
    return ";".join(sorted(out)) or "-"


def enc_path(p):
    return "." if p == "" else "/".join(hx(enc_name(c)) for c in p.split("/"))


def enc_bpath(p):
    return "." if p == b"" else "/".join(hx(c) for c in p.split(b"/"))


def leaves_keys(ch, out=None):
    out = [] if out is None else out
    for n in ch.values():
        if n[0] == "D":
            leaves_keys(n[1], out)
        else:
            out.append((n[1], n[2]))
    return out


def _has_banned(ch):
    return any(name == b".git" or (n[0] == "D" and _has_banned(n[1])) for name, n in ch.items())


def has_content(n):
    return n[0] != "D" or any(has_content(c) for name, c in n[1].items() if name != b".git")


def plain_dump(ch, pre=""):
    """model-independent dump for the oracle: {path: (kind, payload, exec)} with
    directories that have no represented descendant dropped"""
    out = {}
    for name, n in ch.items():
        if name == b".git":
            continue
        p = pre + name.decode("utf-8", "surrogateescape")
        if n[0] == "F":
            out[p] = ("f", n[3], n[4])
        elif n[0] == "L":
            out[p] = ("l", n[3], False)
        elif has_content(n):
            out[p] = ("d", b"", False)
            out.update(plain_dump(n[1], p + "/"))
    return out


def model_dump_of(ch, pre=b""):
    """the `dump` format of the driver for a real (fetched) tree; modes from
    object_mode unless an unusual mode is recorded"""
    from breezy.git.mapping import object_mode
    out = []
    for name, n in ch.items():
        p = name if not pre else pre + b"/" + name
        if n[0] == "F":
            m = n[5] if n[5] is not None else object_mode("file", n[4])
            out.append("%s|f|%s|%d" % (enc_bpath(p), hx(n[3]), m))
        elif n[0] == "L":
            m = n[4] if n[4] is not None else object_mode("symlink", False)
            out.append("%s|l|%s|%d" % (enc_bpath(p), hx(n[3]), m))
        else:
            out.append("%s|d" % enc_bpath(p))
            out.extend(model_dump_of(n[1], p))
    return out


def items_str(d):
    """the driver's `items` format for an oracle dump {path: (kind, payload, exec)}"""
    return ";".join(sorted("%s|%s|%s|%s" % (enc_path(p), k, hx(data), "T" if x else "F")
                           for p, (k, data, x) in d.items())) or "-"


def native_dump_of(ch, pre=b""):
    """the driver's `impn` format for a real fetched tree: kinds, contents, executable flags and recorded
    unusual modes as they are in the inventory / revision properties"""
    out = []
    for name, n in ch.items():
        p = name if not pre else pre + b"/" + name
        if n[0] == "F":
            out.append("%s|f|%s|%s|%s" % (enc_bpath(p), hx(n[3]), "T" if n[4] else "F", "~" if n[5] is None else n[5]))
        elif n[0] == "L":
            out.append("%s|l|%s|%s" % (enc_bpath(p), hx(n[3]), "~" if n[4] is None else n[4]))
        else:
            out.append("%s|d" % enc_bpath(p))
            out.extend(native_dump_of(n[1], p))
    return out


def show_dump(lines):
    return ";".join(sorted(lines)) or "-"


def digest(s):
    return hashlib.sha1(s.encode()).hexdigest()[:12]


# --------------------------------------------------------------------------
# real exports

def scratch_export(tree, unusual=None):
    from breezy.git.cache import DictGitShaMap
    from breezy.git.object_store import _tree_to_objects
    from breezy.git.mapping import default_mapping
    out = {}
    with tree.lock_read():
        for path, obj, _key in _tree_to_objects(tree, [], DictGitShaMap(), unusual or {}, default_mapping.BZR_DUMMY_FILE):
            out[path] = obj.id
    return out


def topo(repo, revids):
    g = repo.get_graph()
    return [r for r in g.iter_topo_order(revids)]


def commit_tree_sha(idmap, commit_sha):
    for kind, data in idmap.lookup_git_sha(commit_sha):
        if kind == "commit":
            t = data[1]
            return t if isinstance(t, bytes) else t.encode()
    raise KeyError(commit_sha)


def _as_bytes(x):
    return x if isinstance(x, bytes) else x.encode("ascii")


def warm_export(repo, order, trees, nodes, evict_rng=None, rootfid=None, variant="00"):
    """drive BazaarObjectStore revision by revision.  Returns
    {revid: (root_sha, model_line, evicted keys)}"""
    from breezy.git.cache import DictBzrGitCache
    from breezy.git.object_store import BazaarObjectStore
    store = BazaarObjectStore(repo)
    if evict_rng is not None:
        store._cache = DictBzrGitCache()
        store.start_write_group = store._cache.idmap.start_write_group
        store.abort_write_group = store._cache.idmap.abort_write_group
        store.commit_write_group = store._cache.idmap.commit_write_group
    idmap = store._cache.idmap
    res = {}
    with store.lock_read():
        for revid in order:
            rev = repo.get_revision(revid)
            present = [p for p in rev.parent_ids if p in trees]
            evicted = []
            if evict_rng is not None:
                for r2 in sorted(idmap._by_fileid):
                    for fid in sorted(idmap._by_fileid[r2]):
                        if evict_rng.random() < 0.25:
                            del idmap._by_fileid[r2][fid]
                            evicted.append((fid, r2))
            # the cache content for every key the conversion may ask for
            keys = set(leaves_keys(nodes[revid]))
            for p in present:
                keys.update(leaves_keys(nodes[p]))
            centries = []
            store.start_write_group()
            try:
                for (fid, r2) in sorted(keys):
                    try:
                        centries.append("%s:%s:%s" % (hx(fid), hx(r2), _as_bytes(idmap.lookup_blob_id(fid, r2)).decode()))
                    except KeyError:
                        pass
                if present:
                    base = present[0]
                    bsha = commit_tree_sha(idmap, store._lookup_revision_sha1(base)).decode()
                    btree = enc_tree(nodes[base])
                else:
                    bsha = btree = "~"
                others = "|".join(enc_tree(nodes[p]) for p in present[1:]) or "-"
                csha = store._update_sha_map_revision(revid)
            except BaseException:
                store.abort_write_group()
                raise
            else:
                store.commit_write_group()
            root = commit_tree_sha(idmap, csha).decode()
            line = "incr %s %s %s %s %s" % (";".join(centries) or "-", btree, bsha, others, enc_tree(nodes[revid]))
            fline = "incrf %s %s %s %s %s %s" % (
                variant, ";".join(centries) or "-",
                enc_ftree(rootfid[present[0]], nodes[present[0]]) if present else "~", bsha,
                "|".join(enc_ftree(rootfid[p], nodes[p]) for p in present[1:]) or "-",
                enc_ftree(rootfid[revid], nodes[revid]))
            res[revid] = (root, line, evicted, fline)
    return res


def git_closure(ostore, tree_sha, out):
    """collect the objects reachable from a tree id; raises KeyError when one is missing"""
    from dulwich.objects import Tree
    if tree_sha in out:
        return
    o = ostore[tree_sha]
    out[tree_sha] = o
    if isinstance(o, Tree):
        for e in o.iteritems():
            if stat.S_ISDIR(e.mode):
                git_closure(ostore, e.sha, out)
            elif (e.mode & 0o170000) == 0o160000:
                continue
            else:
                if e.sha not in out:
                    out[e.sha] = ostore[e.sha]


def enc_store(objs):
    from dulwich.objects import Tree
    parts = []
    for sha in sorted(objs):
        o = objs[sha]
        if isinstance(o, Tree):
            body = "T:" + "+".join("%d/%s/%s" % (e.mode, hx(e.path), e.sha.decode()) for e in o.iteritems())
        else:
            body = "B:" + hx(o.data)
        parts.append("%s=%s" % (sha.decode(), body))
    return ";".join(parts) or "-"


def new_git_repo():
    from breezy.controldir import ControlDir, format_registry
    d = env.fresh_dir("git")
    cd = ControlDir.create(d, format=format_registry.make_controldir("git-bare"))
    return cd.open_repository()


def new_native_repo():
    from breezy.controldir import ControlDir, format_registry
    d = env.fresh_dir("nat")
    cd = ControlDir.create(d, format=format_registry.make_controldir("2a"))
    return cd.create_repository()


def plain_dump_all(ch, pre=""):
    out = {}
    for name, n in ch.items():
        p = pre + name.decode("utf-8", "surrogateescape")
        if n[0] == "F":
            out[p] = ("f", n[3], n[4])
        elif n[0] == "L":
            out[p] = ("l", n[3], False)
        else:
            out[p] = ("d", b"", False)
            out.update(plain_dump_all(n[1], p + "/"))
    return out


def env_error(e):
    """is this exception a problem of the machine (disk, memory, descriptors, a killed worker) rather
    than behaviour of the code under test?  Such a run is an infrastructure failure (exit 2)."""
    import errno
    if isinstance(e, (MemoryError, TimeoutError, BrokenPipeError)):
        return True
    if isinstance(e, OSError) and e.errno in (errno.ENOSPC, errno.EDQUOT, errno.EMFILE, errno.ENFILE, errno.ENOMEM,
                                              errno.EIO, errno.EROFS, errno.EAGAIN):
        return True
    return False


# --------------------------------------------------------------------------
# one native history (runs in a worker process)

def leaves_by_fid(ch, pre=b"", out=None):
    """{file id: (path, name, node)} of the files and symlinks of a tree"""
    out = {} if out is None else out
    for name, n in ch.items():
        p = name if not pre else pre + b"/" + name
        if n[0] == "D":
            leaves_by_fid(n[1], p, out)
        else:
            out[n[1]] = (p, name, n)
    return out


def entries_by_fid(ch, out=None):
    """{file id: name} of every entry (directories included)"""
    out = {} if out is None else out
    for name, n in ch.items():
        if n[0] == "D":
            out[n[2]] = name
            entries_by_fid(n[1], out)
        else:
            out[n[1]] = name
    return out


def banned_origin_blobs(order, parents, nodes):
    """ids of the blobs of symlinks that got a legal name by a rename from `.git` without a change of target
    (the concrete shape of the finding family symlink-renamed-from-banned-name), over a whole history"""
    from dulwich.objects import Blob
    out = set()
    for r in order:
        if not parents[r]:
            continue
        old = leaves_by_fid(nodes[parents[r][0]])
        for fid, (_p, name, n) in leaves_by_fid(nodes[r]).items():
            if n[0] == "L" and name != b".git" and fid in old:
                _p0, name0, n0 = old[fid]
                if name0 == b".git" and n0[0] == "L" and n0[3] == n[3]:
                    out.add(Blob.from_string(n[3]).id)
    return out


def native_case(arg):
    seed_tuple, nsteps, script = arg[:3]
    variant = arg[3] if len(arg) > 3 and isinstance(arg[3], str) else "00"
    code_repaired = variant == "11"
    R = dict(cases=[], lines=[], impls=[], viol=[], counts={}, seed=list(seed_tuple), stat_lines=[],
             ycases=[], ylines=[], yimpls=[], custom=[])

    def count(k, n=1):
        R["counts"][k] = R["counts"].get(k, 0) + n

    def viol(case, what, family=None):
        R["viol"].append((case, what, family))

    import random
    rng = random.Random(repr(seed_tuple) + "eval")
    try:
        if script is None:
            script, lanes, root = build_history(seed_tuple, nsteps)
        else:
            lanes, root = replay_history(script)
    except Exception as e:
        count("history-build-failed:" + type(e).__name__)
        R["error"] = repr(e)
        if env_error(e):
            R["infra"] = "%s: %s" % (type(e).__name__, str(e)[:200])
        return R
    R["script"] = script
    for s in script:
        count("op:" + s[1])
    base_case = dict(history=list(seed_tuple), script=script)
    try:
        repo = lanes[0].wt.branch.repository
        for l in lanes.values():
            if l is not lanes[0] and l.commits:
                repo.fetch(l.wt.branch.repository)
        heads = [l.commits[-1] for l in lanes.values() if l.commits]
        with repo.lock_read():
            allrevs = sorted(repo.all_revision_ids())
            order = topo(repo, allrevs)
            parents = {r: [p for p in repo.get_revision(r).parent_ids if p in allrevs] for r in allrevs}
            repo_parent_ids = {r: list(repo.get_revision(r).parent_ids) for r in allrevs}
            trees = {r: repo.revision_tree(r) for r in order}
            nodes = {r: tree_nodes(trees[r]) for r in order}
        count("revisions", len(order))
        count("revisions-with-banned-name", sum(1 for r in order if _has_banned(nodes[r])))
        count("merges", sum(1 for r in order if len(parents[r]) > 1))
        # ---- from scratch, per revision --------------------------------
        scratch = {}
        for r in order:
            sc = scratch_export(trees[r])
            scratch[r] = sc
            tline = enc_tree(nodes[r])
            impl = "%s %s" % (sc[""].decode(), ";".join(sorted("%s=%s" % (enc_path(p), s.decode()) for p, s in sc.items())))
            case = dict(base_case, rev=r.decode(), what="scratch")
            nontriv = bool(parents[r]) and any(n[0] == "D" and has_content(n) for n in nodes[r].values())
            R["cases"].append((case, dict(tree=digest(tline), parents=[digest(enc_tree(nodes[p])) for p in parents[r]]), nontriv))
            R["lines"].append("exp " + tline)
            R["impls"].append(impl)
        # ---- the objects yielded against the parents (dirty-directory bookkeeping) -------------
        from breezy.git.cache import DictGitShaMap
        from dulwich.objects import Blob
        rootfid = {r: trees[r].path2id("") for r in order}
        for r in order:
            ps = parents[r]
            ptrees = [trees[p] for p in ps]
            btree = enc_ftree(rootfid[ps[0]], nodes[ps[0]]) if ps else "~"
            others = "|".join(enc_ftree(rootfid[p], nodes[p]) for p in ps[1:]) or "-"
            ftree = enc_ftree(rootfid[r], nodes[r])
            known = {}
            for p in ps:
                known.update(leaves_payload(nodes[p]))
            for tag in ("cold", "full"):
                idmap = DictGitShaMap()
                centries = []
                if tag == "full":
                    for (fid, r2), payload in sorted(known.items()):
                        sha = Blob.from_string(payload).id
                        idmap._by_fileid.setdefault(r2, {})[fid] = sha
                        centries.append("%s:%s:%s" % (hx(fid), hx(r2), sha.decode()))
                impl = real_yield(trees[r], ptrees, idmap)
                case = dict(base_case, rev=r.decode(), what="yield-" + tag)
                R["ycases"].append(case)
                R["ylines"].append("yield %s %s %s %s %s" % (variant, ";".join(centries) or "-", btree, others, ftree))
                R["yimpls"].append(impl)
                count("yielded-objects", 0 if impl == "-" else impl.count(";") + 1)
                if impl == "-":
                    count("yield-nothing")
        # ---- warm (index map) and evicted dict map ------------------------
        with repo.lock_write():
            warm = warm_export(repo, order, trees, nodes, rootfid=rootfid, variant=variant)
            evic = warm_export(repo, order, trees, nodes, evict_rng=rng, rootfid=rootfid, variant=variant)

        def to_banned(r):
            """did revision r give an entry that had a legal name in its first parent the name `.git`?"""
            if not parents[r]:
                return False
            old = entries_by_fid(nodes[parents[r][0]])
            return any(name == b".git" and fid in old and old[fid] != b".git"
                       for fid, name in entries_by_fid(nodes[r]).items())

        def stale_family(r):
            """the concrete shape of finding entry-renamed-to-banned-name: r, or a first-parent ancestor whose git
            tree r still has, renamed an entry to `.git` (the change is skipped, the directory it left keeps its old
            tree)"""
            q = r
            while True:
                if to_banned(q):
                    return "entry-renamed-to-banned-name"
                if not parents[q] or scratch[parents[q][0]][""] != scratch[q][""]:
                    return None
                q = parents[q][0]

        for r in order:
            for tag, res in (("warm", warm), ("evict", evic)):
                root, line, _ev, fline = res[r]
                case = dict(base_case, rev=r.decode(), what=tag)
                # reply = `<recorded root of the code variant> <path based incrRoot>`: the first must be the real
                # root; the second (what the theorems are about) too, except on the finding family
                R["custom"].append(("incrf", case, fline, root, None if code_repaired else stale_family(r)))
                R["stat_lines"].append("incrstat" + line[4:])
                if root != scratch[r][""].decode():
                    fam = stale_family(r)
                    if fam:
                        count("family:" + fam)
                    viol(case, "revision %s: root tree id %s through the %s SHA map, %s from scratch" % (
                        r.decode(), root, tag, scratch[r][""].decode()), family=fam)
        # the whole history through the model's `runHist` (SHA map kept by the model itself; the keys the
        # real map lost are evicted in the model too): every recorded root id
        pos = {r: i for i, r in enumerate(order)}
        for tag, res in (("warm", warm), ("evict", evic)):
            revs = []
            for r in order:
                ps = ".".join(str(pos[q]) for q in repo_parent_ids[r] if q in pos) or "-"
                ev = ".".join("%s:%s" % (hx(f), hx(v)) for f, v in res[r][2]) or "-"
                revs.append("%s!%s!%s" % (ps, ev, enc_ftree(rootfid[r], nodes[r])))
            fam_any = None if code_repaired else next((f for f in (stale_family(r) for r in order) if f), None)
            R["custom"].append(("histf", dict(base_case, what="hist-" + tag), "histf %s %s" % (variant, "|".join(revs)),
                                ";".join(res[r][0] for r in order) or "-", fam_any))
            count("hist-evicted-keys", sum(len(res[r][2]) for r in order))
        # ---- push in two stages --------------------------------------------
        from breezy.repository import InterRepository
        grepo = new_git_repo()
        inter = InterRepository.get(repo, grepo)
        revidmap = {}
        stage1 = [rng.choice(order)]
        with repo.lock_read():
            revidmap.update(inter.fetch_revs([(None, r) for r in stage1], lossy=True))
            revidmap.update(inter.fetch_revs([(None, r) for r in heads], lossy=True))
        ostore = grepo._git.object_store
        count("pushed", len(revidmap))
        pushed_ok = True
        banned_origin = banned_origin_blobs(order, parents, nodes)
        for r in order:
            case = dict(base_case, rev=r.decode(), what="push")
            if r not in revidmap:
                viol(case, "revision %s was not pushed" % r.decode())
                pushed_ok = False
                continue
            gsha, new_revid = revidmap[r]
            try:
                c = ostore[gsha]
                if c.tree.decode() != warm[r][0]:
                    viol(case, "pushed commit of %s has tree %s, the object store computed %s" % (r.decode(), c.tree.decode(), warm[r][0]))
                objs = {}
                git_closure(ostore, c.tree, objs)
            except KeyError as e:
                fam = "symlink-renamed-from-banned-name" if e.args and e.args[0] in banned_origin else stale_family(r)
                if fam:
                    count("family:" + fam)
                viol(case, "object %s reachable from the pushed revision %s is missing in the target repository" % (e, r.decode()),
                     family=fam)
                pushed_ok = False
                continue
            # the import model on what is really in the git repository
            R["cases"].append((dict(case, what="imp-of-pushed"), None, False))
            R["lines"].append("imp %s %s %d" % (enc_store(objs), c.tree.decode(), 12))
            R["impls"].append(("fetched", r))          # resolved below
        # ---- fetch back in two stages ---------------------------------------
        back = {}
        fetch_err = None
        if pushed_ok:
            brepo = new_native_repo()
            try:
                for group in (stage1, heads):
                    for r in group:
                        brepo.fetch(grepo, revision_id=revidmap[r][1])
                with brepo.lock_read():
                    for r in order:
                        back[r] = tree_nodes(brepo.revision_tree(revidmap[r][1]))
            except Exception as e:
                fetch_err = e
                if env_error(e):
                    raise
                viol(dict(base_case, what="fetch"), "fetching the pushed history back raised %s: %s" % (type(e).__name__, str(e)[:200]))
                count("fetch-failed:" + type(e).__name__)
        # resolve the deferred `imp` expectations and add the `rt` lines
        keep = [i for i, x in enumerate(R["impls"]) if not isinstance(x, tuple) or x[1] in back]
        for i in keep:
            x = R["impls"][i]
            if isinstance(x, tuple):
                R["impls"][i] = show_dump(model_dump_of(back[x[1]]))
        R["cases"] = [R["cases"][i] for i in keep]
        R["lines"] = [R["lines"][i] for i in keep]
        R["impls"] = [R["impls"][i] for i in keep]
        for r in order:
            if r not in back:
                continue
            case = dict(base_case, rev=r.decode(), what="roundtrip")
            d = show_dump(model_dump_of(back[r]))
            want = plain_dump(nodes[r])
            got = plain_dump_all(back[r])
            if not code_repaired and stale_family(r):
                # the code as found pushed a stale tree for this revision (finding entry-renamed-to-banned-name,
                # reported by the oracle below): what comes back is not the model's canonical form
                count("roundtrip-t2-skipped:entry-renamed-to-banned-name")
            else:
                R["cases"].append((case, None, False))
                R["lines"].append("rt " + enc_tree(nodes[r]))
                R["impls"].append("%s %s" % (d, d))
                # the model's specification of what must survive (itemsNC) against the oracle's own, and the
                # items of the model's canonical form against the tree that really came back
                R["cases"].append((dict(case, what="items"), None, False))
                R["lines"].append("items " + enc_tree(nodes[r]))
                R["impls"].append("%s %s" % (items_str(want), items_str(got)))
            if want != got:
                diff = sorted(set(want.items()) ^ set(got.items()), key=repr)[:4]
                fam = stale_family(r)
                if fam:
                    count("family:" + fam)
                viol(case, "revision %s after push + fetch differs from the original: %r" % (r.decode(), diff), family=fam)
        count("roundtrips", len(back))
    except Exception as e:
        import traceback
        R["error"] = traceback.format_exc()[-1500:]
        if env_error(e):
            R["infra"] = "%s: %s" % (type(e).__name__, str(e)[:200])
        else:
            viol(base_case, "unexpected %s while exporting/pushing: %s" % (type(e).__name__, str(e)[:300]))
    finally:
        shutil.rmtree(root, ignore_errors=True)
    return R


# --------------------------------------------------------------------------
# git-first histories

# default modes only: a git repository built from a native history has no other ones (the
# 'unusual file modes' of foreign repositories are outside this property; see unusual_mode_probe)
GIT_MODES = [0o100644, 0o100644, 0o100755, 0o120000]


def gen_git_history(rng, ncommits):
    """list of commits: (parents indices, {path(bytes): (mode, data)})"""
    commits = []
    files = {}
    for i in range(ncommits):
        if i == 0:
            parents = []
        elif len(commits) >= 2 and rng.random() < 0.25:
            a = len(commits) - 1
            b = rng.randrange(len(commits) - 1)
            parents = [a, b]
            # take some paths from the other parent
            for p, v in commits[b][1].items():
                if rng.random() < 0.5 and not any(q.startswith(p + b"/") or p.startswith(q + b"/") for q in files if q != p):
                    files[p] = v
        else:
            parents = [len(commits) - 1]
        for _ in range(rng.randrange(1, 5)):
            r = rng.random()
            if r < 0.5 or not files:
                depth = rng.randrange(3)
                comps = [enc_name(rng.choice(NAMES)) for _ in range(depth + 1)]
                p = b"/".join(comps)
                if any(q == p or q.startswith(p + b"/") or p.startswith(q + b"/") for q in files):
                    continue
                mode = rng.choice(GIT_MODES)
                data = enc_name(rng.choice(TARGETS)) if mode == 0o120000 else rng.choice(CONTENTS)
                files[p] = (mode, data)
            elif r < 0.7:
                p = rng.choice(sorted(files))
                mode, data = files[p]
                if mode != 0o120000:
                    files[p] = (mode, data + b"+")
                else:
                    files[p] = (mode, enc_name(rng.choice(TARGETS)))
            elif r < 0.85:
                p = rng.choice(sorted(files))
                mode, data = files[p]
                if mode != 0o120000:
                    files[p] = (rng.choice([m for m in GIT_MODES if m != 0o120000]), data)
            else:
                del files[rng.choice(sorted(files))]
        commits.append((parents, dict(files)))
    return commits


def write_git_tree(ostore, files):
    """build tree objects bottom-up with dulwich; returns root id"""
    from dulwich.objects import Blob, Tree
    nested = {}
    for p, (mode, data) in files.items():
        cur = nested
        comps = p.split(b"/")
        for c in comps[:-1]:
            cur = cur.setdefault(c, {})
        cur[comps[-1]] = (mode, data)

    def build(d):
        t = Tree()
        for name, v in d.items():
            if isinstance(v, dict):
                t.add(name, stat.S_IFDIR, build(v))
            else:
                b = Blob.from_string(v[1])
                ostore.add_object(b)
                t.add(name, v[0], b.id)
        ostore.add_object(t)
        return t.id
    return build(nested)


def git_case(arg):
    seed_tuple, ncommits, hist = arg
    R = dict(cases=[], lines=[], impls=[], viol=[], counts={}, seed=list(seed_tuple))

    def count(k, n=1):
        R["counts"][k] = R["counts"].get(k, 0) + n

    def viol(case, what, family=None):
        R["viol"].append((case, what, family))

    import random
    from dulwich.objects import Commit
    from breezy.git.mapping import default_mapping
    from breezy.git.object_store import BazaarObjectStore, _tree_to_objects
    from breezy.git.cache import DictBzrGitCache, DictGitShaMap
    rng = random.Random(repr(seed_tuple))
    if hist is None:
        hist = gen_git_history(rng, ncommits)
    jhist = [[ps, sorted([p.hex(), m, d.hex()] for p, (m, d) in fs.items())] for ps, fs in hist]
    base_case = dict(git_history=list(seed_tuple), commits=jhist)
    try:
        grepo = new_git_repo()
        ostore = grepo._git.object_store
        shas = []
        for i, (parents, files) in enumerate(hist):
            c = Commit()
            c.tree = write_git_tree(ostore, files)
            c.parents = [shas[p] for p in parents]
            c.author = c.committer = b"G <g@example.com>"
            c.author_time = c.commit_time = 1500000000 + 60 * i
            c.author_timezone = c.commit_timezone = 0
            c.message = b"c%d\n" % i
            ostore.add_object(c)
            shas.append(c.id)
        count("git-commits", len(shas))
        count("git-merges", sum(1 for ps, _ in hist if len(ps) > 1))
        brepo = new_native_repo()
        revids = [default_mapping.revision_id_foreign_to_bzr(s) for s in shas]
        # two stages: a middle commit, then the tip(s)
        mid = rng.randrange(len(shas))
        try:
            brepo.fetch(grepo, revision_id=revids[mid])
            for i in range(len(shas)):
                brepo.fetch(grepo, revision_id=revids[i]) if i == len(shas) - 1 or rng.random() < 0.2 else None
            missing = [i for i in range(len(shas)) if not brepo.has_revision(revids[i])]
            for i in missing:
                brepo.fetch(grepo, revision_id=revids[i])
        except Exception as e:
            if env_error(e):
                raise
            viol(dict(base_case, what="fetch"), "fetching the git history raised %s: %s" % (type(e).__name__, str(e)[:200]))
            count("git-fetch-failed:" + type(e).__name__)
            return R
        from breezy.git.mapping import extract_unusual_modes
        with brepo.lock_write():
            trees, nodes, unusual = {}, {}, {}
            for i, rid in enumerate(revids):
                rev = brepo.get_revision(rid)
                unusual[i] = extract_unusual_modes(rev)
                trees[i] = brepo.revision_tree(rid)
                nodes[i] = tree_nodes(trees[i], unusual[i])
                if unusual[i]:
                    count("unusual-modes", len(unusual[i]))
            for i, (parents, files) in enumerate(hist):
                orig = ostore[shas[i]].tree
                case = dict(base_case, commit=i, what="git-import")
                objs = {}
                git_closure(ostore, orig, objs)
                d = show_dump(model_dump_of(nodes[i]))
                nontriv = bool(parents) and any(b"/" in p for p in files)
                R["cases"].append((case, dict(tree=orig.decode(), parents=[shas[p].decode() for p in parents]), nontriv))
                R["lines"].append("imp %s %s %d" % (enc_store(objs), orig.decode(), 12))
                R["impls"].append(d)
                # oracle: the imported tree is the git tree
                want = {}
                for p, (m, data) in files.items():
                    want[p.decode("utf-8", "surrogateescape")] = ("l", data, False) if m == 0o120000 else ("f", data, bool(m & 0o111))
                    comps = p.split(b"/")
                    for k in range(1, len(comps)):
                        want[b"/".join(comps[:k]).decode("utf-8", "surrogateescape")] = ("d", b"", False)
                got = plain_dump_all(nodes[i])
                if want != got:
                    diff = sorted(set(want.items()) ^ set(got.items()), key=repr)[:4]
                    viol(case, "commit %d imported from git differs from the git tree: %r" % (i, diff))
                # re-export: from scratch, incrementally with the parents, model
                sc = {}
                for path, obj, _k in _tree_to_objects(trees[i], [], DictGitShaMap(), unusual[i], None):
                    sc[path] = obj.id
                if sc.get("") != orig:
                    viol(dict(case, what="git-reexport"), "commit %d: re-exported root tree %r, original %r" % (i, sc.get(""), orig))
                R["cases"].append((dict(case, what="git-reexport-model"), None, False))
                R["lines"].append("reexp %s %s %d" % (enc_store(objs), orig.decode(), 12))
                R["impls"].append("%s %s T" % (_as_bytes(sc.get("", b"?")).decode(), _as_bytes(sc.get("", b"?")).decode()))
                R["cases"].append((dict(case, what="git-import-native"), None, False))
                R["lines"].append("impn %s %s %d" % (enc_store(objs), orig.decode(), 12))
                R["impls"].append(show_dump(native_dump_of(nodes[i])))
                R["cases"].append((dict(case, what="git-reexport"), None, False))
                R["lines"].append("exp " + enc_tree(nodes[i]))
                R["impls"].append("%s %s" % (orig.decode(), ";".join(sorted("%s=%s" % (enc_path(p), s.decode()) for p, s in sc.items()))))
            # through a fresh SHA map (the one filled by the fetch is discarded)
            store = BazaarObjectStore(brepo)
            store._cache = DictBzrGitCache()
            store.start_write_group = store._cache.idmap.start_write_group
            store.abort_write_group = store._cache.idmap.abort_write_group
            store.commit_write_group = store._cache.idmap.commit_write_group
            with store.lock_read():
                try:
                    store._update_sha_map()
                except AssertionError as e:
                    viol(dict(base_case, what="git-reexport-warm"), "re-exporting the imported history: %s" % str(e)[:300])
                else:
                    for i, s in enumerate(shas):
                        got = commit_tree_sha(store._cache.idmap, s)
                        if got != ostore[s].tree:
                            viol(dict(base_case, commit=i, what="git-reexport-warm"),
                                 "commit %d: root tree %r through a fresh SHA map, original %r" % (i, got, ostore[s].tree))
    except Exception as e:
        import traceback
        R["error"] = traceback.format_exc()[-1500:]
        if env_error(e):
            R["infra"] = "%s: %s" % (type(e).__name__, str(e)[:200])
        else:
            viol(base_case, "unexpected %s in the git-first round trip: %s" % (type(e).__name__, str(e)[:300]))
    return R


# --------------------------------------------------------------------------
# modes

def mode_cases(ctx):
    from breezy.git import mapping as m
    from dulwich.objects import S_ISGITLINK
    randoms = [ctx.rng.randrange(0, 0o1000000) for _ in range(ctx.pick(300, 3000))]
    modes = sorted(set(
        [0, 0o040000, 0o100644, 0o100755, 0o120000, 0o160000, 0o100664, 0o100600, 0o100775, 0o100777, 0o100000,
         0o120777, 0o040755, 0o060000, 0o140000, 0o010644, 0o020000, 0o200000, 0o300644, 0o700000, 0o1000000 | 0o100644]
        + randoms
        + [t | p for t in (0o040000, 0o100000, 0o120000, 0o160000) for p in (0, 0o111, 0o644, 0o755, 0o444, 0o001, 0o010, 0o100)]))
    default = (stat.S_IFDIR, 0o100644, stat.S_IFLNK, 0o100755, 0o160000)
    structured = set(modes) - set(randoms)
    cases, lines, impls = [], [], []
    for mode in modes:
        try:
            k = {"file": "f", "directory": "d", "symlink": "l", "tree-reference": "t"}[m.mode_kind(mode)]
        except AssertionError:
            k = "E"
        if stat.S_ISDIR(mode):
            cls = "tree"
        elif S_ISGITLINK(mode):
            cls = "gitlink"
        elif stat.S_ISLNK(mode):
            cls = "symlink"
        else:
            cls = "file"
        unusual = None if mode in default else mode
        ex = m.mode_is_executable(mode) if cls == "file" else False
        kind = {"tree": "directory", "gitlink": "tree-reference", "symlink": "symlink", "file": "file"}[cls]
        re_mode = unusual if unusual is not None else m.object_mode(kind, ex)
        if re_mode != mode:
            ctx.violation(dict(mode=mode), "mode %o is re-exported as %o" % (mode, re_mode))
        cases.append(dict(mode=mode))
        lines.append("mode %d" % mode)
        impls.append("%s %s %s %s %d" % (k, cls, "~" if unusual is None else unusual, "T" if ex else "F", re_mode))
        ctx.case(dict(mode=mode), nontrivial=mode not in default and mode in structured)
        ctx.count("mode-class:" + cls)
    for kind, k in (("file", "f"), ("directory", "d"), ("symlink", "l"), ("tree-reference", "t")):
        for x in (False, True):
            om = m.object_mode(kind, x)
            cases.append(dict(kind=kind, exec=x))
            lines.append("omode %s %s" % (k, "T" if x else "F"))
            impls.append(str(om))
            ctx.case(dict(kind=kind, exec=x))
            try:
                back = m.mode_kind(om)
            except AssertionError:
                back = None
            if back != kind:
                ctx.violation(dict(kind=kind, exec=x), "mode_kind(object_mode(%s, %s)) = %r" % (kind, x, back))
            if kind == "file" and m.mode_is_executable(om) != x:
                ctx.violation(dict(kind=kind, exec=x), "mode_is_executable(object_mode(file, %s)) is wrong" % x)
    ctx.diff(cases, lines, impls)


# --------------------------------------------------------------------------

def _absorb(ctx, R, allc, alll, alli, stats=None, ylds=None):
    if R.get("infra"):
        raise env.InfraError("C35 worker: %s" % R["infra"])
    if stats is not None:
        stats.extend(R.get("stat_lines", []))
    if ylds is not None:
        ylds.extend(("yield", c, l, i, None) for c, l, i in zip(R.get("ycases", []), R.get("ylines", []), R.get("yimpls", [])))
        ylds.extend(R.get("custom", []))
    for k, n in R["counts"].items():
        ctx.count(k, n)
    if R.get("error"):
        ctx.count("case-error")
        ctx.extra.setdefault("errors", []).append(R["error"][-400:])
    for case, what, fam in R["viol"]:
        ctx.violation(case, what, family=fam)
    for (case, key, nontriv), line, impl in zip(R["cases"], R["lines"], R["impls"]):
        if key is not None:
            ctx.case(key, nontrivial=nontriv)
        allc.append(case)
        alll.append(line)
        alli.append(impl)


def unusual_mode_probe():
    """informational only (outside the property: no native history produces such a
    mode): can a git tree with a 0o100664 file be fetched and re-exported?"""
    from dulwich.objects import Commit
    from breezy.git.mapping import default_mapping
    try:
        grepo = new_git_repo()
        ostore = grepo._git.object_store
        c = Commit()
        c.tree = write_git_tree(ostore, {b"ff": (0o100664, b"x\n")})
        c.parents = []
        c.author = c.committer = b"G <g@example.com>"
        c.author_time = c.commit_time = 1500000000
        c.author_timezone = c.commit_timezone = 0
        c.message = b"m\n"
        ostore.add_object(c)
        brepo = new_native_repo()
        rid = default_mapping.revision_id_foreign_to_bzr(c.id)
        brepo.fetch(grepo, revision_id=rid)
        from breezy.git.mapping import extract_unusual_modes
        um = extract_unusual_modes(brepo.get_revision(rid))
        sc = scratch_export(brepo.revision_tree(rid), um)
        return "fetched; re-export %s" % ("reproduces the tree id" if sc[""] == c.tree else "gives another tree id")
    except Exception as e:
        return "raises %s: %s" % (type(e).__name__, str(e)[:120])


def _compare_custom(ctx, ylds):
    """ties whose reply has two parts.  `yield`: the list of yielded objects is compared with the real generator's;
    the model's own verdict on whether yielded + parents' objects cover the tree is recorded (the push oracle is what
    reports a dangling object).  `incrf` / `histf`: `<roots by the file-id model of the code variant> <roots by the
    path based model the theorems are about>`: the first must be the real ids; the second too, except on a revision
    of the finding family entry-renamed-to-banned-name of the code as found (`fam`)."""
    for (kind, case, line, impl, fam), rep in zip(ylds, ctx.model([x[2] for x in ylds])):
        ctx.traces += 1
        first, _, second = rep.rpartition(" ")
        if first != impl:
            ctx.mismatch(case, impl, first, line=line)
        if kind == "yield":
            ctx.count("yield:model-says-" + ("complete" if second == "T" else "INCOMPLETE"))
        elif second != impl:
            if fam is None:
                ctx.mismatch(case, impl, second, line=line, tie="T2 path-based model")
            else:
                ctx.count("incr:path-model-differs:" + fam)


def banned_name_probe():
    """which of the two repairs about entries called `.git` does the code under test have?  Returns the model
    variant `<fixBanned><fixRen>` the ties use (the oracle does not depend on it):
    fixBanned — the blob of a symlink renamed from `.git` to a legal name is sent;
    fixRen    — renaming an entry to `.git` rebuilds the directory it left."""
    from breezy.git.cache import DictGitShaMap
    script = [[0, "mkdir", "gg"], [0, "write", "gg/zz", "780a", False], [0, "symlink", "gg/.git", "../x"],
              [0, "write", "ff", "790a", False], [0, "commit", "p1"], [0, "rename", "gg/.git", "gg/ll"], [0, "commit", "p2"],
              [0, "rename", "ff", "gg/.git"], [0, "commit", "p3"]]
    lanes, root = replay_history(script)
    try:
        repo = lanes[0].wt.branch.repository
        with repo.lock_read():
            t1, t2, t3 = (repo.revision_tree(r) for r in (b"p1", b"p2", b"p3"))
            a = (enc_path("gg/ll") + "=") in real_yield(t2, [t1], DictGitShaMap())
            b = real_yield(t3, [t2], DictGitShaMap()) != "-"
        return ("1" if a else "0") + ("1" if b else "0")
    finally:
        shutil.rmtree(root, ignore_errors=True)


def run(ctx, nnative=None, ngit=None):
    nnative = nnative or ctx.pick(8, 220)
    ngit = ngit or ctx.pick(6, 160)
    mode_cases(ctx)
    ctx.extra["unusual_mode_probe"] = unusual_mode_probe()
    variant = banned_name_probe()
    ctx.extra["code_variant_fixBanned_fixRen"] = variant
    fix_banned = variant
    cases, lines, impls, stats, ylds = [], [], [], [], []
    corpus = _corpus()
    args = [(("corpus", i), 0, c["script"], fix_banned) for i, c in enumerate(corpus) if "script" in c]
    args += [((ctx.seed, "n", i), ctx.rng.choice(ctx.pick([14, 22, 34], [14, 30, 60])), None, fix_banned)
             for i in range(nnative)]
    for R in ctx.pmap(native_case, args, procs=ctx.pick(4, 8)):
        _absorb(ctx, R, cases, lines, impls, stats, ylds)
    gargs = [((ctx.seed, "g", i), ctx.rng.choice([3, 5, 8]), None) for i in range(ngit)]
    for R in ctx.pmap(git_case, gargs, procs=ctx.pick(4, 8)):
        _absorb(ctx, R, cases, lines, impls)
    if lines:
        ctx.diff(cases, lines, impls)
    if ylds and ctx.model_available:
        _compare_custom(ctx, ylds)
    if stats and ctx.model_available:
        # which branch of the incremental conversion each leaf of each converted revision took (model's
        # view of the real SHA map at that moment): reachability of cache hit / miss / other-parent re-use
        for rep in ctx.model(stats):
            for kv in rep.split(";"):
                k, _, n = kv.partition("=")
                if n.isdigit() and int(n):
                    ctx.count("incr:" + k, int(n))


def _corpus():
    import json
    d = os.path.join(env.VERIF, "corpus", "C35")
    out = []
    if os.path.isdir(d):
        for f in sorted(os.listdir(d)):
            if f.endswith(".json"):
                out.append(json.load(open(os.path.join(d, f))))
    return out


def widen(ctx):
    run(ctx, nnative=40, ngit=30)


def replay(ctx, case):
    if "mode" in case or "kind" in case:
        mode_cases(ctx)
        return dict(case=case, oracle_failures=[v["what"] for v in ctx.violations])
    if "script" in case:
        R = native_case((tuple(case.get("history", ["replay"])), 0, case["script"], banned_name_probe()))
    else:
        hist = [(ps, {bytes.fromhex(p): (m, bytes.fromhex(d)) for p, m, d in fs}) for ps, fs in case["commits"]]
        R = git_case((tuple(case.get("git_history", ["replay"])), len(hist), hist))
    cases, lines, impls, ylds = [], [], [], []
    _absorb(ctx, R, cases, lines, impls, None, ylds)
    outs = ctx.model(lines) if lines else []
    diffs = [dict(case={k: v for k, v in c.items() if k not in ("script", "commits")}, impl=i[:300], model=m[:300])
             for c, i, m in zip(cases, impls, outs) if i != m]
    for (_k, c, l, i, _f), m in zip(ylds, ctx.model([x[2] for x in ylds]) if ylds else []):
        if m.rpartition(" ")[0] != i or m.endswith(" F") or m.rpartition(" ")[2] not in ("T", i):
            diffs.append(dict(case={k: v for k, v in c.items() if k not in ("script", "commits")}, impl=i[:300],
                              model=m[:300]))
    return dict(case={k: v for k, v in case.items()}, lines=len(lines), model_differences=diffs[:5],
                error=R.get("error"), oracle_failures=[v["what"] for v in ctx.violations])
