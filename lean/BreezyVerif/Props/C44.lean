import BreezyVerif.Lemmas.C44
/-!
C44 — theorems.  Trees, histories (any length, any number of parents, ghosts) are
universally quantified; nothing is bounded.
-/
namespace BreezyVerif.C44

/-! ## one commit: file commands -/

/-- distinct file ids, distinct file paths -/
def WF (t : Tree) : Prop := (t.map (·.fid)).Nodup ∧ ((flat t).map (·.1)).Nodup

instance (t : Tree) : Decidable (WF t) := by unfold WF; exact inferInstance

/-- no entry that is present on both sides changed its name, parent, path or kind:
the commit only adds, deletes and modifies -/
def Stable (old new : Tree) : Prop :=
  ∀ o ∈ old, ∀ n ∈ new, o.fid = n.fid → o.own = n.own ∧ o.path = n.path ∧ o.dir = n.dir

theorem mods_eq (old new : Tree) : mods old new = (modPairs old new).map fun e => Cmd.mod e.1 e.2 := rfl

theorem modPairs_nodup (old new : Tree) (hn : WF new) : ((modPairs old new).map (·.1)).Nodup := by
  have hsub : List.Sublist (modPairs old new) (flat new) := by
    unfold modPairs flat
    exact List.Sublist.map _ List.filter_sublist
  exact List.Nodup.sublist (List.Sublist.map _ hsub) hn.2

/-- **Adds, deletes and modifications survive.**  For every pair of well-formed
trees in which no surviving entry moved, importing the exporter's file commands
on top of the old files gives exactly the new files. -/
theorem export_import_tree_norename (old new : Tree) (ho : WF old) (hn : WF new) (hs : Stable old new) :
    FlatEq (applyCmds (flat old) (exportCmds old new)) (flat new) := by
  -- no entry counts as renamed
  have hren : ownRenames old new = [] := by
    unfold ownRenames
    generalize hl : List.filterMap _ old = l
    have : l = [] := by
      rw [← hl]
      apply List.filterMap_eq_nil_iff.mpr
      intro o ho'
      cases hf : find new o.fid with
      | none => rfl
      | some n =>
        obtain ⟨hmem, hfid⟩ := find_some hf
        have := (hs o ho' n hmem hfid.symm).1
        simp [this]
    rw [this]; rfl
  have hcmds : exportCmds old new =
      (((removed old new).filter (!·.dir)).map (·.path)).map Cmd.del ++
        (modPairs old new).map (fun e => Cmd.mod e.1 e.2) := by
    unfold exportCmds
    simp only [hren, renamePass, List.nil_append, mods_eq]
    congr 1
    rw [List.map_map]
    congr 1
    apply List.filter_congr
    intro e he
    have : e.path ∈ (removed old new).map (·.path) := List.mem_map.mpr ⟨e, he, rfl⟩
    simp [this]
  intro q
  rw [hcmds, applyCmds_append]
  -- membership in the removed list
  have hrm : ∀ e, e ∈ removed old new ↔ e ∈ old ∧ find new e.fid = none := by
    intro e
    unfold removed
    rw [mem_sortBy, List.mem_filter]
    simp
  by_cases hq : q ∈ (modPairs old new).map (·.1)
  · -- a path that gets an `M`
    obtain ⟨⟨q', v⟩, hmem, rfl⟩ := List.mem_map.mp hq
    rw [lookup_mods_mem _ (modPairs_nodup old new hn) _ _ v hmem]
    unfold modPairs at hmem
    obtain ⟨n, hn', heq⟩ := List.mem_map.mp hmem
    injection heq with h1 h2
    have hn2 := List.mem_filter.mp (List.mem_filter.mp hn').1
    simp only [Bool.not_eq_true'] at hn2
    rw [← h1, ← h2]
    exact (lookup_flat_mem new hn.2 n hn2.1 hn2.2).symm
  · rw [lookup_mods_other _ _ _ hq, lookup_dels]
    -- is `q` the path of a new file?
    by_cases hex : ∃ n ∈ new, n.dir = false ∧ n.path = q
    · obtain ⟨n, hnm, hnd, rfl⟩ := hex
      rw [lookup_flat_mem new hn.2 n hnm hnd]
      -- it needs no `M`, so it existed with the same value
      have hnm' : needsMod old n = false := by
        cases h : needsMod old n with
        | false => rfl
        | true =>
          exfalso; apply hq
          unfold modPairs
          exact List.mem_map.mpr ⟨(n.path, n.val), List.mem_map.mpr ⟨n, List.mem_filter.mpr
            ⟨List.mem_filter.mpr ⟨hnm, by simp [hnd]⟩, h⟩, rfl⟩, rfl⟩
      unfold needsMod at hnm'
      cases hf : find old n.fid with
      | none => simp [hf] at hnm'
      | some o =>
        simp only [hf, ne_eq, decide_eq_false_iff_not, Decidable.not_not] at hnm'
        obtain ⟨hom, hofid⟩ := find_some hf
        obtain ⟨_, hpath, hdir⟩ := hs o hom n hnm hofid
        have hod : o.dir = false := by rw [hdir, hnd]
        -- not deleted: the only old file at this path is `o`, which survives
        have hnotdel : n.path ∉ ((removed old new).filter (!·.dir)).map (·.path) := by
          intro hin
          obtain ⟨e, he, hep⟩ := List.mem_map.mp hin
          have he' := List.mem_filter.mp he
          simp only [Bool.not_eq_true'] at he'
          obtain ⟨heo, hefind⟩ := (hrm e).mp he'.1
          -- e and o are old files with the same path, hence equal values … and e = o by path uniqueness
          have h1 := lookup_flat_mem old ho.2 e heo he'.2
          have h2 := lookup_flat_mem old ho.2 o hom hod
          -- show e.fid = o.fid through the position in the file list: use nodup of paths
          have hpe : e.path = o.path := by rw [hep, hpath]
          have : e = o := by
            have hflat : ∀ (l : Tree), ((flat l).map (·.1)).Nodup → ∀ a ∈ l, ∀ b ∈ l, a.dir = false → b.dir = false →
                a.path = b.path → a = b := by
              intro l
              induction l with
              | nil => intro _ a ha; cases ha
              | cons x xs ih =>
                intro hnd' a ha b hb had hbd hab
                unfold flat at hnd' ih
                cases hxd : x.dir with
                | true =>
                  simp only [List.filter_cons, hxd, Bool.not_true, Bool.false_eq_true, if_false] at hnd'
                  rcases List.mem_cons.mp ha with h | h
                  · subst h; rw [had] at hxd; cases hxd
                  · rcases List.mem_cons.mp hb with h' | h'
                    · subst h'; rw [hbd] at hxd; cases hxd
                    · exact ih hnd' a h b h' had hbd hab
                | false =>
                  simp only [List.filter_cons, hxd, Bool.not_false, if_true, List.map_cons, List.nodup_cons] at hnd'
                  have hin : ∀ c ∈ xs, c.dir = false → c.path ∈ ((xs.filter (!·.dir)).map fun e => (e.path, e.val)).map (·.1) := by
                    intro c hc hcd
                    exact List.mem_map.mpr ⟨(c.path, c.val), List.mem_map.mpr ⟨c, List.mem_filter.mpr ⟨hc, by simp [hcd]⟩, rfl⟩, rfl⟩
                  rcases List.mem_cons.mp ha with h | h
                  · rcases List.mem_cons.mp hb with h' | h'
                    · rw [h, h']
                    · subst h; exact absurd (hab ▸ hin b h' hbd) hnd'.1
                  · rcases List.mem_cons.mp hb with h' | h'
                    · subst h'; exact absurd (hab ▸ hin a h had) hnd'.1
                    · exact ih hnd'.2 a h b h' had hbd hab
            exact hflat old ho.2 e heo o hom he'.2 hod hpe
          subst this
          have := find_none hefind n hnm
          exact this hofid.symm
        rw [if_neg hnotdel, ← hpath, lookup_flat_mem old ho.2 o hom hod, hnm']
    · -- not a new file path: it must end up absent
      have hnone : lookup (flat new) q = none :=
        lookup_flat_none new q (fun e he hd hp => hex ⟨e, he, hd, hp⟩)
      rw [hnone]
      by_cases hdel : q ∈ ((removed old new).filter (!·.dir)).map (·.path)
      · simp [hdel]
      · rw [if_neg hdel]
        apply lookup_flat_none
        intro o hom hod hop
        -- an old file at q: it survives (else it would be deleted), so q is a new file path
        cases hf : find new o.fid with
        | none =>
          apply hdel
          exact List.mem_map.mpr ⟨o, List.mem_filter.mpr ⟨(hrm o).mpr ⟨hom, hf⟩, by simp [hod]⟩, hop⟩
        | some n =>
          obtain ⟨hnm, hnfid⟩ := find_some hf
          obtain ⟨_, hpath, hdir⟩ := hs o hom n hnm hnfid.symm
          exact hex ⟨n, hnm, by rw [← hdir, hod], by rw [← hpath, hop]⟩

/-! ### the exporter's defects, as witnesses on concrete trees -/

/-- two files exchange their names: `R 1 2`, `R 2 1` loses one of them -/
theorem rename_swap_witness :
    let old : Tree := [⟨1, 1, 11, false, 100⟩, ⟨2, 2, 12, false, 200⟩]
    let new : Tree := [⟨1, 2, 12, false, 100⟩, ⟨2, 1, 11, false, 200⟩]
    exportCmds old new = [.ren 1 2, .ren 2 1] ∧
    applyCmds (flat old) (exportCmds old new) = [(1, 100)] ∧ lookup (flat new) 2 = some 100 := by
  decide +kernel

/-- a directory (entry 1, path 1 → 4) is renamed; its child (entry 2, own unchanged,
path 2 → 5) gets no command in the plain format and stays at the old path -/
theorem directory_rename_witness :
    let old : Tree := [⟨1, 1, 11, true, 0⟩, ⟨2, 2, 12, false, 100⟩]
    let new : Tree := [⟨1, 4, 14, true, 0⟩, ⟨2, 5, 12, false, 100⟩]
    exportCmds old new = [] ∧ lookup (applyCmds (flat old) (exportCmds old new)) 5 = none ∧
    lookup (flat new) 5 = some 100 := by
  decide +kernel

/-! ## the whole history -/

/-- the export order is topological: every parent position is smaller than the commit's own -/
def Topo (h : List Commit) : Prop := ∀ i (hi : i < h.length), ∀ p ∈ (h[i]'hi).parents, p ≤ i

/-- what the imported revision at position `i` should be -/
def expected (h : List Commit) (c : Commit) (files : Flat) : Rev :=
  { parents := c.parents.filter (· ≠ 0), files := files, info := c.info }

theorem importStep_ok (done : List Rev) (x : XCommit) (hm : ∀ m ∈ marksOf x, m ≠ 0 ∧ m ≤ done.length) :
    importStep done x = .ok (done ++ [{
      parents := marksOf x, files := applyCmds (baseOf done x) x.cmds, info := x.info }]) := by
  have : (marksOf x).any (badMark done) = false := by
    rw [List.any_eq_false]
    intro m hmem
    have := hm m hmem
    simp only [badMark, Bool.or_eq_true, beq_iff_eq, decide_eq_true_eq, not_or, Nat.not_lt]
    exact this
  simp [importStep, this]

theorem marks_eq (h : List Commit) (c : Commit) : marksOf (exportOne h c) = c.parents.filter (· ≠ 0) := by
  unfold marksOf exportOne
  simp only
  cases c.parents.filter (· ≠ 0) <;> simp

/-- **Graph shape, metadata and order survive, for every history.**  Importing the
exported stream of a topologically ordered history never meets an unknown mark
and yields one revision per commit, in order, whose parents are the positions of
the non-ghost parents and whose metadata is the commit's. -/
theorem import_export_graph (h : List Commit) (ht : Topo h) :
    ∃ rs, importAll (exportAll h) = .ok rs ∧ rs.length = h.length ∧
      ∀ i (hi : i < h.length) (hr : i < rs.length),
        (rs[i]'hr).parents = (h[i]'hi).parents.filter (· ≠ 0) ∧ (rs[i]'hr).info = (h[i]'hi).info := by
  -- generalise over prefixes of the stream
  suffices H : ∀ k, k ≤ h.length → ∃ rs, ((exportAll h).take k).foldlM importStep [] = .ok rs ∧ rs.length = k ∧
      ∀ i (hi : i < h.length) (hr : i < rs.length),
        (rs[i]'hr).parents = (h[i]'hi).parents.filter (· ≠ 0) ∧ (rs[i]'hr).info = (h[i]'hi).info by
    obtain ⟨rs, h1, h2, h3⟩ := H h.length (Nat.le_refl _)
    refine ⟨rs, ?_, h2, h3⟩
    unfold importAll
    have : (exportAll h).length = h.length := by simp [exportAll]
    rw [← this, List.take_length] at h1
    exact h1
  intro k
  induction k with
  | zero => intro _; exact ⟨[], rfl, rfl, fun i _ hr => absurd hr (by simp)⟩
  | succ k ih =>
    intro hk
    have hk' : k < h.length := hk
    obtain ⟨rs, h1, h2, h3⟩ := ih (Nat.le_of_lt hk')
    have hlen : (exportAll h).length = h.length := by simp [exportAll]
    have hx : (exportAll h).take (k + 1) = (exportAll h).take k ++ [exportOne h (h[k]'hk')] := by
      rw [List.take_succ]
      have : (exportAll h)[k]? = some (exportOne h (h[k]'hk')) := by
        simp [exportAll, List.getElem?_map, List.getElem?_eq_getElem hk']
      simp [this]
    rw [hx, foldlM_append_single, h1]
    simp only [bind, Except.bind]
    -- the marks of commit k are known
    have hmarks : ∀ m ∈ marksOf (exportOne h (h[k]'hk')), m ≠ 0 ∧ m ≤ rs.length := by
      intro m hm
      have hm' : m ∈ (h[k]'hk').parents.filter (· ≠ 0) := by
        rw [marks_eq] at hm
        exact hm
      have := List.mem_filter.mp hm'
      refine ⟨by simpa using this.2, ?_⟩
      rw [h2]
      exact ht k hk' m this.1
    rw [importStep_ok rs _ hmarks]
    refine ⟨_, rfl, by simp [h2], ?_⟩
    intro i hi hr
    by_cases hik : i < rs.length
    · have := h3 i hi hik
      simp only [List.getElem_append_left hik]
      exact this
    · have hieq : i = rs.length := by
        simp only [List.length_append, List.length_singleton] at hr
        omega
      subst hieq
      simp only [List.getElem_append_right (Nat.le_refl _), Nat.sub_self, List.getElem_singleton]
      have hkk : rs.length = k := h2
      constructor
      · simp only [hkk]
        exact marks_eq h (h[k]'hk')
      · simp only [exportOne, hkk]


/-- the file commands of commit `c` reproduce its files from its first parent's,
and that first parent is exported (not a ghost) -/
def CommitOK (h : List Commit) (c : Commit) : Prop :=
  (c.parents.filter (· ≠ 0)).head? = c.parents.head? ∧
  FlatEq (applyCmds (flat (treeAt h (c.parents.head?.getD 0)))
      (exportCmds (treeAt h (c.parents.head?.getD 0)) c.tree)) (flat c.tree)

/-- **Isomorphism.**  For every topologically ordered history in which every
commit's file commands are faithful (`CommitOK`: proved for commits that add,
delete and modify — `export_import_tree_norename`; refuted for name swaps and for
directory renames — the two witnesses), the imported history is isomorphic to the
exported one: position ↦ imported revision preserves parents (ghosts dropped),
metadata and the files of every tree. -/
theorem import_export_iso_partial (h : List Commit) (ht : Topo h) (hok : ∀ c ∈ h, CommitOK h c) :
    ∃ rs, importAll (exportAll h) = .ok rs ∧ rs.length = h.length ∧
      ∀ i (hi : i < h.length) (hr : i < rs.length),
        (rs[i]'hr).parents = (h[i]'hi).parents.filter (· ≠ 0) ∧ (rs[i]'hr).info = (h[i]'hi).info ∧
        FlatEq (rs[i]'hr).files (flat (h[i]'hi).tree) := by
  suffices H : ∀ k, k ≤ h.length → ∃ rs, ((exportAll h).take k).foldlM importStep [] = .ok rs ∧ rs.length = k ∧
      ∀ i (hi : i < h.length) (hr : i < rs.length),
        (rs[i]'hr).parents = (h[i]'hi).parents.filter (· ≠ 0) ∧ (rs[i]'hr).info = (h[i]'hi).info ∧
        FlatEq (rs[i]'hr).files (flat (h[i]'hi).tree) by
    obtain ⟨rs, h1, h2, h3⟩ := H h.length (Nat.le_refl _)
    refine ⟨rs, ?_, h2, h3⟩
    unfold importAll
    have : (exportAll h).length = h.length := by simp [exportAll]
    rw [← this, List.take_length] at h1
    exact h1
  intro k
  induction k with
  | zero => intro _; exact ⟨[], rfl, rfl, fun i _ hr => absurd hr (by simp)⟩
  | succ k ih =>
    intro hk
    have hk' : k < h.length := hk
    obtain ⟨rs, h1, h2, h3⟩ := ih (Nat.le_of_lt hk')
    have hx : (exportAll h).take (k + 1) = (exportAll h).take k ++ [exportOne h (h[k]'hk')] := by
      rw [List.take_succ]
      have : (exportAll h)[k]? = some (exportOne h (h[k]'hk')) := by
        simp [exportAll, List.getElem?_map, List.getElem?_eq_getElem hk']
      simp [this]
    rw [hx, foldlM_append_single, h1]
    simp only [bind, Except.bind]
    have hmarks : ∀ m ∈ marksOf (exportOne h (h[k]'hk')), m ≠ 0 ∧ m ≤ rs.length := by
      intro m hm
      have hm' : m ∈ (h[k]'hk').parents.filter (· ≠ 0) := by
        rw [marks_eq] at hm
        exact hm
      have := List.mem_filter.mp hm'
      refine ⟨by simpa using this.2, ?_⟩
      rw [h2]
      exact ht k hk' m this.1
    rw [importStep_ok rs _ hmarks]
    refine ⟨_, rfl, by simp [h2], ?_⟩
    intro i hi hr
    by_cases hik : i < rs.length
    · have := h3 i hi hik
      simp only [List.getElem_append_left hik]
      exact this
    · have hieq : i = rs.length := by
        simp only [List.length_append, List.length_singleton] at hr
        omega
      subst hieq
      simp only [List.getElem_append_right (Nat.le_refl _), Nat.sub_self, List.getElem_singleton]
      have hkk : rs.length = k := h2
      refine ⟨?_, ?_, ?_⟩
      · simp only [hkk]
        exact marks_eq h (h[k]'hk')
      · simp only [exportOne, hkk]
      · -- the files: start from the imported first parent, which matches the exported one
        simp only [hkk]
        obtain ⟨hhead, hfaith⟩ := hok (h[k]'hk') (List.getElem_mem hk')
        have hbase : FlatEq (baseOf rs (exportOne h (h[k]'hk')))
            (flat (treeAt h ((h[k]'hk').parents.head?.getD 0))) := by
          unfold baseOf
          simp only [exportOne, hhead]
          cases hp : (h[k]'hk').parents.head? with
          | none => intro q; simp [treeAt, flat, lookup]
          | some f =>
            simp only [Option.getD_some]
            have hfmem : f ∈ (h[k]'hk').parents := List.mem_of_head? hp
            have hfne : f ≠ 0 := by
              have : (List.filter (fun x => decide (x ≠ 0)) (h[k]'hk').parents).head? = some f := by rw [hhead, hp]
              have := List.mem_of_head? this
              simpa using (List.mem_filter.mp this).2
            have hfle : f ≤ k := ht k hk' f hfmem
            have hf1 : f - 1 < rs.length := by omega
            have hf2 : f - 1 < h.length := by omega
            have := (h3 (f - 1) hf2 hf1).2.2
            simp only [List.getElem?_eq_getElem hf1, treeAt, hfne, if_false, List.getElem?_eq_getElem hf2]
            exact this
        intro q
        rw [applyCmds_congr hbase _ q]
        exact hfaith q

/-! ### non-vacuity -/

example : WF [⟨1, 1, 11, false, 100⟩, ⟨2, 2, 12, false, 200⟩, ⟨3, 3, 13, true, 0⟩] ∧
    Topo [⟨[], [], 1⟩, ⟨[1], [], 2⟩, ⟨[1, 0], [], 3⟩, ⟨[3, 2], [], 4⟩] := by
  constructor
  · decide
  · intro i hi p hp
    simp only [List.length_cons, List.length_nil] at hi
    have : i = 0 ∨ i = 1 ∨ i = 2 ∨ i = 3 := by omega
    rcases this with h | h | h | h <;> subst h <;> simp at hp <;> omega

/-- the hypotheses of `export_import_tree_norename` on an add + modification + deletion -/
example : Stable [⟨1, 1, 11, false, 100⟩, ⟨2, 2, 12, false, 200⟩, ⟨3, 3, 13, true, 0⟩]
    [⟨1, 1, 11, false, 101⟩, ⟨3, 3, 13, true, 0⟩, ⟨4, 4, 14, false, 400⟩] := by
  unfold Stable; decide

/-- an add, a modification and a deletion in one commit -/
example :
    let old : Tree := [⟨1, 1, 11, false, 100⟩, ⟨2, 2, 12, false, 200⟩, ⟨3, 3, 13, true, 0⟩]
    let new : Tree := [⟨1, 1, 11, false, 101⟩, ⟨3, 3, 13, true, 0⟩, ⟨4, 4, 14, false, 400⟩]
    exportCmds old new = [.del 2, .mod 1 101, .mod 4 400] ∧
    applyCmds (flat old) (exportCmds old new) = [(4, 400), (1, 101)] := by
  decide +kernel

end BreezyVerif.C44
