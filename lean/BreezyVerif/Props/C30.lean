import BreezyVerif.Lemmas.C30CK
import BreezyVerif.Lemmas.C30V3
import BreezyVerif.Lemmas.C30Req
/-!
C30 — a smart server never waits for bytes beyond the current request.

For each decoder (state machines of Model/C29.lean, `nextReadSize` = `next_read_size()`):

* `*_hint_bound` (encoder independent, EVERY resting state `s`, EVERY continuation `q`):
  if feeding `q` completes the message, then `1 ≤ nextReadSize s` and
  `nextReadSize s + |unused_data afterwards| ≤ |q|` — the hint never reaches past
  the end of the current message, whatever the message is;
* `*_no_overread`: while a well-formed message is delivered in arbitrary reads, in
  every state reached, hint ∈ [1, bytes of the message not yet delivered], and the
  loop's exit test (`finished_reading` / hint = 0) is false;
* `*_done_exactly_at_end`: the exit test is true once the whole message has arrived;
* `*_loop_consumes_exactly`: the reading loop (`_serve_one_request_unguarded`,
  `_read_more`, `read_body_bytes`, `read_streamed_body`) under EVERY short-read
  schedule never blocks, terminates, and has consumed exactly the message.

Unbounded: all messages, all read patterns, all schedules.
-/
namespace BreezyVerif.C30
open BreezyVerif.C29

/-! ## LengthPrefixedBodyDecoder (client `read_body_bytes`, v1/v2 request bodies) -/

theorem lp_hint_bound (s : LP) (q : Bytes) (hwf : lpWf s) (hnf : s.finished = false)
    (hfin : (s.feed q).finished = true) :
    1 ≤ s.nextReadSize ∧ s.nextReadSize + ((s.feed q).unused.length : Int) ≤ q.length :=
  (lpLaws.hint s q hwf hnf hfin).2

theorem lp_feed_encode (body : Bytes) : LP.feed LP.init (lpEncode body) = .done body [] := by
  have := LP.feed_init_encode body []
  simpa using this

theorem lp_no_overread (body : Bytes) (segs : List Bytes) (q : Bytes)
    (hw : segs.flatten ++ q = lpEncode body) (hq : q ≠ []) :
    (feedAll LP.feed LP.init segs).finished = false ∧
    1 ≤ (feedAll LP.feed LP.init segs).nextReadSize ∧
    (feedAll LP.feed LP.init segs).nextReadSize ≤ q.length :=
  lpLaws.no_overread LP.init _ lpWf_init (by show (LP.feed LP.init _).finished = true; rw [lp_feed_encode]; rfl) (by show (LP.feed LP.init _).unused = []; rw [lp_feed_encode]; rfl)
    segs q hw hq

theorem lp_done_exactly_at_end (body : Bytes) (segs : List Bytes) (hne : segs ≠ [])
    (hw : segs.flatten = lpEncode body) : (feedAll LP.feed LP.init segs).finished = true :=
  lpLaws.stops_at_end LP.init _ (by show (LP.feed LP.init _).finished = true; rw [lp_feed_encode]; rfl) segs hne hw

theorem lp_loop_consumes_exactly (body : Bytes) (sched : Nat → Nat) (i : Nat)
    (segs : List Bytes) (q : Bytes) (hw : segs.flatten ++ q = lpEncode body) (hq : q ≠ []) :
    pipeLoop lpMachine sched (q.length + 1) i (feedAll LP.feed LP.init segs) q
      = .finished (.done body []) [] := by
  have := lpLaws.loop_from_reads LP.init _ lpWf_init (by show (LP.feed LP.init _).finished = true; rw [lp_feed_encode]; rfl)
    (by show (LP.feed LP.init _).unused = []; rw [lp_feed_encode]; rfl) sched i segs q hw hq
  have e : lpMachine.feed LP.init (lpEncode body) = .done body [] := lp_feed_encode body
  rw [e] at this
  exact this

example : lpWf (.readingBody 3 [1]) ∧ (LP.readingBody 3 [1]).finished = false ∧
    ((LP.readingBody 3 [1]).feed [7, 8, 9, 100, 111, 110, 101, 10, 55]).finished = true :=
  ⟨by simp [lpWf], by decide, by decide⟩

/-! ## ChunkedBodyDecoder (client `read_streamed_body`) -/

theorem ck_hint_bound (s : CK) (q : Bytes) (hwf : ckWf s) (hnf : s.finished = false)
    (hfin : (s.feed q).finished = true) :
    1 ≤ s.nextReadSize ∧ s.nextReadSize + ((s.feed q).unused.length : Int) ≤ q.length :=
  (ckLaws.hint s q hwf hnf hfin).2

theorem ck_feed_encode (chunks : List Bytes) (err : Option (List Bytes)) :
    CK.feed CK.init (ckEncode chunks err) = .done (ckExpected chunks err) [] := by
  have := CK.feed_init_encode chunks err []
  simpa using this

theorem ck_no_overread (chunks : List Bytes) (err : Option (List Bytes)) (segs : List Bytes)
    (q : Bytes) (hw : segs.flatten ++ q = ckEncode chunks err) (hq : q ≠ []) :
    (feedAll CK.feed CK.init segs).finished = false ∧
    1 ≤ (feedAll CK.feed CK.init segs).nextReadSize ∧
    (feedAll CK.feed CK.init segs).nextReadSize ≤ q.length :=
  ckLaws.no_overread CK.init _ ckWf_init (by simp only [ckMachine]; rw [ck_feed_encode]; rfl) (by simp only [ckMachine]; rw [ck_feed_encode]; rfl)
    segs q hw hq

theorem ck_done_exactly_at_end (chunks : List Bytes) (err : Option (List Bytes))
    (segs : List Bytes) (hne : segs ≠ []) (hw : segs.flatten = ckEncode chunks err) :
    (feedAll CK.feed CK.init segs).finished = true :=
  ckLaws.stops_at_end CK.init _ (by simp only [ckMachine]; rw [ck_feed_encode]; rfl) segs hne hw

theorem ck_loop_consumes_exactly (chunks : List Bytes) (err : Option (List Bytes))
    (sched : Nat → Nat) (i : Nat) (segs : List Bytes) (q : Bytes)
    (hw : segs.flatten ++ q = ckEncode chunks err) (hq : q ≠ []) :
    pipeLoop ckMachine sched (q.length + 1) i (feedAll CK.feed CK.init segs) q
      = .finished (.done (ckExpected chunks err) []) [] := by
  have := ckLaws.loop_from_reads CK.init _ ckWf_init (by simp only [ckMachine]; rw [ck_feed_encode]; rfl)
    (by simp only [ckMachine]; rw [ck_feed_encode]; rfl) sched i segs q hw hq
  have e : ckMachine.feed CK.init (ckEncode chunks err) = .done (ckExpected chunks err) [] :=
    ck_feed_encode chunks err
  rw [e] at this
  exact this

example : ckWf (.expectingLength [49] .empty) ∧
    ((CK.expectingLength [49] .empty).feed [10, 97, 69, 78, 68, 10]).finished = true :=
  ⟨by simp [ckWf], by decide +kernel⟩

/-! ## ProtocolThreeDecoder (server pipe medium; client `_read_more`) -/

theorem v3_hint_bound (s : V3) (q : Bytes) (hwf : v3Wf s) (hnf : s.finished = false)
    (hfin : (s.feed q).finished = true) :
    1 ≤ s.nextReadSize ∧ s.nextReadSize + ((s.feed q).unused.length : Int) ≤ q.length :=
  (v3Laws.hint s q hwf hnf hfin).2

theorem v3s_feed_encode (headers : Bytes) (parts : List Part)
    (hh : headers.length < 4294967296) (hp : V3.partsOk parts = true) :
    V3.feed (V3.init false) (v3EncodeBody headers parts)
      = .done (.headers headers :: (parts.map Part.ev ++ [.end_])) [] := by
  have := V3.proc_headers_encode headers parts [] [] hh hp
  simp only [List.append_nil, List.nil_append] at this
  simp only [V3.init, Bool.false_eq_true, if_false, V3.feed_run, List.nil_append]
  exact this

theorem v3c_feed_encode (headers : Bytes) (parts : List Part)
    (hh : headers.length < 4294967296) (hp : V3.partsOk parts = true) :
    V3.feed (V3.init true) (v3Encode headers parts)
      = .done (.headers headers :: (parts.map Part.ev ++ [.end_])) [] := by
  have := V3.proc_version_encode headers parts [] hh hp
  simp only [List.append_nil] at this
  simp only [V3.init, if_true, V3.feed_run, List.nil_append]
  exact this

/-- server side: the medium has consumed the version marker -/
theorem v3s_no_overread (headers : Bytes) (parts : List Part)
    (hh : headers.length < 4294967296) (hp : V3.partsOk parts = true)
    (segs : List Bytes) (q : Bytes) (hw : segs.flatten ++ q = v3EncodeBody headers parts)
    (hq : q ≠ []) :
    (feedAll V3.feed (V3.init false) segs).nextReadSize ≠ 0 ∧
    1 ≤ (feedAll V3.feed (V3.init false) segs).nextReadSize ∧
    (feedAll V3.feed (V3.init false) segs).nextReadSize ≤ q.length := by
  have := v3Laws.no_overread (V3.init false) _ (v3Wf_init false)
    (by show (V3.feed (V3.init false) _).finished = true; rw [v3s_feed_encode _ _ hh hp]; rfl) (by show (V3.feed (V3.init false) _).unused = []; rw [v3s_feed_encode _ _ hh hp]; rfl) segs q hw hq
  simpa [v3Machine] using this

theorem v3s_zero_exactly_at_end (headers : Bytes) (parts : List Part)
    (hh : headers.length < 4294967296) (hp : V3.partsOk parts = true)
    (segs : List Bytes) (hne : segs ≠ []) (hw : segs.flatten = v3EncodeBody headers parts) :
    (feedAll V3.feed (V3.init false) segs).nextReadSize = 0 := by
  have := v3Laws.stops_at_end (V3.init false) _ (by show (V3.feed (V3.init false) _).finished = true; rw [v3s_feed_encode _ _ hh hp]; rfl) segs hne hw
  simpa [v3Machine] using this

theorem v3s_loop_consumes_exactly (headers : Bytes) (parts : List Part)
    (hh : headers.length < 4294967296) (hp : V3.partsOk parts = true)
    (sched : Nat → Nat) (i : Nat) (segs : List Bytes) (q : Bytes)
    (hw : segs.flatten ++ q = v3EncodeBody headers parts) (hq : q ≠ []) :
    pipeLoop v3Machine sched (q.length + 1) i (feedAll V3.feed (V3.init false) segs) q
      = .finished (.done (.headers headers :: (parts.map Part.ev ++ [.end_])) []) [] := by
  have := v3Laws.loop_from_reads (V3.init false) _ (v3Wf_init false)
    (by show (V3.feed (V3.init false) _).finished = true; rw [v3s_feed_encode _ _ hh hp]; rfl) (by show (V3.feed (V3.init false) _).unused = []; rw [v3s_feed_encode _ _ hh hp]; rfl)
    sched i segs q hw hq
  have e : v3Machine.feed (V3.init false) _ = _ := v3s_feed_encode headers parts hh hp
  rw [e] at this
  exact this

/-- client side: the decoder expects the version marker itself -/
theorem v3c_no_overread (headers : Bytes) (parts : List Part)
    (hh : headers.length < 4294967296) (hp : V3.partsOk parts = true)
    (segs : List Bytes) (q : Bytes) (hw : segs.flatten ++ q = v3Encode headers parts)
    (hq : q ≠ []) :
    (feedAll V3.feed (V3.init true) segs).nextReadSize ≠ 0 ∧
    1 ≤ (feedAll V3.feed (V3.init true) segs).nextReadSize ∧
    (feedAll V3.feed (V3.init true) segs).nextReadSize ≤ q.length := by
  have := v3Laws.no_overread (V3.init true) _ (v3Wf_init true)
    (by show (V3.feed (V3.init true) _).finished = true; rw [v3c_feed_encode _ _ hh hp]; rfl) (by show (V3.feed (V3.init true) _).unused = []; rw [v3c_feed_encode _ _ hh hp]; rfl) segs q hw hq
  simpa [v3Machine] using this

theorem v3c_zero_exactly_at_end (headers : Bytes) (parts : List Part)
    (hh : headers.length < 4294967296) (hp : V3.partsOk parts = true)
    (segs : List Bytes) (hne : segs ≠ []) (hw : segs.flatten = v3Encode headers parts) :
    (feedAll V3.feed (V3.init true) segs).nextReadSize = 0 := by
  have := v3Laws.stops_at_end (V3.init true) _ (by show (V3.feed (V3.init true) _).finished = true; rw [v3c_feed_encode _ _ hh hp]; rfl) segs hne hw
  simpa [v3Machine] using this

theorem v3c_loop_consumes_exactly (headers : Bytes) (parts : List Part)
    (hh : headers.length < 4294967296) (hp : V3.partsOk parts = true)
    (sched : Nat → Nat) (i : Nat) (segs : List Bytes) (q : Bytes)
    (hw : segs.flatten ++ q = v3Encode headers parts) (hq : q ≠ []) :
    pipeLoop v3Machine sched (q.length + 1) i (feedAll V3.feed (V3.init true) segs) q
      = .finished (.done (.headers headers :: (parts.map Part.ev ++ [.end_])) []) [] := by
  have := v3Laws.loop_from_reads (V3.init true) _ (v3Wf_init true)
    (by show (V3.feed (V3.init true) _).finished = true; rw [v3c_feed_encode _ _ hh hp]; rfl) (by show (V3.feed (V3.init true) _).unused = []; rw [v3c_feed_encode _ _ hh hp]; rfl)
    sched i segs q hw hq
  have e : v3Machine.feed (V3.init true) _ = _ := v3c_feed_encode headers parts hh hp
  rw [e] at this
  exact this

example : v3Wf (.run .bytes [0, 0, 0, 2, 9] [] 6) ∧
    ((V3.run .bytes [0, 0, 0, 2, 9] [] 6).feed [9, 101]).finished = true :=
  ⟨by show extractLP _ = _; decide, by decide +kernel⟩

/-! ## protocol 1 / 2 server (`SmartServerRequestProtocolOne.next_read_size`) -/

theorem req_hint_bound (w : List Bytes → Bool) (s : Req) (q : Bytes) (hwf : reqWf s)
    (hnf : s.finished = false) (hfin : (s.feed w q).finished = true) :
    1 ≤ s.nextReadSize ∧ s.nextReadSize + ((s.feed w q).unused.length : Int) ≤ q.length :=
  ((reqLaws w).hint s q hwf hnf hfin).2

theorem req_feed_encode (w : List Bytes → Bool) (args : List Bytes) (body : Option Bytes)
    (hok : Req.argsOk args = true) (hw : w args = body.isSome) :
    Req.feed w (.line []) (reqEncode args body) = .done args body [] := by
  have := Req.feed_init_encode w args body [] hok hw
  simpa using this

theorem req_no_overread (w : List Bytes → Bool) (args : List Bytes) (body : Option Bytes)
    (hok : Req.argsOk args = true) (hwb : w args = body.isSome)
    (segs : List Bytes) (q : Bytes) (hw : segs.flatten ++ q = reqEncode args body) (hq : q ≠ []) :
    (feedAll (Req.feed w) (.line []) segs).nextReadSize ≠ 0 ∧
    1 ≤ (feedAll (Req.feed w) (.line []) segs).nextReadSize ∧
    (feedAll (Req.feed w) (.line []) segs).nextReadSize ≤ q.length := by
  have := (reqLaws w).no_overread (.line []) _ reqWf_init
    (by show (Req.feed w (.line []) _).finished = true; rw [req_feed_encode w _ _ hok hwb]; rfl)
    (by show (Req.feed w (.line []) _).unused = []; rw [req_feed_encode w _ _ hok hwb]; rfl) segs q hw hq
  simpa [reqMachine] using this

theorem req_zero_exactly_at_end (w : List Bytes → Bool) (args : List Bytes) (body : Option Bytes)
    (hok : Req.argsOk args = true) (hwb : w args = body.isSome)
    (segs : List Bytes) (hne : segs ≠ []) (hw : segs.flatten = reqEncode args body) :
    (feedAll (Req.feed w) (.line []) segs).nextReadSize = 0 := by
  have := (reqLaws w).stops_at_end (.line []) _
    (by show (Req.feed w (.line []) _).finished = true; rw [req_feed_encode w _ _ hok hwb]; rfl) segs hne hw
  simpa [reqMachine] using this

theorem req_loop_consumes_exactly (w : List Bytes → Bool) (args : List Bytes) (body : Option Bytes)
    (hok : Req.argsOk args = true) (hwb : w args = body.isSome)
    (sched : Nat → Nat) (i : Nat) (segs : List Bytes) (q : Bytes)
    (hw : segs.flatten ++ q = reqEncode args body) (hq : q ≠ []) :
    pipeLoop (reqMachine w) sched (q.length + 1) i (feedAll (Req.feed w) (.line []) segs) q
      = .finished (.done args body []) [] := by
  have := (reqLaws w).loop_from_reads (.line []) _ reqWf_init
    (by show (Req.feed w (.line []) _).finished = true; rw [req_feed_encode w _ _ hok hwb]; rfl)
    (by show (Req.feed w (.line []) _).unused = []; rw [req_feed_encode w _ _ hok hwb]; rfl) sched i segs q hw hq
  have e : (reqMachine w).feed (.line []) _ = _ := req_feed_encode w args body hok hwb
  rw [e] at this
  exact this

example : reqWf (.line [104]) ∧ ((Req.line [104]).feed (fun _ => false) [105, 10]).finished = true :=
  ⟨by simp [reqWf], by decide⟩

end BreezyVerif.C30
