import BreezyVerif.Common
import BreezyVerif.Model.C13
/-
C13 driver.  One request:

  apply <order D|M> <fault1 ~|n> <fault2 ~|n> <fs> <ops>

fs  = entries joined by `;`, entry = `<path>|<kind f|d|l>|<data>`; path = components
      joined by `/` (each component hex), root = `.`; data = hex string or `-`
ops = `r:<path>:<path>` | `p:<path>:<path>` joined by `;` (`-` = none)

reply: `<raised|~> <md old|new> <rollbackFailed T|F> <noClobber T|F> <fs sorted, same encoding>`
-/
namespace BreezyVerif.C13

def parsePath (s : String) : Option Path :=
  if s == "." then some [] else (s.splitOn "/").mapM fun c => if c.isEmpty then none else some c

def showPath (p : Path) : String := if p.isEmpty then "." else "/".intercalate p

def parseEntry (s : String) : Option (Path × Node) :=
  match s.splitOn "|" with
  | [p, "f", d] => (parsePath p).map fun p => (p, .file d)
  | [p, "d", _] => (parsePath p).map fun p => (p, .dir)
  | [p, "l", d] => (parsePath p).map fun p => (p, .link d)
  | _ => none

def showEntry (e : Path × Node) : String :=
  match e.2 with
  | .file d => s!"{showPath e.1}|f|{d}"
  | .dir => s!"{showPath e.1}|d|-"
  | .link d => s!"{showPath e.1}|l|{d}"

def parseFS (s : String) : Option FS :=
  if s == "-" then some [] else (s.splitOn ";").mapM parseEntry

def showFS (fs : FS) : String :=
  joinList' ((fs.map showEntry).mergeSort (fun a b => decide (a ≤ b)))
where joinList' (l : List String) : String := if l.isEmpty then "-" else ";".intercalate l

def parseOp (s : String) : Option Op :=
  match s.splitOn ":" with
  | ["r", a, b] => do pure (.rename (← parsePath a) (← parsePath b))
  | ["p", a, b] => do pure (.preDelete (← parsePath a) (← parsePath b))
  | _ => none

def parseOps (s : String) : Option (List Op) :=
  if s == "-" then some [] else (s.splitOn ";").mapM parseOp

def handle : List String → String
  | ["apply", o, f1, f2, fs, ops] =>
    match (if o == "D" then some Order.deletionsFirst else if o == "M" then some Order.metadataFirst else none),
          optNat f1, optNat f2, parseFS fs, parseOps ops with
    | some o, some f1, some f2, some fs, some ops =>
      let r := apply o fs ops f1 f2
      let raised := match r.raised with | none => "~" | some e => e.toString
      let md := match r.md with | .old => "old" | .new => "new"
      s!"{raised} {md} {showBool r.rollbackFailed} {showBool (noClobber { fs := fs } ops f1)} {showFS r.fs}"
    | _, _, _, _, _ => "bad-op"
  | _ => "bad-op"

end BreezyVerif.C13

def main : IO Unit := BreezyVerif.runDriver BreezyVerif.C13.handle
