import BreezyVerif.Model.C36
/-! C36 — lemmas about the UTF-8 codec model. -/
namespace BreezyVerif.C36

/-- a successfully decoded sequence is the (strict) encoding of its code point -/
theorem decodeStep_sound' {l : NBytes} {c : Nat} {r : NBytes} (h : decodeStep l = some (c, r)) :
    (encCp false c).map (· ++ r) = some l := by
  unfold decodeStep at h
  repeat' split at h
  all_goals try (simp at h; done)
  all_goals (
    simp only [Option.some.injEq, Prod.mk.injEq] at h
    obtain ⟨rfl, rfl⟩ := h
    unfold encCp
    repeat' split
    all_goals first
      | omega
      | (simp only [Option.map_some, Option.some.injEq, List.cons_append, List.nil_append, List.cons.injEq,
          and_true]; omega)
      | simp)


/-- the strict encoding of a code point decodes back to it, whatever follows -/
theorem decodeStep_complete {c : Nat} {p : NBytes} (r : NBytes) (h : encCp false c = some p) :
    decodeStep (p ++ r) = some (c, r) := by
  unfold encCp at h
  repeat' split at h
  all_goals try (simp at h; done)
  all_goals (
    simp only [Option.some.injEq] at h
    subst h
    simp only [List.cons_append, List.nil_append, decodeStep]
    repeat' split
    all_goals first
      | omega
      | (simp only [Option.some.injEq, Prod.mk.injEq, and_true]; omega)
      | simp
      | (exfalso; omega))

theorem encCp_true_of_false {c : Nat} {p : NBytes} (h : encCp false c = some p) :
    encCp true c = some p := by
  unfold encCp at h ⊢
  repeat' split at h
  all_goals try (simp at h; done)
  all_goals (
    repeat' split
    all_goals first
      | exact h
      | omega
      | simp_all)

end BreezyVerif.C36
