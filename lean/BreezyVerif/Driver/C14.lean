import BreezyVerif.Common
import BreezyVerif.Model.C14
/-
C14 driver.  One request:

  run <flags> <base> <ops>

flags = 10 letters T/F: git, dataByTreePath, execByTreePath, childrenGet, cancelGuarded, loopGuarded,
        upSkipsIdless, npReleasesId, unversionTolerant, deltaDropsOldId
base  = entries joined by `;`: `parent|name|kind|data|exec|fid`
        (parent `~` or a number; name `-` = empty; kind f/d/l/~; data token or `-`; exec T/F; fid token or `~`)
ops   = joined by `;` (`-` = none):
        nf|name|parent|data|fid|exec  nd|name|parent|fid  ns|name|parent|target|fid  dc|t  ap|name|parent|t
        vf|t|fid  uf|t  sx|b|t  cf|data|t  cd|t

reply = `<oplog> <conflicts> <resolution> <preview> <applied> <shadowed> <final> <apply> <diag>`
  oplog      ok | E:<err>
  conflicts  find_raw_conflicts() before resolution, `,`-joined, `-` = none
  resolution clean | malformed:<conflicts> | crashed:<err>@<conflict being resolved> | -
  preview / final   entries `path|kind|data|exec|versioned` of the live trans-ids at their final paths,
             joined by `;` (`-` = none), data `!` = exception
  applied    the same, enumerated from the applied *disk* (inodes with a directory entry, at the path
             their directory entries spell) plus, for bzr, inventory entries without a file; `-` unless
             apply() returned
  shadowed   paths joined by `;`
  apply      ok | E:<err>:<same|changed> (is the disk left behind the one before?) | -
  diag       wf=<T|F>,bwf=<T|F>,rev=<ids joined by +>,dang=<ids joined by +>,vbn=<ids joined by +>,ghyp=<T|F>,bhyp=<T|F>,rhyp=<T|F>,fuel=<T|F>
-/
namespace BreezyVerif.C14

def tok (s : String) : String := if s.isEmpty then "-" else s
def untok (s : String) : String := if s == "-" then "" else s

def parseKind (s : String) : Option (Option Kind) :=
  if s == "f" then some (some .file) else if s == "d" then some (some .dir)
  else if s == "l" then some (some .symlink) else if s == "~" then some none else none

def showKind : Option Kind → String
  | some .file => "f" | some .dir => "d" | some .symlink => "l" | none => "~"

def optTok (s : String) : Option String := if s == "~" then none else some (untok s)

def parseBase (s : String) : Option Base :=
  match s.splitOn "|" with
  | [p, n, k, d, e, f] => do
    let p ← optNat p
    let k ← parseKind k
    let e ← parseBool e
    pure { parent := p, name := untok n, kind := k, data := untok d, exec := e, fid := optTok f }
  | _ => none

def parseOptBool (s : String) : Option (Option Bool) :=
  if s == "~" then some none else (parseBool s).map some

def parseOp (s : String) : Option Op :=
  match s.splitOn "|" with
  | ["nf", n, p, d, f, e] => do pure (.newFile n (← p.toNat?) (untok d) (optTok f) (← parseOptBool e))
  | ["nd", n, p, f] => do pure (.newDir n (← p.toNat?) (optTok f))
  | ["ns", n, p, d, f] => do pure (.newSymlink n (← p.toNat?) (untok d) (optTok f))
  | ["dc", t] => do pure (.deleteContents (← t.toNat?))
  | ["ap", n, p, t] => do pure (.adjustPath n (← p.toNat?) (← t.toNat?))
  | ["vf", t, f] => do pure (.versionFile (← t.toNat?) (untok f))
  | ["uf", t] => do pure (.unversionFile (← t.toNat?))
  | ["sx", b, t] => do pure (.setExec (← parseBool b) (← t.toNat?))
  | ["cf", d, t] => do pure (.createFile (untok d) (← t.toNat?))
  | ["cd", t] => do pure (.createDir (← t.toNat?))
  | _ => none

def parseFlags (s : String) : Option Flags :=
  match s.toList.map (fun c => parseBool (String.singleton c)) with
  | [some a, some b, some c, some d, some e, some f, some g, some h, some i, some j] =>
    some { git := a, dataByTreePath := b, execByTreePath := c, childrenGet := d, cancelGuarded := e, loopGuarded := f,
           upSkipsIdless := g, npReleasesId := h, unversionTolerant := i, deltaDropsOldId := j }
  | _ => none

def Err.show : Err → String
  | .duplicateKey => "DuplicateKey" | .cantMoveRoot => "CantMoveRoot" | .keyError => "KeyError"
  | .noFinalPath => "NoFinalPath" | .malformed => "MalformedTransform" | .valueError => "ValueError"
  | .isADirectory => "IsADirectoryError" | .fileExists => "FileExistsError"
  | .renameFailed => "TransformRenameFailed" | .inconsistentDelta => "InconsistentDelta"

def Conflict.show : Conflict → String
  | .unversionedParent p => s!"up:{p}"
  | .parentLoop t => s!"pl:{t}"
  | .duplicate a b n => s!"du:{a}:{b}:{n}"
  | .missingParent p => s!"mp:{p}"
  | .nonDirParent p => s!"np:{p}"
  | .versioningNoContents t => s!"vn:{t}"
  | .unversionedExec t => s!"ue:{t}"
  | .nonFileExec t => s!"ne:{t}"
  | .overwrite t n => s!"ow:{t}:{n}"
  | .duplicateId a b => s!"di:{a}:{b}"

def showConflicts (cs : List Conflict) : String := joinList (cs.map Conflict.show)

def semi (l : List String) : String := if l.isEmpty then "-" else ";".intercalate l

def showPath (p : List String) : String := if p.isEmpty then "." else "/".intercalate p

def showEntry (p : List String) (k : Option Kind) (d : Option String) (x v : Bool) : String :=
  let ds := match d with | some d => tok d | none => "!"
  s!"{showPath p}|{showKind k}|{ds}|{showBool x}|{showBool v}"

/-- the conflict whose resolver raises in `conflict_pass`, with the error -/
def passDiag (fl : Flags) (tt : TT) : List Conflict → Option (Conflict × Err)
  | [] => none
  | c :: cs =>
    match tt.resolveOne fl c with
    | .ok tt' => passDiag fl tt' cs
    | .error e => some (c, e)

/-- mirrors `TT.resolve`: where does the loop crash? -/
def resolveDiag (fl : Flags) : Nat → TT → Option (Conflict × Err)
  | 0, _ => none
  | fuel + 1, tt =>
    let cs := tt.findRawConflicts fl
    if cs.isEmpty then none
    else match tt.conflictPass fl cs with
      | .ok tt' => resolveDiag fl fuel tt'
      | .error _ => passDiag fl tt cs

def plusList (l : List Nat) : String := if l.isEmpty then "-" else "+".intercalate (l.map toString)

/-- the applied tree as a dump would find it: walk the disk, then add what only the metadata has -/
def appliedDump (fl : Flags) (tt : TT) : List String :=
  let onDisk := tt.appliedPaths.map fun e =>
    let r := tt.appliedEntry fl e.1 e.2
    showEntry e.2 r.kind (some r.data) r.exec r.versioned
  let diskPaths := tt.appliedPaths.map (·.2)
  let metaOnly : List (List String) :=
    if fl.git then []
    else ((tt.appliedInv fl).filterMap fun e => invPath (tt.appliedInv fl) ((tt.appliedInv fl).length + 1) e.1).filter
      fun p => !p.isEmpty && !diskPaths.contains p
  onDisk ++ metaOnly.map fun p => showEntry p none (some "") false true

def handle : List String → String
  | ["run", fl, base, ops] =>
    match parseFlags fl, (base.splitOn ";").mapM parseBase,
          (if ops == "-" then some [] else (ops.splitOn ";").mapM parseOp) with
    | some fl, some base, some ops =>
      let tt0 : TT := { base := base, next := base.length }
      match tt0.steps fl ops with
      | (_, some e) => s!"E:{e.show} - - - - - - - -"
      | (tt, none) =>
        if tt.addTreeChildrenRaises fl then "ok E:NoSuchFile - - - - - - -" else
        let c0 := showConflicts (tt.findRawConflicts fl)
        match tt.resolveConflicts fl with
        | .malformed cs => s!"ok {c0} malformed:{showConflicts cs} - - - - - -"
        | .crashed e =>
          let at_ := match resolveDiag fl passCount tt with
            | some (c, _) => c.show
            | none => "?"
          s!"ok {c0} crashed:{e.show}@{at_} - - - - - -"
        | .clean tt' =>
          let lp := tt'.livePaths
          let pv := lp.map fun e => let r := tt'.previewEntry fl e.1 e.2; showEntry e.2 r.kind r.data r.exec r.versioned
          let fe := lp.map fun e => let r := tt'.finalEntry e.1; showEntry e.2 r.kind (some r.data) r.exec r.versioned
          let flt := match tt.resolveAndApplyFaulted fl with
            | .applied _ _ => "ok"
            | .raised e d => s!"E:{e.show}:{if diskSame d tt.baseDisk then "same" else "changed"}"
          let diag := s!"wf={showBool tt'.wf},bwf={showBool tt'.baseWf},rev={plusList tt'.reversioned},dang={plusList tt'.dangling},vbn={plusList tt'.versionedBelowNonDir},ghyp={showBool tt'.gitHyps},bhyp={showBool tt'.bzrHyps},rhyp={showBool tt'.rootHyps},fuel={showBool (tt.fuelOk && tt'.fuelOk)},flt={flt}"
          -- the outcome of the whole run is taken from `resolveAndApply` on the *original* transform
          let (ap, out) := match tt.resolveAndApply fl with
            | .applied tta _ => (semi (appliedDump fl tta), "ok")
            | .raised e d => ("-", s!"E:{e.show}:{if diskSame d tt.baseDisk then "same" else "changed"}")
          s!"ok {c0} clean {semi pv} {ap} {semi (tt'.shadowed.map showPath)} {semi fe} {out} {diag}"
    | _, _, _ => "bad-op"
  | _ => "bad-op"

end BreezyVerif.C14

def main : IO Unit := BreezyVerif.runDriver BreezyVerif.C14.handle
