import BreezyVerif.Common
import BreezyVerif.Model.C09
/-
C09 driver.

  run <flavour b|g> <ops joined by `,`>
      -> one block per op joined by `#`: `<ok|err>@<okState T|F>@<listing>@<status>@<disk>`

op      = mkfile:<path>:<content> | write:<path>:<content> | chmod:<path>:<T|F> | mkdir:<path> | add:<path>
        | remove:<path>:<k|f> | rename:<path>:<path> | commit | revert | revert:b (backups) | reopen
        | unversion:<path> | mklink:<path>:<target> | revertp:<path>:<n|b> (revert of one file, without / with backups)
path    = components joined by `/`, `.` = root; content = opaque token (hex, `-` = empty)
listing = `path|kind|content|exec` sorted, joined by `;` (versioned entries); disk = the same for every object below the root
status  = flavour b: `srcpath|tgtpath|changed_content|versioned|kind0|kind1|exec0|exec1` (iter_changes without ids)
          flavour g: `+|path|kind`, `-|path|kind`, `M|path`        sorted, joined by `;`, `-` = none
-/
namespace BreezyVerif.C09
open BreezyVerif.C10

def parsePath (s : String) : Option Path :=
  if s == "." then some [] else (s.splitOn "/").mapM fun c => if c.isEmpty then none else some c

def showPath (p : Path) : String := if p.isEmpty then "." else "/".intercalate p

def parseOp (s : String) : Option Op :=
  match s.splitOn ":" with
  | ["mkfile", p, c] => (parsePath p).map fun p => .mkfile p c
  | ["write", p, c] => (parsePath p).map fun p => .write p c
  | ["chmod", p, x] => do pure (.chmod (← parsePath p) (← parseBool x))
  | ["mkdir", p] => (parsePath p).map .mkdir
  | ["add", p] => (parsePath p).map .add
  | ["remove", p, "k"] => (parsePath p).map fun p => .remove p false
  | ["remove", p, "f"] => (parsePath p).map fun p => .remove p true
  | ["unversion", p] => (parsePath p).map .unversion
  | ["rename", a, b] => do pure (.rename (← parsePath a) (← parsePath b))
  | ["commit"] => some .commit
  | ["revert"] => some (.revert false)
  | ["revert", "b"] => some (.revert true)
  | ["revertp", p, "n"] => (parsePath p).map fun p => .revertPath p false
  | ["revertp", p, "b"] => (parsePath p).map fun p => .revertPath p true
  | ["mklink", p, t] => (parsePath p).map fun p => .mklink p t
  | ["reopen"] => some .reopen
  | _ => none

def showKind : Kind → String
  | .file => "file" | .dir => "directory" | .symlink => "symlink"

def showNode (p : Path) (n : Node) : String :=
  match n with
  | .file c x => s!"{showPath p}|file|{c}|{showBool x}"
  | .dir => s!"{showPath p}|directory|-|F"
  | .symlink t => s!"{showPath p}|symlink|{t}|F"

def sortStrings (l : List String) : List String := l.mergeSort (fun a b => decide (a ≤ b))

def joinSemi (l : List String) : String := if l.isEmpty then "-" else ";".intercalate l

def showOpt {α : Type} (f : α → String) : Option α → String
  | none => "~"
  | some a => f a

def showChange (c : Change) : String :=
  "|".intercalate [showOpt showPath c.srcPath, showOpt showPath c.tgtPath, showBool c.changedContent,
    showBool c.src.isSome ++ showBool c.tgt.isSome,
    showOpt (fun m : Meta => showKind m.kind) c.src, showOpt (fun m : Meta => showKind m.kind) c.tgt,
    showOpt (fun m : Meta => showBool m.exec) c.src, showOpt (fun m : Meta => showBool m.exec) c.tgt]

def showPathChange : PathChange → String
  | .added p k => s!"+|{showPath p}|{showKind k}"
  | .removed p k => s!"-|{showPath p}|{showKind k}"
  | .modified p => s!"M|{showPath p}"

def observe (fl : Flavour) (s : State) (o : Out) : String :=
  let l := joinSemi (sortStrings ((listing (wtTree s)).map fun x => showNode x.1 x.2))
  let st := match fl with
    | .bzr => joinSemi (sortStrings ((status s).map showChange))
    | .git => joinSemi (sortStrings ((pathStatus s).map showPathChange))
  let out := match o with | .ok => "ok" | .err => "err"
  -- everything on disk below the root (versioned or not)
  let d := joinSemi (sortStrings (((listing s.disk).filter fun x => !x.1.isEmpty).map fun x => showNode x.1 x.2))
  -- the invariant: well-formed state; git: the basis is something git can represent (the
  -- hypotheses of `step_revert_status_empty_git_closed`)
  let inv := okState s && (fl == .bzr || gitClosed s.basis)
  s!"{out}@{showBool inv}@{l}@{st}@{d}"

def runObs (fl : Flavour) : State → List Op → List String
  | _, [] => []
  | s, op :: rest =>
    let r := step fl s op
    observe fl r.1 r.2 :: runObs fl r.1 rest

def handle : List String → String
  | ["run", f, ops] =>
    match (if f == "b" then some Flavour.bzr else if f == "g" then some Flavour.git else none),
          (if ops == "-" then some [] else (ops.splitOn ",").mapM parseOp) with
    | some fl, some ops => "#".intercalate (runObs fl init ops)
    | _, _ => "bad-op"
  | _ => "bad-op"

end BreezyVerif.C09

def main : IO Unit := BreezyVerif.runDriver BreezyVerif.C09.handle
