"""C23 — checkouts and their master branches stay in step.

Mechanism: breezy/commit.py (Commit._check_bound_branch, _check_out_of_date_tree,
_update_branches: master first, then local), breezy/bzr/branch.py
(BzrBranch.update, bind, unbind, get_master_branch, set_last_revision_info),
breezy/branch.py (GenericInterBranch.pull / _update_revisions,
import_last_revision_info_and_tags), breezy/bzr/workingtree.py
(InventoryWorkingTree.update / _update_tree / pull).

Cases: random operation sequences (<= 15 ops; thorough <= 25) over ONE master
branch with its own working tree (M), TWO heavyweight checkouts (H and G: own
branches, bound) and a lightweight checkout (L: the branch is the master) with
real 2a trees: commit in M / H / G / L, commit --local, update in each tree,
pull from the master in H / G, unbind / bind of H / G; bind / unbind of the
MASTER itself to the third branch (bM / xM: commits through a checkout must
then fail with CommitToDoubleBoundBranch; operations that would involve the
master's own master are not generated while it is bound); plus an independent branch O (own repository
and tree: commit in O, O pulls the master with overwrite), pull from O into H /
L / M with stop_revision = every revision of O's left-hand line or none, with
and without overwrite and local=True (also into G), and push of H's / G's branch /
the master into a third branch P.  Sequences are generated adaptively (stop revisions are read
from the real branch O); fixed and corpus sequences run first.  Every commit adds a new file whose name is
unique to the step, so tree merges never conflict (update and pull run real
merges).

T2: the whole sequence is replayed by the Lean model (Model/C23.lean, `step`;
    the second checkout is `Op.onH2`, the first one with the roles exchanged);
    after every step both sides are compared on: outcome (ok / error kind),
    master (revno, tip), local (revno, tip) and bound flag of BOTH checkouts,
    the master's own binding, the parent ids of the four working trees, and the
    tip writes of the step in order (which branch got which revision - from
    Branch.hooks['post_change_branch_tip']).  The model's revnos are the
    structural left-hand length of the tip in the model's graph.
Oracle (independent of the model, after every step): P1 a successful commit in
    the bound checkout ends with master tip = local tip = new revision and the
    tip writes are exactly [master, local] in this order; P2 a commit in the
    bound checkout while master tip != local tip is refused with
    BoundBranchOutOfDate; every refused operation leaves both tips, the bound
    flag and all tree parents unchanged; P3 a successful commit --local moves
    only the local tip; commits in M / L move only the master tip; P4 update in
    the bound checkout leaves local tip = master tip and the tree based on it;
    P5 pull from the master leaves the local tip = master tip unless the local
    branch already contains the master's tip (then nothing changes) or the
    two have diverged (then DivergedBranches and nothing changes); update of
    M / L bases the tree on the master tip; P6 a commit from a tree that is not
    based on the (non-null) tip it commits to is refused; P7 local commits that
    update pivots out of the local branch stay referenced as a pending merge.

Oracle P8: a successful non-local operation (commit, update, pull from the
master, pull from O with any stop revision) in a bound checkout that was in
step with its master leaves local tip == master tip; a pull with a stop
revision moves tips only to that revision; master written before local.

Oracle P11: no working tree ever lists a revision twice among its parents
(theorem run_tree_parents_nodup; the model follows WorkingTree4.set_parent_trees:
the basis is kept, a pending merge is dropped when listed already or when it is
not a head of the parent list).  Oracle P9: after every step the tree of each heavyweight checkout is based on
the tip of its branch (theorem run_tree_basis_invariant).  P10: a commit through
a bound checkout whose master is itself bound fails with
CommitToDoubleBoundBranch and changes nothing.  Frame: an operation in one
heavyweight checkout never changes the other one's branch, binding or tree.
P8 extended: a checkout in step is still in step after any step-keeping
operation, refused ones included (theorem run_in_step_invariant).  The clauses
are evaluated for the second checkout through the same code with the roles of
the two checkouts exchanged (swap_view).

Finding on the unchanged code (family pull-into-bound-branch-master-moved-before-local-diverged):
pull from another branch into a bound checkout that has local-only commits pulls
the MASTER first and then raises DivergedBranches for the local branch - a refused
operation that moved the master (model: pull_other_master_moved_witness).

Finding on the unchanged code (family update-bound-to-empty-master-keeps-local-tip):
update in a checkout bound to an EMPTY master after commit --local leaves the
local tip ahead of the master (_update_revisions returns early for a null source
tip even with overwrite) - model: update_empty_master_witness.

Mutants tried in a scratch worktree (the family above ignored):
 m1 _update_branches: local tip written before the master            -> oracle P1 (order of tip writes) + T2
 m2 _check_bound_branch: the local/master comparison removed           -> oracle P2 + T2
 m3 _check_bound_branch: master looked up also for --local              -> oracle P3 + T2
 m4 BzrBranch.update: pull without overwrite                            -> oracle P4 (DivergedBranches) + T2
 m5 _check_out_of_date_tree: null test applied to the tree parent        -> oracle P6 + T2
 m6 _update_tree: old tip not kept as pending merge                     -> oracle P7 + T2 (tree parents)
 harmless: _update_branches with the progress-stage calls removed        -> clean
 seeded (coordinator): GenericInterBranch.pull does not pass stop_revision to the master pull
                                                                        -> oracle P8 + stop-revision check + T2 (corpus 01, every seed)
Improvement round: n1 _check_bound_branch: CommitToDoubleBoundBranch test disabled -> oracle P10 + T2;
 m1, m4 and the stored seed re-run against the two-checkout alphabet       -> oracle (seeds 0..3)
"""
import os
import shutil

from vlib import env

THEOREMS = [
    "bound_commit_master_first", "bound_commit_refused_noop", "double_bound_commit_refused", "local_commit_only_local",
    "master_commit_only_master", "unbound_commit_only_local",
    "update_equalises_partial", "update_empty_master_witness",
    "pull_equalises_or_refuses_partial", "pull_equalises", "pull_local_ahead_witness",
    "refused_noop", "pull_other_refused_exact", "refused_noop_strict",
    "bound_pull_other_same_revision", "pull_other_refused_local_unchanged", "pull_other_master_moved_witness",
    "pull_other_local_only", "h2_symmetry", "bound_commit_master_first_h2",
    "run_master_first", "in_step_preserved", "run_in_step_invariant", "run_in_step_from_init",
    "run_in_step_after_update", "run_in_step_after_commit", "run_tree_basis_invariant",
    "bound_commit_revnos", "run_bound_commit_revnos", "step_tree_parents_nodup", "run_tree_parents_nodup",
]
RULE = ("case = operation sequence over (M, H, G, L, O, P), compared after every step; distinct by op list; non-trivial = at least "
        "one successful commit through the bound checkout and one of (refused commit, --local commit, update that moves a tip, pull)")
ASSUMPTIONS = [
    "tree merges are conflict-free (every commit adds a fresh file); conflicts during update are the subject of C17/C19",
    "one master, two heavyweight checkouts and one lightweight checkout, local transports; sequences <= 25 ops (theorems: any length)",
    "revision ids are fresh in every history (the driver rejects a sequence that reuses one); while the master is bound itself "
    "(bM) only operations that do not involve the master's own master are generated (the model answers 'unmodelled' for the others)",
]
TRUSTED = ["Branch.hooks['post_change_branch_tip'] as the observation point of tip writes"]

NULL = "null:"


class World:
    def __init__(self):
        from breezy.branch import Branch
        self.m = env.make_tree("2a")
        self.m.set_root_id(b"root")
        self.mdir = self.m.basedir
        self.hdir = env.fresh_dir("h")
        self.ldir = env.fresh_dir("l")
        self.gdir = env.fresh_dir("g")
        os.rmdir(self.hdir)
        os.rmdir(self.ldir)
        os.rmdir(self.gdir)
        b = self.m.branch
        h = b.create_checkout(self.hdir, lightweight=False)
        l_ = b.create_checkout(self.ldir, lightweight=True)
        g_ = b.create_checkout(self.gdir, lightweight=False)      # the second heavyweight checkout
        for t in (h, l_, g_):
            with t.lock_write():
                if t.path2id("") != b"root":
                    t.set_root_id(b"root")
        self.mbase = b.base
        self.hbase = h.branch.base
        self.gbase = g_.branch.base
        # an independent branch O with its own repository and tree, and an empty third branch P (push target)
        self.o = env.make_tree("2a")
        self.o.set_root_id(b"root")
        self.odir = self.o.basedir
        self.pdir = env.fresh_dir("p")
        from breezy.controldir import ControlDir, format_registry
        ControlDir.create_branch_convenience(self.pdir, format=format_registry.make_controldir("2a"), force_new_tree=False)
        self.n = 0
        self.log = []
        self.hook_name = "c23-%d-%d" % (os.getpid(), id(self))

        def hook(params):
            if params.old_revid != params.new_revid:
                base = params.branch.base
                if base in (self.mbase, self.hbase, self.gbase):
                    self.log.append({self.mbase: "m", self.hbase: "h", self.gbase: "g"}[base] + ":" + params.new_revid.decode())
        Branch.hooks.install_named_hook("post_change_branch_tip", hook, self.hook_name)

    def close(self):
        from breezy.branch import Branch
        Branch.hooks.uninstall_named_hook("post_change_branch_tip", self.hook_name)
        for d in (self.mdir, self.hdir, self.ldir, self.gdir, self.odir, self.pdir):
            shutil.rmtree(d, ignore_errors=True)

    def tree(self, who):
        from breezy.workingtree import WorkingTree
        return WorkingTree.open({"M": self.mdir, "H": self.hdir, "L": self.ldir, "O": self.odir, "G": self.gdir}[who])

    def observe(self):
        from breezy.branch import Branch
        mb = Branch.open(self.mdir)
        hb = Branch.open(self.hdir)
        gb = Branch.open(self.gdir)
        par = {}
        for who in "MHLOG":
            par[who] = [p.decode() for p in self.tree(who).get_parent_ids()]
        mi, hi, gi = mb.last_revision_info(), hb.last_revision_info(), gb.last_revision_info()
        return dict(master=(mi[0], mi[1].decode()), local=(hi[0], hi[1].decode()),
                    bound=hb.get_bound_location() is not None, parents=par,
                    local2=(gi[0], gi[1].decode()), bound2=gb.get_bound_location() is not None,
                    mbound=mb.get_bound_location() is not None,
                    other=Branch.open(self.odir).last_revision().decode(), third=Branch.open(self.pdir).last_revision().decode())

    def other_line(self):
        """left-hand history of O, tip first"""
        from breezy.branch import Branch
        ob = Branch.open(self.odir)
        with ob.lock_read():
            g = ob.repository.get_graph()
            return [r.decode() for r in g.iter_lefthand_ancestry(ob.last_revision(), [b"null:"])]

    def do(self, op):
        """returns the outcome string"""
        from breezy.branch import Branch
        self.log = []
        k = op.split(":")[0]
        try:
            if k[0] in "cl":
                who, rev = k[1], op.split(":")[1]
                wt = self.tree(who)
                self.n += 1
                name = "%s%d" % (who.lower(), self.n)
                with open(os.path.join(wt.basedir, name), "w") as f:
                    f.write(name)
                wt.add([name])
                try:
                    wt.commit("c " + rev, rev_id=rev.encode(), local=(k[0] == "l"))
                except Exception:
                    wt = self.tree(who)
                    wt.remove([name], keep_files=False, force=True)
                    raise
            elif k == "sO":
                self.tree("O").pull(Branch.open(self.mdir), overwrite=True)
            elif k in ("qH", "qL", "qM", "qG"):
                _, rev, ow, lo = op.split(":")
                self.tree(k[1]).pull(Branch.open(self.odir), overwrite=(ow == "T"), local=(lo == "T"),
                                     stop_revision=None if rev == "~" else rev.encode())
            elif k in ("shH", "shL", "shG"):
                Branch.open({"shH": self.hdir, "shL": self.mdir, "shG": self.gdir}[k]).push(Branch.open(self.pdir))
            elif k == "bM":
                Branch.open(self.mdir).bind(Branch.open(self.pdir))
            elif k == "xM":
                Branch.open(self.mdir).unbind()
            elif k == "pG":
                self.tree("G").pull(Branch.open(self.mdir))
            elif k == "bG":
                Branch.open(self.gdir).bind(Branch.open(self.mdir))
            elif k == "xG":
                Branch.open(self.gdir).unbind()
            elif k[0] == "u":
                n = self.tree(k[1]).update()
                if n:
                    return "E:conflicts:%d" % n
            elif k == "p":
                self.tree("H").pull(Branch.open(self.mdir))
            elif k == "b":
                Branch.open(self.hdir).bind(Branch.open(self.mdir))
            elif k == "x":
                Branch.open(self.hdir).unbind()
            else:
                raise AssertionError(op)
        except Exception as e:  # noqa
            return "E:" + type(e).__name__
        return "ok"


def show(out, ob, log):
    return "|".join([out, "%d:%s" % ob["master"], "%d:%s" % ob["local"], "T" if ob["bound"] else "F",
                     "+".join(ob["parents"]["M"]) or "-", "+".join(ob["parents"]["H"]) or "-",
                     "+".join(ob["parents"]["L"]) or "-", "+".join(log) or "-",
                     ob["other"], "+".join(ob["parents"]["O"]) or "-", ob["third"],
                     "%d:%s" % ob["local2"], "T" if ob["bound2"] else "F", "+".join(ob["parents"]["G"]) or "-",
                     "T" if ob["mbound"] else "F"])


OPS = ["cH", "cM", "cL", "lH", "uH", "uM", "uL", "p", "x", "b", "lM", "cO", "sO", "qH", "qL", "qM", "shH", "shL",
       "cG", "lG", "uG", "pG", "xG", "bG", "qG", "shG", "bM"]
WEIGHTS = [20, 9, 7, 9, 12, 6, 4, 7, 3, 4, 1, 11, 6, 13, 4, 2, 3, 2,
           9, 4, 6, 3, 1, 2, 4, 1, 2]
# operations that involve the master's own master: not modelled while the master is bound
NEEDS_UNBOUND_MASTER = ("cM", "cL", "lM", "uM", "uL", "qL", "qM")


def next_op(rng, w, r, mbound=False):
    """one op drawn from the alphabet; stop revisions of pulls from O range over O's whole left-hand line;
    while the master is bound (bM) it is unbound again soon, and only modelled operations are drawn"""
    while True:
        if mbound and rng.random() < 0.3:
            return "xM", r
        k = rng.choices(OPS, WEIGHTS)[0]
        if mbound and (k in NEEDS_UNBOUND_MASTER or k == "bM"):
            continue
        break
    if k in ("cH", "cM", "cL", "lH", "lM", "cO", "cG", "lG"):
        return "%s:r%d" % (k, r + 1), r + 1
    if k in ("qH", "qL", "qM", "qG"):
        line = w.other_line()
        rev = rng.choice(line + ["~"]) if line else "~"
        lo = "T" if (rng.random() < 0.15 or mbound) else "F"
        return "%s:%s:%s:%s" % (k, rev, "T" if rng.random() < 0.2 else "F", lo), r
    return k, r


def is_anc(w, a, b, cdir=None):
    """a is an ancestor of (or equal to) b in the master + checkout repositories"""
    from breezy.branch import Branch
    if a == NULL:
        return True
    hb, mb = Branch.open(cdir or w.hdir), Branch.open(w.mdir)
    with hb.lock_read(), mb.lock_read():
        g = hb.repository.get_graph(mb.repository)
        return g.is_ancestor(a.encode(), b.encode())


G2H = {"cG": "cH", "lG": "lH", "uG": "uH", "pG": "p", "xG": "x", "bG": "b", "qG": "qH", "shG": "shH"}


def swap_view(ob):
    """the observation with the roles of the two heavyweight checkouts exchanged"""
    par = dict(ob["parents"])
    par["H"], par["G"] = ob["parents"]["G"], ob["parents"]["H"]
    return dict(ob, local=ob["local2"], local2=ob["local"], bound=ob["bound2"], bound2=ob["bound"], parents=par)


def judge(op, before, ob, out, log, pre, viol, tag):
    """the statement's clauses for ONE step, seen from the first heavyweight checkout (operations of
    the second one are judged through `swap_view`); pre = ancestry facts taken before the step"""
    k = op.split(":")[0]
    rev = op.split(":")[1] if ":" in op else None
    local_ahead, diverged, pivot = pre.get("local_ahead"), pre.get("diverged"), pre.get("pivot")

    def unchanged(what):
        keys = ("master", "local", "bound", "parents", "local2", "bound2", "mbound")
        if any(ob[x] != before[x] for x in keys):
            viol.append((tag + "%s but the state changed: %r -> %r" % (what, before, ob), None))
    in_step = before["bound"] and before["master"] == before["local"]
    # frame: the other heavyweight checkout is never touched
    if (ob["local2"], ob["bound2"], ob["parents"]["G"]) != (before["local2"], before["bound2"], before["parents"]["G"]):
        viol.append((tag + "the other heavyweight checkout changed: %r %r -> %r %r" % (
            before["local2"], before["parents"]["G"], ob["local2"], ob["parents"]["G"]), None))
    if k not in ("bM", "xM") and ob["mbound"] != before["mbound"]:
        viol.append((tag + "the binding of the master changed", None))
    # P11: no working tree lists a revision twice among its parents
    for who_, par_ in ob["parents"].items():
        if len(set(par_)) != len(par_):
            viol.append((tag + "tree %s lists a parent twice: %r" % (who_, par_), None))
    # P9: the tree of a heavyweight checkout is based on the tip of its branch
    if (ob["parents"]["H"][:1] or [NULL]) != [ob["local"][1]]:
        viol.append((tag + "the checkout's tree is based on %r but its branch tip is %s" % (ob["parents"]["H"][:1], ob["local"][1]), None))
    if out != "ok":
        if k == "qH" and out == "E:DivergedBranches" and before["bound"] and ob["master"] != before["master"] and (
                ob["local"], ob["bound"], ob["parents"], ob["local2"], ob["bound2"]) == (
                before["local"], before["bound"], before["parents"], before["local2"], before["bound2"]):
            viol.append((tag + "pull into the bound checkout raised DivergedBranches for the local branch after the master "
                         "had already been moved %r -> %r" % (before["master"], ob["master"]),
                         "pull-into-bound-branch-master-moved-before-local-diverged"))
        else:
            unchanged("refused with %s" % out)
            if log:
                viol.append((tag + "refused with %s but tips were written: %r" % (out, log), None))
    # P8: a successful non-local operation in a bound checkout that was in step leaves it in step
    if out == "ok" and in_step and (k in ("cH", "uH", "p") or (k == "qH" and op.split(":")[3] == "F")):
        if ob["local"] != ob["master"]:
            viol.append((tag + "checkout was in step with its master, afterwards master %r != local %r" % (
                ob["master"], ob["local"]), None))
    # ... and even a refused one does (nothing changed or - never from a state in step - only the master)
    if in_step and (k in ("cH", "uH", "p", "shH", "shL", "cO", "sO", "uM", "uL", "b", "bM", "xM") or (
            k == "qH" and op.split(":")[3] == "F")):
        if ob["local"] != ob["master"] or not ob["bound"]:
            viol.append((tag + "a checkout in step with its master is out of step after %s (%s): master %r local %r" % (
                k, out, ob["master"], ob["local"]), None))
    if k == "qH" and out == "ok":
        _, rev, ow, lo = op.split(":")
        if lo == "T":
            if ob["master"] != before["master"]:
                viol.append((tag + "pull --local moved the master", None))
            if not before["bound"]:
                viol.append((tag + "pull --local succeeded in an unbound branch", None))
        elif before["bound"]:
            mch, lch = ob["master"] != before["master"], ob["local"] != before["local"]
            if mch and lch and log != ["m:" + ob["master"][1], "h:" + ob["local"][1]]:
                viol.append((tag + "tip writes of the pull are %r, expected master then local" % (log,), None))
            if rev != "~":
                for nm in ("master", "local"):
                    if ob[nm] != before[nm] and ob[nm][1] != rev:
                        viol.append((tag + "pull with stop revision %s moved the %s tip to %s" % (rev, nm, ob[nm][1]), None))
        else:
            if ob["master"] != before["master"]:
                viol.append((tag + "pull into the unbound branch moved the master", None))
    if k in ("qL", "qM") and out == "ok":
        rev = op.split(":")[1]
        if ob["local"] != before["local"] or (rev != "~" and ob["master"] != before["master"] and ob["master"][1] != rev):
            viol.append((tag + "pull into the master: local %r -> %r, master %r" % (before["local"], ob["local"], ob["master"]), None))
    if k in ("shH", "shL", "sO", "cO", "bM", "xM") and (ob["master"], ob["local"], ob["bound"]) != (before["master"], before["local"], before["bound"]):
        viol.append((tag + "%s changed the master / checkout branches" % k, None))
    if k in ("bM", "xM") and (out != "ok" or ob["mbound"] != (k == "bM")):
        viol.append((tag + "bind/unbind of the master: %s, bound %r" % (out, ob["mbound"]), None))
    if k[0] in "cl" and k[1] in "MHL":
        # P6: a tree that is not based on the tip it commits to must be refused
        who = k[1]
        ref = before["master"] if (who in "ML" or (who == "H" and before["bound"] and k[0] == "c")) else before["local"]
        tp = (before["parents"][who][:1] or [NULL])[0]
        if ref[1] != NULL and ref[1] != tp and out == "ok":
            viol.append((tag + "commit accepted although the tree is based on %s and the branch tip is %s" % (tp, ref[1]), None))
    if k == "cH":
        if before["bound"] and before["mbound"]:
            # P10: the master is itself bound: CommitToDoubleBoundBranch, nothing changes
            if out != "E:CommitToDoubleBoundBranch":
                viol.append((tag + "the master is bound itself but the commit through the checkout gave %s" % out, None))
        elif before["bound"] and before["master"][1] != before["local"][1]:
            if out != "E:BoundBranchOutOfDate":
                viol.append((tag + "master %s != local %s but the bound commit gave %s" % (
                    before["master"][1], before["local"][1], out), None))
        if out == "ok" and before["bound"]:
            if not (ob["master"][1] == ob["local"][1] == rev):
                viol.append((tag + "bound commit ended with master %r local %r" % (ob["master"], ob["local"]), None))
            if log != ["m:" + rev, "h:" + rev]:
                viol.append((tag + "tip writes of the bound commit are %r, expected master then local" % (log,), None))
            if ob["master"][0] != before["master"][0] + 1 or ob["local"][0] != ob["master"][0]:
                viol.append((tag + "revnos after the bound commit: %r %r" % (ob["master"], ob["local"]), None))
        if out == "ok" and not before["bound"]:
            if ob["master"] != before["master"] or ob["local"][1] != rev:
                viol.append((tag + "unbound commit: master %r -> %r, local %r" % (before["master"], ob["master"], ob["local"]), None))
    elif k == "lH" and out == "ok":
        if ob["master"] != before["master"] or ob["local"][1] != rev or log != ["h:" + rev]:
            viol.append((tag + "commit --local: master %r -> %r, local %r, writes %r" % (
                before["master"], ob["master"], ob["local"], log), None))
        if not before["bound"]:
            viol.append((tag + "commit --local succeeded in an unbound branch", None))
    elif k in ("cM", "cL") and out == "ok":
        if ob["local"] != before["local"] or ob["master"][1] != rev or log != ["m:" + rev]:
            viol.append((tag + "commit to the master: local %r -> %r, master %r, writes %r" % (
                before["local"], ob["local"], ob["master"], log), None))
    elif k == "uH" and out == "ok":
        if before["bound"]:
            if ob["local"][1] != ob["master"][1] or ob["master"] != before["master"]:
                fam = None
                if before["master"][1] == NULL and before["local"][1] != NULL and ob["local"] == before["local"]:
                    fam = "update-bound-to-empty-master-keeps-local-tip"
                viol.append((tag + "update in the bound checkout left local %r, master %r" % (ob["local"], ob["master"]), fam))
            elif (ob["parents"]["H"][:1] or [NULL]) != [ob["master"][1]]:
                viol.append((tag + "update left the tree based on %r, master tip %r" % (ob["parents"]["H"], ob["master"]), None))
            elif pivot and before["local"][1] not in ob["parents"]["H"]:
                # P7: local commits pivoted out of the branch must stay referenced as a pending merge
                viol.append((tag + "update dropped the old local tip %s: tree parents %r" % (before["local"][1], ob["parents"]["H"]), None))
        else:
            if ob["local"] != before["local"] or ob["master"] != before["master"]:
                viol.append((tag + "update of an unbound tree moved a branch tip", None))
    elif k in ("uM", "uL") and out == "ok":
        if (ob["parents"][k[1]][:1] or [NULL]) != [ob["master"][1]] or ob["master"] != before["master"] or ob["local"] != before["local"]:
            viol.append((tag + "update left tree %s at %r, master %r" % (k[1], ob["parents"][k[1]], ob["master"]), None))
    elif k == "p":
        if ob["master"] != before["master"]:
            viol.append((tag + "pull from the master changed the master", None))
        if diverged:
            if out != "E:DivergedBranches":
                viol.append((tag + "pull of diverged branches gave %s" % out, None))
        elif local_ahead:
            if out != "ok" or ob["local"] != before["local"]:
                viol.append((tag + "pull although the local branch contains the master tip: %s, local %r -> %r" % (
                    out, before["local"], ob["local"]), None))
        elif out != "ok" or ob["local"] != ob["master"]:
            viol.append((tag + "pull left local %r, master %r (%s)" % (ob["local"], ob["master"], out), None))
    elif k in ("b", "x"):
        if out != "ok" or ob["bound"] != (k == "b") or (ob["master"], ob["local"], ob["parents"]) != (
                before["master"], before["local"], before["parents"]):
            viol.append((tag + "bind/unbind: %s, state %r -> %r" % (out, before, ob), None))


def run_sequence(ops, seed=None, n=0):
    """execute on real trees (ops given, or generated adaptively from `seed`); returns (ops, step strings, violations, stats)"""
    import random
    w = World()
    outs, viol, stats = [], [], []
    rng = random.Random(seed) if ops is None else None
    given = ops
    ops = [] if ops is None else list(ops)
    r = 0
    try:
        ob = w.observe()
        idx = -1
        while True:
            idx += 1
            if given is None:
                if idx >= n:
                    break
                op, r = next_op(rng, w, r, ob["mbound"])
                ops.append(op)
            else:
                if idx >= len(ops):
                    break
                op = ops[idx]
            before = ob
            k0 = op.split(":")[0]
            second = k0 in G2H
            vb = swap_view(before) if second else before
            cdir = w.gdir if second else w.hdir
            kk = G2H.get(k0, k0)
            pre = {}
            if kk == "p":
                pre["local_ahead"] = is_anc(w, vb["master"][1], vb["local"][1], cdir)
                pre["diverged"] = not pre["local_ahead"] and not is_anc(w, vb["local"][1], vb["master"][1], cdir)
                stats.append("pull-from-master:" + ("diverged" if pre["diverged"] else "local-ahead" if pre["local_ahead"] else "behind"))
            if kk == "uH" and vb["bound"] and vb["master"][1] != NULL:
                pre["pivot"] = not is_anc(w, vb["local"][1], vb["master"][1], cdir)
                stats.append("update:" + ("pivot" if pre["pivot"] else "no-pivot"))
            if kk == "cH" and vb["bound"]:
                stats.append("bound-commit:" + ("master-bound" if vb["mbound"] else
                                                "in-step" if vb["master"] == vb["local"] else "out-of-step"))
            out = w.do(op)
            log = list(w.log)
            ob = w.observe()
            outs.append(show(out, ob, log))
            tag = "step %d %s: " % (idx, op)
            if second:
                op2 = ":".join([kk] + op.split(":")[1:])
                log2 = [{"h": "g", "g": "h"}.get(e[0], e[0]) + e[1:] for e in log]
                judge(op2, vb, swap_view(ob), out, log2, pre, viol, tag + "(second checkout) ")
            else:
                judge(op, before, ob, out, log, pre, viol, tag)
    finally:
        w.close()
    return ops, outs, viol, stats


def worker(job):
    ops = job.get("ops")
    try:
        ops, outs, viol, stats = run_sequence(ops, job.get("seed"), job.get("n", 0))
        return dict(ops=ops, impl=";".join(outs), viol=viol, stats=stats)
    except Exception as e:
        import traceback
        return dict(ops=ops or [], error="%s: %s\n%s" % (type(e).__name__, e, traceback.format_exc()[-1200:]))


FIXED = [
    ["cM:r1", "uH", "cH:r2", "cM:r3", "uM", "cM:r4", "cH:r5", "uH", "cH:r6"],
    ["cH:r1", "lH:r2", "cH:r3", "uH", "cH:r4", "cL:r5", "uL", "cL:r6", "cH:r7", "p", "cH:r8"],
    ["cH:r1", "lH:r2", "uM", "cM:r3", "p", "uH", "cH:r4"],
    ["lH:r1", "uH", "cH:r2"],
    ["cH:r1", "x", "cH:r2", "lH:r3", "uM", "cM:r4", "b", "cH:r5", "uH", "cH:r6"],
    ["cM:r1", "uL", "cL:r2", "cM:r3", "uH", "x", "cH:r4", "p", "b", "uH", "cH:r5"],
    # pull from a branch other than the master with an explicit stop revision (master first, same revision)
    ["cM:r1", "uH", "sO", "cO:r2", "cO:r3", "cO:r4", "qH:r3:F:F", "cH:r5", "shH", "qL:~:F:F", "uH"],
    ["cM:r1", "uH", "sO", "cO:r2", "cO:r3", "qH:r2:F:T", "qH:r3:F:F", "uH", "qH:r3:T:F", "cH:r4"],
    ["cM:r1", "uH", "sO", "cO:r2", "lH:r3", "qH:~:F:F", "qH:r2:T:F", "x", "qH:~:T:F", "shL", "shH"],
    # two heavyweight checkouts of one master
    ["cM:r1", "uH", "uG", "cG:r2", "cH:r3", "uH", "cH:r4", "cG:r5", "lG:r6", "uG", "cG:r7", "pG", "p", "uH", "cH:r8"],
    ["cH:r1", "uG", "lG:r2", "cH:r3", "pG", "uG", "cG:r4", "xG", "cG:r5", "bG", "cG:r6", "uG", "uH"],
    ["cM:r1", "uG", "sO", "cO:r2", "cO:r3", "qG:r2:F:F", "uH", "lH:r4", "qH:~:F:F", "qG:~:F:F", "shG"],
    # the master is bound itself: CommitToDoubleBoundBranch
    ["cM:r1", "uH", "uG", "bM", "cH:r2", "cG:r3", "lH:r4", "xM", "cH:r5", "uH", "cH:r6", "bM", "x", "cH:r7", "xM", "b", "cH:r8"],
]


def absorb(ctx, res):
    if res.get("error"):
        ctx.extra.setdefault("scenario_errors", []).append(res["error"][:800])
        ctx.count("scenario-error")
        ctx.mismatch(dict(ops=res["ops"]), res["error"][:300], "sequence ran")
        return None
    ops = res["ops"]
    steps = res["impl"].split(";")
    okH = sum(1 for o, s in zip(ops, steps) if o.startswith("cH") and s.startswith("ok|"))
    other = any((s.startswith("E:") and o[0] in "cl") or (o.startswith("lH") and s.startswith("ok|")) or
                (o in ("uH", "p") and not s.endswith("|-")) for o, s in zip(ops, steps))
    ctx.case(dict(ops=ops), nontrivial=bool(okH and other))
    ctx.count("len:%d" % (5 * (len(ops) // 5)))
    for o, s in zip(ops, steps):
        ctx.count("op:%s:%s" % (o.split(":")[0], s.split("|")[0]))
        if o[0] == "q":
            ctx.count("pull-other:stop=%s:overwrite=%s:local=%s" % ("none" if o.split(":")[1] == "~" else "rev", o.split(":")[2], o.split(":")[3]))
    for st in res.get("stats", []):
        ctx.count(st)
    for what, fam in res["viol"]:
        ctx.violation(dict(ops=ops), what, family=fam)
    return "run " + (",".join(ops) or "-")


def run(ctx):
    nseq = ctx.pick(60, 300)
    maxlen = ctx.pick(15, 25)
    seqs = [dict(ops=list(f)) for f in FIXED]
    cdir = os.path.join(env.VERIF, "corpus", "C23")
    if os.path.isdir(cdir):
        import json
        for f in sorted(os.listdir(cdir)):
            if f.endswith(".json"):
                seqs.append(dict(ops=json.load(open(os.path.join(cdir, f)))["ops"]))
    for _ in range(nseq):
        seqs.append(dict(seed=ctx.rng.randrange(1 << 30), n=ctx.rng.randrange(3, maxlen + 1)))
    results = ctx.pmap(worker, seqs, chunksize=1)
    lines, cases, impls = [], [], []
    for res in results:
        line = absorb(ctx, res)
        if line is not None:
            lines.append(line)
            cases.append(dict(ops=res["ops"]))
            impls.append(res["impl"])
    outs = ctx.model(lines)
    for c, l, i, m in zip(cases, lines, impls, outs):
        ctx.traces += len(c["ops"])
        if i != m:
            si, sm = i.split(";"), m.split(";")
            k = next((j for j in range(min(len(si), len(sm))) if si[j] != sm[j]), min(len(si), len(sm)))
            ctx.mismatch(dict(c, first_differing_step=k), si[k] if k < len(si) else None, sm[k] if k < len(sm) else None,
                         line=l, tie="T2 step %d (%s)" % (k, c["ops"][k] if k < len(c["ops"]) else "?"))


def replay(ctx, case):
    res = worker(dict(ops=case["ops"]))
    if res.get("error"):
        return dict(case=case, error=res["error"])
    for what, fam in res["viol"]:
        ctx.violation(case, what, family=fam)
    m = ctx.model(["run " + ",".join(case["ops"])])[0] if ctx.model_available else None
    return dict(case=case, impl=res["impl"].split(";"), model=m.split(";") if m else None, agree=(m == res["impl"]),
                oracle_failures=[v["what"] for v in ctx.violations])
