"""Standalone repro of the two C52 findings on breezy/reconfigure.py.
usage: /venv/bin/python repro_c52.py [path to breezy checkout, default /repo]     (exit 1 = defect present)"""
import os, shutil, sys, tempfile
repo = sys.argv[1] if len(sys.argv) > 1 else "/repo"
sys.path.insert(0, repo)
home = tempfile.mkdtemp(prefix="c52repro-", dir="/var/tmp")
os.environ.update(HOME=home, BRZ_HOME=home, BRZ_EMAIL="V <v@e.c>")
import breezy
breezy.initialize()
import breezy.bzr, breezy.bzr.bzrdir, breezy.bzr.workingtree_4, breezy.bzr.groupcompress_repo  # noqa
from breezy.controldir import ControlDir, format_registry
from breezy import reconfigure
from breezy.branch import Branch

fmt = format_registry.make_controldir("2a")
bad = 0

# ---- 1. a pending merge's revision is not copied -----------------------------------------------
root = os.path.join(home, "one"); os.makedirs(root + "/shared")
ControlDir.create(root + "/shared", format=fmt).create_repository(shared=True)
wt = ControlDir.create_branch_convenience(root + "/shared/loc", force_new_tree=True, format=fmt).controldir.open_workingtree()
open(wt.basedir + "/a", "w").write("a\n"); wt.add(["a"]); wt.commit("one", rev_id=b"r1")
side = wt.controldir.sprout(root + "/side").open_workingtree()
open(side.basedir + "/s", "w").write("s\n"); side.add(["s"]); side.commit("side", rev_id=b"s1")
wt.merge_from_branch(side.branch)                       # uncommitted merge: tree parents [r1, s1]
shutil.rmtree(root + "/side")
assert wt.branch.repository.has_revision(b"s1")
reconfigure.Reconfigure.to_standalone(ControlDir.open(wt.basedir)).apply()      # not forced
wt = ControlDir.open(wt.basedir).open_workingtree()
print("1. tree parents after reconfigure --standalone:", wt.get_parent_ids(),
      "| s1 in the branch's repository:", wt.branch.repository.has_revision(b"s1"))
if not wt.branch.repository.has_revision(b"s1"):
    bad = 1
    wt.commit("merge", rev_id=b"m1")
    with wt.branch.repository.lock_read():
        print("   committed m1 with parents", wt.branch.repository.get_parent_map([b"m1"])[b"m1"],
              "- s1 is a ghost now: the merged history is lost")

# ---- 2. conflicting tag definitions: the local one is dropped silently ----------------------------
root = os.path.join(home, "two"); os.makedirs(root)
wt = ControlDir.create_standalone_workingtree(root + "/loc", format=fmt)
open(wt.basedir + "/a", "w").write("a\n"); wt.add(["a"]); wt.commit("one", rev_id=b"r1")
open(wt.basedir + "/a", "w").write("b\n"); wt.commit("two", rev_id=b"r2")
wt.controldir.sprout(root + "/master"); wt.branch.set_parent(root + "/master")
wt.branch.tags.set_tag("v1", b"r2")
Branch.open(root + "/master").tags.set_tag("v1", b"r1")
try:
    reconfigure.Reconfigure.to_lightweight_checkout(ControlDir.open(wt.basedir)).apply()   # not forced
    after = Branch.open(wt.basedir).tags.get_tag_dict()
    print("2. tag v1 was r2, after reconfigure --lightweight-checkout:", after)
    if after.get("v1") != b"r2":
        bad = 1
except reconfigure.UnsyncedBranches:
    print("2. refused with UnsyncedBranches")
shutil.rmtree(home, ignore_errors=True)
sys.exit(bad)
