/-
C45 — model of breezy/filters/eol.py (`_to_lf_converter`, `_to_crlf_converter`,
`_eol_filter_stack_map`) and of the filter application in
breezy/filters/__init__.py (`filtered_output_bytes`, `filtered_input_file`,
`FilteredStat`) and of what `ContentFilterAwareSHA1Provider`
(breezy/bzr/workingtree_4.py) hashes and reports as size.

Python `bytes` is `List UInt8`; a converter maps a list of chunks to a list
with one chunk (`[b"".join(chunks)]` converted).
-/
import BreezyVerif.Common
namespace BreezyVerif.C45

def NUL : UInt8 := 0
def LF : UInt8 := 10
def CR : UInt8 := 13

/-- `b"\x00" in content` -/
def hasNul (c : Bytes) : Bool := c.contains NUL

/-- `content.replace(b"\r\n", b"\n")`: non-overlapping, left to right -/
def replCrlf : Bytes → Bytes
  | [] => []
  | [a] => [a]
  | a :: b :: rest =>
    if a = CR ∧ b = LF then LF :: replCrlf rest else a :: replCrlf (b :: rest)

/-- `re.compile(rb"(?<!\r)\n").sub(b"\r\n", content)`: every `\n` whose
predecessor *in the original content* is not `\r` becomes `\r\n`.
`prevCR` = the previous byte of the content is `\r`. -/
def subUnixNl (prevCR : Bool) : Bytes → Bytes
  | [] => []
  | b :: rest =>
    if b = LF ∧ prevCR = false then CR :: LF :: subUnixNl false rest
    else b :: subUnixNl (b = CR) rest

/-- `_to_lf_converter` on the joined content -/
def toLf (c : Bytes) : Bytes := if hasNul c then c else replCrlf c

/-- `_to_crlf_converter` on the joined content -/
def toCrlf (c : Bytes) : Bytes := if hasNul c then c else subUnixNl false c

/-- the converter functions that occur in `_eol_filter_stack_map` -/
inductive Conv | toLf | toCrlf
  deriving DecidableEq, Repr

def Conv.fn : Conv → Bytes → Bytes
  | .toLf => C45.toLf
  | .toCrlf => C45.toCrlf

/-- a converter call: `chunks -> [convert(b"".join(chunks))]` -/
def Conv.apply (f : Conv) (chunks : List Bytes) : List Bytes := [f.fn chunks.flatten]

/-- `ContentFilter(reader, writer)`; `none` = the attribute is `None` -/
structure Filter where
  reader : Option Conv
  writer : Option Conv
  deriving DecidableEq, Repr

/-- `filtered_output_bytes(chunks, filters)`: writers, last filter first -/
def outputBytes (chunks : List Bytes) (filters : List Filter) : List Bytes :=
  filters.reverse.foldl (fun ch f => match f.writer with
    | some w => w.apply ch
    | none => ch) chunks

/-- `filtered_input_file(f, filters)`: readers, first filter first; the text -/
def inputFile (content : Bytes) (filters : List Filter) : Bytes :=
  (filters.foldl (fun ch f => match f.reader with
    | some r => r.apply ch
    | none => ch) [content]).flatten

/-- `_native_output` (`sys.platform == "win32"` ↦ `win`) -/
def nativeOutput (win : Bool) : Conv := if win then .toCrlf else .toLf

/-- `_eol_filter_stack_map` (hand model; proved equal to the table regenerated
from the source in `Props/C45T1.lean`) -/
def eolMap (win : Bool) : List (String × List Filter) :=
  [ ("exact", []),
    ("native", [⟨some .toLf, some (nativeOutput win)⟩]),
    ("lf", [⟨some .toLf, some .toLf⟩]),
    ("crlf", [⟨some .toLf, some .toCrlf⟩]),
    ("native-with-crlf-in-repo", [⟨some .toCrlf, some (nativeOutput win)⟩]),
    ("lf-with-crlf-in-repo", [⟨some .toCrlf, some .toLf⟩]),
    ("crlf-with-crlf-in-repo", [⟨some .toCrlf, some .toCrlf⟩]) ]

/-- `_eol_filter_stack_map.get(key)` -/
def eolLookup (win : Bool) (key : String) : Option (List Filter) :=
  ((eolMap win).find? (·.1 = key)).map (·.2)

/-- content → working tree (`filtered_output_bytes` joined) -/
def writeOut (stack : List Filter) (c : Bytes) : Bytes := (outputBytes [c] stack).flatten

/-- working tree → canonical content -/
def readIn (stack : List Filter) (d : Bytes) : Bytes := inputFile d stack

/-! ### the filtered SHA-1 provider (breezy/bzr/workingtree_4.py:
`ContentFilterAwareSHA1Provider`) and `FilteredStat` -/

/-- `_get_filter_stack_for(prefs)` for the one registered preference `eol`:
`none` = no rule matched the path / the section does not set `eol` (value
`None` is skipped, `()` gives the empty stack); an unknown value is an error -/
def prefStack (win : Bool) : Option String → Option (List Filter)
  | none => some []
  | some key => eolLookup win key

/-- `FilteredStat(base, st_size)`: `self.st_size = st_size or base.st_size` —
a filtered size of 0 falls back to the size on disk -/
def filteredStatSize (filtered base : Nat) : Nat := if filtered = 0 then base else filtered

/-- what `sha1` / `stat_and_sha1` / `internal_size_sha_file_byname` hash for a
file with bytes `d` on disk: `if filters:` the read-converted text, else the file -/
def hashedText (stack : List Filter) (d : Bytes) : Bytes :=
  if stack.isEmpty then d else readIn stack d

/-- `stat_and_sha1(abspath)[0].st_size`: the plain `fstat` size when the stack
is empty, else `FilteredStat(statvalue, len(text)).st_size` -/
def statSize (stack : List Filter) (d : Bytes) : Nat :=
  if stack.isEmpty then d.length else filteredStatSize (readIn stack d).length d.length

/-- the dirstate's decision for a file whose recorded hash is `recorded` and
whose bytes on disk are `disk`, for an abstract hash function `sha`: the file
is reported as modified iff the hash of the read-converted file differs -/
def reportsChange {H : Type} [DecidableEq H] (sha : Bytes → H) (stack : List Filter)
    (recorded : H) (disk : Bytes) : Bool :=
  sha (hashedText stack disk) != recorded

/-! ### the generic tree comparison (breezy/tree.py: `InterTree.file_content_matches`,
called for every file by `InterInventoryTree._changes_from_entries` in
breezy/bzr/inventorytree.py — the route taken when the other tree is not a
dirstate parent of the working tree or `extra_trees` are given) -/

/-- which size a "sizes differ ⇒ contents differ" shortcut in front of the
hash comparison looks at.  `file_content_matches` has no such shortcut (`off`:
it compares `get_file_verifier` of both sides only), and neither has the
dirstate's `_process_entry` ("we can't just rely on the size as content
filtering may mean differ sizes actually map to the same content").
`filtered` = the `st_size` of `stat_and_sha1` / `get_file_with_stat`
(`FilteredStat`), `raw` = the `st_size` of `os.lstat`, which is what
`_comparison_data` hands to `file_content_matches` as `target_stat`. -/
inductive SizeCheck | off | filtered | raw
  deriving DecidableEq, Repr

/-- the size of the working file that such a shortcut compares with the recorded size -/
def targetSize (stack : List Filter) (disk : Bytes) : SizeCheck → Option Nat
  | .off => none
  | .filtered => some (statSize stack disk)
  | .raw => some disk.length

/-- `file_content_matches(path, path, None, target_stat)` for a source
revision tree that records the text size `recSize` and the hash `recorded`,
and a working file with bytes `disk` whose path gets `stack`: the optional
size shortcut, then the comparison of the recorded hash with
`get_file_sha1` (the hash of the read-converted file) -/
def contentMatches {H : Type} [DecidableEq H] (sha : Bytes → H) (chk : SizeCheck)
    (stack : List Filter) (recSize : Nat) (recorded : H) (disk : Bytes) : Bool :=
  match targetSize stack disk chk with
  | some n => if n != recSize then false else sha (hashedText stack disk) == recorded
  | none => sha (hashedText stack disk) == recorded

/-! ### predicates used by the theorems -/

/-- no `\n` directly after a `\r` (`prevCR` = the byte before is `\r`):
canonical form for the LF readers -/
def noCrLf (prevCR : Bool) : Bytes → Bool
  | [] => true
  | b :: rest => !(prevCR && b = LF) && noCrLf (b = CR) rest

/-- every `\n` directly follows a `\r`: canonical form for the CRLF readers -/
def allCrLf (prevCR : Bool) : Bytes → Bool
  | [] => true
  | b :: rest => (b != LF || prevCR) && allCrLf (b = CR) rest

/-- no `\r\r\n` (`prevCR` = the byte before is `\r`) -/
def noCrCrLf (prevCR : Bool) : Bytes → Bool
  | [] => true
  | [_] => true
  | a :: b :: rest => !(prevCR && a = CR && b = LF) && noCrCrLf (a = CR) (b :: rest)

/-- the stack stores CRLF and writes LF: the settings for which `\r\r\n` is lost -/
def lossy (stack : List Filter) : Bool :=
  stack.any fun f => f.reader = some .toCrlf && f.writer = some .toLf

/-! ### proposed repair (not in the code): a writer for the CRLF-in-repo
settings that leaves `\r\n` alone when it follows a `\r`
(`re.compile(rb"(?<!\r)\r\n").sub(b"\n", content)`) -/

def replCrlfGuarded (prevCR : Bool) : Bytes → Bytes
  | [] => []
  | [a] => [a]
  | a :: b :: rest =>
    if a = CR ∧ b = LF ∧ prevCR = false then LF :: replCrlfGuarded false rest
    else a :: replCrlfGuarded (a = CR) (b :: rest)

def toLfGuarded (c : Bytes) : Bytes := if hasNul c then c else replCrlfGuarded false c

end BreezyVerif.C45
