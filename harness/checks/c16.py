"""C16 — uncommit undoes commit.

Mechanism: breezy/uncommit.py:uncommit (left-hand walk, pending-merge
bookkeeping, tip/revno of branch and master, tree.set_parent_ids),
src/uncommit.rs:remove_tags (exposed through crates/cmd-py as
breezy._cmd_rs.uncommit.remove_tags — rebuilt with cargo on every run), the
parent-list normalisation of WorkingTree.set_parent_ids, breezy/commit.py
(bookkeeping part).

T2: random revision DAGs (merges, several roots, ghost parents, left-hand
    ghosts) are committed through a real 2a working tree on disk.  For every
    revision T of every DAG and EVERY depth d = 1..revno(T) the branch is put
    at T with random extra pending merges, random tags (on removed, kept,
    merged, unrelated and ghost revisions), keep_tags, bound master (in or out
    of step, own tags) and local flag; real `uncommit(branch, tree=wt,
    revno=…)` is run and (exception class | tip, revno, tags of branch and
    master, tree.get_parent_ids()) compared with the Lean model `uncommit`.
    Commit/uncommit inverse: in random states (pending merges, edited / added
    files, standalone and bound) `wt.commit()` followed by `uncommit()` is
    compared with the model's `commit` then `uncommit 1`.
    The graph answers the code relies on (vcsgraph find_unique_ancestors,
    heads of several keys, the tree's parent filtering) are compared with the
    Lean graph functions per case.
Oracle (Python reference of the DAG, independent of the Lean model): after
    commit + uncommit: last_revision_info, tree parent ids, master state, tags,
    file contents and the tree's reported changes are what they were before
    the commit; after uncommit of d revisions: the tip is the d-th left-hand
    ancestor, revno = old - d, the tree's first parent is the branch tip, the
    pending merges are the removed merges (each once, older revision first)
    followed by the previous pending merges, minus those the tree filters as
    non-heads; a tag disappears iff keep_tags is off and its revision is an
    ancestor of the old tip and of none of the new parents; an exception
    leaves everything unchanged.

Findings made with this check (see the builder report): two were repaired in
/repo (uncommit of a tagged revision in a bound branch self-deadlocked on the
master lock and died with a PanicException; uncommit down to null: recorded a
removed merge as the tree's basis revision) — model and oracle describe the
repaired behaviour, so either defect coming back is a plain VIOLATION.  One is
reported with the family slug `local-uncommit-deletes-master-tags`
(uncommit(local=True) deletes the tag in the master although the master keeps
the revision; computed by the oracle from: bound, local, a master tag whose
name was removed locally).

Mutation self-test (scratch worktree, 16 DAGs, seed 0; judged on violations
whose family is None and on model mismatches; all caught by the oracle with a
concrete input):
 U1 uncommit.py: new_revno = revno (off by one)
 U2 pending_merges.extend(parents[1:]) — order inside one merge revision
    (needs a removed revision with >= 2 merged parents)
 U3 parents[2:] instead of parents[1:] (first merged parent forgotten)
 U4 final reversed(pending_merges) dropped (order across removed revisions / P0)
 U5 master.set_last_revision_info dropped
 U6 BoundBranchOutOfDate check dropped (needs a bound branch out of step)
 U7 remove_tags(..., parents[:1]): tags on re-recorded merges deleted
 U8 keep_tags ignored
 U9 pending merges present before the uncommit forgotten
 R1 uncommit.rs: `!ancestors.contains` -> `ancestors.contains`
 R2 uncommit.rs: find_unique_ancestors(old_tip, first parent only)
 R3 uncommit.rs: only one tag per revision deleted (needs two tags on one removed revision)
 H1 harmless rewrite of the loop body (renamed local, reordered statements) -> clean
"""
import os
import shutil

from vlib import env
from checks import c21 as G

RUST = ("cmd-py",)
THEOREMS = [
    "uncommit_commit_id", "uncommit_tip", "uncommit_revno_ok", "uncommit_pending",
    "filterParents_head", "filterParents_sub", "filterParents_keeps_heads", "uncommit_tree_basis",
    "tags_dropped_iff", "tags_after_uncommit", "tags_kept",
    "tags_on_new_ancestry_survive", "local_uncommit_master_tags_witness",
]
RULE = ("scenario = random DAG committed through a real 2a working tree; cases = every (tip T, depth d<=revno(T)) "
        "with random pending merges, tags, keep_tags, bound master / local; plus commit+uncommit round trips in "
        "random tree states; non-trivial = at least one removed revision is a merge, or there are pending "
        "merges or tags, or the branch is bound; distinct by (graph, case)")
ASSUMPTIONS = [
    "vcsgraph find_unique_ancestors / heads / iter_lefthand_ancestry answer as the Lean graph model specifies (compared per case)",
    "the recorded revno of the branch is the number of revisions on its left-hand chain (the command refuses revno outside 1..revno)",
    "file contents and the dirstate are not modelled: that uncommit leaves them alone is checked by the oracle on the real tree only",
]
TRUSTED = ["hooks, locking and the commit machinery itself (C01) are not modelled; commit is modelled as: new revision with the tree's parents"]

NULL = G.NULL
GH0 = G.GH0
rid, unrid, tip_s = G.rid, G.unrid, G.tip_s

ERRS = {"PanicException": "E:Panic", "RevisionNotPresent": "E:NotPresent", "BoundBranchOutOfDate": "E:OutOfDate",
        "LocalRequiresBoundBranch": "E:LocalRequiresBound", "GhostRevisionUnusableHere": "E:GhostParent"}


def err_s(e):
    return ERRS.get(type(e).__name__, "E:other:" + type(e).__name__)


def revs_s(l):
    return ",".join(str(x) for x in l) or "-"


def tags_s(d):
    return "+".join("%d=%d" % (k, v) for k, v in sorted(d.items())) or "-"


def branch_s(tip, revno, tags):
    return "%s/%d/%s" % (tip_s(tip), revno, tags_s(tags))


# ---------------------------------------------------------------------------
# Python reference

def ref_heads(dag, keys):
    ks = list(dict.fromkeys(keys))
    return [k for k in ks if not any(k2 != k and k in G.ref_anc(dag, k2) for k2 in ks)]


def ref_filter(dag, ids):
    if not ids:
        return []
    hs = set(ref_heads(dag, ids))
    out = [ids[0]]
    for r in ids[1:]:
        if r in hs and r not in out:
            out.append(r)
    return out


def ref_uncommit(dag, tip, d, p0):
    """-> (new tip, unfiltered new parents) or None when the walk meets a ghost"""
    pm = list(p0)
    cur = tip
    for _ in range(d):
        if cur is None:
            break
        if cur not in dag["parents"]:
            return None
        ps = dag["parents"][cur]
        pm.extend(reversed(ps[1:]))
        cur = ps[0] if ps else None
    if cur is not None and cur not in dag["parents"]:
        return None
    # a tree without basis carries no pending merges
    return cur, ([cur] + list(reversed(pm)) if cur is not None else [])


# ---------------------------------------------------------------------------
# real code

class Scenario:
    def __init__(self, dag):
        from breezy.controldir import ControlDir, format_registry
        from breezy import lockdir
        os.environ.setdefault("RUST_BACKTRACE", "0")
        lockdir._DEFAULT_TIMEOUT_SECONDS = 0     # a self-deadlock must not stall the run
        self.dag = dag
        self.dir = env.fresh_dir("c16")
        self.wt = env.make_tree("2a", os.path.join(self.dir, "t"))
        with open(os.path.join(self.wt.basedir, "f"), "w") as f:
            f.write("base\n")
        self.wt.add(["f"])
        b = self.wt.branch
        for r in dag["order"]:
            ps = dag["parents"][r]
            if ps:
                b.set_last_revision_info(self.revno(ps[0]), rid(ps[0]))
                self.wt.set_parent_ids([rid(p) for p in ps], allow_leftmost_as_ghost=True)
            else:
                b.set_last_revision_info(0, NULL)
                self.wt.set_parent_ids([])
            with open(os.path.join(self.wt.basedir, "f"), "w") as f:
                f.write("content of %d\n" % r)
            self.wt.commit("rev %d" % r, rev_id=rid(r))
            # a working tree only records merges that are heads: read back what was really committed
            with b.lock_read():
                real = b.repository.get_parent_map([rid(r)])[rid(r)]
            dag["parents"][r] = [unrid(p) for p in real if p != NULL]
        self.master = ControlDir.create_branch_convenience(
            os.path.join(self.dir, "m"), format=format_registry.make_controldir("2a"), force_new_tree=False)
        self.master.repository.fetch(b.repository)
        self.fresh = 50

    def revno(self, t):
        return len(G.ref_lh_stop_at_ghost(self.dag, t))

    def setup(self, c):
        """put branch, tree, tags and master into the state described by case c"""
        wt, b = self.wt, self.wt.branch
        if b.get_bound_location():
            b.set_bound_location(None)
        T = c["tip"]
        b.set_last_revision_info(self.revno(T), rid(T))
        wt.set_parent_ids([rid(T)] + [rid(p) for p in c["p0"]], allow_leftmost_as_ghost=True)
        b.tags._set_tag_dict({"t%d" % k: rid(v) for k, v in c["tags"].items()})
        if c["master"] is not None:
            M = self.master
            mt = c["master"]["tip"]
            M.repository.fetch(b.repository)
            M.set_last_revision_info(self.revno(mt), rid(mt))
            M.tags._set_tag_dict({"t%d" % k: rid(v) for k, v in c["master"]["tags"].items()})
            b.set_bound_location(M.base)

    def observe(self):
        from breezy.branch import Branch
        from breezy.workingtree import WorkingTree
        wt = WorkingTree.open(self.wt.basedir)
        b = wt.branch
        rn, tip = b.last_revision_info()
        tags = {int(k[1:]): self.unrid(v) for k, v in b.tags.get_tag_dict().items()}
        st = dict(tip=self.unrid(tip), revno=rn, tags=tags, parents=[self.unrid(p) for p in wt.get_parent_ids()], master=None)
        if b.get_bound_location():
            M = Branch.open(self.master.base)
            mrn, mtip = M.last_revision_info()
            st["master"] = dict(tip=self.unrid(mtip), revno=mrn,
                                tags={int(k[1:]): self.unrid(v) for k, v in M.tags.get_tag_dict().items()})
        return st

    def unrid(self, b):
        if b == NULL:
            return None
        if b[:1] == b"c":
            return int(b[1:])
        return unrid(b)

    def graph_obs(self, tip, parents, keys):
        """vcsgraph answers used by uncommit / set_parent_ids, on the real repository"""
        b = self.wt.branch
        with b.lock_read():
            g = b.repository.get_graph()
            fua = sorted(self.unrid(x) for x in g.find_unique_ancestors(rid(tip), [rid(p) for p in parents]) if x != NULL)
            hs = sorted(self.unrid(x) for x in g.heads([rid(k) for k in keys])) if keys else []
        return revs_s(fua), revs_s(hs)

    def run_uncommit(self, c):
        from breezy.uncommit import uncommit
        self.setup(c)
        before = self.observe()
        err = None
        try:
            uncommit(self.wt.branch, tree=self.wt, revno=self.revno(c["tip"]) - c["d"] + 1,
                     keep_tags=c["keep"], local=c["local"])
        except (KeyboardInterrupt, SystemExit):
            raise
        except BaseException as e:      # pyo3 PanicException derives from BaseException
            err = err_s(e)
        after = self.observe()
        return before, err, after

    def run_excluded(self, c):
        from breezy.uncommit import uncommit
        self.setup(dict(tip=c["tip"], p0=[], tags={}, master=None))
        before = self.observe()
        err = None
        try:
            uncommit(self.wt.branch, tree=self.wt, revno=c["revno"])
        except (KeyboardInterrupt, SystemExit):
            raise
        except BaseException as e:
            err = err_s(e)
        after = self.observe()
        return dict(before=before, err=err, after=after)

    def run_roundtrip(self, c):
        """commit in the state of c (with file edits), then uncommit that commit"""
        from breezy.uncommit import uncommit
        self.setup(c)
        wt = self.wt
        base = wt.basedir
        with open(os.path.join(base, "f"), "w") as f:
            f.write(c["edit"])
        extra = os.path.join(base, "g%d" % self.fresh)
        if c["add"]:
            with open(extra, "w") as f:
                f.write("new file\n")
            wt.add([os.path.basename(extra)])
        before = self.observe()
        files_before = self.files()
        changes_before = self.changes()
        self.fresh += 1
        new = self.fresh
        err = None
        try:
            wt.commit("roundtrip", rev_id=b"c%d" % new)
            mid = self.observe()
            uncommit(wt.branch, tree=wt)
        except (KeyboardInterrupt, SystemExit):
            raise
        except BaseException as e:
            err = err_s(e)
            mid = None
        after = self.observe()
        res = dict(before=before, mid=mid, err=err, after=after, new=new,
                   files_same=files_before == self.files(), changes_same=changes_before == self.changes(),
                   changes=changes_before)
        # leave the tree clean for the next case
        if c["add"]:
            wt.remove([os.path.basename(extra)], keep_files=False, force=True)
        return res

    def files(self):
        out = {}
        for name in sorted(os.listdir(self.wt.basedir)):
            p = os.path.join(self.wt.basedir, name)
            if os.path.isfile(p):
                with open(p, "rb") as f:
                    out[name] = f.read()
        return out

    def changes(self):
        from breezy.workingtree import WorkingTree
        wt = WorkingTree.open(self.wt.basedir)
        with wt.lock_read():
            basis = wt.basis_tree()
            with basis.lock_read():
                out = []
                for ch in wt.iter_changes(basis):
                    out.append((ch.path, ch.changed_content, ch.versioned, ch.kind))
                return sorted(out, key=repr)

    def close(self):
        shutil.rmtree(self.dir, ignore_errors=True)


def st_line(st):
    m = "-" if st["master"] is None else branch_s(st["master"]["tip"], st["master"]["revno"], st["master"]["tags"])
    return "%s %s %s" % (branch_s(st["tip"], st["revno"], st["tags"]), m, revs_s(st["parents"]))


def gen_dag16(rng, n):
    """DAG whose merges are mostly real merges (of revisions that are not ancestors of the
    left-hand parent), as a working tree would record them"""
    dag = G.gen_dag(rng, n, max_parents=1)
    ng = sum(1 for ps in dag["parents"].values() for p in ps if p >= GH0)
    for i in dag["order"]:
        ps = dag["parents"][i]
        if not ps or ps[0] >= GH0:
            continue
        anc0 = G.ref_anc(dag, ps[0])
        cands = [e for e in range(1, i) if e not in anc0]
        while cands and len(ps) < 3 and rng.random() < 0.55:
            x = rng.choice(cands)
            cands.remove(x)
            ps.append(x)
        if len(ps) < 3 and rng.random() < 0.12:
            ps.append(GH0 + ng)
            ng += 1
    return dag


def gen_cases(rng, dag):
    nodes = dag["order"]
    ghosts = sorted({p for ps in dag["parents"].values() for p in ps if p >= GH0})
    pool = nodes + ghosts
    cases = []
    for T in nodes:
        for d in range(1, len(G.ref_lh_stop_at_ghost(dag, T)) + 1):
            p0 = [] if rng.random() < 0.5 else rng.sample(pool, min(len(pool), rng.randint(1, 2)))
            p0 = [p for p in p0 if p != T]
            tags = {}
            for k in range(rng.randint(0, 4)):
                tags[k + 1] = rng.choice(pool)
            master = None
            local = False
            r = rng.random()
            if r < 0.3:
                mt = T if rng.random() < 0.8 else rng.choice(nodes)
                mtags = dict(tags) if rng.random() < 0.6 else {k + 1: rng.choice(pool) for k in range(rng.randint(0, 3))}
                master = dict(tip=mt, tags=mtags)
                local = rng.random() < 0.3
            elif r < 0.34:
                local = True
            cases.append(dict(f="unc", tip=T, d=d, p0=p0, tags=tags, keep=rng.random() < 0.25,
                              master=master, local=local))
    # excluded inputs (the command refuses them before calling uncommit): revno outside 1..revno(T).
    # The real code is run and its behaviour counted; nothing is compared.
    T = rng.choice(nodes)
    cases.append(dict(f="excluded", tip=T, revno=rng.choice([0, len(G.ref_lh_stop_at_ghost(dag, T)) + 1,
                                                              len(G.ref_lh_stop_at_ghost(dag, T)) + 2])))
    # commit / uncommit round trips
    for _ in range(max(2, len(nodes) // 2)):
        T = rng.choice(nodes)
        p0 = [] if rng.random() < 0.4 else [p for p in rng.sample(pool, min(len(pool), rng.randint(1, 2))) if p != T]
        tags = {k + 1: rng.choice(pool) for k in range(rng.randint(0, 2))}
        master = dict(tip=T, tags=dict(tags)) if rng.random() < 0.3 else None
        cases.append(dict(f="cu", tip=T, p0=p0, tags=tags, master=master,
                          edit="edited %d\n" % rng.randint(0, 99), add=rng.random() < 0.4))
    return cases


def _worker(job):
    dag, cases = job
    dag = dict(order=list(dag["order"]), parents={k: list(v) for k, v in dag["parents"].items()})
    sc = Scenario(dag)          # corrects dag["parents"] to what the tree really committed
    out = [dag]
    try:
        for c in cases:
            if c["f"] == "unc":
                before, err, after = sc.run_uncommit(c)
                ref = ref_uncommit(dag, c["tip"], c["d"], before["parents"][1:])
                gobs = None
                if ref is not None:
                    gobs = sc.graph_obs(c["tip"], ref[1], ref[1])
                out.append(dict(before=before, err=err, after=after, gobs=gobs))
            elif c["f"] == "excluded":
                out.append(sc.run_excluded(c))
            else:
                out.append(sc.run_roundtrip(c))
    finally:
        sc.close()
    return out


# ---------------------------------------------------------------------------
# oracle

def expected_gone(dag, c, before):
    """names of the branch's tags that sit on removed revisions (None: walk meets a ghost)"""
    ref = ref_uncommit(dag, c["tip"], c["d"], before["parents"][1:])
    if ref is None:
        return None
    parents = ref[1]
    uniq = G.ref_anc(dag, c["tip"])
    for p in parents:
        uniq = uniq - G.ref_anc(dag, p)
    return set() if c["keep"] else {k for k, v in before["tags"].items() if v in uniq}


def oracle_uncommit(dag, c, before, err, after, sink):
    out_of_step = (before["master"] is not None and not c["local"]
                   and before["master"]["tip"] != before["tip"])
    if out_of_step and err != "E:OutOfDate":
        sink("the master is at %s, the bound branch at %s, but uncommit did not refuse (%s): master now at %s"
             % (tip_s(before["master"]["tip"]), tip_s(before["tip"]), err or "ok", tip_s(after["master"]["tip"])), None)
        return
    if err is not None:
        if after != before:
            sink("%s raised but the state changed: %r -> %r" % (err, before, after), None)
        if err.startswith("E:other") or err == "E:Panic":
            sink("unexpected exception %s" % err, None)
        return
    ref = ref_uncommit(dag, c["tip"], c["d"], before["parents"][1:])
    if ref is None:
        sink("uncommit walked into a ghost without raising", None)
        return
    new_tip, parents = ref
    if after["tip"] != new_tip:
        sink("tip is %s, the %d-th left-hand ancestor of %s is %s" % (tip_s(after["tip"]), c["d"], c["tip"], tip_s(new_tip)), None)
    if after["revno"] != before["revno"] - c["d"]:
        sink("revno %d, expected %d" % (after["revno"], before["revno"] - c["d"]), None)
    lh = G.ref_lh(dag, after["tip"])
    if lh is not None and G.ref_lh(dag, c["tip"]) is not None and after["revno"] != len(lh):
        sink("revno %d but the tip's left-hand history has length %d" % (after["revno"], len(lh)), None)
    # tree parents
    if after["parents"][:1] != ([after["tip"]] if after["tip"] is not None else []):
        sink("tree basis %s differs from branch tip %s" % (after["parents"][:1], tip_s(after["tip"])), None)
    if after["parents"] != ref_filter(dag, parents):
        sink("tree parents %s, expected %s (removed merges, older revision first, then previous pending merges)"
             % (after["parents"], ref_filter(dag, parents)), None)
    # tags
    gone = expected_gone(dag, c, before)
    exp = {k: v for k, v in before["tags"].items() if k not in gone}
    if after["tags"] != exp:
        sink("tags %s, expected %s (dropped iff on a removed revision)" % (after["tags"], exp), None)
    if before["master"] is not None:
        m0, m1 = before["master"], after["master"]
        if c["local"]:
            if (m1["tip"], m1["revno"]) != (m0["tip"], m0["revno"]):
                sink("local uncommit changed the master tip", None)
            lost = {k: v for k, v in m0["tags"].items() if k not in m1["tags"]}
            if lost:
                sink("uncommit --local deleted tags %s of the master branch, whose history still contains "
                     "their revisions" % lost, "local-uncommit-deletes-master-tags")
            if {k: v for k, v in m1["tags"].items()} != {k: v for k, v in m0["tags"].items() if k in m1["tags"]}:
                sink("master tags rewritten", None)
        else:
            if (m1["tip"], m1["revno"]) != (after["tip"], after["revno"]):
                sink("master is at %s/%d, branch at %s/%d" % (tip_s(m1["tip"]), m1["revno"], tip_s(after["tip"]), after["revno"]), None)
            # a master tag goes iff the same name was removed locally (its revision was removed there too
            # when both tag dicts agree)
            expm = {k: v for k, v in m0["tags"].items() if k not in gone}
            if m1["tags"] != expm:
                if all(before["tags"].get(k) == v for k, v in m0["tags"].items() if k in gone):
                    sink("master tags %s, expected %s" % (m1["tags"], expm), None)


def oracle_roundtrip(c, res, sink):
    if res["err"] is not None:
        sink("commit/uncommit raised %s" % res["err"], None)
        return
    b, a = res["before"], res["after"]
    if res["mid"]["tip"] != res["new"] or res["mid"]["parents"] != [res["new"]]:
        sink("commit did not advance the branch/tree to the new revision", None)
    if (a["tip"], a["revno"]) != (b["tip"], b["revno"]):
        sink("tip/revno %s/%d after commit+uncommit, was %s/%d" % (tip_s(a["tip"]), a["revno"], tip_s(b["tip"]), b["revno"]), None)
    if a["parents"] != b["parents"]:
        sink("tree parents %s after commit+uncommit, were %s" % (a["parents"], b["parents"]), None)
    if a["tags"] != b["tags"]:
        sink("tags changed by commit+uncommit: %s -> %s" % (b["tags"], a["tags"]), None)
    if a["master"] != b["master"]:
        sink("master state changed by commit+uncommit: %s -> %s" % (b["master"], a["master"]), None)
    if not res["files_same"]:
        sink("working tree files changed by commit+uncommit", None)
    if not res["changes_same"]:
        sink("the tree reports different changes after commit+uncommit", None)


# ---------------------------------------------------------------------------

def run(ctx, ndags=None, maxn=None):
    ndags = ndags or ctx.pick(26, 260)
    maxn = maxn or ctx.pick(7, 10)
    jobs = []
    for _ in range(ndags):
        dag = gen_dag16(ctx.rng, ctx.rng.randint(3, maxn))
        jobs.append((dag, gen_cases(ctx.rng, dag)))
    results = ctx.pmap(_worker, jobs, chunksize=1)
    cases, lines, outs = [], [], []
    for (_, cs), res in zip(jobs, results):
        dag = res[0]
        res = res[1:]
        genc = G.enc_graph(dag)
        ctx.count("dag_size:%d" % len(dag["order"]))
        ctx.count("dag_merges:%d" % sum(1 for ps in dag["parents"].values() if len(ps) > 1))
        for c, r in zip(cs, res):
            case = dict(g=genc, **c)
            sink = lambda what, fam, case=case: ctx.violation(case, what, family=fam)  # noqa: E731
            if c["f"] == "unc":
                before, err, after = r["before"], r["err"], r["after"]
                removed_merge = any(len(dag["parents"].get(x, [])) > 1
                                    for x in G.ref_lh_stop_at_ghost(dag, c["tip"])[:c["d"]])
                ctx.case(case, nontrivial=bool(removed_merge or before["parents"][1:] or c["tags"] or c["master"]))
                ctx.count("unc depth:%d" % c["d"])
                ctx.count("unc outcome:%s" % (err or "ok"))
                ctx.count("unc bound:%s local:%s keep:%s" % ("T" if c["master"] else "F", "T" if c["local"] else "F",
                                                             "T" if c["keep"] else "F"))
                if removed_merge:
                    ctx.count("unc removes-merge")
                oracle_uncommit(dag, c, before, err, after, sink)
                cases.append(case)
                lines.append("unc %s %s %d %s %s" % (genc, st_line(before), c["d"], "T" if c["keep"] else "F",
                                                     "T" if c["local"] else "F"))
                outs.append(err if err is not None else "ok " + st_line(after))
                if r["gobs"] is not None:
                    ref = ref_uncommit(dag, c["tip"], c["d"], before["parents"][1:])
                    fua, hs = r["gobs"]
                    gcase = dict(f="graph", g=genc, tip=c["tip"], parents=ref[1])
                    cases += [gcase, gcase]
                    lines += ["fua %s %d %s" % (genc, c["tip"], revs_s(ref[1])),
                              "heads %s %s" % (genc, revs_s(ref[1]))]
                    outs += [fua, hs]
                    # the tree's own filtering against the reference
                    if err is None and after["parents"] != ref_filter(dag, ref[1]):
                        pass    # reported by the oracle above
            elif c["f"] == "excluded":
                rel = c["revno"] - r["before"]["revno"]
                ctx.count("excluded-input revno=%s: %s tip %s revno %d" % (
                    "0" if c["revno"] == 0 else "old%+d" % rel, r["err"] or "ok",
                    "null" if r["after"]["tip"] is None else ("unchanged" if r["after"]["tip"] == r["before"]["tip"] else "moved"),
                    r["after"]["revno"] - r["before"]["revno"]))
            else:
                ctx.case(case, nontrivial=True)
                ctx.count("roundtrip bound:%s pending:%d add:%s" % ("T" if c["master"] else "F", len(r["before"]["parents"]) - 1,
                                                                    "T" if c["add"] else "F"))
                ctx.count("roundtrip changes:%d" % len(r["changes"]))
                oracle_roundtrip(c, r, sink)
                cases.append(case)
                lines.append("cu %s %s %d" % (genc, st_line(r["before"]), r["new"]))
                outs.append(r["err"] if r["err"] is not None else "ok " + st_line(r["after"]))
    ctx.diff(cases, lines, outs)
    ctx.extra["dags"] = dict(n=ndags, max_revisions=maxn)
    fams = {}
    for v in ctx.violations:
        fams[str(v["family"])] = fams.get(str(v["family"]), 0) + 1
    ctx.extra["violation_families"] = fams


def widen(ctx):
    run(ctx, ndags=60, maxn=9)


def replay(ctx, case):
    dag = G._dag_from_enc(case["g"])
    sc = Scenario(dag)
    viol = []
    try:
        if case["f"] == "graph":
            fua, hs = sc.graph_obs(case["tip"], case["parents"], case["parents"])
            model = ctx.model(["fua %s %d %s" % (case["g"], case["tip"], revs_s(case["parents"])),
                               "heads %s %s" % (case["g"], revs_s(case["parents"]))])
            return dict(case=case, impl=[fua, hs], model=model)
        c = {k: v for k, v in case.items() if k != "g"}
        if isinstance(c.get("tags"), dict):
            c["tags"] = {int(k): v for k, v in c["tags"].items()}
        if c.get("master"):
            c["master"]["tags"] = {int(k): v for k, v in c["master"]["tags"].items()}
        if case["f"] == "excluded":
            return dict(case=case, impl=sc.run_excluded(c), model="(excluded input: not modelled)")
        if case["f"] == "unc":
            before, err, after = sc.run_uncommit(c)
            oracle_uncommit(dag, c, before, err, after, lambda what, fam: viol.append((what, fam)))
            line = "unc %s %s %d %s %s" % (case["g"], st_line(before), c["d"], "T" if c["keep"] else "F",
                                           "T" if c["local"] else "F")
            impl = err if err is not None else "ok " + st_line(after)
        else:
            r = sc.run_roundtrip(c)
            oracle_roundtrip(c, r, lambda what, fam: viol.append((what, fam)))
            line = "cu %s %s %d" % (case["g"], st_line(r["before"]), r["new"])
            impl = r["err"] if r["err"] is not None else "ok " + st_line(r["after"])
        for what, fam in viol:
            ctx.violation(case, what, family=fam)
        return dict(case=case, impl=impl, model=ctx.model([line])[0], oracle_failures=[w for w, _ in viol])
    finally:
        sc.close()
