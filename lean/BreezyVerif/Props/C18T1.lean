import BreezyVerif.Model.C18
import BreezyVerif.Generated.C18
/-! C18 — T1 tie: definitions regenerated from the current source equal the model. -/
namespace BreezyVerif.C18
variable {α : Type} [DecidableEq α]

/-- T1: the function transcribed from the current source equals the model. -/
theorem three_way_gen_eq (b o t : α) : threeWayGen b o t = threeWay b o t := by
  unfold threeWayGen threeWay
  grind

end BreezyVerif.C18
