"""C20 — conflict and merge-hash records persist and resolve faithfully.

Anchors: breezy/bzr/conflicts.py (Conflict.as_stanza and its overrides,
ConflictList.from_stanzas/to_stanzas, Conflict.factory, select_conflicts),
breezy/bzr/workingtree.py (set_conflicts, conflicts, _put_rio,
set_merge_modified, merge_modified), breezy/conflicts.py (resolve).
The rio stanza text format itself is the external compiled bzrformats package:
it is modelled (writer + reader) and compared on every case.

Model: lean/BreezyVerif/Model/C20.lean.  T2 levels:
  A  generated conflict lists (all ten classes, optional attributes present /
     None, values with spaces, tabs, newlines, `: `, `#`, NUL, non-ASCII, CR):
     `set_conflicts` -> bytes of .bzr/checkout/conflicts compared with the
     model's writer byte for byte; tree re-opened; `conflicts()` compared with
     the model's reader run on the same bytes;
  B  reader on mutated / hand-written malformed conflicts files
     (accept/reject + error kind; invalid UTF-8: reject only);
  I  `osutils.is_inside` / `is_inside_any` (Rust, REBUILT from the tree under
     test: RUST = osutils-py) on all ordered pairs of a path universe with
     absolute paths, `/`, `.`, `..`, `a/..`, `./`, doubled and trailing slashes:
     against the model (`inside` op) and an independent Python reference;
  C  `select_conflicts` (stub tree for path2id, all subsets of <= 3 paths out of
     that universe x recurse) and `resolve(tree, paths, action=…)` on a real
     tree, re-opened — action "done", and action "auto", which only
     TextConflict implements (and refuses for directories, symlinks and files
     with conflict markers): every other selected conflict raises
     NotImplementedError and must stay listed after the not-selected ones
     (model `resolveWith` / `handlesAuto`);
  D  `set_merge_modified` / `merge_modified` on a real tree whose versioned
     entries include directories, a symlink and a file DELETED from disk (no
     current sha1: `get_file_sha1` gives None — modelled as `sha = none`), with
     recorded hashes = current sha1 / other file's / the deleted file's old one
     / random hex / decorated (CR, LF, blanks, case, truncated) / stanza
     delimiter atoms / "-" / "None" / empty: file bytes and re-read dict against
     the model; four fixed cases first (the `merge_modified_witness` input
     among them); damaged merge-hashes files;
  X  excluded inputs: what the real code refuses before storing anything (lone
     surrogates, non-UTF-8 ids, None attributes, non-ASCII hashes — file
     unchanged; a file id ending in CR is refused by `WorkingTree.add`).
Oracle: attributes read back == attributes stored (type, path, file_id,
conflict_path, action, conflict_file_id — never `==` on Conflict objects, which
ignores conflict_path); is_inside == component-wise prefix (independent
reference); select: order-preserving partition, selected iff the statement's
criterion (evaluated with that reference, not with the code under test); after
resolve the stored list == the not-selected list (+ the selected conflicts the
action cannot handle); merge hashes: re-read dict == {path: hash | path is a
versioned regular file present on disk and hash == its current sha1}.

Known violation family (`_family` / `_mm_family`), computed from the concrete
input AND the observed failure:
  cr-at-line-end — some stored value has a line ending in CR (the external rio
  reader drops trailing CRs) and what is read back is EXACTLY the stored data
  with those CRs dropped; proved as `conflicts_roundtrip_witness` and
  `merge_modified_witness` (a recorded hash "<current sha1>\r" is reported as
  current).  Any other difference on a list that merely contains such a value
  is reported as a new violation.

Mutants this was built against:
  M1 Conflict.as_stanza: `if self.file_id is not None` -> `if self.file_id` (empty id dropped)
  M2 PathConflict.as_stanza: conflict_path not written
  M3 HandledPathConflict.as_stanza: conflict_file_id written under "file_id"
  M4 select_conflicts: `if recurse and is_inside_any(...)` -> recurse ignored / always
  M5 select_conflicts: file-id loop only looks at "file_id" (conflict_file_id dropped)
  M6 select_conflicts: selected conflict appended to both lists / `else` dropped
  M7 _put_rio: separator blank line dropped between stanzas
  M8 set_merge_modified: hash stanza written for unversioned paths with path as id / merge_modified: hash comparison dropped
  M9 resolve(): `tree.set_conflicts(new_conflicts)` replaced by set_conflicts(to_process)
  M10 HandledConflict.__init__/factory: action and path swapped
  H1 (harmless) as_stanza rewritten with Stanza.from_pairs-free explicit adds in the same order
Round 2 (all caught by the oracle with a concrete input unless noted):
  R1 merge_modified: `if current is None or text_hash == current` (deleted file / dir / symlink reported) — level D
  R2 resolve: `except NotImplementedError: pass` (unhandled conflicts silently dropped) — level C action "auto"
  R3 crates/osutils path.rs is_inside: string prefix instead of Path::starts_with ("a" inside "ab") — level I (Rust rebuilt)
  R4 PathConflict.as_stanza: conflict_path.rstrip("\r\n") (a DIFFERENT loss on lists that also contain CR values:
     not masked by the known family any more)
  R5 select_conflicts recursion by `cpath.startswith(p + "/")` ("a/." / "a//b" / "" as directory) — level C
  H2 (harmless) select_conflicts `try: ids[..] except KeyError` -> `if .. not in ids: continue`: clean
Stored seeds C20-select-conflicts-break-on-missing-file-id and C20-select-ignores-conflict-file-id: still VIOLATION.
"""
import itertools
import os
import time

os.environ["RUST_BACKTRACE"] = "0"

from vlib import env

THEOREMS = [
    "stanza_text_roundtrip_partial", "from_as_stanza", "conflicts_roundtrip_partial",
    "conflicts_roundtrip_witness", "select_partition", "select_characterisation",
    "resolve_removes_exactly_partial", "merge_modified_roundtrip_partial", "merge_modified_witness",
    "merge_modified_sound_partial", "resolveDone_eq_resolveWith", "resolve_with_partial",
    "resolve_unhandled_keeps_all_partial",
]
RUST = ("osutils-py",)   # is_inside / is_inside_any are rebuilt from the Rust source of the tree under test
RULE = ("conflict lists of 0..6 conflicts over the ten classes with generated text values (atoms with every "
        "delimiter the writer/reader look at, random unicode); non-trivial = list non-empty and some value is "
        "not plain [a-z/]; select cases: all subsets of <=3 paths of 6 paths sampled from a 25-path universe (relative, "
        "absolute, '.', '..', doubled/trailing slashes) x recurse, non-trivial = both result lists non-empty or an "
        "id-based selection happened; is_inside: all ordered pairs of a 44-path universe; resolve on a real tree with "
        "action done / auto; merge hashes: 0..6 records over versioned files, directories, a symlink, a deleted file "
        "and unversioned paths with current / foreign / decorated / delimiter hashes, non-trivial = some but not all kept")
ASSUMPTIONS = [
    "text values are Python str without lone surrogates and file ids are valid UTF-8 (others are refused by "
    "Stanza.add / .decode before anything is stored — exercised as an excluded-input stream)",
    "no value has a line ending in CR (explicit hypothesis `crSafe` of the *_partial theorems; the excluded "
    "family is a reported finding, witness theorems `conflicts_roundtrip_witness`, `merge_modified_witness`, both "
    "reproduced on the real code on every run)",
    "recorded merge hashes are ASCII bytes (others raise UnicodeDecodeError in set_merge_modified before the file is "
    "touched — excluded-input stream) and file ids of a working tree have no line ending in CR (`WorkingTree.add` "
    "refuses them — excluded-input stream)",
]
TRUSTED = [
    "bzrformats.rio (external, compiled) is modelled from its grammar and observed behaviour; writer and reader "
    "are compared with the model on every generated and every malformed file of this run",
    "UTF-8 encoding/decoding of text is taken as a bijection (model works on characters)",
    "osutils.is_inside / is_inside_any (Rust Path::starts_with, rebuilt from crates/osutils of the tree under "
    "test on every run) are modelled component-wise; compared on all ordered pairs of the path universe (level I) "
    "and inside every select case; the select oracle uses an independent Python component-prefix reference",
]

TYPES = ["text conflict", "contents conflict", "path conflict", "duplicate id", "duplicate", "parent loop",
         "unversioned parent", "missing parent", "deleting parent", "non-directory parent"]
SHAPE = {0: "plain", 1: "pathc", 2: "pathc", 3: "hpath", 4: "hpath", 5: "hpath", 6: "handled", 7: "handled",
         8: "handled", 9: "handled"}
CONF_HEADER = b"BZR conflict list format 1\n"
MM_HEADER = b"BZR merge-modified list format 1\n"

TEXT_ATOMS = ["a", "b", "dir/file", "dir/sub/g.txt", "é", "日本語/ファイル", "a b", " lead", "trail ", "", "\ttab", "tab\t",
              "a\nb", "a\n", "\n", "\na", "a\n\nb", "a\n\tb", "a: b", "type: x", ": ", "#c", "a\\b", "\x00", "a\x0bb\x0c",
              "x\x85y", " ", "😀", "path", "a.moved", "<deleted>", "a\rb", "\rlead",
              "Moved existing file to", "Created directory", "Not deleting", "Cancelled move"]
CR_ATOMS = ["a\r", "\r", "a\r\nb", "a\n\r", "x\r\r"]
ID_ATOMS = [b"id-1", b"a-20200101-abc", "é-id".encode(), b"", b"id with space", b"x\ny", b"TREE_ROOT", b"j", b"id:2", b"id\t"]


# ---------------------------------------------------------------- encodings
def hx(t):
    """text (str) or bytes -> protocol field"""
    if t is None:
        return "~"
    b = t.encode("utf-8") if isinstance(t, str) else t
    return b.hex() if b else "."


def unhx(s):
    if s == "~":
        return None
    return "" if s == "." else bytes.fromhex(s).decode("utf-8")


def spec_fields(spec):
    """spec = [typeidx, path, file_id(bytes|None), conflict_path, action, conflict_file_id(bytes|None)]"""
    t, p, f, cp, a, cf = spec
    return "/".join([str(t), hx(p), hx(f), hx(cp), hx(a), hx(cf)])


def enc_specs(specs):
    return ",".join(spec_fields(s) for s in specs) or "-"


def obj_spec(c):
    """a real Conflict object -> spec (attributes, never ==)"""
    return [TYPES.index(c.typestring), c.path, getattr(c, "file_id", None), getattr(c, "conflict_path", None),
            getattr(c, "action", None), getattr(c, "conflict_file_id", None)]


def mk_obj(spec):
    from breezy.bzr import conflicts as C
    t, p, f, cp, a, cf = spec
    cls = C.ctype[TYPES[t]]
    sh = SHAPE[t]
    if sh == "plain":
        return cls(p, file_id=f)
    if sh == "pathc":
        return cls(p, conflict_path=cp, file_id=f)
    if sh == "handled":
        return cls(a, p, file_id=f)
    return cls(a, p, cp, file_id=f, conflict_file_id=cf)


def json_spec(spec):
    t, p, f, cp, a, cf = spec
    return [t, p, None if f is None else f.hex(), cp, a, None if cf is None else cf.hex()]


def unjson_spec(j):
    t, p, f, cp, a, cf = j
    return [t, p, None if f is None else bytes.fromhex(f), cp, a, None if cf is None else bytes.fromhex(cf)]


def _values(spec):
    t, p, f, cp, a, cf = spec
    out = [p, cp, a]
    for b in (f, cf):
        if b is not None:
            try:
                out.append(b.decode("utf-8"))
            except UnicodeDecodeError:
                pass
    return [v for v in out if v is not None]


def _cr_strip(v):
    """what the rio reader makes of a stored value: every line loses its trailing CRs"""
    if v is None:
        return None
    if isinstance(v, bytes):
        return b"\n".join(line.rstrip(b"\r") for line in v.split(b"\n"))
    return "\n".join(line.rstrip("\r") for line in v.split("\n"))


def _has_cr_line_end(specs):
    return any(line.endswith("\r") for s in specs for v in _values(s) for line in v.split("\n"))


def _family(specs, status, back):
    """classifier of the known violation family, from the concrete input AND the
    observed failure: some stored value has a line ending in CR and what was read
    back is exactly the stored list with those CRs dropped.  Any other difference
    (also on lists that happen to contain such a value) is not this family."""
    if status == "ok" and _has_cr_line_end(specs) and back == [[s[0]] + [_cr_strip(v) for v in s[1:]] for s in specs]:
        return "cr-at-line-end"
    return None


def _mm_family(hashes, back, sha):
    """same for the merge-hash records: a recorded hash with a line ending in CR,
    and the re-read dict is exactly what the CR-stripped hashes would give"""
    if not any(line.endswith(b"\r") for h in hashes.values() for line in h.split(b"\n")):
        return None
    exp_cr = {p: _cr_strip(h) for p, h in hashes.items() if p in sha and _cr_strip(h) == sha[p]}
    return "cr-at-line-end" if back == exp_cr else None


# ---------------------------------------------------------------- generators
def gen_text(rng, cr=0.015):
    r = rng.random()
    if r < cr:
        return rng.choice(CR_ATOMS) if rng.random() < 0.7 else rng.choice(TEXT_ATOMS) + rng.choice(CR_ATOMS)
    if r < 0.6:
        return rng.choice(TEXT_ATOMS)
    if r < 0.85:
        return rng.choice(TEXT_ATOMS) + rng.choice(["/", "", " ", "\n"]) + rng.choice(TEXT_ATOMS)
    n = rng.randrange(1, 6)
    return "".join(chr(rng.choice([rng.randrange(0, 0x80), rng.randrange(0x20, 0x7f), rng.randrange(0x80, 0x800),
                                   rng.randrange(0x800, 0xD800), rng.randrange(0xE000, 0x10000),
                                   rng.randrange(0x10000, 0x110000)])) for _ in range(n))


def gen_id(rng, cr=0.01):
    r = rng.random()
    if r < 0.25:
        return None
    if r < 0.25 + cr:
        return rng.choice([b"id\r", b"a\r\nb"])
    if r < 0.8:
        return rng.choice(ID_ATOMS)
    return gen_text(rng, cr=0).encode("utf-8")


def gen_spec(rng, cr=0.015):
    t = rng.randrange(10)
    sh = SHAPE[t]
    p = gen_text(rng, cr)
    f = gen_id(rng, cr)
    cp = a = cf = None
    if sh == "pathc":
        cp = gen_text(rng, cr) if rng.random() < 0.7 else None
    elif sh == "handled":
        a = gen_text(rng, cr)
    elif sh == "hpath":
        a = gen_text(rng, cr)
        cp = gen_text(rng, cr)
        cf = gen_id(rng, cr)
    return [t, p, f, cp, a, cf]


def plain(specs):
    import re
    return all(re.fullmatch(r"[a-z/]*", v) for s in specs for v in _values(s))


# ---------------------------------------------------------------- real code wrappers
class _Tree:
    """one real 2a working tree reused by all levels"""

    # content: bytes = regular file, None = directory, ("symlink", target), ("gone", bytes) = versioned
    # file deleted from disk after `add`
    FILES = [("a", b"a-id", b"A\n"), ("dir", b"dir-id", None), ("dir/f", b"f-id", b"F\n"),
             ("dir/sub", b"sub-id", None), ("dir/sub/g", "g-é-id".encode(), b"G\n"),
             ("é", "é-id".encode(), b"e-acute\n"), ("日本", "日本-id".encode(), b"nihon\n"),
             ("sp ace", b"space-id", b"sp\n"), ("ab", b"ab-id", b"AB\n"),
             ("gone", b"gone-id", ("gone", b"G0\n")), ("ln", b"ln-id", ("symlink", "a")),
             ("marked", b"marked-id", b"x\n<<<<<<< TREE\ny\n=======\nz\n>>>>>>> MERGE-SOURCE\n")]

    def __init__(self):
        self.wt = env.make_tree("2a")
        self.base = self.wt.basedir
        paths, ids = [], []
        for p, i, content in self.FILES:
            full = os.path.join(self.base, p)
            if content is None:
                os.mkdir(full)
            elif isinstance(content, tuple) and content[0] == "symlink":
                os.symlink(content[1], full)
            else:
                with open(full, "wb") as f:
                    f.write(content[1] if isinstance(content, tuple) else content)
            paths.append(p)
            ids.append(i)
        self.wt.add(paths, ids=ids)
        for p, i, content in self.FILES:
            if isinstance(content, tuple) and content[0] == "gone":
                os.unlink(os.path.join(self.base, p))
        from breezy import osutils
        # what get_file_sha1 gives now: only regular files present on disk have one
        self.sha = {p: osutils.sha_string(c) for p, i, c in self.FILES if isinstance(c, bytes)}
        self.gone_sha = {p: osutils.sha_string(c[1]) for p, i, c in self.FILES if isinstance(c, tuple) and c[0] == "gone"}
        self.ids = {p: i for p, i, c in self.FILES}
        # TextConflict.action_auto raises NotImplementedError for these paths: not a regular file / conflict markers
        self.auto_unhandled = sorted(p for p, i, c in self.FILES
                                     if c is None or (isinstance(c, tuple) and c[0] == "symlink")
                                     or (isinstance(c, bytes) and b"<<<<<<<" in c))

    def open(self):
        from breezy.workingtree import WorkingTree
        return WorkingTree.open(self.base)

    def raw(self, name):
        p = os.path.join(self.base, ".bzr", "checkout", name)
        if not os.path.exists(p):
            return None
        with open(p, "rb") as f:
            return f.read()

    def put_raw(self, name, data):
        p = os.path.join(self.base, ".bzr", "checkout", name)
        if data is None:
            if os.path.exists(p):
                os.unlink(p)
            return
        with open(p, "wb") as f:
            f.write(data)


def _reraise_control(e):
    """pyo3 PanicException derives from BaseException: catch it like an error,
    but never swallow interpreter control flow"""
    if isinstance(e, (KeyboardInterrupt, SystemExit, GeneratorExit)):
        raise e


class _quiet_stderr:
    """the compiled rio reader panics on invalid UTF-8 and Rust prints the panic
    message on fd 2; silence fd 2 for the calls where that is expected"""

    def __init__(self, on):
        self.on = on

    def __enter__(self):
        if self.on:
            self.saved = os.dup(2)
            self.null = os.open(os.devnull, os.O_WRONLY)
            os.dup2(self.null, 2)

    def __exit__(self, *a):
        if self.on:
            os.dup2(self.saved, 2)
            os.close(self.saved)
            os.close(self.null)


def _is_utf8(b):
    try:
        (b or b"").decode("utf-8")
        return True
    except UnicodeDecodeError:
        return False


def _read_conflicts(tree):
    """-> ('ok', specs) | ('E:kind', None)"""
    from breezy import errors
    try:
        with _quiet_stderr(not _is_utf8(tree.raw("conflicts"))):
            cl = tree.open().conflicts()
        return "ok", [obj_spec(c) for c in cl]
    except errors.ConflictFormatError:
        return "E:Format", None
    except UnicodeDecodeError:
        return "E:Utf8", None
    except ValueError:
        return "E:ValueError", None
    except KeyError:
        return "E:KeyError", None
    except TypeError:
        return "E:TypeError", None
    except BaseException as e:  # pyo3 PanicException on invalid UTF-8
        if type(e).__name__ == "PanicException":
            return "E:Utf8", None
        raise


def _file_arg(data):
    return "~" if data is None else (data.hex() if data else ".")


# ---------------------------------------------------------------- level A
def _level_a(ctx, tree, n):
    cases, lines, outs = [], [], []
    for i in range(n):
        k = ctx.rng.choice([0, 1, 1, 2, 3, 4, 6])
        specs = [gen_spec(ctx.rng) for _ in range(k)]
        case = dict(level="A", conflicts=[json_spec(s) for s in specs])
        try:
            wt = tree.open()
            wt.set_conflicts([mk_obj(s) for s in specs])
        except BaseException as e:
            _reraise_control(e)
            ctx.violation(case, "set_conflicts raised %s: %s" % (type(e).__name__, str(e)[:200]))
            continue
        data = tree.raw("conflicts")
        status, back = _read_conflicts(tree)
        fam = _family(specs, status, back)
        # oracle: read back identically
        if status != "ok":
            ctx.violation(case, "stored conflict list cannot be read back: %s" % status, family=fam)
        elif back != specs:
            diff = next((j for j, (x, y) in enumerate(zip(back, specs)) if x != y), None)
            ctx.violation(case, "conflict list read back differently: stored %r read %r" % (
                specs[diff] if diff is not None else len(specs), back[diff] if diff is not None else len(back)),
                family=fam)
        ctx.case(case, nontrivial=bool(specs) and not plain(specs))
        ctx.count("A:len:%d" % k)
        for s in specs:
            ctx.count("A:type:" + TYPES[s[0]])
        ctx.count("A:family:%s" % fam)
        if _has_cr_line_end(specs):
            ctx.count("A:cr-line-end-input:" + ("family" if fam else ("roundtrips" if back == specs else "OTHER-FAILURE")))
        cases.append(case); lines.append("write " + enc_specs(specs)); outs.append(_file_arg(data))
        cases.append(case); lines.append("read " + _file_arg(data))
        outs.append("ok " + enc_specs(back) if status == "ok" else status)
    ctx.diff(cases, lines, outs)


# ---------------------------------------------------------------- level B
HAND_FILES = [
    None, b"", b"BZR conflict list format 1", CONF_HEADER, b"BZR conflict list format 1\r\n", b"BZR conflict list format 2\n",
    CONF_HEADER + b"\n", CONF_HEADER + b"\npath: a\ntype: text conflict\n",
    CONF_HEADER + b"path: a\ntype: text conflict\n", CONF_HEADER + b"path: a\ntype: text conflict",
    CONF_HEADER + b"path: a\r\ntype: text conflict\r\n", CONF_HEADER + b"path: a\n\r\npath: b\ntype: text conflict\n",
    CONF_HEADER + b"path: a\npath: b\ntype: text conflict\n", CONF_HEADER + b"path: a\n",
    CONF_HEADER + b"type: nope\npath: a\n", CONF_HEADER + b"type: text conflict\n",
    CONF_HEADER + b"type: text conflict\npath: a\naction: x\n", CONF_HEADER + b"type: missing parent\npath: a\n",
    CONF_HEADER + b"type: duplicate\npath: a\naction: x\n", CONF_HEADER + b"type: text conflict\npath: a\nself: 3\n",
    CONF_HEADER + b"type: path conflict\npath: a\nconflict_path: b\nconflict_file_id: c\n",
    CONF_HEADER + b"type: text conflict\npath: a\ntype: path conflict\n", CONF_HEADER + b"\tb\n",
    CONF_HEADER + b"path:a\ntype: text conflict\n", CONF_HEADER + b"pa th: a\ntype: text conflict\n",
    CONF_HEADER + b": a\n", CONF_HEADER + b"path: a\n \ntype: text conflict\n", CONF_HEADER + b"path: a\n\t\ntype: text conflict\n",
    CONF_HEADER + b"path: a\ntype: text conflict\n\n\npath: b\ntype: text conflict\n",
    CONF_HEADER + b"path: a\ntype: text conflict\n\npath: b\ntype: text conflict\n\n",
    CONF_HEADER + b"path: \xff\ntype: text conflict\n", CONF_HEADER + b"p\xc3\xa9: a\n", CONF_HEADER + b"path:\n",
    CONF_HEADER + b"PATH: a\ntype: text conflict\n", CONF_HEADER + b"path:  a\ntype: text conflict\n",
    CONF_HEADER + b"path: a\ntype: text conflict\nfile_id: \n", CONF_HEADER + b"path: a\ntype: text conflict \n",
    CONF_HEADER + b"path: a\n\ttype: text conflict\n", CONF_HEADER + b"path: a: b\ntype: text conflict\n",
    b"\n" + CONF_HEADER, MM_HEADER + b"path: a\ntype: text conflict\n",
]


def mutate(rng, b):
    b = bytearray(b)
    for _ in range(rng.choice([1, 1, 2, 3])):
        r = rng.random()
        pos = rng.randrange(len(b) + 1)
        if r < 0.3 and b:
            del b[min(pos, len(b) - 1)]
        elif r < 0.65:
            b.insert(pos, rng.choice(b"\n\n\t: \r-_ae#1"))
        elif r < 0.8 and b:
            b[min(pos, len(b) - 1)] = rng.choice(b"\n\t: \r_x\xc3\xff")
        elif r < 0.9:
            b = b[:pos]
        else:
            extra = rng.choice([b"path: z\n", b"\n", b"type: duplicate\n", b"action: q\n", b"\tcont\n", b"file_id: i\n",
                                b"conflict_path: c\n", b"conflict_file_id: d\n", b"bogus: 1\n"])
            b[pos:pos] = extra
    return bytes(b)


def _level_b(ctx, tree, n):
    blobs = list(HAND_FILES)
    for i in range(n):
        specs = [gen_spec(ctx.rng, cr=0) for _ in range(ctx.rng.choice([1, 1, 2, 3]))]
        reply = ctx.model(["write " + enc_specs(specs)])[0] if False else None
        # build a valid file with the real writer, then damage it
        tree.open().set_conflicts([mk_obj(s) for s in specs])
        blobs.append(mutate(ctx.rng, tree.raw("conflicts")))
    cases, lines, outs = [], [], []
    for b in blobs:
        tree.put_raw("conflicts", b)
        status, back = _read_conflicts(tree)
        case = dict(level="B", file=None if b is None else b.hex())
        ctx.case(case, nontrivial=bool(b) and b != CONF_HEADER)
        ctx.count("B:" + status)
        mb = b
        if status == "ok" and b is not None and not _is_utf8(b):
            # the reader is lazy: it stopped (empty stanza) before reaching the
            # undecodable bytes; the model gets the file up to the last complete
            # line before them
            try:
                b.decode("utf-8")
            except UnicodeDecodeError as e:
                mb = b[:b.rfind(b"\n", 0, e.start) + 1]
            ctx.count("B:lazy-prefix")
        cases.append(case); lines.append("read " + _file_arg(mb))
        outs.append("ok " + enc_specs(back) if status == "ok" else status)
    replies = ctx.model(lines)
    for c, l, o, m in zip(cases, lines, outs, replies):
        ctx.traces += 1
        if o == "E:Utf8" or m == "E:Utf8":
            # invalid UTF-8: compare on reject only (the reader is lazy, error order is not modelled)
            if o.startswith("ok") != m.startswith("ok"):
                ctx.mismatch(c, o, m, line=l)
            continue
        if o != m:
            ctx.mismatch(c, o, m, line=l)
    tree.put_raw("conflicts", None)


# ---------------------------------------------------------------- level C
SEL_PATHS = ["a", "a/b", "a/b/c", "ab", "a b", "", "dir", "dir/f", "dir/sub/g", "é", "é/x", "a//b", "a/./b", "./a", "a/", "zz",
             "/a", "/", ".", "..", "a/..", "./", "/a/b", "a/.", "../a"]
# level I: is_inside on all ordered pairs of these
INSIDE_PATHS = SEL_PATHS + ["//a", "/.", "/./a", "./.", "a/../b", "a/../b/c", "./a/b", "..a", "a..", ".a", "a/...", "é/", "/é",
                            "a/b/", "//", "/..", "./..", "dir/sub", "dir/su"]


def _ref_components(p):
    """independent reference for std::path::Path::components on Unix: a leading
    `/` is the root component, a leading `.` is kept, every other empty or `.`
    segment vanishes, `..` is an ordinary component"""
    segs = p.split("/")
    out = []
    if p.startswith("/"):
        out.append(("root",))
    elif segs[0] == ".":
        out.append(("cur",))
    for i, x in enumerate(segs):
        if x == "" or x == ".":
            continue
        out.append(("n", x))
    return out


def _ref_inside(d, f):
    """`Path::starts_with`: component-wise prefix"""
    cd, cf = _ref_components(d), _ref_components(f)
    return cf[:len(cd)] == cd


def _level_i(ctx):
    """osutils.is_inside / is_inside_any against the model and the reference, all ordered pairs"""
    from breezy import osutils
    cases, lines, outs = [], [], []
    for d in INSIDE_PATHS:
        for f in INSIDE_PATHS:
            case = dict(level="I", dir=d, fname=f)
            try:
                r = bool(osutils.is_inside(d, f))
                r_any = bool(osutils.is_inside_any([d], f)) and bool(osutils.is_inside_any(["no/such/dir", d], f)) \
                    and not osutils.is_inside_any([], f)
            except BaseException as e:
                _reraise_control(e)
                ctx.violation(case, "is_inside(%r, %r) raised %s: %s" % (d, f, type(e).__name__, str(e)[:200]))
                continue
            ref = _ref_inside(d, f)
            if r != ref or r_any != ref:
                ctx.violation(case, "is_inside(%r, %r) = %r, is_inside_any = %r, but %r is%s a component-wise prefix of %r"
                              % (d, f, r, r_any, d, "" if ref else " not", f))
            ctx.case(case, nontrivial=d != f and d != "")
            ctx.count("I:%s" % ("inside" if r else "outside"))
            cases.append(case); lines.append("inside %s %s" % (hx(d), hx(f))); outs.append("T" if r else "F")
    ctx.diff(cases, lines, outs)


class _StubTree:
    def __init__(self, m):
        self.m = m

    def path2id(self, p):
        return self.m.get(p)

    def abspath(self, p):
        return "/nonexistent/" + p


def _criterion(spec, paths, ids, recurse):
    """the statement's selection rule: the conflict's path / conflict_path is one
    of the paths, or (recurse) inside one of them (component-wise prefix, by the
    independent reference — the real is_inside is checked against it in level I),
    or its file id / conflict file id is the id of one of the paths"""
    t, p, f, cp, a, cf = spec
    for x in (p, cp):
        if x is None:
            continue
        if x in paths or (recurse and any(_ref_inside(d, x) for d in paths)):
            return True
    return any(i is not None and i in ids for i in (f, cf))


def _auto_handled(spec, tree):
    """does `conflict.do("auto", tree)` succeed?  Only TextConflict implements it:
    fine when the path is not in the tree or a regular file without conflict markers"""
    return spec[0] == 0 and spec[1] not in tree.auto_unhandled


def _select_oracle(ctx, case, specs, paths, ids, recurse, new, sel, what):
    it_new, it_sel = iter(new), iter(sel)
    exp_new = [s for s in specs if not _criterion(s, paths, ids, recurse)]
    exp_sel = [s for s in specs if _criterion(s, paths, ids, recurse)]
    if new != exp_new or sel != exp_sel:
        ctx.violation(case, "%s: kept %r / selected %r, expected kept %r / selected %r" % (
            what, [s[:2] for s in new], [s[:2] for s in sel], [s[:2] for s in exp_new], [s[:2] for s in exp_sel]))
        return False
    return True


def _resolve_expected(tree, specs, paths, recurse, action):
    if paths is None:
        kept, sel = [], list(specs)
    else:
        ids = {tree.ids[p] for p in paths if p in tree.ids}
        kept = [s for s in specs if not _criterion(s, paths, ids, recurse)]
        sel = [s for s in specs if _criterion(s, paths, ids, recurse)]
    if action == "done":
        return kept
    return kept + [s for s in sel if not _auto_handled(s, tree)]


def _resolve_line(tree, action, recurse, paths, before_file):
    line = "%s %s %s %s %s" % (
        "resolve" if action == "done" else "resolveauto",
        "T" if recurse else "F", "~" if paths is None else (",".join(hx(p) for p in paths) or "-"),
        ",".join("%s/%s" % (hx(p), hx(i)) for p, i in sorted(tree.ids.items())), _file_arg(before_file))
    if action != "done":
        line += " " + (",".join(hx(p) for p in tree.auto_unhandled) or "-")
    return line


def gen_sel_spec(rng, idpool):
    t = rng.randrange(10)
    sh = SHAPE[t]
    p = rng.choice(SEL_PATHS)
    f = rng.choice(idpool + [None, None, b"other-id"])
    cp = a = cf = None
    if sh == "pathc":
        cp = rng.choice(SEL_PATHS + [None, None])
    elif sh == "handled":
        a = "act"
    elif sh == "hpath":
        a = "act"
        cp = rng.choice(SEL_PATHS)
        cf = rng.choice(idpool + [None, b"other-id"])
    return [t, p, f, cp, a, cf]


def _level_c(ctx, tree, rounds, real_n):
    from breezy.bzr import conflicts as C
    from breezy import conflicts as _mod_conflicts
    cases, lines, outs = [], [], []
    for r in range(rounds):
        stub_map = {p: ("id-" + str(j)).encode() for j, p in enumerate(ctx.rng.sample(SEL_PATHS, 6))}
        idpool = list(stub_map.values())
        specs = [gen_sel_spec(ctx.rng, idpool) for _ in range(ctx.rng.randrange(1, 7))]
        objs = [mk_obj(s) for s in specs]
        universe = ctx.rng.sample(SEL_PATHS, 6)
        subsets = [()] + [c for k in (1, 2, 3) for c in itertools.combinations(universe, k)]
        for paths in subsets:
            for recurse in (False, True):
                paths = list(paths)
                case = dict(level="C", conflicts=[json_spec(s) for s in specs], paths=paths, recurse=recurse,
                            tree=sorted((p, i.hex()) for p, i in stub_map.items()))
                try:
                    new, sel = C.ConflictList(list(objs)).select_conflicts(_StubTree(stub_map), paths, True, recurse)
                except BaseException as e:
                    _reraise_control(e)
                    ctx.violation(case, "select_conflicts raised %s: %s" % (type(e).__name__, str(e)[:200]))
                    continue
                new, sel = [obj_spec(c) for c in new], [obj_spec(c) for c in sel]
                ids = {stub_map[p] for p in paths if p in stub_map}
                _select_oracle(ctx, case, specs, paths, ids, recurse, new, sel, "select_conflicts")
                byid = any(i in ids for s in specs for i in (s[2], s[5]) if i is not None)
                ctx.case(case, nontrivial=(bool(new) and bool(sel)) or byid)
                ctx.count("C:sel:%s:%d" % ("rec" if recurse else "norec", min(len(sel), 3)))
                cases.append(case)
                lines.append("select %s %s %s %s" % (
                    "T" if recurse else "F", ",".join(hx(p) for p in paths) or "-",
                    ",".join("%s/%s" % (hx(p), hx(i)) for p, i in sorted(stub_map.items())) or "-", enc_specs(specs)))
                outs.append(enc_specs(new) + ";" + enc_specs(sel))
    ctx.diff(cases, lines, outs)
    # resolve() on the real tree
    real_paths = ["a", "dir", "dir/f", "dir/sub", "dir/sub/g", "é", "日本", "sp ace", "ab", "zz", "dir/zz", "gone", "ln", "marked"]
    idpool = list(tree.ids.values())
    cases, lines, outs = [], [], []
    for i in range(real_n):
        specs = []
        for _ in range(ctx.rng.randrange(1, 6)):
            s = gen_sel_spec(ctx.rng, idpool)
            s[1] = ctx.rng.choice(real_paths)
            if s[3] is not None:
                s[3] = ctx.rng.choice(real_paths)
            specs.append(s)
        mode = ctx.rng.random()
        paths = None if mode < 0.1 else ctx.rng.sample(real_paths, ctx.rng.randrange(0, 4))
        recurse = ctx.rng.random() < 0.5
        # "auto" is implemented by TextConflict only (and refuses non-files and files with conflict
        # markers): every other selected conflict raises NotImplementedError and must be kept
        action = "done" if ctx.rng.random() < 0.65 else "auto"
        case = dict(level="C", op="resolve", conflicts=[json_spec(s) for s in specs], paths=paths, recurse=recurse,
                    action=action)
        try:
            wt = tree.open()
            wt.set_conflicts([mk_obj(s) for s in specs])
            before_file = tree.raw("conflicts")
            wt = tree.open()
            _mod_conflicts.resolve(wt, paths, ignore_misses=True, recursive=recurse, action=action)
        except BaseException as e:
            _reraise_control(e)
            ctx.violation(case, "resolve raised %s: %s" % (type(e).__name__, str(e)[:200]))
            continue
        after_file = tree.raw("conflicts")
        status, back = _read_conflicts(tree)
        exp = _resolve_expected(tree, specs, paths, recurse, action)
        if status != "ok" or back != exp:
            ctx.violation(case, "after resolve(%r, recursive=%r, action=%r) the tree lists %r, expected exactly the "
                          "not-selected conflicts%s %r" % (
                              paths, recurse, action, back and [s[:2] for s in back],
                              "" if action == "done" else " followed by the selected ones the action cannot handle",
                              [s[:2] for s in exp]))
        ctx.case(case, nontrivial=bool(exp) and len(exp) < len(specs))
        ctx.count("C:resolve:%s:%s" % (action, "all" if paths is None else "paths%d" % len(paths)))
        cases.append(case)
        lines.append(_resolve_line(tree, action, recurse, paths, before_file))
        outs.append(_file_arg(after_file))
    ctx.diff(cases, lines, outs)
    tree.put_raw("conflicts", None)


# ---------------------------------------------------------------- level D
HASH_ATOMS = [b"", b"-", b"None", b"a: b", b"hash: x", b"\tx", b"ab\ncd", b"\n", b"x\n", b"\nx", b" ", b"#", b"\rx", b"a\rb"]


def _tree3(tree):
    root_id = tree.open().path2id("")
    return ",".join("%s/%s/%s" % (hx(p), hx(i), hx(tree.sha.get(p)))
                    for p, i in [("", root_id)] + [(p, i) for p, i, c in tree.FILES])


def _gen_hash(rng, tree, p):
    """recorded hashes (ASCII bytes — others are refused, see level X): the current sha1, another file's,
    the sha1 the deleted file had, random hex, decorated variants of the current sha1 (CR / LF / blanks /
    case / truncation) and delimiter atoms of the stanza format"""
    r = rng.random()
    cur = tree.sha.get(p) or tree.gone_sha.get(p)
    if cur is not None and r < 0.5:
        return cur
    if r < 0.68:
        return rng.choice(list(tree.sha.values()) + list(tree.gone_sha.values()))
    if r < 0.8:
        return ("%040x" % rng.getrandbits(160)).encode()
    if r < 0.9:
        return rng.choice(HASH_ATOMS)
    base = cur or rng.choice(list(tree.sha.values()))
    return rng.choice([base + b"\r", base + b"\r\r", base + b"\n", base + b" ", b" " + base, base.upper(), base[:-1],
                       base + b"\n\r", base + b"\r\n", base[:20] + b"\n" + base[20:], b"\r" + base])


def _hash_kind(tree, p, h):
    if p not in tree.ids:
        return "unversioned-path"
    if p not in tree.sha:
        return "no-current-sha1"
    if h == tree.sha[p]:
        return "current"
    if _cr_strip(h) == tree.sha[p]:
        return "current+CR"
    return "hex-other" if len(h) == 40 and h.isalnum() else "odd"

def _level_d(ctx, tree, n):
    from breezy import errors
    # every versioned path: regular files, directories, a symlink, a file deleted from disk (the last
    # three have no current sha1: get_file_sha1 gives None), and unversioned / odd paths
    versioned = [p for p, i, c in tree.FILES]
    others = ["zz", "dir/zz", "", "a\nb", "é/x"]
    cases, lines, outs = [], [], []
    tree3 = _tree3(tree)
    # always first: the witness of `merge_modified_witness` (current sha1 + CR is read back as current),
    # entries without a current sha1 recorded with a real sha1 / with "-" / "None", a multi-line hash
    fixed = [{"a": tree.sha["a"] + b"\r"},
             {"gone": tree.gone_sha["gone"], "ln": tree.sha["a"], "dir": tree.sha["a"], "": tree.sha["a"], "a": tree.sha["a"]},
             {"dir": b"-", "gone": b"None", "ln": b"", "ab": tree.sha["ab"]},
             {"a": tree.sha["a"] + b"\n", "ab": b"x\n" + tree.sha["ab"], "dir/f": tree.sha["dir/f"]}]
    for i in range(n + len(fixed)):
        hashes = {}
        if i < len(fixed):
            hashes = dict(fixed[i])
        else:
            for p in ctx.rng.sample(versioned + others, ctx.rng.randrange(0, 7)):
                hashes[p] = _gen_hash(ctx.rng, tree, p)
        case = dict(level="D", hashes=sorted((p, h.decode()) for p, h in hashes.items()))
        try:
            tree.open().set_merge_modified(dict(hashes))
            data = tree.raw("merge-hashes")
            back = tree.open().merge_modified()
        except BaseException as e:
            _reraise_control(e)
            ctx.violation(case, "merge-modified store/read raised %s: %s" % (type(e).__name__, str(e)[:200]))
            continue
        exp = {p: h for p, h in hashes.items() if p in tree.sha and h == tree.sha[p]}
        fam = None
        if back != exp:
            fam = _mm_family(hashes, back, tree.sha)
            ctx.violation(case, "merge_modified() read back %r, expected %r (the recorded hashes of versioned regular "
                          "files that equal the current sha1)" % (back, exp), family=fam)
        ctx.case(case, nontrivial=bool(exp) and len(exp) < len(hashes))
        ctx.count("D:kept:%d" % min(len(exp), 4))
        ctx.count("D:family:%s" % fam)
        for p, h in hashes.items():
            ctx.count("D:hash:" + _hash_kind(tree, p, h))
        items = list(hashes.items())
        cases.append(case)
        lines.append("mmwrite %s %s" % (tree3, ",".join("%s/%s" % (hx(p), hx(h)) for p, h in items) or "-"))
        outs.append(_file_arg(data))
        cases.append(case)
        lines.append("mmread %s %s" % (tree3, _file_arg(data)))
        outs.append("ok " + (",".join("%s/%s" % (hx(p), hx(h)) for p, h in back.items()) or "-"))
    # damaged merge-hashes files
    blobs = [None, b"", MM_HEADER, b"BZR merge-modified list format 1", CONF_HEADER, MM_HEADER + b"\n",
             MM_HEADER + b"file_id: a-id\nhash: " + tree.sha["a"] + b"\n",
             MM_HEADER + b"file_id: a-id\r\nhash: " + tree.sha["a"] + b"\r\n",
             MM_HEADER + b"file_id: nope\nhash: " + tree.sha["a"] + b"\n",
             MM_HEADER + b"hash: " + tree.sha["a"] + b"\n", MM_HEADER + b"file_id: a-id\n",
             MM_HEADER + b"file_id: a-id\nhash: 00\n\nfile_id: f-id\nhash: " + tree.sha["dir/f"] + b"\n",
             MM_HEADER + b"file_id: a-id\nfile_id: f-id\nhash: " + tree.sha["a"] + b"\n",
             MM_HEADER + b"file_id a-id\n",
             # a recorded file id that is no longer versioned (the file was removed from version control after
             # the merge) BEFORE / BETWEEN / AFTER live records: only that record is skipped
             MM_HEADER + b"file_id: nope\nhash: " + tree.sha["a"] + b"\n\nfile_id: a-id\nhash: " + tree.sha["a"]
             + b"\n\nfile_id: f-id\nhash: " + tree.sha["dir/f"] + b"\n",
             MM_HEADER + b"file_id: a-id\nhash: " + tree.sha["a"] + b"\n\nfile_id: nope\nhash: 00\n\nfile_id: f-id\nhash: "
             + tree.sha["dir/f"] + b"\n",
             MM_HEADER + b"file_id: a-id\nhash: " + tree.sha["a"] + b"\n\nfile_id: f-id\nhash: " + tree.sha["dir/f"]
             + b"\n\nfile_id: nope\nhash: 00\n"]
    stale_expect = {}
    # the same on generated records: a stale record (unversioned id) spliced into the file that the real
    # set_merge_modified wrote, at a random stanza boundary; the live records must still be read back
    for _ in range(max(4, n // 4)):
        hashes = {p: (tree.sha[p] if ctx.rng.random() < 0.8 else _gen_hash(ctx.rng, tree, p))
                  for p in ctx.rng.sample([p for p in versioned if p in tree.sha], ctx.rng.randrange(1, 4))}
        tree.open().set_merge_modified(dict(hashes))
        data = tree.raw("merge-hashes")
        if data is None or not data.startswith(MM_HEADER) or b"\r" in data:
            continue
        stanzas = [x for x in data[len(MM_HEADER):].split(b"\n\n") if x.strip(b"\n")]
        stanzas = [x.strip(b"\n") for x in stanzas]
        stanzas.insert(ctx.rng.randrange(0, len(stanzas) + 1), b"file_id: gone-%d\nhash: %s" % (
            ctx.rng.randrange(100), ctx.rng.choice(list(tree.sha.values()))))
        blobs.append(MM_HEADER + b"\n\n".join(stanzas) + b"\n")
        stale_expect[blobs[-1]] = ({p: h for p, h in hashes.items() if h == tree.sha[p]}, sorted(hashes))
        ctx.count("D:stale-record-spliced")
    for b in blobs:
        tree.put_raw("merge-hashes", b)
        case = dict(level="D", file=None if b is None else b.hex())
        try:
            back = tree.open().merge_modified()
            out = "ok " + (",".join("%s/%s" % (hx(p), hx(h)) for p, h in back.items()) or "-")
            if b in stale_expect and back != stale_expect[b][0]:
                ctx.violation(case, "merge hashes recorded for %r, then one more record whose file id is no longer "
                              "versioned: merge_modified() reads back %r, expected %r (only the stale record is skipped)"
                              % (stale_expect[b][1], back, stale_expect[b][0]))
        except errors.MergeModifiedFormatError:
            out = "E:Format"
        except ValueError:
            out = "E:ValueError"
        except (AttributeError, TypeError, KeyError):  # a stanza without file_id / hash
            out = "E:BadStanza"
        ctx.case(case, nontrivial=bool(b))
        ctx.count("D:file:" + out.split(" ")[0])
        cases.append(case); lines.append("mmread %s %s" % (tree3, _file_arg(b))); outs.append(out)
    ctx.diff(cases, lines, outs)
    tree.put_raw("merge-hashes", None)


# ---------------------------------------------------------------- excluded inputs
def _level_x(ctx, tree):
    """values the model excludes: what does the real code do?  (refuse, store nothing)"""
    from breezy.bzr import conflicts as C
    good = [C.TextConflict("keep", file_id=b"k")]
    for bad in ([C.TextConflict("x\ud800", file_id=b"i")], [C.TextConflict("ok", file_id=b"\xff\xfe")],
                [C.MissingParent(None, "p", None)], [C.DuplicateEntry("act", "p", None, None, None)]):
        tree.open().set_conflicts(good)
        before = tree.raw("conflicts")
        try:
            tree.open().set_conflicts(good + bad)
            ctx.count("X:accepted")
        except (TypeError, UnicodeError):
            ctx.count("X:refused")
        if tree.raw("conflicts") != before:
            ctx.count("X:file-changed-after-refusal")
        else:
            ctx.count("X:file-unchanged")
    tree.put_raw("conflicts", None)
    # merge hashes that are not ASCII are refused before the file is touched (also when a good record precedes)
    tree.open().set_merge_modified({"a": tree.sha["a"]})
    before = tree.raw("merge-hashes")
    for bad in ({"a": b"\xff"}, {"a": tree.sha["a"], "ab": "é".encode()}):
        try:
            tree.open().set_merge_modified(bad)
            ctx.count("X:mm-accepted")
        except UnicodeError:
            ctx.count("X:mm-refused")
        ctx.count("X:mm-file-changed-after-refusal" if tree.raw("merge-hashes") != before else "X:mm-file-unchanged")
    tree.put_raw("merge-hashes", None)
    # a file id with a line ending in CR cannot get into a working tree (hypothesis `ht` of the merge-hash
    # theorems): `add` refuses it
    scratch = env.make_tree("2a")
    with open(os.path.join(scratch.basedir, "x"), "wb") as f:
        f.write(b"x")
    try:
        with _quiet_stderr(True):
            scratch.add(["x"], ids=[b"i\r"])
        ctx.count("X:cr-id-accepted")
        ctx.assumptions.append("UNEXPECTED: WorkingTree.add accepted the file id b'i\\r' — the merge-hash theorems "
                               "assume tree file ids have no line ending in CR")
    except BaseException as e:
        _reraise_control(e)
        ctx.count("X:cr-id-refused:" + type(e).__name__)


# ---------------------------------------------------------------- entry points
def run(ctx, scale=1):
    tree = _Tree()
    t = [time.time()]

    def lap(name):
        t.append(time.time())
        ctx.extra.setdefault("level_seconds", {})[name] = round(t[-1] - t[-2], 1)

    _level_a(ctx, tree, ctx.pick(1000, 10000) * scale); lap("A")
    _level_b(ctx, tree, ctx.pick(400, 3000) * scale); lap("B")
    _level_i(ctx); lap("I")
    _level_c(ctx, tree, ctx.pick(24, 140) * scale, ctx.pick(300, 2400) * scale); lap("C")
    _level_d(ctx, tree, ctx.pick(400, 3000) * scale); lap("D")
    _level_x(ctx, tree); lap("X")


def widen(ctx):
    run(ctx, scale=3)


def replay(ctx, case):
    tree = _Tree()
    lvl = case.get("level")
    if lvl == "A" or (lvl == "C" and case.get("op") == "resolve"):
        specs = [unjson_spec(j) for j in case["conflicts"]]
        tree.open().set_conflicts([mk_obj(s) for s in specs])
        data = tree.raw("conflicts")
        status, back = _read_conflicts(tree)
        if status != "ok" or back != specs:
            ctx.violation(case, "conflict list read back differently: %s %r" % (status, back),
                          family=_family(specs, status, back))
        out = dict(case=case, impl="ok " + enc_specs(back) if status == "ok" else status,
                   model=ctx.model(["read " + _file_arg(data)])[0], file=data.decode("utf-8", "replace"))
        if lvl == "C":
            from breezy import conflicts as _mod_conflicts
            paths, recurse, action = case["paths"], case["recurse"], case.get("action", "done")
            _mod_conflicts.resolve(tree.open(), paths, ignore_misses=True, recursive=recurse, action=action)
            after = tree.raw("conflicts")
            status, back = _read_conflicts(tree)
            exp = _resolve_expected(tree, specs, paths, recurse, action)
            if status != "ok" or back != exp:
                ctx.violation(case, "after resolve(%r, recursive=%r, action=%r) the tree lists %r, expected %r" % (
                    paths, recurse, action, back and [s[:2] for s in back], [s[:2] for s in exp]))
            out.update(impl=_file_arg(after), model=ctx.model([_resolve_line(tree, action, recurse, paths, data)])[0],
                       after=(after or b"").decode("utf-8", "replace"))
        out["oracle_failures"] = [v["what"] for v in ctx.violations]
        return out
    if lvl == "I":
        from breezy import osutils
        d, f = case["dir"], case["fname"]
        r = bool(osutils.is_inside(d, f))
        if r != _ref_inside(d, f):
            ctx.violation(case, "is_inside(%r, %r) = %r, reference %r" % (d, f, r, _ref_inside(d, f)))
        return dict(case=case, impl="T" if r else "F", model=ctx.model(["inside %s %s" % (hx(d), hx(f))])[0],
                    oracle_failures=[v["what"] for v in ctx.violations])
    if lvl == "B":
        b = None if case["file"] is None else bytes.fromhex(case["file"])
        tree.put_raw("conflicts", b)
        status, back = _read_conflicts(tree)
        return dict(case=case, impl="ok " + enc_specs(back) if status == "ok" else status,
                    model=ctx.model(["read " + _file_arg(b)])[0], oracle_failures=[])
    if lvl == "C":
        from breezy.bzr import conflicts as C
        specs = [unjson_spec(j) for j in case["conflicts"]]
        stub_map = {p: bytes.fromhex(i) for p, i in case["tree"]}
        paths, recurse = case["paths"], case["recurse"]
        new, sel = C.ConflictList([mk_obj(s) for s in specs]).select_conflicts(_StubTree(stub_map), paths, True, recurse)
        new, sel = [obj_spec(c) for c in new], [obj_spec(c) for c in sel]
        ids = {stub_map[p] for p in paths if p in stub_map}
        _select_oracle(ctx, case, specs, paths, ids, recurse, new, sel, "select_conflicts")
        line = "select %s %s %s %s" % ("T" if recurse else "F", ",".join(hx(p) for p in paths) or "-",
                                       ",".join("%s/%s" % (hx(p), hx(i)) for p, i in sorted(stub_map.items())) or "-",
                                       enc_specs(specs))
        return dict(case=case, impl=enc_specs(new) + ";" + enc_specs(sel), model=ctx.model([line])[0],
                    oracle_failures=[v["what"] for v in ctx.violations])
    hashes = {p: h.encode() for p, h in case.get("hashes", [])}
    tree.open().set_merge_modified(dict(hashes))
    back = tree.open().merge_modified()
    exp = {p: h for p, h in hashes.items() if p in tree.sha and h == tree.sha[p]}
    if back != exp:
        ctx.violation(case, "merge_modified() read back %r, expected %r" % (back, exp),
                      family=_mm_family(hashes, back, tree.sha))
    data = tree.raw("merge-hashes")
    return dict(case=case, impl="ok " + (",".join("%s/%s" % (hx(p), hx(h)) for p, h in back.items()) or "-"),
                model=ctx.model(["mmread %s %s" % (_tree3(tree), _file_arg(data))])[0], expected=repr(exp),
                file=(data or b"").decode("utf-8", "replace"), oracle_failures=[v["what"] for v in ctx.violations])
