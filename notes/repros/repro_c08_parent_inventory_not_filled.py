#!/venv/bin/python
"""Repro (C08 family parent-inventory-not-local-when-source-lacks-it): fetch into a stacked 2a repository from
a source in which a parent that the FALLBACK holds is a ghost.  The source cannot supply that parent's
inventory; StreamSink / get_missing_parent_inventories(check_for_missing_texts=True) accept the write group
because no text is missing.  Afterwards revision r2 is stored locally, its parent r1 is a revision of the
stack (through the fallback), but r1's inventory is NOT stored locally: the stacking invariant as the property
words it ("every revision present in the stacked repository has its parent inventories ... present locally")
does not hold.  Every tree can still be read and check() passes (by design the code only insists on parent
inventories when texts are missing).   exit 1 = reproduced."""
import os, sys, tempfile, shutil
rc = 0
REPO = os.environ.get("VERIF_REPO", "/repo")
sys.path.insert(0, REPO)
home = tempfile.mkdtemp(prefix="c08-probe-", dir=os.environ.get("REPRO_SCRATCH", "/var/tmp"))
os.environ.update(HOME=home, BRZ_HOME=home, BRZ_EMAIL="t <t@example.com>")
import breezy; breezy.initialize()
from breezy import ui, trace; ui.ui_factory = ui.SilentUIFactory(); trace.be_quiet(True)
import breezy.bzr, breezy.bzr.bzrdir, breezy.bzr.workingtree_4, breezy.bzr.groupcompress_repo
from breezy.controldir import ControlDir, format_registry
from breezy.repository import Repository
from breezy.branch import Branch
try:
    fmt = format_registry.make_controldir("2a")
    d = ControlDir.create_standalone_workingtree(os.path.join(home, "d"), format=fmt)
    open(os.path.join(home, "d", "f"), "w").write("one\n"); d.add(["f"], ids=[b"f-id"])
    open(os.path.join(home, "d", "g"), "w").write("gee\n"); d.add(["g"], ids=[b"g-id"])
    d.commit("r1", rev_id=b"r1")
    d.branch.controldir.sprout(os.path.join(home, "fb"), revision_id=b"r1")
    ControlDir.open(os.path.join(home, "fb")).sprout(os.path.join(home, "st"), revision_id=b"r1", stacked=True)
    # a source in which r1 is a ghost
    s2 = ControlDir.create_standalone_workingtree(os.path.join(home, "s2"), format=fmt)
    s2.set_root_id(d.path2id("")) if hasattr(s2, "set_root_id") else None
    open(os.path.join(home, "s2", "f"), "w").write("two\n"); s2.add(["f"], ids=[b"f-id"])
    s2.set_parent_ids([b"r1"], allow_leftmost_as_ghost=True)
    s2.commit("r2", rev_id=b"r2")
    src = s2.branch.repository
    print("source has r1:", src.has_revision(b"r1"), "parents of r2:", src.get_revision(b"r2").parent_ids)
    stb = Branch.open(os.path.join(home, "st"))
    try:
        stb.repository.fetch(src, revision_id=b"r2")
        print("fetch ok")
    except Exception as e:
        print("fetch FAILED:", type(e).__name__, str(e)[:300])
    bare = Repository.open(os.path.join(home, "st"))
    with bare.lock_read():
        print("local revisions:", sorted(k[-1] for k in bare.revisions.keys()))
        print("local inventories:", sorted(k[-1] for k in bare.inventories.keys()))
        if (b"r2",) in bare.revisions.keys() and (b"r1",) not in bare.inventories.keys():
            rc = 1
            print("=> r2 is stored locally, its parent r1 lives in the fallback, the inventory of r1 is NOT stored locally")
        print("local texts:", sorted(bare.texts.keys()))
    full = Branch.open(os.path.join(home, "st")).repository
    with full.lock_read():
        print("has r1 (with fallback):", full.has_revision(b"r1"))
        if full.has_revision(b"r2"):
            t = full.revision_tree(b"r2")
            print("tree r2:", [(p, t.get_file_text(p)) for p, ie in t.iter_entries_by_dir() if ie.kind == "file"])
            print("delta r2 vs r1:", t.changes_from(full.revision_tree(b"r1")))
            full.check([b"r2"])
            print("check ok")
finally:
    shutil.rmtree(home, ignore_errors=True)
sys.exit(rc)
