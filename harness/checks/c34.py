"""C34 -- importing then exporting a git commit reproduces it byte for byte
(breezy/git/mapping.py: BzrGitMappingv1.import_commit / export_commit / get_revision_id,
fix_person_identifier; breezy/git/roundtrip.py is not reached by the v1 mapping
in lossy mode, the only mode it supports — its four functions are modelled, proved
(parse_generate, extract_inject) and compared on their own, stream `rt`).

Model: lean/BreezyVerif/Model/C34.lean; theorems: Props/C34.lean.  The model and
every theorem are parametric in a CODEC ENVIRONMENT (`Env`): what Python's codec
registry answers for an encoding name (utf-8 | latin-1 | ascii — implemented in
Lean — | another text codec | LookupError | ValueError) and, for every other text
codec, its decode / encode functions.  Nothing is assumed about which names exist
or what those codecs do (only `PyEnv`: "utf-8" and "latin1" mean what they say).

Every run:

* T2 -- commits are drawn from a grammar over the fields the mapping handles
  (encoding header: none / `false` / bogus / non-text codecs / EVERY name of Python's
  alias table (`encodings.aliases.aliases` keys and targets) and of the `encodings`
  package in several spellings (case, `-` `_` space) — ~100 distinct codecs per run —;
  text valid in the header's codec (built by encoding with it), arbitrary bytes, and byte
  sequences on which some decoder is not injective (BOMs, utf-7 `+AGE-`, backslash
  escapes, punycode, iso-2022 / hz shifts); author = or != committer, equal / different
  times (also negative) and zones, `-0000` zones, gpgsig, mergetags, HG:rename-source
  and HG:extra headers (known / unknown keys, no colon, multi-line and line-boundary
  values), unknown headers, empty and missing message, canonical and malformed person
  identifiers), serialised by dulwich, parsed back, passed through the real
  `import_commit` (parent lookup = revision_id_foreign_to_bzr), `get_revision_id` and
  `export_commit(rev, tree, revision_id_bzr_to_foreign, lossy=True, None)`.
  The exported commit's fields, the revision id, `get_revision_id`'s result or
  exception, the decoded committer and message and the complete property dict are
  compared with the model, as are the exception kinds of refused imports / failing
  exports.  For a header naming a codec outside utf-8/latin-1/ascii the request carries
  the registry's answer and the codec's behaviour on the strings of this commit (a finite
  table computed with the real codec; a lookup outside it is an error, never a default).
  A second stream perturbs the serialised TEXT (timezone `+100`, zero-padded time, swapped /
  duplicated / reordered headers, no tree, identity without `> `): commits dulwich parses
  but would not write.
  `fix_person_identifier` is compared exhaustively on all strings of length
  <= 5 over `<`, `>`, space, comma, `a`; on the same strings the classifier regex of the
  oracle is compared with the model's `Canon` condition (fixed point, not cut by the comma hack).
* roundtrip.py (Model/C34RT.lean): random CommitSupplements (ids, parent tuples, multi-line / empty
  property values, verifier; a quarter with dirty fields: whitespace in ids, `:` / newline in
  property names ...) and messages (some containing the `\n--BZR--\n` marker): generate, parse (also of
  perturbed texts: accept/reject + result), inject, extract are compared with the model; oracle: for
  supplements satisfying the theorem's hypotheses (re-stated in Python) and messages without an early
  marker, extract(inject(m, s)) == (m, s) on the real code.
* Oracle (model independent) -- for every commit `import_commit` accepts (strict):
  the export must succeed, `as_raw_string()` and the SHA-1 must be identical
  to the original, and `get_revision_id(commit)` = revision id of the imported
  revision = revision id of a second import = `git-v1:<sha>`.

Findings (`_classify`, family slug computed from the concrete commit):
missing-message, person-ident-noncanonical, git-extra-embedded-newline,
encoding-noninjective-codec (NEW: header codec with field.decode(c).encode(c) != field —
utf-8-sig, utf-7, utf-16/32, unicode_escape, idna, iso2022_*, mac_arabic ...),
commit-text-noncanonical (NEW, raw stream: dulwich would not write this text).
Fixed in /repo b3a449a (now modelled as working, no family): `encoding false`
(export and get_revision_id), extra-header values containing a str.splitlines()
boundary other than "\n".
Code variant: `probe_variant` detects whether a strict import refuses a commit whose header
codec does not reproduce its text (the fix proposed for encoding-noninjective-codec); the
model has both variants (`fx`), with `exp_imp_id_fixed_strict_partial` for the fixed one.

Mutants this was built against (scratch worktree, breezy/git/mapping.py); "oracle" = a
concrete commit whose re-export differs, T2 = model/implementation mismatch:
  M1 `commit.commit_time != commit.author_time` -> `<` ................................. oracle + T2
  M2 export ignores `git-implicit-encoding` (always utf-8) ............................. oracle + T2
  M3 `_author_timezone_neg_utc` read from `commit-timezone-neg-utc` .................... oracle + T2
  M4 import compares only the first 3 bytes of committer/author (needs a shared prefix)  oracle + T2
  M5 fix_person_identifier: `username[:-1]` unconditionally ............................ T2 (fix stream;
       behaviour-preserving on canonical identifiers)
  M6 mergetag loop starts at `git-mergetag-1` ......................................... oracle + T2
  M7 git-extra `l.split(" ", 1)` -> `l.split(" ")[:2]` (values with spaces) ............. oracle + T2
  M8 author-timezone compared with `commit_time` (wrong field) ......................... oracle + T2
  harmless: neg-utc property assignments swapped; encoding loop over a list slice -> clean
  after fix b3a449a: R1 fix reverted (all three hunks) -> oracle (LookupError / ValueError on export,
       get_revision_id raises) + T2;  R2 `.split("\n")[:-1]` -> `.split("\n")` (trailing empty line) -> oracle + T2
       R3 in the `encoding == "false"` branch `git-implicit-encoding` ignored (needs `encoding false` + latin-1 bytes) -> oracle + T2
  improvement round (codec environment):
  N1 get_revision_id no longer catches UnicodeDecodeError (needs an undeclared latin-1 commit) .. oracle (revid) + T2 (818)
  N5 git-explicit-encoding stored with `_` -> `-` (needs an alias spelled with `_`: UTF_8, iso_8859_1) oracle (230) + T2
  N6 message decoded with errors="replace" under a declared codec (needs invalid bytes in it) ... oracle (49) + T2
  N8 the proposed fix applied but checking only the message (needs a BOM in an identity) ........ oracle + T2 (16)
  harmless N4: export lower-cases the codec name before encoding -> clean (0 mismatches)
  roundtrip.py: RT1 parse: `value[1:].rstrip(b"\n")` -> `value.strip()` (needs a property line with leading /
       trailing blanks) -> oracle (law) + T2;  RT2 inject: `if not rt_data: return message` dropped (needs an empty
       supplement) -> oracle + T2;  RT3 generate iterates the dict unsorted -> T2 only (law still holds)
       harmless RT4: extract uses `partition` instead of `split(..., 1)` -> clean
"""
import itertools

THEOREMS = [
    "exp_imp_id_partial",
    "exp_imp_id_std_partial",
    "std_codec_faithful",
    "get_revision_id_agrees",
    "encoding_noninjective_codec_witness",
    "unknown_encoding_rejected",
    "fixed_strict_codec_faithful",
    "exp_imp_id_fixed_strict_partial",
    "fixed_variant_refuses_witness",
    "parse_generate",
    "extract_inject",
    "roundtrip_metadata_precondition_witness",
    "revid_stable",
    "revid_independent",
    "imp_rejects_unknown_extra",
    "imp_rejects_unknown_hg_extra",
    "fixPerson_canonical",
    "canon_example_ok",
    "missing_message_witness",
    "encoding_false_roundtrips",
    "person_ident_witness",
    "git_extra_embedded_newline_witness",
    "git_extra_formfeed_roundtrips",
]
RULE = ("commits drawn from a field grammar (see module docstring; encoding names from Python's full codec "
        "alias table) plus textual perturbations of serialised commits; a case is one commit in one "
        "strictness mode; non-trivial = anything beyond tree+idents+message is present or the "
        "commit is refused")
ASSUMPTIONS = [
    "dulwich parses back what it serialised (checked per case; other cases are skipped and counted)",
    "bytes.decode(c).encode(c) is the identity for utf-8, latin-1, ascii and utf-8/surrogateescape "
    "(checked per case on every decoded field); for every OTHER codec nothing is assumed: its behaviour "
    "is an explicit parameter (Env) of the model and of every theorem",
    "PyEnv: Python's registry resolves the literal names 'utf-8' and 'latin1' to utf-8 and latin-1",
    "str(int) / int(str) round-trip (int-valued properties keep the integer in the model)",
]
TRUSTED = [
    "dulwich Commit/Tag parsing and serialisation and SHA-1 are external (exercised, not modelled)",
    "a decoded Python str is modelled as (codec, bytes) — for a codec of the environment the bytes are the "
    "str's UTF-8/surrogatepass form; ASCII-only string operations are done on the bytes",
    "Python's codec registry and codecs (codecs.lookup, bytes.decode, str.encode) are external: the model "
    "receives their answers for the strings of each case",
    "the revision property dict is modelled as a record with one field per key the mapping writes",
]

HEX = "0123456789abcdef"
ENC_UTF8 = [b"utf-8", b"UTF-8", b"utf8"]
ENC_LATIN = [b"latin1", b"latin-1", b"iso-8859-1", b"ISO-8859-1"]
ENC_ASCII = [b"ascii", b"us-ascii"]
ENC_BOGUS = [b"klingon", b"x-none", b"utf-99"]
HG_KEYS = [b"amend_source", b"rebase_source", b"absorb_source", b"intermediate-source", b"source", b"topic",
           b"_rewrite_noise"]
PY_CODEC = {"utf-8": ("utf-8", "strict"), "latin1": ("latin-1", "strict"), "ascii": ("ascii", "strict"),
            "ext": ("utf-8", "surrogatepass")}     # how the model represents a decoded str, per codec tag
LK_OF_NAME = {"utf-8": "u8", "iso8859-1": "l1", "ascii": "as"}
NONTEXT = [b"hex", b"base64", b"rot13", b"zlib", b"bz2", b"uu", b"quopri", b"rot_13", b"hex_codec"]
SPECIAL_BYTES = [b"\xef\xbb\xbf", b"\xff\xfe", b"\xfe\xff", b"+AGE-", b"+-", b"+AOk-", b"\\x41", b"\\u00e9", b"\\n", b"\\",
                 b"xn--", b"xn--caf-dma", b"\x1b(B", b"\x1b$B", b"\x1b(J", b"~{", b"~}", b"~~", b"\x0e", b"\x0f", b"\x8e", b"\x80",
                 b"\x81", b"\xa0", b"\xff", b"\x00"]
_POOL = None


def codec_pool():
    """every name Python's codec registry knows on this interpreter: the alias table
    (`encodings.aliases.aliases`, keys and targets) and the module names of the `encodings`
    package, as (name, kind) with kind from `lookup_kind`; sorted, so seed-deterministic"""
    global _POOL
    if _POOL is None:
        import encodings, encodings.aliases, pkgutil
        names = set(encodings.aliases.aliases) | set(encodings.aliases.aliases.values())
        names |= {mi.name for mi in pkgutil.iter_modules(encodings.__path__)}
        import codecs
        pool = {"u8": [], "l1": [], "as": [], "ext": {}, "unk": []}
        for n in sorted(names):
            k = lookup_kind(n.encode("ascii"))
            if k == "ext":
                # grouped by codec, so that codecs with many aliases are not drawn more often
                pool[k].setdefault(codecs.lookup(n).name, []).append(n.encode("ascii"))
            elif k in pool:
                pool[k].append(n.encode("ascii"))
        pool["ext-codecs"] = sorted(pool["ext"])
        # codecs whose decode is stateful / signature-stripping / escape-interpreting
        pool["ext-hot"] = [c for c in pool["ext-codecs"] if c.startswith(("utf-8-sig", "utf-7", "utf-16", "utf-32",
                           "unicode-escape", "raw-unicode-escape", "idna", "punycode", "iso2022", "hz"))]
        _POOL = pool
    return _POOL


def lookup_kind(enc):
    """what Python's registry says about the header value: u8 | l1 | as (the three codecs the Lean
    model implements), ext (another text codec), unk (LookupError, incl. non-text codecs),
    bad (ValueError: embedded NUL), - (not ASCII: never looked up)"""
    import codecs
    try:
        n = enc.decode("ascii")
    except UnicodeDecodeError:
        return "-"
    try:
        ci = codecs.lookup(n)
    except LookupError:
        return "unk"
    except ValueError:
        return "bad"
    if not ci._is_text_encoding:
        return "unk"
    return LK_OF_NAME.get(ci.name, "ext")


def _spell(rng, name):
    """a spelling variant the registry normalises away (case, `-`/`_`/space, surrounding space)"""
    r = rng.random()
    if r < 0.4:
        return name
    if r < 0.55:
        return name.upper()
    if r < 0.7:
        return name.replace(b"_", b"-")
    if r < 0.8:
        return name.replace(b"_", b" ").replace(b"-", b" ")
    if r < 0.87:
        return name.replace(b"-", b"_").title()
    if r < 0.94:
        return name + b" "
    return name.replace(b"_", b"__")


def _codec_errlabel(e):
    if isinstance(e, UnicodeDecodeError):
        return "UnicodeDecode"
    if isinstance(e, UnicodeEncodeError):
        return "UnicodeEncode"
    if isinstance(e, LookupError):
        return "Lookup"
    if isinstance(e, ValueError):
        return "Value"
    return "Other"


def _srepr(s):
    return s.encode("utf-8", "surrogatepass")


def _hack(a):
    return a.split(",")[0] if ("," in a and a.count(">") > 1) else a


def env_fields(f):
    """(LK, DEC, ENC) of the model line: the registry's answer for the header name and — for an
    `ext` codec — the codec's own behaviour on the byte strings / strs this commit can reach"""
    enc = f["encoding"]
    if enc is None:
        return "-", "-", "-"
    lk = lookup_kind(enc)
    if lk != "ext":
        return lk, "-", "-"
    name = enc.decode("ascii")
    dec, strs = [], [""]
    seen = set()
    for b in (f["committer"], f["author"], f["message"]):
        if not b or b in seen:
            continue
        seen.add(b)
        try:
            st = b.decode(name)
        except Exception as e:
            dec.append(hx(b) + ":E" + _codec_errlabel(e))
            continue
        dec.append(hx(b) + ":" + hx(_srepr(st)))
        strs.append(st)
        strs.append(_hack(st))
    encs, seen = [], set()
    for st in strs:
        if st in seen:
            continue
        seen.add(st)
        try:
            out = hx(st.encode(name))
        except Exception as e:
            out = "E" + _codec_errlabel(e)
        encs.append(hx(_srepr(st)) + ":" + out)
    return lk, hl(dec), hl(encs)


def _mapping():
    from breezy.git.mapping import BzrGitMappingv1
    return BzrGitMappingv1()


# --------------------------------------------------------------------------
# generator
# --------------------------------------------------------------------------

def _sha(rng):
    return "".join(rng.choice(HEX) for _ in range(40)).encode()


def _text(rng, kind, lo, hi, alph=None):
    """bytes of the given flavour: ascii | utf8 (valid multibyte) | high (invalid utf-8)"""
    out = []
    base = alph or [b"a", b"b", b"Z", b" ", b".", b"-"]
    for _ in range(rng.randint(lo, hi)):
        r = rng.random()
        if kind == "utf8" and r < 0.3:
            out.append(rng.choice([b"\xc3\xa9", b"\xe4\xb8\xad", b"\xf0\x9f\x98\x80", b"\xc2\x85"]))
        elif kind == "high" and r < 0.3:
            out.append(bytes([rng.choice([0xe9, 0xff, 0x80, 0xc3])]))
        else:
            out.append(rng.choice(base))
    return b"".join(out)


def _person(rng, kind, canonical):
    name = _text(rng, kind, 0, 6, [b"A", b"b", b" ", b".", b",", b">"] if rng.random() < 0.15 else [b"A", b"b", b" ", b"."])
    email = _text(rng, kind, 0, 5, [b"a", b"@", b"x", b"."])
    if canonical:
        return name + b" <" + email + b">"
    form = rng.choice(["nospace", "trailing", "two", "noname", "gtonly", "comma", "lt-in-email"])
    if form == "nospace":
        return (name.rstrip(b" ") or b"N") + b"<" + email + b">"
    if form == "trailing":
        return name + b" <" + email + b"> x>"
    if form == "two":
        return name + b" <" + email + b"> <" + email + b">"
    if form == "noname":
        return b"<" + email + b">"
    if form == "gtonly":
        return (name.replace(b">", b"") or b"n") + b">"
    if form == "comma":
        return b"A <a>, B <b>"
    return name + b" <" + email + b"<" + email + b">"


def _tag(rng):
    t = b"object " + _sha(rng) + b"\ntype commit\ntag v" + str(rng.randint(0, 9)).encode() + \
        b"\ntagger T <t@x> %d +0000\n\n" % rng.randint(0, 10**9) + _text(rng, "utf8", 0, 6) + b"\n"
    if rng.random() < 0.4:
        t += b"-----BEGIN PGP SIGNATURE-----\n\nabc" + bytes([rng.choice([0x41, 0xff])]) + b"\n-----END PGP SIGNATURE-----\n"
    return t


def gen_commit(rng):
    """a dict of commit fields (bytes as latin-1 str so that the case is JSON-able)"""
    r = rng.random()
    codec = None        # Python codec used to BUILD valid text for an `ext` header (None: raw bytes)
    if r < 0.36:
        enc, kind = None, rng.choice(["ascii", "utf8", "utf8", "high"])
    elif r < 0.46:
        enc, kind = rng.choice(ENC_UTF8), rng.choice(["ascii", "utf8", "utf8", "high"])
    elif r < 0.55:
        enc, kind = rng.choice(ENC_LATIN), rng.choice(["ascii", "high", "high", "utf8"])
    elif r < 0.59:
        enc, kind = rng.choice(ENC_ASCII), rng.choice(["ascii", "ascii", "high"])
    elif r < 0.66:
        enc, kind = b"false", rng.choice(["ascii", "utf8", "high"])
    elif r < 0.70:
        enc, kind = rng.choice(ENC_BOGUS + NONTEXT + [b"", b" ", b"utf.8", b"utf\x008", b"aliases", b"__init__"]), "ascii"
    elif r < 0.72:
        enc, kind = b"utf-\xe9", "ascii"
    elif r < 0.80:
        # every alias / module name of the three modelled codecs, in any spelling
        pool = codec_pool()
        k = rng.choice(["u8", "u8", "l1", "l1", "as"])
        enc = _spell(rng, rng.choice(pool[k]))
        kind = rng.choice({"u8": ["ascii", "utf8", "utf8", "high"], "l1": ["ascii", "high", "high", "utf8"],
                           "as": ["ascii", "ascii", "high"]}[k])
    else:
        # any other text codec of the registry
        pool = codec_pool()
        base = rng.choice(pool["ext"][rng.choice(pool["ext-hot"] if rng.random() < 0.3 else pool["ext-codecs"])])
        enc = _spell(rng, base)
        kind = rng.choice(["ascii", "ascii", "utf8", "high"])
        if rng.random() < 0.6:
            codec = base.decode("ascii")
    canonical = rng.random() < 0.88
    committer = _person(rng, kind, canonical or rng.random() < 0.5)
    author = committer if rng.random() < 0.4 else _person(rng, kind, canonical or rng.random() < 0.5)
    ctime = rng.choice([0, 1, 4, 10**9, rng.randint(0, 2**31), -1, -(10**9)] if rng.random() < 0.1 else [0, 1, 4, 10**9, rng.randint(0, 2**31)])
    atime = ctime if rng.random() < 0.5 else rng.choice([0, 5, ctime + 1, max(0, ctime - 1), rng.randint(0, 2**31)])
    zones = [0, 0, 60, -60, 3600, -3600, 19800, -34200, 99 * 3600 + 59 * 60, -(99 * 3600 + 59 * 60)]
    ctz = rng.choice(zones)
    atz = ctz if rng.random() < 0.5 else rng.choice(zones)
    cneg = ctz == 0 and rng.random() < 0.4
    aneg = atz == 0 and rng.random() < 0.4
    gpgsig = None
    if rng.random() < 0.25:
        gpgsig = b"-----BEGIN PGP SIGNATURE-----\n\n" + _text(rng, rng.choice(["ascii", "high", "utf8"]), 1, 8) + \
            b"\n-----END PGP SIGNATURE-----"
    mergetags = [_tag(rng) for _ in range(rng.choice([0, 0, 0, 1, 2]))]
    extra = []
    for _ in range(rng.choice([0, 0, 0, 1, 1, 2, 3])):
        x = rng.random()
        if x < 0.4:
            v = _text(rng, rng.choice(["ascii", "utf8", "high"]), 0, 6, [b"a", b"/", b" ", b"b", b"."])
            if rng.random() < 0.2:
                i = rng.randint(0, len(v))
                v = v[:i] + rng.choice([b"\x0c", b"\x0b", b"\xe2\x80\xa8", b"\xc2\x85", b"\r", b"\n", b"\n", b"\nk v", b"\x1c", b"\x1e"]) + v[i:]
            extra.append([b"HG:rename-source", v])
        elif x < 0.8:
            key = rng.choice(HG_KEYS) if rng.random() < 0.85 else rng.choice([b"foo", b"branch", b""])
            v = key + b":" + _text(rng, "ascii", 0, 6, [b"a", b"0", b":", b" ", b"f"])
            if rng.random() < 0.05:
                v = key          # no colon
            extra.append([b"HG:extra", v])
        else:
            extra.append([rng.choice([b"foo", b"x-bar", b"HG:other"]), _text(rng, "ascii", 0, 4)])
    m = rng.random()
    if m < 0.08:
        message = None
    elif m < 0.16:
        message = b""
    else:
        message = _text(rng, kind, 0, 12, [b"a", b"b", b" ", b"\n", b"\n", b"\r", b".", b"-"])
        if rng.random() < 0.5:
            message += b"\n"
    if codec is not None:
        # text that is VALID in the header's codec: the generated bytes are read as utf-8 (else latin-1)
        # text and encoded with the codec (left alone when the codec cannot encode it)
        committer, author = _recode(committer, codec), (_recode(author, codec) if author != committer else None)
        author = committer if author is None else author
        message = _recode(message, codec) if message is not None else None
    if enc is not None and lookup_kind(enc) == "ext" and rng.random() < 0.45:
        # byte sequences on which some codec's decode is not injective (BOMs, utf-7 / escape / punycode /
        # iso-2022 shift sequences), placed inside the name / at the start of a field
        sp = rng.choice(SPECIAL_BYTES)
        which = rng.choice(["message", "message", "committer", "both", "all"])
        if which in ("message", "all") and message is not None:
            i = rng.choice([0, 0, len(message), rng.randint(0, len(message))])
            message = message[:i] + sp + message[i:]
        if which in ("committer", "both", "all"):
            same = author == committer
            committer = sp + committer
            if same or which in ("both", "all"):
                author = sp + author if not same else committer
    c = dict(tree=_sha(rng), parents=[_sha(rng) for _ in range(rng.choice([0, 1, 1, 2, 3]))],
             author=author, atime=atime, atz=atz, aneg=aneg, committer=committer, ctime=ctime, ctz=ctz, cneg=cneg,
             encoding=enc, mergetags=mergetags, extra=extra, gpgsig=gpgsig, message=message)
    return c


def _recode(b, codec):
    try:
        t = b.decode("utf-8")
    except UnicodeDecodeError:
        t = b.decode("latin-1")
    try:
        out = t.encode(codec)
    except Exception:
        return b
    return out if b"\n" not in out or b"\n" in b else b


def jsonable(c):
    def j(v):
        if isinstance(v, bytes):
            return v.decode("latin-1")
        if isinstance(v, list):
            return [j(x) for x in v]
        return v
    return {k: j(v) for k, v in c.items()}


def unjson(c):
    def u(v):
        if isinstance(v, str):
            return v.encode("latin-1")
        if isinstance(v, list):
            return [u(x) for x in v]
        return v
    return {k: u(v) for k, v in c.items()}


def build_raw(c):
    """serialise with dulwich; a missing message is the same text without the blank line"""
    from dulwich.objects import Commit, Tag
    o = Commit()
    o.tree = c["tree"]
    o.parents = list(c["parents"])
    o.author, o.author_time, o.author_timezone = c["author"], c["atime"], c["atz"]
    o.committer, o.commit_time, o.commit_timezone = c["committer"], c["ctime"], c["ctz"]
    o._author_timezone_neg_utc = c["aneg"]
    o._commit_timezone_neg_utc = c["cneg"]
    if c["encoding"] is not None:
        o.encoding = c["encoding"]
    for t in c["mergetags"]:
        o.mergetag.append(Tag.from_string(t))
    try:
        ex = o._extra
    except AttributeError:
        ex = o.extra
    for k, v in c["extra"]:
        ex.append((k, v))
    if c["gpgsig"] is not None:
        o.gpgsig = c["gpgsig"]
    o.message = c["message"] if c["message"] is not None else b""
    raw = o.as_raw_string()
    if c["message"] is None:
        if not raw.endswith(b"\n\n"):
            return None
        raw = raw[:-1]
    return raw


def fields_of(o):
    try:
        ex = o._extra
    except AttributeError:
        ex = o.extra
    return dict(tree=o.tree, parents=list(o.parents), author=o.author, atime=o.author_time, atz=o.author_timezone,
                aneg=bool(o._author_timezone_neg_utc), committer=o.committer, ctime=o.commit_time,
                ctz=o.commit_timezone, cneg=bool(o._commit_timezone_neg_utc), encoding=o.encoding,
                mergetags=[t.as_raw_string() for t in o.mergetag], extra=[[k, v] for k, v in ex],
                gpgsig=o.gpgsig, message=o.message)


# --------------------------------------------------------------------------
# protocol
# --------------------------------------------------------------------------

def hx(b):
    return b.hex() if b else "-"


def hopt(b):
    return "~" if b is None else hx(b)


def hl(items):
    return ",".join(items) if items else "-"


def tf(b):
    return "T" if b else "F"


def commit_fields_line(f):
    return " ".join([
        hx(f["tree"]), hl([hx(p) for p in f["parents"]]), hx(f["author"]), str(f["atime"]), str(f["atz"]),
        tf(f["aneg"]), hx(f["committer"]), str(f["ctime"]), str(f["ctz"]), tf(f["cneg"]), hopt(f["encoding"]),
        hl([hx(t) for t in f["mergetags"]]), hl([hx(k) + ":" + hx(v) for k, v in f["extra"]]),
        hopt(f["gpgsig"]), hopt(f["message"])])


_VARIANT = None


def probe_variant(m):
    """which code variant is under test: (fx, label).  fx = a strict import refuses a commit whose
    header codec does not reproduce its text (the fix proposed for `encoding-noninjective-codec`);
    label = how that refusal is rendered (its exception class may already be in IMPORT_ERR)."""
    global _VARIANT
    if _VARIANT is None:
        from dulwich.objects import Commit
        c = Commit.from_string(b"tree cc9462f7f8263ef5adfbeff2fb936bb36b504cba\nauthor A <a@x> 10 +0000\n"
                               b"committer A <a@x> 10 +0000\nencoding utf-8-sig\n\nhello\n")
        try:
            m.import_commit(c, m.revision_id_foreign_to_bzr, strict=True)
            _VARIANT = (False, "Irreversible")
        except Exception as e:
            known = _errname(e, IMPORT_ERR)
            if known == "Other":
                IMPORT_ERR.insert(0, (type(e).__name__, "Irreversible"))
                known = "Irreversible"
            _VARIANT = (True, known)
    return _VARIANT


def model_line(strict, cid, f, fx=None):
    if fx is None:
        fx = _VARIANT[0]
    return "rt %s %s %s %s %s %s %s" % ((tf(fx), tf(strict), hx(cid)) + env_fields(f) + (commit_fields_line(f),))


def model_reply(rep):
    """the model's reply with the variant's refusal rendered like the implementation's"""
    return rep.replace(" I:Irreversible", " I:" + _VARIANT[1])


IMPORT_ERR = [("UnicodeDecodeError", "UnicodeDecode"), ("UnknownCommitEncoding", "UnknownEncoding"),
              ("UnknownMercurialCommitExtra", "UnknownHgExtra"), ("UnknownCommitExtra", "UnknownExtra"),
              ("LookupError", "Lookup"), ("ValueError", "Value")]
EXPORT_ERR = [("LookupError", "Lookup"), ("UnicodeEncodeError", "UnicodeEncode"), ("ValueError", "Value"),
              ("IndexError", "Index"), ("AttributeError", "Attr"), ("AssertionError", "Assert")]
REVID_ERR = [("UnicodeDecodeError", "UnicodeDecode"), ("LookupError", "Lookup"), ("ValueError", "Value")]


def _errname(e, table):
    for cls in type(e).__mro__:
        for n, short in table:
            if cls.__name__ == n:
                return short
    return "Other"


def props_render(props, codec):
    """the property dict in the driver's format (values encoded back with the codec
    the model says they were decoded with)"""
    items = []
    for k in sorted(props):
        v = props[k]
        if k in ("author-timestamp", "author-timezone"):
            items.append("%s=%d" % (k, int(v)))
        elif k in ("author",):
            items.append("%s=%s" % (k, hx(v.encode(*PY_CODEC[codec]))))
        elif k in ("git-explicit-encoding", "git-implicit-encoding", "git-missing-message"):
            items.append("%s=%s" % (k, hx(v.encode("ascii"))))
        elif k in ("author-timezone-neg-utc", "commit-timezone-neg-utc"):
            items.append("%s=%s" % (k, hx(v.encode("ascii"))))
        else:
            items.append("%s=%s" % (k, hx(v.encode("utf-8", "surrogateescape"))))
    return hl(items)


def run_real(m, raw, strict):
    """(commit, (stage, payload), gid): ('I', errname) | ('X', errname, rev) | ('ok', commit2, rev);
    gid = get_revision_id(commit) in the driver's format"""
    from dulwich.objects import Commit
    c1 = Commit.from_string(raw)
    try:
        gid = "G:" + hx(m.get_revision_id(c1))
    except Exception as e:
        gid = "G:E" + _errname(e, REVID_ERR)
    try:
        rev, rrid, ver = m.import_commit(c1, m.revision_id_foreign_to_bzr, strict=strict)
    except Exception as e:
        return c1, ("I", _errname(e, IMPORT_ERR)), gid
    try:
        c2 = m.export_commit(rev, c1.tree, lambda revid: m.revision_id_bzr_to_foreign(revid)[0], True, None)
        c2.as_raw_string()
    except Exception as e:
        return c1, ("X", _errname(e, EXPORT_ERR), rev), gid
    return c1, ("ok", c2, rev), gid


def impl_out(res, model_reply, gid):
    """implementation output in the driver's format; the codec tag for str values is taken from
    the model's reply (a wrong tag makes the encode fail or differ -> mismatch)"""
    if res[0] == "I":
        return gid + " I:" + res[1]
    rev = res[-1]
    parts = model_reply.split(" ")
    codec = None
    for cand in ("utf-8", "latin1", "ascii", "ext"):
        if cand in parts:
            codec = cand
            break
    if codec is None:
        return gid + " ?no-codec-in-model-reply"
    try:
        tail = " ".join([hx(rev.revision_id), codec, hx(rev.committer.encode(*PY_CODEC[codec])),
                         hx(rev.message.encode(*PY_CODEC[codec])), props_render(rev.properties, codec)])
    except UnicodeEncodeError:
        tail = "?cannot-encode-with-" + codec
    if res[0] == "X":
        return gid + " X:%s %s" % (res[1], tail)
    return gid + " ok %s %s" % (commit_fields_line(fields_of(res[1])), tail)


# --------------------------------------------------------------------------
# oracle
# --------------------------------------------------------------------------

def _canonical_person(p):
    import re
    if re.fullmatch(rb"[^<]* <[^<>]*>", p, re.S) is None:
        return False
    return not (b"," in p and p.count(b">") > 1)


def _ext_strs(f):
    """for a header naming an `ext` codec: (unfaithful, strs) — is there a text field with
    field.decode(codec).encode(codec) != field, and the decoded committer / author strs"""
    enc = f["encoding"]
    if enc is None or lookup_kind(enc) != "ext":
        return False, []
    name = enc.decode("ascii")
    unfaithful, strs = False, []
    for b, is_ident in ((f["committer"], True), (f["author"], True), (f["message"], False)):
        if b is None:
            continue
        try:
            st = b.decode(name)
        except Exception:
            continue
        if is_ident:
            strs.append(st)
        try:
            if st.encode(name) != b:
                unfaithful = True
        except Exception:
            unfaithful = True
    return unfaithful, strs


def _classify(f):
    """family slug of a failing round trip, computed from the concrete commit fields.
    (`encoding false` and the non-"\n" splitlines boundaries in extra headers were fixed in
    /repo b3a449a: if they fail again they are plain violations, family None.)"""
    if f["message"] is None:
        return "missing-message"
    unfaithful, strs = _ext_strs(f)
    if unfaithful:
        # the header names a codec (not utf-8 / latin-1 / ascii) that does not re-encode one of
        # author / committer / message to the bytes it was decoded from
        return "encoding-noninjective-codec"
    if not _canonical_person(f["author"]) or not _canonical_person(f["committer"]):
        return "person-ident-noncanonical"
    if any(st == "" or _hack(st) != st for st in strs):
        # the same author normalisation, seen through a codec that is not ASCII-transparent
        return "person-ident-noncanonical"
    if any(k in (b"HG:rename-source", b"HG:extra") and b"\n" in v for k, v in f["extra"]):
        return "git-extra-embedded-newline"
    return None


def oracle(ctx, m, case, raw, c1, res, strict):
    if res[0] == "I":
        return
    f = fields_of(c1)
    if not strict and any(k not in (b"HG:rename-source", b"HG:extra") for k, v in f["extra"]):
        return      # non-strict import drops unknown headers by design
    if not strict and _VARIANT[0] and _ext_strs(f)[0]:
        # variant with the fix: only the strict import (the one whose revisions are exported again)
        # refuses a codec that does not reproduce the text; the lenient import is lossy by design
        ctx.count("non-strict:lossy-codec-accepted")
        return
    if not strict:
        for k, v in f["extra"]:
            if k == b"HG:extra" and v.split(b":", 1)[0] not in HG_KEYS:
                pass
    rev = res[-1]
    want = b"git-v1:" + c1.id
    try:
        gid = m.get_revision_id(c1)
    except Exception as e:
        gid = "raised %r" % (e,)
    try:
        again = m.import_commit(c1, m.revision_id_foreign_to_bzr, strict=strict)[0].revision_id
    except Exception as e:
        again = "re-import raised %r" % (e,)
    if rev.revision_id != want or gid != want or again != want:
        ctx.count("revid-unstable")
        ctx.violation(case, "revision id not derived from the sha alone: import gives %r, re-import %r, get_revision_id %r, sha %r"
                      % (rev.revision_id, again, gid, c1.id), family=None)
    if res[0] == "X":
        fam = _classify(f)
        ctx.count("roundtrip-fails:" + str(fam))
        ctx.violation(case, "import_commit accepts the commit but export_commit raises %s (%s)" % (res[1], fam or "unclassified"),
                      family=fam)
        return
    c2 = res[1]
    raw2 = c2.as_raw_string()
    if raw2 != raw or c2.id != c1.id:
        fam = _classify(f)
        ctx.count("roundtrip-fails:" + str(fam))
        ctx.violation(case, "export(import(commit)) differs from the commit (%s): %r -> %r" % (fam or "unclassified", raw, raw2),
                      family=fam)


# --------------------------------------------------------------------------
# run
# --------------------------------------------------------------------------

def _features(f):
    out = []
    if f["encoding"] is not None:
        out.append("enc")
    if f["author"] != f["committer"]:
        out.append("author")
    if f["atime"] != f["ctime"]:
        out.append("atime")
    if f["atz"] != f["ctz"]:
        out.append("atz")
    if f["aneg"] or f["cneg"]:
        out.append("negutc")
    if f["gpgsig"]:
        out.append("gpgsig")
    if f["mergetags"]:
        out.append("mergetag")
    if f["extra"]:
        out.append("extra")
    if f["message"] is None:
        out.append("nomsg")
    return out


def one_case(ctx, m, c, strict, batch):
    raw = build_raw(c)
    if raw is None:
        ctx.count("skip:unserialisable")
        return
    from dulwich.objects import Commit
    try:
        c1 = Commit.from_string(raw)
        f = fields_of(c1)
    except Exception:
        ctx.count("skip:dulwich-parse-error")
        return
    if f != c:
        # dulwich did not parse back what it serialised: outside the assumption
        ctx.count("skip:dulwich-not-faithful")
        return
    c1, res, gid = run_real(m, raw, strict)
    case = dict(strict=strict, commit=jsonable(c))
    feats = _features(f)
    ctx.case(case, nontrivial=bool(feats) or res[0] != "ok")
    for ft in feats:
        ctx.count("feature:" + ft)
    if f["encoding"] is not None:
        lk = lookup_kind(f["encoding"])
        ctx.count("lookup:" + lk)
        if lk == "ext":
            import codecs
            ctx.count("codec:" + codecs.lookup(f["encoding"].decode("ascii")).name)
    ctx.count("result:" + (res[0] if res[0] == "ok" else res[0] + ":" + res[1]))
    ctx.count("strict" if strict else "non-strict")
    if res[0] != "I":
        # assumption check: every decoded field re-encodes to the bytes it came from
        rev = res[-1]
        for v in rev.properties.values():
            if isinstance(v, str):
                v.encode("utf-8", "surrogateescape")
    oracle(ctx, m, case, raw, c1, res, strict)
    batch.append((case, model_line(strict, c1.id, f), res, gid))


def flush(ctx, batch):
    if not batch:
        return
    replies = ctx.model([b[1] for b in batch])
    for (case, line, res, gid), rep in zip(batch, replies):
        ctx.traces += 1
        rep = model_reply(rep)
        out = impl_out(res, rep, gid)
        if out != rep:
            ctx.mismatch(case, out, rep, line=line)
    del batch[:]


# --------------------------------------------------------------------------
# raw-text stream: commits that are NOT in the image of dulwich's serialiser
# --------------------------------------------------------------------------

PERTURB = ["tz-short", "tz-long", "time-zeros", "time-space", "swap-idents", "encoding-first", "dup-encoding",
           "dup-author", "extra-before-encoding", "gpgsig-before-extra", "no-tree", "tree-last", "no-gt",
           "crlf-header", "dup-committer"]


def _headers(raw):
    """(list of header entries — each the full text of a header line with its continuation lines —, rest)"""
    head, sep, rest = raw.partition(b"\n\n")
    if not sep:
        head, rest = raw.rstrip(b"\n"), None
    out = []
    for line in head.split(b"\n"):
        if line.startswith(b" ") and out:
            out[-1] += b"\n" + line
        else:
            out.append(line)
    return out, rest


def _unheaders(hs, rest):
    return b"\n".join(hs) + (b"\n\n" + rest if rest is not None else b"\n")


def perturb(rng, raw, how):
    """a textual variant of a dulwich-serialised commit that dulwich parses to (mostly) the same
    fields but would not write; None when `how` does not apply"""
    import re
    hs, rest = _headers(raw)
    key = lambda h: h.split(b" ", 1)[0]
    idx = {k: [i for i, h in enumerate(hs) if key(h) == k] for k in set(map(key, hs))}

    def sub_ident(which, pat, rep):
        if which not in idx:
            return None
        i = idx[which][0]
        new, n = re.subn(pat, rep, hs[i], flags=re.S)
        if n == 0 or new == hs[i]:
            return None
        hs[i] = new
        return _unheaders(hs, rest)
    who = rng.choice([b"author", b"committer"])
    if how == "tz-short":
        return sub_ident(who, rb" ([+-])0(\d\d\d)$", rb" \g<1>\2")
    if how == "tz-long":
        return sub_ident(who, rb" ([+-])(\d\d\d\d)$", rb" \g<1>0\2")
    if how == "time-zeros":
        return sub_ident(who, rb"> (\d+) ([+-]\d+)$", rb"> 00\1 \2")
    if how == "time-space":
        return sub_ident(who, rb"> (-?\d+) ([+-]\d+)$", rb">  \1 \2")
    if how == "no-gt":
        return sub_ident(who, rb"> (-?\d+ [+-]\d+)$", rb" \1")
    if how == "crlf-header":
        if b"encoding" not in idx:
            return None
        hs[idx[b"encoding"][0]] += b"\r"
        return _unheaders(hs, rest)
    if how == "swap-idents":
        a, c = idx[b"author"][0], idx[b"committer"][0]
        if hs[a].split(b" ", 1)[1] == hs[c].split(b" ", 1)[1]:
            return None
        hs[a], hs[c] = hs[c], hs[a]
        return _unheaders(hs, rest)
    if how in ("encoding-first", "dup-encoding"):
        if b"encoding" not in idx:
            return None
        i = idx[b"encoding"][0]
        if how == "encoding-first":
            hs.insert(0, hs.pop(i))
        else:
            hs.insert(i, b"encoding " + rng.choice(ENC_UTF8 + ENC_LATIN + ENC_BOGUS))
        return _unheaders(hs, rest)
    if how in ("dup-author", "dup-committer"):
        k = b"author" if how == "dup-author" else b"committer"
        hs.insert(idx[k][0], k + b" Dup <d@x> 7 +0200")
        return _unheaders(hs, rest)
    if how == "extra-before-encoding":
        ex = [i for i, h in enumerate(hs) if key(h) in (b"HG:extra", b"HG:rename-source")]
        if not ex or b"encoding" not in idx:
            return None
        h = hs.pop(ex[0])
        hs.insert(hs.index(next(x for x in hs if key(x) == b"encoding")), h)
        return _unheaders(hs, rest)
    if how == "gpgsig-before-extra":
        ex = [i for i, h in enumerate(hs) if key(h) in (b"HG:extra", b"HG:rename-source", b"mergetag")]
        if not ex or b"gpgsig" not in idx:
            return None
        hs.insert(ex[0], hs.pop(idx[b"gpgsig"][0]))
        return _unheaders(hs, rest)
    if how == "no-tree":
        hs.pop(idx[b"tree"][0])
        return _unheaders(hs, rest)
    if how == "tree-last":
        hs.append(hs.pop(idx[b"tree"][0]))
        return _unheaders(hs, rest)
    return None


def dulwich_canonical(f, raw):
    """is `raw` what dulwich writes for the fields it parsed from it (classifier of the family
    `commit-text-noncanonical`; independent of breezy)"""
    try:
        return build_raw(f) == raw
    except Exception:
        return False


def _modelable(f):
    return all(isinstance(f[k], int) for k in ("atime", "atz", "ctime", "ctz")) and f["tree"] is not None and \
        all(isinstance(f[k], bytes) for k in ("author", "committer"))


def raw_case(ctx, m, raw, how, strict, batch, record=True):
    from dulwich.objects import Commit
    try:
        c1 = Commit.from_string(raw)
        f = fields_of(c1)
    except Exception:
        ctx.count("raw:skip:dulwich-parse-error")
        return
    if dulwich_canonical(f, raw):
        ctx.count("raw:skip:still-canonical")
        return
    try:
        c1, res, gid = run_real(m, raw, strict)
    except Exception as e:
        ctx.count("raw:skip:" + type(e).__name__)
        return
    case = dict(kind="raw", how=how, strict=strict, raw=raw.decode("latin-1"))
    if record:
        ctx.case(case, nontrivial=True)
    ctx.count("raw:" + how)
    ctx.count("raw-result:" + (res[0] if res[0] == "ok" else res[0] + ":" + res[1]))
    if res[0] != "I" and (strict or all(k in (b"HG:rename-source", b"HG:extra") for k, v in f["extra"])):
        # accepted: the re-export must be the same bytes
        if res[0] == "X":
            ctx.count("roundtrip-fails:commit-text-noncanonical")
            ctx.violation(case, "import_commit accepts a commit text dulwich would not write (%s) but export_commit raises %s"
                          % (how, res[1]), family="commit-text-noncanonical")
        elif res[1].as_raw_string() != raw:
            ctx.count("roundtrip-fails:commit-text-noncanonical")
            ctx.violation(case, "export(import(commit)) differs from the commit; the commit text is not in dulwich's "
                          "canonical form (%s): %r -> %r" % (how, raw, res[1].as_raw_string()),
                          family="commit-text-noncanonical")
        else:
            ctx.count("raw:roundtrips")
    if _modelable(f):
        batch.append((case, model_line(strict, c1.id, f), res, gid))


def raw_stream(ctx, m, n):
    """audit item: the grammar stream only produces texts in the image of dulwich's serialiser"""
    rng = ctx.rng
    batch = []
    for i in range(n):
        c = gen_commit(rng)
        raw = build_raw(c)
        if raw is None:
            continue
        how = rng.choice(PERTURB)
        try:
            raw2 = perturb(rng, raw, how)
        except Exception:
            raw2 = None
        if raw2 is None or raw2 == raw:
            ctx.count("raw:skip:not-applicable")
            continue
        raw_case(ctx, m, raw2, how, rng.random() < 0.85, batch)
    flush(ctx, batch)


# --------------------------------------------------------------------------
# roundtrip.py: the --BZR-- metadata block (generate / parse / inject / extract)
# --------------------------------------------------------------------------

RT_MARKER = b"\n--BZR--\n"
WS = b" \t\n\x0b\x0c\r"


def elhex(b):
    return b.hex() if b else "."


def supp_fields(rid, pids, props, test):
    """the driver's four-field form of a supplement (props: dict, printed sorted by key)"""
    return " ".join([
        "~" if rid is None else elhex(rid),
        "~" if pids is None else hl([elhex(p) for p in pids]),
        hl([elhex(k) + ":" + elhex(v) for k, v in sorted(props.items())]),
        "~" if test is None else elhex(test)])


def supp_of(cs):
    return (cs.revision_id, cs.explicit_parent_ids, dict(cs.properties), cs.verifiers.get(b"testament3-sha1"))


def mk_supp(rid, pids, props, test):
    from breezy.git.roundtrip import CommitSupplement
    cs = CommitSupplement()
    cs.revision_id = rid
    cs.explicit_parent_ids = pids
    cs.properties = dict(props)
    if test is not None:
        cs.verifiers[b"testament3-sha1"] = test
    return cs


def _rt_id(rng, dirty):
    base = rng.choice([b"rev-1", b"a@b-2009", b"x", b"git-v1:" + b"ab" * 20, b"r:1"])
    if not dirty:
        return base
    return rng.choice([b"", b" " + base, base + b" ", base + b"\n", b"a b", b"\t" + base, base + b"\r", b"a\nb", b" "])


def gen_supp(rng):
    dirty = rng.random() < 0.25
    d = lambda: dirty and rng.random() < 0.4
    rid = None if rng.random() < 0.3 else _rt_id(rng, d())
    r = rng.random()
    pids = None if r < 0.4 else () if r < 0.5 else tuple(_rt_id(rng, d()) for _ in range(rng.randint(1, 3)))
    props = {}
    for _ in range(rng.choice([0, 0, 1, 1, 2, 3])):
        k = rng.choice([b"branch-nick", b"bugs", b"k", b"author", b"a-b", b"file-modes"])
        if d():
            k = rng.choice([b"", b"a:b", b"a\nb", b" k", b"k ", b"property-x", b"revision-id", k + b":"])
        v = b"\n".join(rng.choice([b"", b"line", b" lead", b"trail ", b"a: b", b"x\r", b"\xc3\xa9", b":"])
                       for _ in range(rng.choice([1, 1, 1, 2, 3])))
        props[k] = v
    test = None if rng.random() < 0.6 else (rng.choice([b" ", b"a b", b"ab\n"]) if d() else rng.choice([b"", b"0123abcd" * 5, b"sha"]))
    return rid, pids, props, test


def rt_wf(rid, pids, props, test):
    """the hypothesis `WF` of theorem parse_generate, re-stated in Python"""
    clean = lambda x: x != b"" and not any(bytes([c]) in WS for c in x)
    return ((rid is None or clean(rid)) and (pids is None or (len(pids) > 0 and all(clean(p) for p in pids)))
            and all(b":" not in k and b"\n" not in k for k in props)
            and (test is None or not any(bytes([c]) in WS for c in test)))


def gen_rt_message(rng):
    m = _text(rng, rng.choice(["ascii", "utf8", "high"]), 0, 10, [b"a", b"b", b" ", b"\n", b"-", b"."])
    r = rng.random()
    if r < 0.12:
        i = rng.randint(0, len(m))
        m = m[:i] + RT_MARKER + m[i:]
    elif r < 0.2:
        m = m + rng.choice([b"\n--BZR--", b"\n--BZR", b"\n", b"\n--BZR--\n"])
    elif r < 0.25:
        m = rng.choice([b"--BZR--\n", b"\n--BZR--\nrevision-id: x\n", b"\n--BZR--\njunk"]) + m
    return m


def supp_from_fields(sf):
    """inverse of supp_fields"""
    un = lambda x: b"" if x == "." else bytes.fromhex(x)
    a, b, c, e = sf.split(" ")
    rid = None if a == "~" else un(a)
    pids = None if b == "~" else tuple(un(x) for x in ([] if b == "-" else b.split(",")))
    props = {} if c == "-" else {un(kv.split(":")[0]): un(kv.split(":")[1]) for kv in c.split(",")}
    test = None if e == "~" else un(e)
    return rid, pids, props, test


def rt_replay(ctx, case):
    from breezy.git import roundtrip
    rid, pids, props, test = supp_from_fields(case["supp"])
    msg = case["msg"].encode("latin-1")
    cs = mk_supp(rid, pids, props, test)
    sf = case["supp"]
    text = _rt_call(roundtrip.generate_roundtripping_metadata, cs, "utf-8")
    inj = _rt_call(roundtrip.inject_bzr_metadata, msg, cs, "utf-8")
    ex = _rt_call(roundtrip.extract_bzr_metadata, inj) if isinstance(inj, bytes) else "-"
    lines = ["rtgen " + sf, "rtinj %s %s" % (hx(msg), sf)] + (["rtext " + hx(inj)] if isinstance(inj, bytes) else [])
    impl = [text if isinstance(text, str) else hx(text), inj if isinstance(inj, str) else hx(inj)]
    if isinstance(inj, bytes):
        impl.append(ex if isinstance(ex, str) else hx(ex[0]) + " " + ("~" if ex[1] is None else supp_fields(*supp_of(ex[1]))))
    model = ctx.model(lines)
    return dict(supplement=repr((rid, pids, props, test)), message=repr(msg), wf=rt_wf(rid, pids, props, test),
                generated=repr(text), injected=repr(inj),
                extracted=repr(ex if isinstance(ex, str) else (ex[0], None if ex[1] is None else supp_of(ex[1]))),
                impl=impl, model=model, model_agrees=impl == model)


def _rt_call(fn, *a):
    try:
        return fn(*a)
    except ValueError:
        return "E:Value"
    except Exception as e:
        return "E:Other:" + type(e).__name__


def rt_stream(ctx, n):
    from breezy.git import roundtrip
    rng = ctx.rng
    cases, lines, outs = [], [], []

    def add(case, line, out):
        cases.append(case)
        lines.append(line)
        outs.append(out)
    for _ in range(n):
        rid, pids, props, test = gen_supp(rng)
        msg = gen_rt_message(rng)
        sf = supp_fields(rid, pids, props, test)
        case = dict(kind="rt", supp=sf, msg=msg.decode("latin-1"))
        wf = rt_wf(rid, pids, props, test)
        ctx.case(case, nontrivial=bool(props) or pids is not None or RT_MARKER in msg)
        ctx.count("rt:wf" if wf else "rt:not-wf")
        cs = mk_supp(rid, pids, props, test)
        text = _rt_call(roundtrip.generate_roundtripping_metadata, cs, "utf-8")
        add(case, "rtgen " + sf, text if isinstance(text, str) else hx(text))
        if isinstance(text, str):
            continue
        back = _rt_call(roundtrip.parse_roundtripping_metadata, text)
        add(case, "rtparse " + hx(text), back if isinstance(back, str) else supp_fields(*supp_of(back)))
        use_none = rng.random() < 0.08
        inj = _rt_call(roundtrip.inject_bzr_metadata, msg, None if use_none else cs, "utf-8")
        add(case, "rtinj %s %s" % (hx(msg), "none" if use_none else sf), inj if isinstance(inj, str) else hx(inj))
        for m2 in ([inj] if isinstance(inj, bytes) else []) + [msg]:
            ex = _rt_call(roundtrip.extract_bzr_metadata, m2)
            add(case, "rtext " + hx(m2), ex if isinstance(ex, str) else
                hx(ex[0]) + " " + ("~" if ex[1] is None else supp_fields(*supp_of(ex[1]))))
        # a parser-only case: a perturbed metadata text
        if text and rng.random() < 0.3:
            t2 = bytearray(text)
            i = rng.randrange(len(t2))
            op = rng.random()
            if op < 0.3:
                del t2[i]
            elif op < 0.6:
                t2[i:i] = rng.choice([b":", b"\n", b" ", b"x", b"property-", b"\r"])
            else:
                t2 = t2[:i]
            t2 = bytes(t2)
            back2 = _rt_call(roundtrip.parse_roundtripping_metadata, t2)
            add(case, "rtparse " + hx(t2), back2 if isinstance(back2, str) else supp_fields(*supp_of(back2)))
            ctx.count("rt:perturbed:" + ("reject" if isinstance(back2, str) else "accept"))
        # oracle (model independent): the law  extract(inject(m, s)) == (m, s)  under the theorem's hypotheses
        if wf and not use_none and isinstance(inj, bytes):
            early = text != b"" and (msg + RT_MARKER + text).find(RT_MARKER) != len(msg)
            plain_marker = text == b"" and RT_MARKER in msg
            if early or plain_marker:
                ctx.count("rt:marker-in-message")
                continue
            ex = _rt_call(roundtrip.extract_bzr_metadata, inj)
            want_supp = None if text == b"" else (rid, pids if pids else None, props, test)
            got = None if isinstance(ex, str) else (ex[0], None if ex[1] is None else supp_of(ex[1]))
            if got != (msg, want_supp):
                ctx.violation(case, "roundtrip.py: extract_bzr_metadata(inject_bzr_metadata(m, s)) = %r, expected %r"
                              % (ex if isinstance(ex, str) else got, (msg, want_supp)), family=None)
            ctx.count("rt:law-checked")
        if len(lines) > 4000:
            ctx.diff(cases, lines, outs)
            del cases[:], lines[:], outs[:]
    ctx.diff(cases, lines, outs)


def fix_stream(ctx):
    from breezy.git.mapping import fix_person_identifier
    alph = [b"<", b">", b" ", b",", b"a"]
    cases, lines, outs = [], [], []
    for n in range(0, ctx.pick(5, 6) + 1):
        for t in itertools.product(alph, repeat=n):
            s = b"".join(t)
            try:
                o = hx(fix_person_identifier(s))
            except ValueError:
                o = "E:Value"
            cases.append(dict(kind="fix", s=s.decode()))
            lines.append("fix " + hx(s))
            outs.append(o)
            ctx.case(cases[-1], nontrivial=(b"<" in s or b">" in s))
            if o != "E:Value" and o == hx(s) != "-":
                ctx.count("fix:fixpoint")
            # the oracle's classifier regex == the model's Canon condition on identifiers
            # (fixed point of fix_person_identifier and not cut by the "," hack), on the real function
            fixpoint = (o == hx(s) and s != b"") and not (b"," in s and s.count(b">") > 1)
            if _canonical_person(s) != fixpoint:
                ctx.mismatch(cases[-1], "canonical-regex=%s" % _canonical_person(s), "fixpoint=%s" % fixpoint)
    ctx.count("fix:total", len(cases))
    ctx.diff(cases, lines, outs)


def run(ctx, n=None):
    m = _mapping()
    rng = ctx.rng
    fx, label = probe_variant(m)
    ctx.extra["variant"] = dict(strict_import_checks_reencoding=fx, refusal_rendered_as=label)
    fix_stream(ctx)
    rt_stream(ctx, (n or ctx.pick(6000, 80000)) // 6)
    raw_stream(ctx, m, (n or ctx.pick(6000, 80000)) // 8)
    batch = []
    for i in range(n or ctx.pick(6000, 80000)):
        c = gen_commit(rng)
        strict = rng.random() < 0.85
        one_case(ctx, m, c, strict, batch)
        if len(batch) >= 4000:
            flush(ctx, batch)
    flush(ctx, batch)


def widen(ctx):
    run(ctx, n=40000)


def replay(ctx, case):
    m = _mapping()
    probe_variant(m)
    if case.get("kind") == "fix":
        from breezy.git.mapping import fix_person_identifier
        s = case["s"].encode()
        try:
            o = hx(fix_person_identifier(s))
        except ValueError:
            o = "E:Value"
        return dict(impl=o, model=ctx.model(["fix " + hx(s)])[0])
    if case.get("kind") == "rt":
        return rt_replay(ctx, case)
    if case.get("kind") == "raw":
        raw, batch = case["raw"].encode("latin-1"), []
        raw_case(ctx, m, raw, case["how"], case["strict"], batch, record=False)
        out = dict(raw=repr(raw), oracle_failures=[dict(what=v["what"], family=v["family"]) for v in ctx.violations])
        if batch:
            _, line, res, gid = batch[0]
            rep = model_reply(ctx.model([line])[0])
            out.update(impl=impl_out(res, rep, gid), model=rep)
            out["model_agrees"] = out["impl"] == out["model"]
        return out
    c = unjson(case["commit"])
    strict = case["strict"]
    raw = build_raw(c)
    c1, res, gid = run_real(m, raw, strict)
    oracle(ctx, m, case, raw, c1, res, strict)
    rep = model_reply(ctx.model([model_line(strict, c1.id, fields_of(c1))])[0])
    out = impl_out(res, rep, gid)
    return dict(raw=repr(raw), result=res[0] if res[0] == "ok" else list(res[:2]),
                exported=repr(res[1].as_raw_string()) if res[0] == "ok" else None,
                impl=out, model=rep, model_agrees=out == rep,
                oracle_failures=[dict(what=v["what"], family=v["family"]) for v in ctx.violations])
