import BreezyVerif.Common
import BreezyVerif.Model.C33
namespace BreezyVerif.C33

/-- insertion sort (sets are printed sorted) -/
def insSorted (x : Nat) : List Nat → List Nat
  | [] => [x]
  | y :: ys => if x ≤ y then x :: y :: ys else y :: insSorted x ys

def sortNat (l : List Nat) : List Nat := l.foldr insSorted []

def showSet (l : List Nat) : String := joinList ((sortNat (dedup l)).map toString)

/-- `k:p.p.p` -/
def parseEntry (s : String) : Option (Key × List Key) :=
  match s.splitOn ":" with
  | [k, ps] =>
    match k.toNat?, (if ps == "" then some [] else (ps.splitOn ".").mapM String.toNat?) with
    | some k, some ps => some (k, ps)
    | _, _ => none
  | _ => none

/-- `k:p.p,k:,k:p` ; `-` = empty map -/
def parsePMap (s : String) : Option PMap := (splitList s).mapM parseEntry

def showRecipe (r : Recipe) : String :=
  showSet r.start ++ " " ++ showSet r.stop ++ " " ++ toString r.count

/-- list of byte strings: `-` = empty list, `.` = empty element -/
def parseHexList (s : String) : Option (List Bytes) :=
  (splitList s).mapM (fun e => if e == "." then some [] else if e == "-" then none else fromHex e)

def showHexList (l : List Bytes) : String :=
  joinList (l.map (fun b => if b.isEmpty then "." else toHex b))

/--
* `sr <pm> <missing>` → `start stop count`
* `heads <pm> <tips> <depth>` → heads
* `lim <pm> <tips> <depth>` → `start stop count keys`
* `walk <g> <start> <stop>` → `seen stopped included`
* `srv <g> <start> <stop> <count> <discard>` → `ok started excludes included` | `NoSuchRevision`
* `ser <hexlist start> <hexlist stop> <count>` → hex body
* `parse <hex body>` → `hexlist hexlist count` | `E:bad`
-/
def handle : List String → String
  | ["sr", pm, missing] =>
    match parsePMap pm, parseNatList missing with
    | some pm, some missing => showRecipe (searchResultFromParentMap pm missing)
    | _, _ => "bad-op"
  | ["heads", pm, tips, depth] =>
    match parsePMap pm, parseNatList tips, depth.toNat? with
    | some pm, some tips, some depth => showSet (findPossibleHeads pm tips depth)
    | _, _, _ => "bad-op"
  | ["lim", pm, tips, depth] =>
    match parsePMap pm, parseNatList tips, depth.toNat? with
    | some pm, some tips, some depth =>
      match limitedSearchResult pm tips depth with
      | some l => showRecipe l.recipe ++ " " ++ showSet l.keys
      | none => "fuel"
    | _, _, _ => "bad-op"
  | ["walk", g, start, stop] =>
    match parsePMap g, parseNatList start, parseNatList stop with
    | some g, some start, some stop =>
      match bfs g start stop with
      | some s => showSet s.seen ++ " " ++ showSet s.stopped ++ " " ++ showSet s.included
      | none => "fuel"
    | _, _, _ => "bad-op"
  | ["srv", g, start, stop, count, discard] =>
    match parsePMap g, parseNatList start, parseNatList stop, count.toNat?, parseBool discard with
    | some g, some start, some stop, some count, some discard =>
      match recreate g ⟨start, stop, count⟩ discard with
      | some (.ok a b c) => "ok " ++ showSet a ++ " " ++ showSet b ++ " " ++ showSet c
      | some .noSuchRevision => "NoSuchRevision"
      | none => "fuel"
    | _, _, _, _, _ => "bad-op"
  | ["ser", start, stop, count] =>
    match parseHexList start, parseHexList stop, count.toNat? with
    | some start, some stop, some count => toHex (serialise ⟨start, stop, count⟩)
    | _, _, _ => "bad-op"
  | ["parse", body] =>
    match fromHex body with
    | some body =>
      match parseRecipe body with
      | some r => showHexList r.start ++ " " ++ showHexList r.stop ++ " " ++ toString r.count
      | none => "E:bad"
    | none => "bad-op"
  | _ => "bad-op"

end BreezyVerif.C33

def main : IO Unit := BreezyVerif.runDriver BreezyVerif.C33.handle
