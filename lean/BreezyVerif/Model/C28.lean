/-!
C28 — executable model of the reentrant lock wrappers (M-Lock).  Core Lean only.

* `Phys`   — the abstract *physical* lock the wrappers drive: a recording lock
  that never refuses `unlock()`, and refuses `lock_read()` only when its
  environment flag `rblock` is set (a contended OS read lock:
  `LockContention`), so that a wrapper that acquired twice or released a lock
  it does not hold shows up in `log`, which is what the theorems are about;
  it has the token behaviour of
  `breezy.lockdir.LockDir`: write locks have a nonce on disk,
  `lock_write(None)` fails with `LockContention` when a lock exists on disk,
  `lock_write(token)` / `validate_token(token)` fail with `TokenMismatch`
  unless the on-disk nonce is `token`, a lock adopted by token is left on disk
  by `unlock`.  Every successful physical call is appended to `log`.  The
  harness installs a Python fake with exactly this behaviour under the real
  wrapper classes.
* `CL`     — `breezy/counted_lock.py: CountedLock` (literal).
* `LF`     — `breezy/bzr/lockable_files.py: LockableFiles.lock_write /
  lock_read / unlock` (literal, including the transaction slot and the
  `@only_raises(LockNotHeld, LockBroken)` decorator of `unlock`).
* `Repo`   — `breezy/bzr/pack_repo.py: PackRepository.lock_write / lock_read /
  unlock / is_locked` (write-lock count, read locks through the control
  files, fallback repositories locked on the unlocked→locked edge).  Write
  groups are not modelled (`_write_group is None` throughout).
* `Branch` — `breezy/bzr/branch.py: BzrBranch.lock_write / lock_read / unlock`
  over its control files and a `Repo`.

* `Tree`   — the bzr working trees (`workingtree_4.py`, `workingtree.py`,
  `workingtree_3.py`) over `Branch.stepG`.
* `RepoW`  — `PackRepository` with `start_write_group` / `abort_write_group` and the
  write-group branch of `unlock`;  `BranchS` — `BzrBranch.unlock` with a config
  store whose `save_changes()` raises.

Each method is a total function `state → state × Res`; the exceptions the real
code raises are the `Err` values, and the state returned with an error is the
state the real object is left in when the exception propagates.
-/
namespace BreezyVerif.C28

inductive Mode where
  | r | w
  deriving DecidableEq, Repr

/-- successful physical lock calls -/
inductive Ev where
  | acqR      -- lock_read()
  | acqW      -- lock_write(None): a new lock on disk
  | acqT      -- lock_write(token): adopted an existing on-disk lock
  | rel       -- unlock()
  deriving DecidableEq, Repr

inductive Err where
  | readOnly        -- errors.ReadOnlyError
  | notHeld         -- errors.LockNotHeld
  | tokenMismatch   -- errors.TokenMismatch
  | contention      -- errors.LockContention
  | lockError       -- errors.LockError (transaction slot misuse)
  | notWriteLocked  -- errors.NotWriteLocked (start_write_group without a write lock)
  | bzrError        -- errors.BzrError (write group misuse)
  deriving DecidableEq, Repr

/-- result of one method call: returned token (`none` = Python `None`) or the
exception raised -/
abbrev Res := Except Err (Option Nat)

instance {α : Type} [DecidableEq α] : DecidableEq (Except Err α) := fun a b =>
  match a, b with
  | Except.ok x, Except.ok y =>
    if h : x = y then isTrue (by rw [h]) else isFalse (by intro e; injection e; contradiction)
  | Except.error x, Except.error y =>
    if h : x = y then isTrue (by rw [h]) else isFalse (by intro e; injection e; contradiction)
  | Except.ok _, Except.error _ => isFalse (by intro e; cases e)
  | Except.error _, Except.ok _ => isFalse (by intro e; cases e)

/-- the nonce the fake physical lock writes for a fresh write lock -/
def nonce : Nat := 7

structure Phys where
  held : Option Mode := none
  viaTok : Bool := false
  disk : Option Nat := none
  log : List Ev := []
  /-- environment: `lock_read()` is refused with `LockContention` (never changed by the wrappers) -/
  rblock : Bool := false
  deriving DecidableEq, Repr

namespace Phys

/-- `lock_read()`: recorded; refused (`LockContention`, nothing recorded) exactly
when the environment flag `rblock` is set -/
def lockRead (p : Phys) : Except Err Phys :=
  if p.rblock then .error .contention
  else .ok { p with held := some .r, log := p.log ++ [.acqR] }

def validate (p : Phys) : Option Nat → Except Err Unit
  | none => .ok ()
  | some t => if p.disk = some t then .ok () else .error .tokenMismatch

/-- `lock_write(token)`: with a token the on-disk lock must carry it
(`TokenMismatch` otherwise) and is adopted; without, a fresh lock is created
unless one exists on disk (`LockContention`) -/
def lockWrite (p : Phys) (tok : Option Nat) : Except Err (Phys × Option Nat) :=
  match tok with
  | some t =>
    if p.disk = some t then
      .ok ({ p with held := some .w, viaTok := true, log := p.log ++ [.acqT] }, some t)
    else .error .tokenMismatch
  | none =>
    if p.disk.isSome then .error .contention
    else .ok ({ p with held := some .w, viaTok := false, disk := some nonce,
                       log := p.log ++ [.acqW] }, some nonce)

/-- `unlock()`: recorded, never refused; a lock this object created on disk is
removed, an adopted one is left in place -/
def unlock (p : Phys) : Phys :=
  { p with held := none, viaTok := false,
           disk := if p.held = some .w && !p.viaTok then none else p.disk,
           log := p.log ++ [.rel] }

end Phys

/-! ### CountedLock -/

structure CL where
  mode : Option Mode := none
  count : Nat := 0
  token : Option Nat := none     -- self._token
  phys : Phys := {}
  deriving DecidableEq, Repr

namespace CL

def isLocked (s : CL) : Bool := s.mode.isSome

def lockRead (s : CL) : CL × Res :=
  if s.mode.isSome then ({ s with count := s.count + 1 }, .ok none)
  else match s.phys.lockRead with
    | .error e => (s, .error e)          -- `_real_lock.lock_read()` raised: nothing assigned yet
    | .ok p => ({ s with phys := p, count := 1, mode := some .r }, .ok none)

def lockWrite (s : CL) (tok : Option Nat) : CL × Res :=
  if s.count = 0 then
    match s.phys.lockWrite tok with
    | .error e => (s, .error e)
    | .ok (p, t) => ({ s with phys := p, token := t, mode := some .w, count := s.count + 1 }, .ok t)
  else if s.mode ≠ some .w then (s, .error .readOnly)
  else match s.phys.validate tok with
    | .error e => (s, .error e)
    | .ok () => ({ s with count := s.count + 1 }, .ok s.token)

def unlock (s : CL) : CL × Res :=
  if s.count = 0 then (s, .error .notHeld)
  else if s.count = 1 then
    ({ s with mode := none, count := 0, phys := s.phys.unlock }, .ok none)
  else ({ s with count := s.count - 1 }, .ok none)

end CL

/-! ### LockableFiles -/

structure LF where
  mode : Option Mode := none
  count : Nat := 0
  txn : Option Mode := none         -- self._transaction: read-only / write transaction
  tokenFromLock : Option Nat := none
  phys : Phys := {}
  deriving DecidableEq, Repr

namespace LF

def isLocked (s : LF) : Bool := decide (s.count ≥ 1)

/-- `get_transaction().writeable()`: pass-through and write transactions are
writeable, read-only transactions are not -/
def txnWriteable (s : LF) : Bool := s.txn ≠ some .r

def lockWrite (s : LF) (tok : Option Nat) : LF × Res :=
  if s.mode.isSome then
    if s.mode ≠ some .w || !s.txnWriteable then (s, .error .readOnly)
    else match s.phys.validate tok with
      | .error e => (s, .error e)
      | .ok () => ({ s with count := s.count + 1 }, .ok s.tokenFromLock)
  else match s.phys.lockWrite tok with
    | .error e => (s, .error e)
    | .ok (p, t) =>
      let s1 := { s with phys := p, mode := some .w, count := 1 }
      -- _set_write_transaction
      if s1.txn.isSome then (s1, .error .lockError)
      else ({ s1 with txn := some .w, tokenFromLock := t }, .ok t)

def lockRead (s : LF) : LF × Res :=
  if s.mode.isSome then ({ s with count := s.count + 1 }, .ok none)
  else match s.phys.lockRead with
    | .error e => (s, .error e)          -- `_lock.lock_read()` raised: nothing assigned yet
    | .ok p =>
      let s1 := { s with phys := p, mode := some .r, count := 1 }
      if s1.txn.isSome then (s1, .error .lockError)
      else ({ s1 with txn := some .r }, .ok none)

/-- `unlock`, with `@only_raises(LockNotHeld, LockBroken)`: a `LockError` from
`_finish_transaction` is logged and discarded (the call returns `None`) -/
def unlock (s : LF) : LF × Res :=
  if s.mode.isNone then (s, .error .notHeld)
  else if s.count > 1 then ({ s with count := s.count - 1 }, .ok none)
  else if s.txn.isNone then (s, .ok none)   -- LockError swallowed before anything changed
  else ({ s with txn := none, phys := s.phys.unlock, count := 0, mode := none }, .ok none)

end LF

/-! ### PackRepository -/

structure Repo where
  wcount : Nat := 0          -- _write_lock_count
  cf : LF := {}              -- control_files
  fb : Nat := 0              -- lock depth of (each) fallback repository (a recorder that never refuses)
  fbLog : List Ev := []      -- lock_read()/unlock() calls made on the fallbacks
  deriving DecidableEq, Repr

namespace Repo

def isLocked (s : Repo) : Bool := decide (s.wcount ≠ 0) || s.cf.isLocked

def lockFallbacks (s : Repo) : Repo := { s with fb := s.fb + 1, fbLog := s.fbLog ++ [.acqR] }

/-- `lock_write(token)`: the token is ignored; the result token is `None` -/
def lockWrite (s : Repo) (_tok : Option Nat) : Repo × Res :=
  let locked := s.isLocked
  if s.wcount = 0 && locked then (s, .error .readOnly)
  else
    let s1 := { s with wcount := s.wcount + 1 }
    (if locked then s1 else s1.lockFallbacks, .ok none)

def lockRead (s : Repo) : Repo × Res :=
  let locked := s.isLocked
  if s.wcount ≠ 0 then
    let s1 := { s with wcount := s.wcount + 1 }
    (if locked then s1 else s1.lockFallbacks, .ok none)
  else
    match s.cf.lockRead with
    | (cf, .error e) => ({ s with cf := cf }, .error e)
    | (cf, .ok _) =>
      let s1 := { s with cf := cf }
      (if locked then s1 else s1.lockFallbacks, .ok none)

/-- `unlock` (no write group active), with `@only_raises(LockNotHeld, LockBroken)` -/
def unlock (s : Repo) : Repo × Res :=
  let step : Repo × Res :=
    if s.wcount ≠ 0 then ({ s with wcount := s.wcount - 1 }, .ok none)
    else match s.cf.unlock with
      | (cf, r) => ({ s with cf := cf }, r)
  match step with
  | (s1, .error e) => (s1, .error e)
  | (s1, .ok _) =>
    if s1.isLocked then (s1, .ok none)
    else ({ s1 with fb := s1.fb - 1, fbLog := s1.fbLog ++ [.rel] }, .ok none)

end Repo

/-! ### BzrBranch -/

structure Branch where
  cf : LF := {}
  repo : Repo := {}
  deriving DecidableEq, Repr

namespace Branch

def isLocked (s : Branch) : Bool := s.cf.isLocked

/-- the `try: control_files.lock_*() except: if took_lock: repository.unlock(); raise` part -/
def finishLock (s : Branch) (tookLock : Bool) (r : LF × Res) : Branch × Res :=
  match r with
  | (cf, .ok t) => ({ s with cf := cf }, .ok t)
  | (cf, .error e) =>
    let s1 := { s with cf := cf }
    if tookLock then
      match s1.repo.unlock with
      | (repo, .ok _) => ({ s1 with repo := repo }, .error e)
      | (repo, .error e') => ({ s1 with repo := repo }, .error e')
    else (s1, .error e)

def lockWrite (s : Branch) (tok : Option Nat) : Branch × Res :=
  if !s.isLocked then
    match s.repo.lockWrite none with
    | (repo, .error e) => ({ s with repo := repo }, .error e)
    | (repo, .ok _) =>
      let s1 := { s with repo := repo }
      finishLock s1 true (s1.cf.lockWrite tok)
  else finishLock s false (s.cf.lockWrite tok)

def lockRead (s : Branch) : Branch × Res :=
  if !s.isLocked then
    match s.repo.lockRead with
    | (repo, .error e) => ({ s with repo := repo }, .error e)
    | (repo, .ok _) =>
      let s1 := { s with repo := repo }
      finishLock s1 true s1.cf.lockRead
  else finishLock s false s.cf.lockRead

/-- `unlock`: `try: control_files.unlock() finally: if not
control_files.is_locked(): repository.unlock()` under
`@only_raises(LockNotHeld, LockBroken)` -/
def unlock (s : Branch) : Branch × Res :=
  match s.cf.unlock with
  | (cf, r) =>
    let s1 := { s with cf := cf }
    if !s1.cf.isLocked then
      match s1.repo.unlock with
      | (repo, .error e') => ({ s1 with repo := repo }, .error e')   -- replaces any pending exception
      | (repo, .ok _) => ({ s1 with repo := repo }, r)
    else (s1, r)

end Branch

/-! ### operation alphabets and runs -/

inductive Op where
  | lockRead
  | lockWrite (tok : Option Nat)
  | unlock
  deriving DecidableEq, Repr

def CL.step (s : CL) : Op → CL × Res
  | .lockRead => s.lockRead
  | .lockWrite t => s.lockWrite t
  | .unlock => s.unlock

def LF.step (s : LF) : Op → LF × Res
  | .lockRead => s.lockRead
  | .lockWrite t => s.lockWrite t
  | .unlock => s.unlock

def Repo.step (s : Repo) : Op → Repo × Res
  | .lockRead => s.lockRead
  | .lockWrite t => s.lockWrite t
  | .unlock => s.unlock

/-- an operation on the branch/repository stack: on the branch, or directly on
its repository (another holder of the same repository object) -/
inductive SOp where
  | branch (o : Op)
  | repo (o : Op)
  deriving DecidableEq, Repr

def Branch.step (s : Branch) : SOp → Branch × Res
  | .branch .lockRead => s.lockRead
  | .branch (.lockWrite t) => s.lockWrite t
  | .branch .unlock => s.unlock
  | .repo o => let (r, res) := s.repo.step o; ({ s with repo := r }, res)

/-- the same stack with the guard that `GitBranch.unlock` / `GitWorkingTree.unlock`
already have and that the proposed fix adds to `BzrBranch.unlock`:
`if not self.control_files.is_locked(): return cant_unlock_not_held(self)`
before anything else.  The harness probes which of the two variants the
working tree implements and ties that one. -/
def Branch.stepG (s : Branch) : SOp → Branch × Res
  | .branch .unlock => if !s.isLocked then (s, .error .notHeld) else s.unlock
  | o => s.step o

def Branch.runG (s : Branch) (ops : List SOp) : Branch := ops.foldl (fun s o => (s.stepG o).1) s

/-- run a sequence of operations, ignoring results -/
def CL.run (s : CL) (ops : List Op) : CL := ops.foldl (fun s o => (s.step o).1) s
def LF.run (s : LF) (ops : List Op) : LF := ops.foldl (fun s o => (s.step o).1) s
def Repo.run (s : Repo) (ops : List Op) : Repo := ops.foldl (fun s o => (s.step o).1) s
def Branch.run (s : Branch) (ops : List SOp) : Branch := ops.foldl (fun s o => (s.step o).1) s

/-! ### PackRepository with write groups (`start_write_group`, `abort_write_group`, and the
write-group branch of `PackRepository.unlock`)

`unlock` of the last write lock while a write group is active aborts the group, sets
`_write_lock_count = 0` and raises `BzrError("Must end write group ...")`, which
`@only_raises(LockNotHeld, LockBroken)` logs and discards: the call returns `None`.  The
code as found leaves through that `raise` before the `if not self.is_locked():` block, so
the fallback repositories stay locked (`fx = false`); `fx = true` is the proposed fix
(unlock the fallbacks before raising). -/

inductive WOp where
  | op (o : Op)
  | startWG        -- start_write_group()
  | abortWG        -- abort_write_group()
  deriving DecidableEq, Repr

structure RepoW where
  repo : Repo := {}
  wg : Bool := false       -- `_write_group is not None`
  deriving DecidableEq, Repr

namespace RepoW

def unlock (fx : Bool) (s : RepoW) : RepoW × Res :=
  if s.repo.wcount = 1 && s.wg then
    let r := { s.repo with wcount := 0 }
    let r := if fx && !r.isLocked then { r with fb := r.fb - 1, fbLog := r.fbLog ++ [.rel] } else r
    ({ repo := r, wg := false }, .ok none)
  else
    let (r, res) := s.repo.unlock
    ({ s with repo := r }, res)

def step (fx : Bool) (s : RepoW) : WOp → RepoW × Res
  | .op .unlock => s.unlock fx
  | .op o => let (r, res) := s.repo.step o; ({ s with repo := r }, res)
  | .startWG =>
    if s.repo.wcount = 0 then (s, .error .notWriteLocked)
    else if s.wg then (s, .error .bzrError)
    else ({ s with wg := true }, .ok none)
  | .abortWG =>
    -- `_write_group is not get_transaction()`: outside a group `None` is never the transaction
    if !s.wg then (s, .error .bzrError) else ({ s with wg := false }, .ok none)

def run (fx : Bool) (s : RepoW) (ops : List WOp) : RepoW := ops.foldl (fun s o => (s.step fx o).1) s

end RepoW

/-! ### BzrBranch.unlock with a config store whose `save_changes()` raises

`BzrBranch.unlock` (guarded) runs `if control_files._lock_count == 1 and conf_store is
not None: conf_store.save_changes()` BEFORE the `try: control_files.unlock() finally:
...`.  If it raises (disk full, permission denied, ...), `@only_raises` logs and discards
the exception: the call returns `None` with nothing released (`fx = false`, the code as
found).  `fx = true` is the proposed fix (save inside the `try`, so that the locks are
released in the `finally:`; the exception is still discarded). -/

structure BranchS where
  b : Branch := {}
  saveFails : Bool := false     -- environment: `conf_store.save_changes()` raises
  deriving DecidableEq, Repr

def BranchS.step (fx : Bool) (s : BranchS) : SOp → BranchS × Res
  | .branch .unlock =>
    if !s.b.isLocked then (s, .error .notHeld)
    else if s.b.cf.count = 1 && s.saveFails && !fx then (s, .ok none)
    else let (b, r) := s.b.unlock; ({ s with b := b }, r)
  | o => let (b, r) := s.b.stepG o; ({ s with b := b }, r)

def BranchS.run (fx : Bool) (s : BranchS) (ops : List SOp) : BranchS :=
  ops.foldl (fun s o => (s.step fx o).1) s

/-! ### bzr working trees (`breezy/bzr/workingtree_4.py: DirStateWorkingTree`,
`breezy/bzr/workingtree.py: InventoryWorkingTree` + `workingtree_3.py: WorkingTree3.unlock`)

Both families have the same lock skeleton: EVERY `lock_read` / `lock_tree_write`
/ `lock_write` first locks the branch (`branch.lock_read()`, `lock_read()`,
`lock_write()` respectively), then the tree's own control files, and gives the
branch lock back if the latter raises; every `unlock` runs
`try: return self._control_files.unlock() finally: self.branch.unlock()`.
The branch underneath is the guarded `Branch.stepG` (the code in /repo).  The
dirstate trees additionally take the dirstate FILE lock (`DS`) inside an inner
`try/except` that gives the control files back; the cache flushing of the last
unlock is not modelled. -/

/-- the dirstate FILE lock (`DirState.lock_read / lock_write / unlock`, an OS lock on
`.bzr/checkout/dirstate`), taken by the first tree lock (`if not state._lock_token`) and
given back by the last unlock.  `pinned` (environment, never changed by the tree): another
working-tree object or process holds a READ lock on the file, so `lock_write()` is refused
with `LockContention` while `lock_read()` is still granted. -/
structure DS where
  held : Option Mode := none
  log : List Ev := []
  pinned : Bool := false
  deriving DecidableEq, Repr

def DS.lock (d : DS) (m : Mode) : Except Err DS :=
  if m = .w && d.pinned then .error .contention
  else .ok { d with held := some m, log := d.log ++ [if m = .r then .acqR else .acqW] }

def DS.unlock (d : DS) : DS := { d with held := none, log := d.log ++ [.rel] }

structure Tree where
  cf : LF := {}              -- the tree's own `_control_files`
  branch : Branch := {}
  ds : DS := {}              -- the dirstate file lock
  deriving DecidableEq, Repr

inductive TreeOp where
  | lockRead
  | lockTreeWrite
  | lockWrite
  | unlock
  deriving DecidableEq, Repr

/-- an operation on the tree / branch / repository stack -/
inductive TOp where
  | tree (o : TreeOp)
  | branch (o : Op)
  | repo (o : Op)
  deriving DecidableEq, Repr

namespace Tree

def isLocked (s : Tree) : Bool := s.cf.isLocked

/-- the outer `except BaseException: self.branch.unlock(); raise` -/
def rollbackBranch (s1 : Tree) (e : Err) : Tree × Res :=
  match s1.branch.stepG (.branch .unlock) with
  | (b, .ok _) => ({ s1 with branch := b }, .error e)
  | (b, .error e') => ({ s1 with branch := b }, .error e')

/-- (the branch has just been locked)
`try: self._control_files.lock_*();
      try: state = self.current_dirstate(); if not state._lock_token: state.lock_*()
      except: self._control_files.unlock(); raise
 except: self.branch.unlock(); raise`;
`m` = the mode the dirstate file is locked in; a tree lock returns a
`LogicalLockResult` (no token) -/
def lockSelf (s : Tree) (m : Mode) (r : LF × Res) : Tree × Res :=
  match r with
  | (cf, .ok _) =>
    let s1 := { s with cf := cf }
    if s1.ds.held.isSome then (s1, .ok none)
    else match s1.ds.lock m with
      | .ok d => ({ s1 with ds := d }, .ok none)
      | .error e =>
        -- inner `except`: the control files are given back, then the branch
        match s1.cf.unlock with
        | (cf2, .ok _) => rollbackBranch { s1 with cf := cf2 } e
        | (cf2, .error e') => rollbackBranch { s1 with cf := cf2 } e'
  | (cf, .error e) => rollbackBranch { s with cf := cf } e

/-- `branchOp` = how the branch is locked first; `self` = how the tree's own
control files are locked then; `m` = how the dirstate file is locked last -/
def lockVia (s : Tree) (branchOp : Op) (m : Mode) (self : LF → LF × Res) : Tree × Res :=
  match s.branch.stepG (.branch branchOp) with
  | (b, .error e) => ({ s with branch := b }, .error e)
  | (b, .ok _) =>
    let s1 := { s with branch := b }
    lockSelf s1 m (self s1.cf)

def lockRead (s : Tree) : Tree × Res := lockVia s .lockRead .r LF.lockRead
def lockTreeWrite (s : Tree) : Tree × Res := lockVia s .lockRead .w (fun cf => cf.lockWrite none)
def lockWrite (s : Tree) : Tree × Res := lockVia s (.lockWrite none) .w (fun cf => cf.lockWrite none)

/-- `unlock` as in /repo: `if self._control_files._lock_count == 1: ...
self._dirstate.unlock()`, then `try: return cf.unlock() finally: branch.unlock()` — an
exception of `branch.unlock()` replaces the pending one -/
def unlock (s : Tree) : Tree × Res :=
  let s0 : Tree := if s.cf.count = 1 && s.ds.held.isSome then { s with ds := s.ds.unlock } else s
  match s0.cf.unlock with
  | (cf, r) =>
    let s1 := { s0 with cf := cf }
    match s1.branch.stepG (.branch .unlock) with
    | (b, .error e') => ({ s1 with branch := b }, .error e')
    | (b, .ok _) => ({ s1 with branch := b }, r)

/-- the stack as in /repo (tree `unlock` unguarded: known finding
`tree-over-unlock-releases-branch`) -/
def step (s : Tree) : TOp → Tree × Res
  | .tree .lockRead => s.lockRead
  | .tree .lockTreeWrite => s.lockTreeWrite
  | .tree .lockWrite => s.lockWrite
  | .tree .unlock => s.unlock
  | .branch o => let (b, res) := s.branch.stepG (.branch o); ({ s with branch := b }, res)
  | .repo o => let (b, res) := s.branch.stepG (.repo o); ({ s with branch := b }, res)

/-- the same with the guard `GitWorkingTree.unlock` has (and `BzrBranch.unlock`
got): `if not self._control_files.is_locked(): return cant_unlock_not_held(self)` first -/
def stepG (s : Tree) : TOp → Tree × Res
  | .tree .unlock => if !s.isLocked then (s, .error .notHeld) else s.unlock
  | o => s.step o

def run (s : Tree) (ops : List TOp) : Tree := ops.foldl (fun s o => (s.step o).1) s
def runG (s : Tree) (ops : List TOp) : Tree := ops.foldl (fun s o => (s.stepG o).1) s

end Tree

/-- initial states; `ext = true`: a write lock with nonce `nonce` already
exists on disk (taken by other means), so `lock_write(nonce)` can adopt it -/
def Phys.init (ext : Bool) (rb : Bool := false) : Phys :=
  { disk := if ext then some nonce else none, rblock := rb }
/-- `rb`: the object's own physical lock refuses `lock_read()` -/
def CL.init (ext : Bool) (rb : Bool := false) : CL := { phys := Phys.init ext rb }
def LF.init (ext : Bool) (rb : Bool := false) : LF := { phys := Phys.init ext rb }
def Repo.init (ext : Bool) (rb : Bool := false) : Repo := { cf := LF.init ext rb }
/-- `rbB` / `rbR`: the branch's / the repository's control-files lock refuses `lock_read()` -/
def Branch.init (ext : Bool) (rbB : Bool := false) (rbR : Bool := false) : Branch :=
  { cf := LF.init ext rbB, repo := Repo.init ext rbR }
def RepoW.init (ext : Bool) (rb : Bool := false) : RepoW := { repo := Repo.init ext rb }
def BranchS.init (ext : Bool) (saveFails : Bool) : BranchS := { b := Branch.init ext, saveFails := saveFails }
/-- `rbT`: the tree's own control-files lock refuses `lock_read()` -/
def Tree.init (ext : Bool) (rbT : Bool := false) (rbB : Bool := false) (rbR : Bool := false)
    (pin : Bool := false) : Tree :=
  { cf := LF.init ext rbT, branch := Branch.init ext rbB rbR, ds := { pinned := pin } }

end BreezyVerif.C28
