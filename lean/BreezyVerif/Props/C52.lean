import BreezyVerif.Lemmas.C52
import BreezyVerif.Lemmas.C52U
/-!
C52 — every reconfiguration and every format conversion preserves the
observation of a location (branch tip, history, tags, working tree content and
pending changes), for every location state, every target and every path
through the layout graph (no bound on its length), whether the operation
succeeds, is refused, or fails half-way; a successful `to_X` yields layout X;
`upgrade` runs the converters that reach the target formats and keeps what is
observed.
-/
namespace BreezyVerif.C52

/-- **One transition, forced or not** (`to_branch`, `to_tree`, `to_checkout`,
`to_lightweight_checkout`, `to_standalone`, `to_use_shared`): the format tag is
unchanged; tip and history are unchanged or become those of the branch at the
bind location; every tag definition survives (local tags are merged into the
referenced branch, which only adds definitions) and no definition appears from
nowhere; a working tree that is kept keeps its content and pending changes; a
tree is only removed when it has no pending changes, unless forced; a tree that
is created is the clean tree of the tip.  Holds for the state reached on
success, on refusal and on a failure in mid-`apply`. -/
theorem reconfigure_keeps_any (v : Variant) (t : Target) (force : Bool) (l : Loc) (hinv : NoConflict l.tags l.refTags) :
    KeepsF force l (reconfigure v t force l).1 := by
  unfold reconfigure
  cases hf : factory l t with
  | error e => exact keepsF_refl force l hinv
  | ok f =>
    have hfl := factory_tree_flags l t f hf
    by_cases ha : f.any = true
    · simp only [ha, if_true]
      exact applyFlags_keepsF v l f force hinv hfl.1 hfl.2
    · simp only [ha]; exact keepsF_refl force l hinv

/-- **One transition, not forced**: in addition tip and history are unchanged —
`_check` refuses to replace the branch by a reference to a branch with another tip. -/
theorem convert_preserves_obs (v : Variant) (t : Target) (l : Loc) (hinv : RefInv l) : Keeps l (reconfigure v t false l).1 := by
  refine ⟨?_, ?_, reconfigure_keeps_any v t false l hinv.2⟩
  all_goals
    unfold reconfigure
    cases hf : factory l t with
    | error e => rfl
    | ok f =>
      by_cases ha : f.any = true
      · simp only [ha, if_true]
        first
          | exact (applyFlags_tip v l f hinv (factory_reference_flag l t f hf)).1
          | exact (applyFlags_tip v l f hinv (factory_reference_flag l t f hf)).2
      · simp only [ha]; rfl

/-- **Any path through the layout graph.**  Starting from a location whose
clean tree (if it has one and it is clean) is the tree of its tip, after any
sequence of reconfigurations — each attempted whatever happened to the one
before — tip, history and format are unchanged; every tag keeps its definition
and every tag at the end was a tag of the location or of the branch at the bind
location; pending changes are never lost (a tree with pending changes is still
there, untouched); and whenever the location has a working tree at the start
and at the end, its content and pending-change state are the same. -/
theorem reconfigure_composes (v : Variant) (ts : List Target) (l : Loc) (hi : TreeInv l) (hr : RefInv l) :
    let l' := runAll v false ts l
    l'.tip = l.tip ∧ l'.hist = l.hist ∧ l'.format = l.format ∧
    TagsSub l.tags l'.tags ∧ TagsFrom l.tags l.refTags l'.tags ∧ TagsFrom l.tags l.refTags l'.refTags ∧
    (l.tree = true → l.dirty = true → l'.tree = true ∧ l'.treeCode = l.treeCode ∧ l'.dirty = true) ∧
    (l.tree = true → l'.tree = true → l'.treeCode = l.treeCode ∧ l'.dirty = l.dirty) ∧
    (l'.tree = true → l.tree = false → l'.dirty = false ∧ l'.treeCode = cleanCode l.tip) := by
  induction ts generalizing l with
  | nil =>
    show _ ∧ _
    simp only [runAll]
    refine ⟨trivial, trivial, trivial, tagsSub_refl _, fun _ _ h => Or.inl h, fun _ _ h => Or.inr h, ?_, ?_, ?_⟩ <;>
      intro a b <;> simp_all
  | cons t ts ih =>
    simp only [runAll]
    have hk := convert_preserves_obs v t l hr
    have hi' := keeps_treeInv l _ hk hi
    have hr' := keeps_refInv l _ hk hr
    have := ih (reconfigure v t false l).1 hi' hr'
    unfold TreeInv at hi hi'
    obtain ⟨k1, k2, _, k4, ⟨_, _, kt1, kt2, kt3, kt4, _⟩, k5, k6, k7⟩ := hk
    obtain ⟨a1, a2, a4, at1, at2, at3, a5, a6, a7⟩ := this
    generalize (reconfigure v t false l).1 = m at *
    generalize runAll v false ts m = r at *
    have hfrom : ∀ ts' : Tags, TagsFrom m.tags m.refTags ts' → TagsFrom l.tags l.refTags ts' := by
      intro ts' h n v hv
      rcases h n v hv with h | h
      · exact kt3 n v h
      · exact kt4 n v h
    refine ⟨by omega, by omega, by omega, tagsSub_trans kt1 at1, hfrom _ at2, hfrom _ at3, ?_, ?_, ?_⟩
    · intro ht hd
      cases hmt : m.tree
      · have := k6 ht hmt; simp_all
      · have := k5 ht hmt
        have := a5 hmt (by simp_all)
        simp_all
    · intro ht hrt
      cases hmt : m.tree
      · have hld := k6 ht hmt
        have ha7 := a7 hrt hmt
        have hcode := hi ht (by simpa using hld)
        simp_all
      · have := k5 ht hmt
        have := a6 hmt hrt
        simp_all
    · intro hrt hlt
      cases hmt : m.tree
      · have := a7 hrt hmt; simp_all
      · have := k7 hlt hmt
        have := a6 hmt hrt
        simp_all

/-- **Any path, forced or not**: tip and history at the end are those at the
start or those of the branch at the bind location (never anything else), the
format tag stays, every tag keeps its definition and none appears from nowhere. -/
theorem forced_path_tip (v : Variant) (force : Bool) (ts : List Target) (l : Loc) (hinv : NoConflict l.tags l.refTags) :
    let l' := runAll v force ts l
    TipKeeps l l' ∧ l'.format = l.format ∧ TagsSub l.tags l'.tags ∧ TagsFrom l.tags l.refTags l'.tags := by
  suffices h : TipKeeps l (runAll v force ts l) ∧ (runAll v force ts l).format = l.format ∧ RefKeeps l (runAll v force ts l) from
    ⟨h.1, h.2.1, h.2.2.2.2.1, h.2.2.2.2.2.2.1⟩
  induction ts generalizing l with
  | nil => exact ⟨Or.inl ⟨rfl, rfl⟩, rfl, refKeeps_refl l hinv⟩
  | cons t ts ih =>
    simp only [runAll]
    obtain ⟨k1, k2, ⟨r1, r2, r3, r4, r5, r6, r7⟩, _⟩ := reconfigure_keeps_any v t force l hinv
    obtain ⟨a1, a2, ⟨s1, s2, s3, s4, s5, s6, s7⟩⟩ := ih (reconfigure v t force l).1 r7
    generalize (reconfigure v t force l).1 = m at *
    generalize runAll v force ts m = r at *
    have hfrom : ∀ ts' : Tags, TagsFrom m.tags m.refTags ts' → TagsFrom l.tags l.refTags ts' := by
      intro ts' h n v hv
      rcases h n v hv with h | h
      · exact r5 n v h
      · exact r6 n v h
    refine ⟨?_, by omega, by omega, by omega, tagsSub_trans r3 s3, tagsSub_trans r4 s4, hfrom _ s5, hfrom _ s6, s7⟩
    unfold TipKeeps at *
    rcases a1 with ⟨a, b⟩ | ⟨a, b⟩
    · rcases k1 with ⟨c, d⟩ | ⟨c, d⟩
      · exact Or.inl ⟨a.trans c, b.trans d⟩
      · exact Or.inr ⟨a.trans c, b.trans d⟩
    · exact Or.inr ⟨a.trans r1, b.trans r2⟩

/-- a forced path from a location that is in sync with its bind location keeps tip and history -/
theorem forced_synced_preserves (v : Variant) (ts : List Target) (l : Loc) (hr : RefInv l) (hs : l.refTip = l.tip) :
    (runAll v true ts l).tip = l.tip ∧ (runAll v true ts l).hist = l.hist := by
  have h := (forced_path_tip v true ts l hr.2).1
  unfold TipKeeps at h
  rcases h with h | h
  · exact h
  · exact ⟨h.1.trans hs, h.2.trans (hr.1 hs)⟩

/-- **The layout asked for is the layout obtained**: a `to_X` that succeeds (forced or not) leaves layout X. -/
theorem reconfigure_ok_layout (v : Variant) (t : Target) (force : Bool) (l : Loc) (h : (reconfigure v t force l).2 = none) :
    layoutIs t (reconfigure v t force l).1 = true := layout_ok v t force l h

/-- `AlreadyBranch` / `AlreadyTree` / … is raised exactly when the location has the layout asked for -/
theorem already_iff_layout (v : Variant) (t : Target) (force : Bool) (l : Loc) :
    (reconfigure v t force l).2 = some .already ↔ layoutIs t l = true := layout_already v t force l

/-- an error other than NoBindLocation / NoSharedRepository leaves the location exactly as it was -/
theorem refusal_changes_nothing (v : Variant) (t : Target) (force : Bool) (l : Loc) (e : Err) (h : (reconfigure v t force l).2 = some e)
    (he : e = .already ∨ e = .notSupported ∨ e = .uncommittedChanges ∨ e = .unsyncedBranches) :
    (reconfigure v t force l).1 = l := refusal_same v t force l e h he

/-- why `_check` matters: with `force` a tree with pending changes is removed -/
theorem force_destroys_witness :
    let l : Loc := { tree := true, dirty := true, branch := .unbound, repo := .own, sharedAbove := false, bindKnown := false,
                     format := 0, tip := 1, hist := 1, tags := [], treeCode := 0, refTip := 1, refHist := 1, refTags := [] }
    (reconfigure ⟨false⟩ .branch true l).1.tree = false ∧ (reconfigure ⟨false⟩ .branch true l).2 = none ∧
    (reconfigure ⟨false⟩ .branch false l) = (l, some .uncommittedChanges) := by decide

/-- … and a branch is replaced by a reference to a branch with ANOTHER tip: the tip moves (refused when not forced) -/
theorem force_moves_tip_witness :
    let l : Loc := { tree := true, dirty := false, branch := .bound, repo := .shared, sharedAbove := true, bindKnown := true,
                     format := 0, tip := 1, hist := 1, tags := [(0, 1)], treeCode := 0, refTip := 2, refHist := 2, refTags := [(1, 1)] }
    (reconfigure ⟨false⟩ .lightweightCheckout true l).2 = none ∧ (reconfigure ⟨false⟩ .lightweightCheckout true l).1.tip = 2 ∧
    (reconfigure ⟨false⟩ .lightweightCheckout true l).1.tags = [(1, 1), (0, 1)] ∧
    (reconfigure ⟨false⟩ .lightweightCheckout false l) = (l, some .unsyncedBranches) := by decide

/-- two definitions of one tag: `merge_to` keeps the referenced branch's, the local definition is dropped silently
(this is what `NoConflict` excludes) -/
theorem tag_conflict_witness :
    let l : Loc := { tree := true, dirty := false, branch := .unbound, repo := .own, sharedAbove := false, bindKnown := true,
                     format := 0, tip := 1, hist := 1, tags := [(0, 1)], treeCode := 0, refTip := 1, refHist := 1, refTags := [(0, 2)] }
    (reconfigure ⟨false⟩ .lightweightCheckout false l).2 = none ∧ lookupTag l.tags 0 = some 1 ∧
    lookupTag (reconfigure ⟨false⟩ .lightweightCheckout false l).1.tags 0 = some 2 := by decide

/-- the variant of `_check` that compares the tag dictionaries refuses exactly that (nothing changes) -/
theorem tagcheck_refuses_conflict (l : Loc) (hc : hasConflict l.tags l.refTags = true) (hb : l.branch ≠ .reference) :
    (reconfigure ⟨true⟩ .lightweightCheckout false l).1 = l ∧ (reconfigure ⟨true⟩ .lightweightCheckout false l).2 ≠ none := by
  obtain ⟨tree, dirty, branch, repo, above, known, format, tip, hist, tags, treeCode, refTip, refHist, refTags⟩ := l
  simp only at hc hb
  cases branch <;> simp at hb <;>
    cases tree <;> cases dirty <;> cases repo <;> cases known <;> cases hs : (refTip == tip) <;>
      simp [reconfigure, factory, plan, Flags.any, applyFlags, Loc.synced, hc, hs]

/-- a failure in the middle of `apply` leaves the earlier steps done: a branch
without a remembered location asked to become a checkout gets its working tree
and then fails with NoBindLocation -/
theorem partial_apply_witness :
    let l : Loc := { tree := false, dirty := false, branch := .unbound, repo := .own, sharedAbove := false, bindKnown := false,
                     format := 0, tip := 1, hist := 1, tags := [], treeCode := 0, refTip := 1, refHist := 1, refTags := [] }
    (reconfigure ⟨false⟩ .checkout false l).2 = some .noBindLocation ∧ (reconfigure ⟨false⟩ .checkout false l).1.tree = true ∧
    (reconfigure ⟨false⟩ .checkout false l).1.branch = .unbound := by decide

/-! non-vacuity: a dirty bound checkout in a shared repository whose master has one more tag walks through five layouts
and keeps everything; the same with a CLEAN tree (`TreeInv` holds non-trivially: tree code = clean code of the tip) that
is destroyed and re-created on the way -/
def exDirty : Loc :=
  { tree := true, dirty := true, branch := .bound, repo := .shared, sharedAbove := true, bindKnown := true,
    format := 0, tip := 5, hist := 5, tags := [(0, 3)], treeCode := 0, refTip := 5, refHist := 5, refTags := [(0, 3), (1, 4)] }

def exClean : Loc := { exDirty with dirty := false, treeCode := cleanCode 5 }

example :
    TreeInv exDirty ∧ RefInv exDirty ∧
    (runAll ⟨false⟩ false [.lightweightCheckout, .tree, .standalone, .checkout, .useShared, .branch] exDirty).branch = .unbound ∧
    (runAll ⟨false⟩ false [.lightweightCheckout, .tree, .standalone, .checkout, .useShared, .branch] exDirty).tree = true ∧
    (runAll ⟨false⟩ false [.lightweightCheckout, .tree, .standalone, .checkout, .useShared, .branch] exDirty).tags = [(0, 3), (1, 4)] := by
  refine ⟨by intro _ h; simp [exDirty] at h, ⟨fun _ => rfl, ?_⟩, by decide, by decide, by decide⟩
  intro n v w h1 h2
  simp only [exDirty, lookupTag] at h1 h2
  split at h1 <;> simp_all

example :
    TreeInv exClean ∧ exClean.tree = true ∧ exClean.dirty = false ∧
    (runAll ⟨false⟩ false [.branch, .lightweightCheckout, .tree] exClean).tree = true ∧
    obs (runAll ⟨false⟩ false [.branch, .lightweightCheckout, .tree] exClean) = { obs exClean with tags := [(0, 3), (1, 4)] } := by
  refine ⟨fun _ _ => rfl, rfl, rfl, by decide, by decide⟩

example : (reconfigure ⟨false⟩ .tree false exDirty).2 = none ∧ layoutIs .tree exDirty = false := by decide

/-! ## format upgrade -/

/-- **Upgrade keeps what is observed**: whatever the component formats and the
target, after `upgrade` (complete, up to date, or stopped by
BadConversionTarget) the branch's `last_revision_info`, its tags, its
remembered locations, the working tree's parents (basis + pending merges) and
inventory and the repository's revisions are what they were. -/
theorem upgrade_preserves_obs (tg : UTarget) (u : ULoc) : uobs (upgrade tg u).1 = uobs u := upgrade_obs tg u

/-- **Upgrade reaches the target** in at most two passes of the converter, without
error, from every supported combination: branch formats 5–8 not newer than the
target's, working tree formats 3–6 with a dirstate target (4–6) not older than
the tree (or target 5 / 6 from any dirstate tree). -/
theorem upgrade_reaches_target (tg : UTarget) (u : ULoc) (h : Supported tg u) (hn : needsConversion tg u = true) :
    (upgrade tg u).2.2 = none ∧ needsConversion tg (upgrade tg u).1 = false ∧ (upgrade tg u).2.1.length ≤ 2 :=
  upgrade_reaches tg u h hn

/-- UpToDateFormat is raised exactly when no component needs converting (and nothing is touched) -/
theorem upgrade_uptodate_iff (tg : UTarget) (u : ULoc) :
    (upgrade tg u).2.2 = some .upToDate ↔ needsConversion tg u = false := upgrade_uptodate tg u

/-- the knit-era location (branch 5, tree 3) needs TWO passes: the tree object is not re-opened after `3to4` -/
theorem knit_two_pass_witness :
    let u : ULoc := { repo := some 1, revs := 9,
                      branch := some { fmt := 5, revHistory := [1, 2, 3], lastRev := (0, 0), parent := some 1, bound := none,
                                       push := none, tags := [] },
                      tree := some { fmt := 3, lastRevision := 3, pendingMerges := [8], dsParents := [], inv := 7 } }
    Supported ⟨2, 7, 6⟩ u ∧
    (upgrade ⟨2, 7, 6⟩ u).2.1 = [[.repoCopy, .b5to6, .b6to7, .t3to4], [.t4or5to6]] ∧
    ((upgrade ⟨2, 7, 6⟩ u).1.branch.map (·.info)) = some (3, 3) ∧
    ((upgrade ⟨2, 7, 6⟩ u).1.tree.map (·.parents)) = some [3, 8] := by
  refine ⟨by decide, by decide, by decide, by decide⟩

/-- a branch newer than the target's: BadConversionTarget, after the repository has already been converted -/
theorem branch_downgrade_witness :
    let u : ULoc := { repo := some 1, revs := 9,
                      branch := some { fmt := 8, revHistory := [], lastRev := (3, 3), parent := none, bound := none,
                                       push := none, tags := [(0, 1)] },
                      tree := none }
    (upgrade ⟨2, 7, 6⟩ u).2.2 = some .badConversionTarget ∧ (upgrade ⟨2, 7, 6⟩ u).1.repo = some 2 ∧
    uobs (upgrade ⟨2, 7, 6⟩ u).1 = uobs u := by decide

end BreezyVerif.C52
