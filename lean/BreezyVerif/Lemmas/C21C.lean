import BreezyVerif.Lemmas.C21B
/-! C21 — `_update_revisions` in terms of ancestry (the heads/relation detour removed). -/
namespace BreezyVerif.C21

/-- what `_update_revisions` does once the requested revision is known -/
def updateSpec (g : Graph) (src tgt : Br) (s : Tip) (rn : Option Nat) (ow : Bool) : Except Err Br :=
  if !tipPresent g s then .error .noSuchRevision
  else if !ow && isAnc g s tgt.tip then .ok tgt
  else if !ow && !isAnc g tgt.tip s then .error .diverged
  else match rn with
    | some n => setLast g tgt n s
    | none =>
      match distTip (seed tgt ++ seed src) g s with
      | none => .error .ghostRevno
      | some n => setLast g tgt n s

theorem update_eq_spec (g : Graph) (hwf : wf g = true) (src tgt : Br) (stop : Option Tip) (ow : Bool) :
    updateRevisions g src tgt stop ow =
      match requested src stop with
      | none => .ok tgt
      | some (s, rn) => updateSpec g src tgt s rn ow := by
  unfold updateRevisions
  cases hreq : requested src stop with
  | none => rfl
  | some p =>
    obtain ⟨s, rn⟩ := p
    simp only [updateSpec]
    cases hp : tipPresent g s
    · simp
    · simp only [Bool.not_true, Bool.false_eq_true, if_false]
      cases ow
      · simp only [Bool.not_false, if_true, Bool.true_and, check_cases g hwf s tgt.tip]
        cases h1 : isAnc g s tgt.tip
        · cases h2 : isAnc g tgt.tip s
          · simp
          · simp only [Bool.not_true, Bool.false_eq_true, if_false]
            cases rn
            · cases distTip (seed tgt ++ seed src) g s <;> rfl
            · rfl
        · simp
      · simp only [Bool.not_true, Bool.false_and, Bool.false_eq_true, if_false]
        cases rn
        · cases distTip (seed tgt ++ seed src) g s <;> rfl
        · rfl

end BreezyVerif.C21
