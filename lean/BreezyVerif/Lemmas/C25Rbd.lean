import BreezyVerif.Model.C25
/-!
C25 — lemmas about `reverse_by_depth` (`rbd`): total with the fuel given by
`rbdFuel`, a permutation, and it reverses the revisions of the current depth.
-/
namespace BreezyVerif.C25
open BreezyVerif.C22

/-- fuel needed at level `d` -/
def need (d : Nat) (l : List V) : Nat := (l.map fun v => v.depth - d + 1).sum

theorem need_nil (d : Nat) : need d [] = 0 := rfl

theorem need_cons (d : Nat) (v : V) (l : List V) : need d (v :: l) = (v.depth - d + 1) + need d l := by
  simp [need]

theorem need_sublist {d : Nat} : ∀ {l1 l2 : List V}, List.Sublist l1 l2 → need d l1 ≤ need d l2 := by
  intro l1 l2 h
  induction h with
  | slnil => exact Nat.le_refl _
  | cons a _ ih => rw [need_cons]; omega
  | cons_cons a _ ih => rw [need_cons, need_cons]; omega

theorem need_succ (d : Nat) : ∀ (t : List V), (∀ v ∈ t, d + 1 ≤ v.depth) →
    need d t = need (d + 1) t + t.length
  | [], _ => rfl
  | v :: t, h => by
    rw [need_cons, need_cons, need_succ d t (fun x hx => h x (List.mem_cons_of_mem _ hx))]
    have := h v (List.mem_cons_self ..)
    simp only [List.length_cons]
    omega

theorem chunk_cons (d : Nat) (v : V) (l : List V) :
    chunk d (v :: l) = if v.depth == d then ([], (v, (chunk d l).1) :: (chunk d l).2)
      else (v :: (chunk d l).1, (chunk d l).2) := rfl

/-- what `chunk` computes -/
theorem chunk_spec (d : Nat) : ∀ (l : List V),
    l = (chunk d l).1 ++ ((chunk d l).2.map fun c => c.1 :: c.2).flatten ∧
    (∀ v ∈ (chunk d l).1, v.depth ≠ d) ∧ List.Sublist (chunk d l).1 l ∧
    (∀ c ∈ (chunk d l).2, c.1.depth = d ∧ (∀ v ∈ c.2, v.depth ≠ d) ∧ List.Sublist c.2 l)
  | [] => ⟨rfl, (fun _ h => by cases h), List.Sublist.slnil, (fun _ h => by cases h)⟩
  | v :: l => by
    obtain ⟨h1, h2, h3, h4⟩ := chunk_spec d l
    rw [chunk_cons]
    by_cases hv : (v.depth == d) = true
    · simp only [hv, if_true]
      refine ⟨?_, (fun _ h => by cases h), List.nil_sublist _, ?_⟩
      · simp only [List.nil_append, List.map_cons, List.flatten_cons, List.cons_append]
        rw [← h1]
      · intro c hc
        rcases List.mem_cons.mp hc with rfl | hc
        · exact ⟨by simpa using hv, h2, h3.cons _⟩
        · obtain ⟨a, b, c'⟩ := h4 c hc
          exact ⟨a, b, c'.cons _⟩
    · simp only [hv, Bool.false_eq_true, if_false]
      refine ⟨?_, ?_, h3.cons_cons _, ?_⟩
      · simp only [List.cons_append]
        rw [← h1]
      · intro x hx
        rcases List.mem_cons.mp hx with rfl | hx
        · simpa using hv
        · exact h2 x hx
      · intro c hc
        obtain ⟨a, b, c'⟩ := h4 c hc
        exact ⟨a, b, c'.cons _⟩

/-- pointwise relation between two lists of the same length -/
def Rel2 {α β : Type} (P : α → β → Prop) : List α → List β → Prop
  | [], [] => True
  | a :: l, b :: bs => P a b ∧ Rel2 P l bs
  | _, _ => False

theorem mapM_rel {α β : Type} (f : α → Option β) (P : α → β → Prop) : ∀ (l : List α),
    (∀ a ∈ l, ∃ b, f a = some b ∧ P a b) → ∃ bs, l.mapM f = some bs ∧ Rel2 P l bs
  | [], _ => ⟨[], rfl, trivial⟩
  | a :: l, h => by
    obtain ⟨b, hb, hp⟩ := h a (List.mem_cons_self ..)
    obtain ⟨bs, hbs, hr⟩ := mapM_rel f P l (fun x hx => h x (List.mem_cons_of_mem _ hx))
    exact ⟨b :: bs, by simp [List.mapM_cons, hb, hbs], hp, hr⟩

theorem mapM_rel_of_some {α β : Type} (f : α → Option β) (P : α → β → Prop) : ∀ (l : List α) (bs : List β),
    l.mapM f = some bs → (∀ a ∈ l, ∀ b, f a = some b → P a b) → Rel2 P l bs
  | [], bs, h, _ => by
    simp at h; subst h; trivial
  | a :: l, bs, h, hp => by
    simp only [List.mapM_cons, Option.bind_eq_bind] at h
    cases hfa : f a with
    | none => simp [hfa] at h
    | some b =>
      cases hl : l.mapM f with
      | none => simp [hfa, hl] at h
      | some bs' =>
        simp [hfa, hl] at h
        subst h
        exact ⟨hp a (List.mem_cons_self ..) b hfa,
          mapM_rel_of_some f P l bs' hl (fun x hx => hp x (List.mem_cons_of_mem _ hx))⟩

/-- the relation between a chunk and its locally reversed version -/
def ChunkRel (c : V × List V) (r : List V) : Prop := ∃ t', r = c.1 :: t' ∧ t'.Perm c.2

theorem rel_flatten_perm : ∀ (cs : List (V × List V)) (cs' : List (List V)), Rel2 ChunkRel cs cs' →
    cs'.flatten.Perm (cs.map fun c => c.1 :: c.2).flatten
  | [], [], _ => List.Perm.refl _
  | [], _ :: _, h => h.elim
  | _ :: _, [], h => h.elim
  | c :: cs, r :: cs', h => by
    obtain ⟨⟨t', hr, hp⟩, hrest⟩ := h
    simp only [List.flatten_cons, List.map_cons]
    subst hr
    exact List.Perm.append (List.Perm.cons _ hp) (rel_flatten_perm cs cs' hrest)

theorem reverse_flatten_perm {α : Type} : ∀ (L : List (List α)), L.reverse.flatten.Perm L.flatten
  | [] => List.Perm.refl _
  | a :: L => by
    simp only [List.reverse_cons, List.flatten_append, List.flatten_cons, List.flatten_nil, List.append_nil]
    exact (List.perm_append_comm).trans (List.Perm.append_left a (reverse_flatten_perm L))

theorem filter_nil_of_perm {p : V → Bool} {a b : List V} (h : a.Perm b) (hb : ∀ v ∈ b, p v = false) :
    a.filter p = [] := by
  rw [List.filter_eq_nil_iff]
  intro v hv
  rw [hb v (h.mem_iff.mp hv)]
  exact Bool.false_ne_true

theorem rel_filter (d : Nat) : ∀ (cs : List (V × List V)) (cs' : List (List V)), Rel2 ChunkRel cs cs' →
    (∀ c ∈ cs, c.1.depth = d ∧ ∀ v ∈ c.2, v.depth ≠ d) →
    cs'.map (fun r => r.filter fun v => v.depth == d) = cs.map fun c => [c.1]
  | [], [], _, _ => rfl
  | [], _ :: _, h, _ => h.elim
  | _ :: _, [], h, _ => h.elim
  | c :: cs, r :: cs', h, hd => by
    obtain ⟨⟨t', hr, hp⟩, hrest⟩ := h
    have hc := hd c (List.mem_cons_self ..)
    subst hr
    simp only [List.map_cons]
    rw [rel_filter d cs cs' hrest (fun x hx => hd x (List.mem_cons_of_mem _ hx))]
    have ht : t'.filter (fun v => v.depth == d) = [] :=
      filter_nil_of_perm hp (fun v hv => by simpa using hc.2 v hv)
    have h1 : (c.1.depth == d) = true := by simpa using hc.1
    rw [List.filter_cons, h1, if_pos rfl, ht]

theorem flatten_map_singleton {α β : Type} (f : α → β) : ∀ (l : List α), (l.map fun a => [f a]).flatten = l.map f
  | [] => rfl
  | a :: l => by simp [flatten_map_singleton f l]

theorem filter_flatten' {α : Type} (p : α → Bool) : ∀ (L : List (List α)),
    L.flatten.filter p = (L.map (List.filter p)).flatten
  | [] => rfl
  | a :: L => by simp [List.filter_append, filter_flatten' p L]

theorem rbd_succ (fuel d : Nat) (l : List V) :
    rbd (fuel + 1) d l =
      match (if (chunk d l).1.isEmpty then some [] else rbd fuel (d + 1) (chunk d l).1),
        (chunk d l).2.mapM (fun c => (if c.2.isEmpty then some [] else rbd fuel (d + 1) c.2).map (c.1 :: ·)) with
      | some pre', some cs' => some (cs'.reverse.flatten ++ pre')
      | _, _ => none := rfl

/-- the statement proved about `rbd` -/
def RbdOk (d : Nat) (l r : List V) : Prop :=
  r.Perm l ∧ r.filter (fun v => v.depth == d) = (l.filter fun v => v.depth == d).reverse

/-- **core lemma**: with enough fuel `rbd` succeeds, permutes, and reverses the current depth -/
theorem rbd_core : ∀ (fuel d : Nat) (l : List V), (∀ v ∈ l, d ≤ v.depth) → need d l < fuel →
    ∃ r, rbd fuel d l = some r ∧ RbdOk d l r := by
  intro fuel
  induction fuel with
  | zero => intro d l _ h; omega
  | succ fuel ih =>
    intro d l hd hfuel
    obtain ⟨heq, hpre, hpresub, hcs⟩ := chunk_spec d l
    -- a deeper sub-list (not containing depth d) can be reversed by the induction hypothesis
    have sub : ∀ t : List V, List.Sublist t l → (∀ v ∈ t, v.depth ≠ d) →
        ∃ t', (if t.isEmpty then some [] else rbd fuel (d + 1) t) = some t' ∧ t'.Perm t := by
      intro t hsub hne
      cases t with
      | nil => exact ⟨[], by simp, List.Perm.refl _⟩
      | cons x t =>
        have hd1 : ∀ v ∈ x :: t, d + 1 ≤ v.depth := by
          intro v hv
          have h1 := hd v (hsub.subset hv)
          have h2 := hne v hv
          omega
        have hn : need (d + 1) (x :: t) < fuel := by
          have h1 := need_succ d (x :: t) hd1
          have h2 := need_sublist (d := d) hsub
          simp only [List.length_cons] at h1
          omega
        obtain ⟨r, hr, hok⟩ := ih (d + 1) (x :: t) hd1 hn
        exact ⟨r, by simp [hr], hok.1⟩
    obtain ⟨pre', hpre', hpperm⟩ := sub (chunk d l).1 hpresub hpre
    obtain ⟨cs', hcs', hrel⟩ := mapM_rel
      (fun c : V × List V => (if c.2.isEmpty then some [] else rbd fuel (d + 1) c.2).map (c.1 :: ·)) ChunkRel
      (chunk d l).2 (by
        intro c hc
        obtain ⟨_, hne, hsub⟩ := hcs c hc
        obtain ⟨t', ht', hp⟩ := sub c.2 hsub hne
        exact ⟨c.1 :: t', by simp only [ht', Option.map_some], t', rfl, hp⟩)
    refine ⟨cs'.reverse.flatten ++ pre', ?_, ?_, ?_⟩
    · rw [rbd_succ, hpre', hcs']
    · -- permutation
      have h1 : (cs'.reverse.flatten ++ pre').Perm (pre' ++ cs'.flatten) :=
        (List.perm_append_comm).trans (List.Perm.append_left _ (reverse_flatten_perm cs'))
      have h2 : (pre' ++ cs'.flatten).Perm
          ((chunk d l).1 ++ ((chunk d l).2.map fun c => c.1 :: c.2).flatten) :=
        List.Perm.append hpperm (rel_flatten_perm _ _ hrel)
      rw [← heq] at h2
      exact h1.trans h2
    · -- the revisions of depth d are reversed
      have hfp : pre'.filter (fun v => v.depth == d) = [] :=
        filter_nil_of_perm hpperm (fun v hv => by simpa using hpre v hv)
      have hfpre : (chunk d l).1.filter (fun v => v.depth == d) = [] := by
        rw [List.filter_eq_nil_iff]; intro v hv; simpa using hpre v hv
      have hmap := rel_filter d _ _ hrel (fun c hc => ⟨(hcs c hc).1, (hcs c hc).2.1⟩)
      have lhs : (cs'.reverse.flatten ++ pre').filter (fun v => v.depth == d)
          = ((chunk d l).2.map fun c => c.1).reverse := by
        rw [List.filter_append, hfp, List.append_nil, filter_flatten', List.map_reverse, hmap,
          ← List.map_reverse, flatten_map_singleton, List.map_reverse]
      have rhs : l.filter (fun v => v.depth == d) = (chunk d l).2.map fun c => c.1 := by
        conv => lhs; rw [heq]
        rw [List.filter_append, hfpre, List.nil_append, filter_flatten', List.map_map]
        have : (chunk d l).2.map (List.filter (fun v => v.depth == d) ∘ fun c => c.1 :: c.2)
            = (chunk d l).2.map fun c => [c.1] := by
          apply List.map_congr_left
          intro c hc
          obtain ⟨h1, h2, _⟩ := hcs c hc
          have h1' : (c.1.depth == d) = true := by simpa using h1
          have h2' : c.2.filter (fun v => v.depth == d) = [] := by
            rw [List.filter_eq_nil_iff]; intro v hv; simpa using h2 v hv
          simp only [Function.comp, List.filter_cons, h1', if_true, h2']
        rw [this, flatten_map_singleton]
      rw [lhs, rhs]

/-- if `rbd` succeeds (any fuel) the result has the two properties -/
theorem rbd_ok_of_some : ∀ (fuel d : Nat) (l r : List V), (∀ v ∈ l, d ≤ v.depth) →
    rbd fuel d l = some r → need d l < fuel → RbdOk d l r := by
  intro fuel d l r hd h hf
  obtain ⟨r', hr', hok⟩ := rbd_core fuel d l hd hf
  rw [h] at hr'; cases hr'
  exact hok

theorem need_zero_lt_fuel (l : List V) : need 0 l < rbdFuel l := by
  unfold need rbdFuel
  simp

end BreezyVerif.C25
