import BreezyVerif.Common
/-
C33 — search recipes.  Executable model of

* the breadth-first searcher with stop set used on both sides
  (`vcsgraph._BreadthFirstSearcher` driven by `next()` /
  `stop_searching_any(stop ∩ next_revs)` / `get_state()`), `bfs`;
* the client recipe construction `breezy/bzr/vf_search.py`:
  `search_result_from_parent_map`, `_find_possible_heads`, `_run_search`,
  `limited_search_result_from_parent_map`;
* the wire form `RemoteRepository._serialise_search_recipe` and its parser in
  `SmartServerRepositoryRequest.recreate_search_from_recipe`;
* the server replay + count check of `recreate_search_from_recipe`.

Keys are naturals (`null` = 0 stands for `b"null:"`); a parent map is an
association list (a Python dict: the harness always sends distinct keys; lookup
is first-match).  A key without entry is a ghost of that map.
Sets are lists; the driver prints them sorted.  Core Lean only.
-/
namespace BreezyVerif.C33

abbrev Key := Nat
abbrev PMap := List (Key × List Key)

/-- `revision.NULL_REVISION` -/
def null : Key := 0

/-- `parent_map.get(k)`; `none` = ghost / not cached -/
def parentsOf : PMap → Key → Option (List Key)
  | [], _ => none
  | (k', ps) :: rest, k => if k' = k then some ps else parentsOf rest k

/-- parents contributed to the next query: a ghost contributes nothing
(`for rev_id, parents in parent_map.items()` only sees found keys) -/
def parentsL (g : PMap) (k : Key) : List Key :=
  match parentsOf g k with
  | some ps => ps
  | none => []

def present (g : PMap) (k : Key) : Bool := (parentsOf g k).isSome

def keysOf (g : PMap) : List Key := g.map (·.1)
def refsOf (g : PMap) : List Key := g.flatMap (·.2)

/-- set-ification of a list (order of first... last occurrence kept) -/
def dedup : List Key → List Key
  | [] => []
  | x :: xs => if x ∈ xs then dedup xs else x :: dedup xs

/-- state of a `_BreadthFirstSearcher` between two `next()` calls -/
structure Search where
  /-- `searcher.seen` -/
  seen : List Key
  /-- `searcher._stopped_keys` -/
  stopped : List Key
  /-- keys whose parents were looked up and found (the keys of all
  `_current_parents` dicts so far) -/
  queried : List Key
  deriving Repr

/-- One `next()` + `stop_searching_any(stop ∩ next_revs)` + the `_advance()` of
the following `next()`.  `query` is the `_next_query` that `next()` returns;
result: the new state and the new `_next_query`. -/
def advance (g : PMap) (stop : List Key) (s : Search) (query : List Key) : Search × List Key :=
  -- next(): seen.update(_next_query); returns it
  let seen' := s.seen ++ query
  -- stop_searching_any(stop ∩ next_revs): removed from the query, recorded as stopped
  let hit := query.filter (· ∈ stop)
  let q' := query.filter (· ∉ stop)
  -- _advance(): query the parents provider; ghosts are implicit stop points
  let found := q'.filter (present g)
  let ghosts := q'.filter (fun k => !present g k)
  let next := dedup ((found.flatMap (parentsL g)).filter (· ∉ seen'))
  (⟨seen', s.stopped ++ hit ++ ghosts, s.queried ++ found⟩, next)

/-- the `while True: next(search) … stop_searching_any(…)` loop.  `none` = fuel
exhausted (never happens with the fuel of `bfs`, theorem `bfs_total`). -/
def bfsLoop (g : PMap) (stop : List Key) : Nat → Search → List Key → Option Search
  | 0, _, _ => none
  | fuel + 1, s, query =>
    if query.isEmpty then some s   -- StopIteration
    else bfsLoop g stop fuel (advance g stop s query).1 (advance g stop s query).2

/-- every key the walk can ever meet -/
def allKeys (g : PMap) (start : List Key) : List Key := start ++ refsOf g

/-- run the searcher to exhaustion from `start`, stopping at `stop` -/
def bfs (g : PMap) (start stop : List Key) : Option Search :=
  bfsLoop g stop ((allKeys g start).length + 1) ⟨[], [], []⟩ (dedup start)

/-- `get_state()[2]`: `seen - excludes` (after exhaustion `excludes = _stopped_keys`) -/
def Search.included (s : Search) : List Key := s.seen.filter (· ∉ s.stopped)

/-! ### client: `search_result_from_parent_map` -/

structure Recipe where
  start : List Key
  stop : List Key
  count : Nat
  deriving Repr, DecidableEq

def searchResultFromParentMap (pm : PMap) (missing : List Key) : Recipe :=
  if pm.isEmpty then ⟨[], [], 0⟩
  else
    let keys := keysOf pm
    let refs := refsOf pm
    let stop := (dedup refs).filter (fun r => r ∉ keys ∧ r ∉ missing)
    let count := pm.length + (if null ∈ refs ∧ null ∈ missing then 1 else 0)
    ⟨keys.filter (· ∉ refs), stop, count⟩

/-! ### client: `limited_search_result_from_parent_map` -/

/-- `invert_parent_map(pm).get(p)`; `[]` = `KeyError` -/
def childrenOf (pm : PMap) (p : Key) : List Key :=
  (pm.filter (fun kv => p ∈ kv.2)).map (·.1)

/-- the `while current_roots and depth > 0` loop of `_find_possible_heads`;
returns the heads -/
def headsLoop (pm : PMap) : Nat → List Key → List Key → List Key → List Key
  | 0, heads, roots, _ => heads ++ roots
  | depth + 1, heads, roots, walked =>
    if roots.isEmpty then heads
    else
      let heads' := heads ++ roots.filter (fun p => (childrenOf pm p).isEmpty)
      let children := dedup ((roots.flatMap (childrenOf pm)).filter (· ∉ walked))
      headsLoop pm depth heads' children (walked ++ children)

def findPossibleHeads (pm : PMap) (tips : List Key) (depth : Nat) : List Key :=
  dedup (headsLoop pm depth [] (dedup tips) (dedup tips))

/-- `_run_search(parent_map, heads, exclude_keys)`: the searcher state and
`found_heads` (heads that are parents of a looked-up key) -/
def runSearch (pm : PMap) (heads excl : List Key) : Option (Search × List Key) :=
  match bfs pm heads excl with
  | none => none
  | some s => some (s, heads.filter (fun h => h ∈ s.queried.flatMap (parentsL pm)))

structure Limited where
  recipe : Recipe
  /-- the keys of the client's own walk (`s.get_state()[2]`): what the client
  intends the server to regard as already seen -/
  keys : List Key
  deriving Repr, DecidableEq

def limitedSearchResult (pm : PMap) (tips : List Key) (depth : Nat) : Option Limited :=
  if pm.isEmpty then some ⟨⟨[], [], 0⟩, []⟩
  else
    let heads := findPossibleHeads pm tips depth
    match runSearch pm heads tips with
    | none => none
    | some (s, foundHeads) =>
      some ⟨⟨heads.filter (· ∉ foundHeads), dedup s.stopped, s.included.length⟩, s.included⟩

/-! ### server: `recreate_search_from_recipe` (graph part) -/

inductive Reply where
  | ok (started excludes included : List Key)
  | noSuchRevision
  deriving Repr, DecidableEq

/-- replay the recipe against the repository graph `g` and check the count -/
def recreate (g : PMap) (r : Recipe) (discardExcess : Bool := false) : Option Reply :=
  match bfs g r.start r.stop with
  | none => none
  | some s =>
    if !discardExcess && s.included.length != r.count then some .noSuchRevision
    else some (.ok (dedup r.start) (dedup s.stopped) s.included)

/-! ### wire form -/

/-- `sep.join(parts)` -/
def join (sep : UInt8) : List Bytes → Bytes
  | [] => []
  | [x] => x
  | x :: y :: rest => x ++ sep :: join sep (y :: rest)

/-- first field and remaining fields of `b.split(sep)` -/
def splitAux (sep : UInt8) : Bytes → Bytes × List Bytes
  | [] => ([], [])
  | c :: cs =>
    let r := splitAux sep cs
    if c = sep then ([], r.1 :: r.2) else (c :: r.1, r.2)

/-- `b.split(sep)` (never empty: `b"".split(b" ") == [b""]`) -/
def split (sep : UInt8) (b : Bytes) : List Bytes :=
  let r := splitAux sep b
  r.1 :: r.2

def digit (n : Nat) : UInt8 := UInt8.ofNat (48 + n)

def toDecAux : Nat → Nat → Bytes → Bytes
  | 0, _, acc => acc
  | fuel + 1, n, acc =>
    if n < 10 then digit n :: acc else toDecAux fuel (n / 10) (digit (n % 10) :: acc)

/-- `str(n).encode("ascii")` -/
def toDec (n : Nat) : Bytes := toDecAux (n + 1) n []

def parseDecStep (acc : Option Nat) (c : UInt8) : Option Nat :=
  match acc with
  | none => none
  | some a => if 48 ≤ c.toNat ∧ c.toNat ≤ 57 then some (a * 10 + (c.toNat - 48)) else none

/-- `int(b.decode("ascii"))` restricted to plain decimal digits (sign,
surrounding blanks and `_` separators that Python also accepts are not modelled:
`none` = rejected here) -/
def parseDec (b : Bytes) : Option Nat :=
  if b.isEmpty then none else b.foldl parseDecStep (some 0)

def SP : UInt8 := 32
def NL : UInt8 := 10

structure WireRecipe where
  start : List Bytes
  stop : List Bytes
  count : Nat
  deriving Repr, DecidableEq

/-- `_serialise_search_recipe(recipe)` -/
def serialise (r : WireRecipe) : Bytes :=
  join NL [join SP r.start, join SP r.stop, toDec r.count]

/-- the parsing prologue of `recreate_search_from_recipe(repository, body.split(b"\n"))`:
`none` = `IndexError`/`ValueError` -/
def parseRecipe (body : Bytes) : Option WireRecipe :=
  match split NL body with
  | l0 :: l1 :: l2 :: _ =>
    match parseDec l2 with
    | some n => some ⟨split SP l0, split SP l1, n⟩
    | none => none
  | _ => none

end BreezyVerif.C33
