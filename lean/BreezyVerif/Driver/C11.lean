import BreezyVerif.Common
import BreezyVerif.Model.C11
/-
C11 driver.

  add <fmt B|G|H|Gs|Hs> <recurse T|F> <names> <skip> <layout>
     fmt: H = git tree whose smart_add refuses control files; suffix s = git smart_add calls action.skip_file
     names  = tree-relative paths joined by `,` (`.` = the tree root)
     skip   = the paths for which the action's skip_file answers True, joined by `,` (`-` = none)
     layout = as in the C46 driver: entries joined by `;` (parents first, `-` = empty),
              entry = `<path>|<kind f|d|D|l>|<flags versioned ignored valid helper>`
     reply  = `ok <newly versioned paths, sorted, joined by ;>` (`-` = none) | `E:<error>`
-/
namespace BreezyVerif.C11
open BreezyVerif.C46

def parsePath (s : String) : Option Path :=
  if s == "." then some [] else (s.splitOn "/").mapM fun c => if c.isEmpty then none else some c

def parseKind (s : String) : Option Kind :=
  if s == "f" then some .file else if s == "d" then some .dir
  else if s == "D" then some .linkDir else if s == "l" then some .linkFile else none

def parseBools (s : String) : Option (List Bool) :=
  s.toList.mapM fun c => if c == 'T' then some true else if c == 'F' then some false else none

def parseEntry (s : String) : Option (Path × Info) :=
  match s.splitOn "|" with
  | [p, k, fl] =>
    match parsePath p, parseKind k, parseBools fl with
    | some p, some k, some [v, ig, va, h] =>
      match p.getLast? with
      | some n => some (p, { name := n, kind := k, versioned := v, ignored := ig, valid := va, helper := h })
      | none => none
    | _, _, _ => none
  | _ => none

def parseLayout (s : String) : Option Forest :=
  if s == "-" then some .nil else
  (s.splitOn ";").foldlM (fun f e => do
    let (p, i) ← parseEntry e
    insert f p i) .nil

def showPaths (ps : List Path) : String :=
  let l := (ps.map joinPath).mergeSort (fun a b => decide (a ≤ b))
  if l.isEmpty then "-" else ";".intercalate l

def parseFmt (s : String) : Option (Fmt × Bool × Bool) :=
  if s == "B" then some (.bzr, false, false) else if s == "G" then some (.git, false, false)
  else if s == "H" then some (.git, true, false) else if s == "Gs" then some (.git, false, true)
  else if s == "Hs" then some (.git, true, true) else none

def Err.toString : Err → String
  | .forbiddenControlFile => "E:ForbiddenControlFile"
  | .noSuchFile => "E:NoSuchFile"

def handle : List String → String
  | ["add", fmt, rec, names, skip, layout] =>
    match parseFmt fmt, parseBool rec, (names.splitOn ",").mapM parsePath,
        (if skip == "-" then some [] else (skip.splitOn ",").mapM parsePath), parseLayout layout with
    | some (fmt, refuse, gskips), some rec, some names, some skip, some f =>
      match smartAdd { fmt := fmt, names := names, recurse := rec, gitRefusesCtl := refuse, skip := skip,
                       gitSkips := gskips } f with
      | .error e => e.toString
      | .ok f' =>
        let before := versionedPaths f
        "ok " ++ showPaths ((versionedPaths f').filter fun p => !before.contains p)
    | _, _, _, _, _ => "bad-op"
  | _ => "bad-op"

end BreezyVerif.C11

def main : IO Unit := BreezyVerif.runDriver BreezyVerif.C11.handle
