#!/venv/bin/python
"""C40 finding `directive-without-testament-sha1-does-not-parse`.

BaseMergeDirective._to_lines() leaves the `testament_sha1` tag out when the field is None,
but MergeDirective2._from_lines() only passes `testament_sha1` to the constructor when the tag
is present - and the constructor requires the keyword: a directive that serialises cannot be
parsed back (TypeError).

Run:  PYTHONPATH=<tree> /venv/bin/python repro_directive_without_testament_sha1.py     (default tree: /repo)
exit 1 = defect present, 0 = absent.
"""
import sys
import breezy
import breezy.bzr  # noqa: F401
from breezy import merge_directive as md

d = md.MergeDirective2(revision_id=b"rev-1", testament_sha1=None, time=1500000000, timezone=0,
                       target_branch="http://example.com/target", source_branch="http://example.com/source",
                       base_revision_id=b"rev-0")
lines = d.to_lines()
print(b"".join(lines).decode())
try:
    d2 = md.MergeDirective.from_lines(lines)
except TypeError as e:
    print("DEFECT: from_lines(to_lines(d)) raises TypeError: %s" % e)
    sys.exit(1)
assert d2.testament_sha1 is None and d2.revision_id == b"rev-1"
print("ok: parsed back, testament_sha1 =", d2.testament_sha1)
