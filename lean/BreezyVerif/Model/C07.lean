/-!
C07 — executable model of the autopack planner
(`breezy/bzr/pack_repo.py`: `RepositoryPackCollection._max_pack_count`,
`pack_distribution`, `plan_autopack_combinations`, the trigger in
`_do_autopack`).  Core Lean only.

The Python code is pure integer / list code and is transcribed literally:

* `str(total)` digit loops become a fuelled division by ten (fuel = `total`,
  shown sufficient by `distribution_sum` / `distribution_length`);
* the `while len(existing_packs)` loop is structural recursion over the sorted
  pack list, the mutable `pack_distribution` list and `pack_operations[-1]`
  are threaded as arguments;
* the inner `while next_pack_rev_count > 0` loop is structural recursion over
  the distribution (every iteration deletes a bucket or stops);
* `pack_distribution[0]` on an empty list is the explicit `Err.index`
  (`IndexError`), the final `len(final_pack_list) == 1` check is
  `Err.assertion` (`AssertionError`).
-/
namespace BreezyVerif.C07

/-- a pack as the planner sees it: `(revision_count, pack)`; the pack object is
an opaque sortable identity (a natural number here) -/
abbrev Pack := Nat × Nat

/-- one entry of `pack_operations`: `[revision_count, packs_to_combine]` -/
abbrev Op := Nat × List Pack

inductive Err where
  | index      -- IndexError: pack_distribution[0] on an exhausted distribution
  | assertion  -- AssertionError: a "combination" of exactly one pack
  deriving DecidableEq, Repr

instance {α : Type} [DecidableEq α] : DecidableEq (Except Err α) := fun a b =>
  match a, b with
  | Except.ok x, Except.ok y =>
    if h : x = y then isTrue (by rw [h]) else isFalse (by intro e; injection e; contradiction)
  | Except.error x, Except.error y =>
    if h : x = y then isTrue (by rw [h]) else isFalse (by intro e; injection e; contradiction)
  | Except.ok _, Except.error _ => isFalse (by intro e; cases e)
  | Except.error _, Except.ok _ => isFalse (by intro e; cases e)

/-- sum of the decimal digits of `t`, at most `fuel` digits -/
def digitSumAux : Nat → Nat → Nat
  | 0, _ => 0
  | fuel + 1, t => if t = 0 then 0 else t % 10 + digitSumAux fuel (t / 10)

/-- `_max_pack_count`: `1` for an empty repository, else the digit sum -/
def maxPackCount (total : Nat) : Nat :=
  if total = 0 then 1 else digitSumAux total total

/-- the list `pack_distribution` builds before its final `reversed`: for every
digit (least significant first) `digit` copies of `10**exponent` -/
def distAux : Nat → Nat → Nat → List Nat
  | 0, _, _ => []
  | fuel + 1, t, size =>
    if t = 0 then [] else List.replicate (t % 10) size ++ distAux fuel (t / 10) (size * 10)

/-- `pack_distribution` -/
def packDistribution (total : Nat) : List Nat :=
  if total = 0 then [0] else (distAux total total 1).reverse

/-- revision counts of a pack list -/
def counts (ps : List Pack) : List Nat := ps.map (·.1)

/-- total revision count of a pack list -/
def cnt (ps : List Pack) : Nat := (counts ps).sum

/-- tuple order used by `existing_packs.sort(reverse=True)`: `a ≥ b`
lexicographically on `(count, pack)` -/
def geLex (a b : Pack) : Bool := b.1 < a.1 || (b.1 == a.1 && b.2 ≤ a.2)

/-- insert into a descending list, before the first element that is not larger -/
def insertDesc (x : Pack) : List Pack → List Pack
  | [] => [x]
  | y :: ys => if geLex x y then x :: y :: ys else y :: insertDesc x ys

/-- `existing_packs.sort(reverse=True)` as a stable insertion sort (equal
tuples keep their order, like Python's sort) -/
def sortDesc (ps : List Pack) : List Pack := ps.foldr insertDesc []

/-- the inner loop of the "already packed better" branch:
```
while next_pack_rev_count > 0:
    next_pack_rev_count -= pack_distribution[0]
    if next_pack_rev_count >= 0: del pack_distribution[0]
    else: pack_distribution[0] = -next_pack_rev_count
```
returns the new distribution -/
def consume : Nat → List Nat → Except Err (List Nat)
  | 0, ds => .ok ds
  | _ + 1, [] => .error .index
  | c + 1, d :: ds => if d ≤ c + 1 then consume (c + 1 - d) ds else .ok ((d - (c + 1)) :: ds)

/-- the main `while len(existing_packs)` loop.  `cur` is `pack_operations[-1]`,
`done` the closed entries before it; the result is `pack_operations`. -/
def loop : List Pack → List Nat → Op → List Op → Except Err (List Op)
  | [], _, cur, done => .ok (done ++ [cur])
  | _ :: _, [], _, _ => .error .index
  | p :: rest, d :: ds, cur, done =>
    if d ≤ p.1 then
      match consume p.1 (d :: ds) with
      | .error e => .error e
      | .ok dist' => loop rest dist' cur done
    else
      if d ≤ cur.1 + p.1 then loop rest ds (0, []) (done ++ [(cur.1 + p.1, cur.2 ++ [p])])
      else loop rest (d :: ds) (cur.1 + p.1, cur.2 ++ [p]) done

/-- `final_rev_count` -/
def opsCount (ops : List Op) : Nat := (ops.map (·.1)).sum

/-- `final_pack_list` -/
def opsPacks (ops : List Op) : List Pack := ops.flatMap (·.2)

/-- `plan_autopack_combinations(existing_packs, pack_distribution)` -/
def plan (packs : List Pack) (dist : List Nat) : Except Err (List Op) :=
  if packs.length ≤ dist.length then .ok []
  else
    match loop (sortDesc packs) dist (0, []) [] with
    | .error e => .error e
    | .ok ops =>
      if (opsPacks ops).length = 1 then .error .assertion
      else .ok [(opsCount ops, opsPacks ops)]

/-- the planning part of `_do_autopack`: `total` is
`revision_index.combined_index.key_count()`, `packs` are all packs of the
collection (`len(self._names)` of them, zero-revision packs included).
`none` = "return None" (no autopack needed). -/
def doAutopack (total : Nat) (packs : List Pack) : Except Err (Option (List Op)) :=
  if packs.length ≤ maxPackCount total then .ok none
  else
    match plan (packs.filter (fun p => p.1 != 0)) (packDistribution total) with
    | .error e => .error e
    | .ok ops => .ok (some ops)

/-- number of packs after `_execute_pack_operations` carried out `ops` on a
collection of `n` packs: each non-empty combination replaces its packs by one -/
def packsAfter (n : Nat) (ops : List Op) : Nat :=
  n - (ops.map (·.2.length)).sum + (ops.filter (fun o => o.2.length != 0)).length

/-- the pack collection after `_execute_pack_operations` when `dups` of the
revision-index entries of a combination are duplicates (the same revision is
present in several of the combined packs: the packer copies every key once, so
the new pack holds `revision_count - dups` entries): the packs of every
non-empty combination are removed and replaced by one new pack (new pack
identity `0`) -/
def executeOpsDup (dups : Nat) (packs : List Pack) : List Op → List Pack
  | [] => packs
  | o :: ops =>
    if o.2.isEmpty then executeOpsDup dups packs ops
    else executeOpsDup dups ((o.1 - dups, 0) :: o.2.foldl (fun acc p => acc.erase p) packs) ops

/-- `_execute_pack_operations` without duplicated revisions -/
def executeOps (packs : List Pack) (ops : List Op) : List Pack := executeOpsDup 0 packs ops

/-- `revision_index.combined_index.key_count()` of a collection holding
`packs`: `CombinedGraphIndex.key_count` ADDS the key counts of the per-pack
indices, so a revision present in two packs is counted twice and the total
the planner gets is exactly the sum of the per-pack counts (checked against
the real repository, with and without duplicated revisions, on every run). -/
def keyCount (packs : List Pack) : Nat := cnt packs

/-- value of one decimal digit character of `str(total)` -/
def charDigit (c : Char) : Nat := c.toNat - 48

end BreezyVerif.C07
