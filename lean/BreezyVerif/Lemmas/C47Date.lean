import BreezyVerif.Model.C47
/-! C47 helper lemmas: calendar inverse, fixed-width digits, the string
splitting of `unpack_highres_date`. -/
namespace BreezyVerif.C47

/-! ### calendar -/

theorem monthDay_spec (doy : Int) (h0 : 0 ≤ doy) (h1 : doy ≤ 365) :
    0 ≤ (monthDay doy).1 ∧ (monthDay doy).1 ≤ 11 ∧ 1 ≤ (monthDay doy).2 ∧ (monthDay doy).2 ≤ 31 ∧
    monthStart (monthDay doy).1 + (monthDay doy).2 - 1 = doy := by
  unfold monthDay
  repeat' split
  all_goals (simp [monthStart]; omega)

theorem yoe_arith (a b c : Int) (_ : 0 ≤ a) (_ : a ≤ 3) (hb0 : 0 ≤ b) (hb : b ≤ 24) (hc0 : 0 ≤ c) (hc : c ≤ 3) :
    (a * 100 + b * 4 + c) / 4 = 25 * a + b ∧ (a * 100 + b * 4 + c) / 100 = a := by
  omega

theorem yearDay_spec (doe : Int) (h0 : 0 ≤ doe) (h1 : doe ≤ 146096) :
    0 ≤ (yearDay doe).1 ∧ (yearDay doe).1 ≤ 399 ∧ 0 ≤ (yearDay doe).2 ∧ (yearDay doe).2 ≤ 365 ∧
    (yearDay doe).1 * 365 + (yearDay doe).1 / 4 - (yearDay doe).1 / 100 + (yearDay doe).2 = doe := by
  unfold yearDay
  simp only []
  generalize hn100 : (if doe / 36524 < 3 then doe / 36524 else 3) = n100
  have h100 : 0 ≤ n100 ∧ n100 ≤ 3 ∧ 0 ≤ doe - n100 * 36524 ∧ doe - n100 * 36524 ≤ 36524 ∧
      (n100 < 3 → doe - n100 * 36524 < 36524) := by
    subst hn100; split <;> omega
  generalize hr1 : doe - n100 * 36524 = r1 at *
  have hn4 : 0 ≤ r1 / 1461 ∧ r1 / 1461 ≤ 24 := by omega
  have hr2 : 0 ≤ r1 % 1461 ∧ r1 % 1461 ≤ 1460 ∧ r1 = r1 / 1461 * 1461 + r1 % 1461 := by omega
  generalize r1 / 1461 = n4 at *
  generalize r1 % 1461 = r2 at *
  generalize hn1 : (if r2 / 365 < 3 then r2 / 365 else 3) = n1
  have h1' : 0 ≤ n1 ∧ n1 ≤ 3 ∧ 0 ≤ r2 - n1 * 365 ∧ r2 - n1 * 365 ≤ 365 := by
    subst hn1; split <;> omega
  have := yoe_arith n100 n4 n1 h100.1 h100.2.1 hn4.1 hn4.2 h1'.1 h1'.2.1
  rw [this.1, this.2]
  omega

theorem days_core (z era doe yoe doy mp d : Int)
    (hz : z + 719468 = era * 146097 + doe)
    (hy : 0 ≤ yoe ∧ yoe ≤ 399 ∧ 0 ≤ doy ∧ doy ≤ 365 ∧ yoe * 365 + yoe / 4 - yoe / 100 + doy = doe)
    (hm : 0 ≤ mp ∧ mp ≤ 11 ∧ 1 ≤ d ∧ d ≤ 31 ∧ monthStart mp + d - 1 = doy) :
    daysFromCivil ⟨era * 400 + yoe + (if (if mp < 10 then mp + 3 else mp - 9) ≤ 2 then 1 else 0),
      (if mp < 10 then mp + 3 else mp - 9), d⟩ = z := by
  unfold daysFromCivil
  simp only []
  have e1 : (if (if mp < 10 then mp + 3 else mp - 9) > 2 then (if mp < 10 then mp + 3 else mp - 9) - 3
      else (if mp < 10 then mp + 3 else mp - 9) + 9) = mp := by split <;> omega
  rw [e1]
  generalize monthStart mp = ms at *
  split <;> omega

/-- the calendar conversion is inverted by `daysFromCivil`, for every day number -/
theorem days_civil (z : Int) : daysFromCivil (civilFromDays z) = z := by
  have hdoe0 : 0 ≤ (z + 719468) % 146097 := Int.emod_nonneg _ (by omega)
  have hdoe1 : (z + 719468) % 146097 < 146097 := Int.emod_lt_of_pos _ (by omega)
  have hy := yearDay_spec ((z + 719468) % 146097) hdoe0 (by omega)
  have hm := monthDay_spec (yearDay ((z + 719468) % 146097)).2 hy.2.2.1 hy.2.2.2.1
  exact days_core z _ _ _ _ _ _ (by omega) hy hm

theorem civil_ranges (z : Int) :
    1 ≤ (civilFromDays z).m ∧ (civilFromDays z).m ≤ 12 ∧ 1 ≤ (civilFromDays z).d ∧ (civilFromDays z).d ≤ 31 := by
  have hdoe0 : 0 ≤ (z + 719468) % 146097 := Int.emod_nonneg _ (by omega)
  have hdoe1 : (z + 719468) % 146097 < 146097 := Int.emod_lt_of_pos _ (by omega)
  have hy := yearDay_spec ((z + 719468) % 146097) hdoe0 (by omega)
  have hm := monthDay_spec (yearDay ((z + 719468) % 146097)).2 hy.2.2.1 hy.2.2.2.1
  unfold civilFromDays
  simp only []
  generalize (monthDay (yearDay ((z + 719468) % 146097)).2) = md at *
  refine ⟨?_, ?_, hm.2.2.1, hm.2.2.2.1⟩ <;> split <;> omega

/-! ### digits -/

theorem digitVal_digitChar (k : Nat) (h : k < 10) : digitVal (digitChar k) = some k := by
  have : k = 0 ∨ k = 1 ∨ k = 2 ∨ k = 3 ∨ k = 4 ∨ k = 5 ∨ k = 6 ∨ k = 7 ∨ k = 8 ∨ k = 9 := by omega
  rcases this with rfl | rfl | rfl | rfl | rfl | rfl | rfl | rfl | rfl | rfl <;> decide

theorem digitsVal_append (acc : Nat) (a b : List Char) :
    digitsVal acc (a ++ b) = (digitsVal acc a).bind (fun v => digitsVal v b) := by
  induction a generalizing acc with
  | nil => simp [digitsVal]
  | cons c cs ih =>
    simp only [List.cons_append, digitsVal]
    cases digitVal c with
    | none => simp
    | some d => simp [ih]

theorem digitsVal_padNat (w acc n : Nat) :
    digitsVal acc (padNat w n) = some (acc * 10 ^ w + n % 10 ^ w) := by
  induction w generalizing acc n with
  | zero => simp [padNat, digitsVal, Nat.mod_one]
  | succ w ih =>
    simp only [padNat, digitsVal_append, ih, Option.bind_some, digitsVal,
      digitVal_digitChar (n % 10) (Nat.mod_lt _ (by omega))]
    congr 1
    have := Nat.mod_mul (x := n) (a := 10) (b := 10 ^ w)
    rw [Nat.pow_succ, Nat.mul_comm (10 ^ w) 10, this]
    rw [Nat.mul_comm 10 (10 ^ w)]
    simp only [Nat.add_mul, Nat.mul_assoc]
    omega

theorem length_padNat (w n : Nat) : (padNat w n).length = w := by
  induction w generalizing n with
  | zero => simp [padNat]
  | succ w ih => simp [padNat, ih]

theorem digit_of_mem_padNat (w n : Nat) (c : Char) (h : c ∈ padNat w n) : digitVal c ≠ none := by
  induction w generalizing n with
  | zero => simp [padNat] at h
  | succ w ih =>
    simp only [padNat, List.mem_append, List.mem_singleton] at h
    rcases h with h | rfl
    · exact ih _ h
    · rw [digitVal_digitChar _ (Nat.mod_lt _ (by omega))]; simp

theorem not_mem_padNat (w n : Nat) (c : Char) (hc : digitVal c = none) : c ∉ padNat w n :=
  fun h => digit_of_mem_padNat w n c h hc

theorem parseFixed_padNat (w n : Nat) (h : n < 10 ^ w) : parseFixed w (padNat w n) = some n := by
  unfold parseFixed
  simp [length_padNat, digitsVal_padNat, Nat.mod_eq_of_lt h]

theorem padAtLeast_two (n : Nat) (h : n < 100) : padAtLeast 2 n = padNat 2 n := by
  unfold padAtLeast
  by_cases h10 : n < 10
  · have : natDigits n = [digitChar n] := by rw [natDigits]; simp [h10]
    simp [this, padNat, Nat.div_eq_of_lt h10, Nat.mod_eq_of_lt h10, digitChar]
  · have h1 : natDigits n = natDigits (n / 10) ++ [digitChar (n % 10)] := by rw [natDigits]; simp [h10]
    have h2 : natDigits (n / 10) = [digitChar (n / 10)] := by
      rw [natDigits]; simp [show n / 10 < 10 by omega]
    simp [h1, h2, padNat, Nat.mod_eq_of_lt (show n / 10 < 10 by omega)]

/-! ### string splitting -/

theorem splitAtChar_append (c : Char) (a b : List Char) (h : c ∉ a) :
    splitAtChar c (a ++ c :: b) = some (a, b) := by
  induction a with
  | nil => simp [splitAtChar]
  | cons x xs ih =>
    have hx : x ≠ c := fun e => h (by simp [e])
    have hxs : c ∉ xs := fun e => h (by simp [e])
    simp [splitAtChar, hx, ih hxs]

theorem weekdayName_mem (i : Int) : weekdayName i ∈ weekdays := by
  unfold weekdayName weekdays
  repeat' split
  all_goals simp [weekdayName]

theorem space_not_mem_weekdayName (i : Int) : ' ' ∉ weekdayName i := by
  unfold weekdayName
  repeat' split
  all_goals decide

/-! ### base date-time -/

theorem sep_not_digit : digitVal '-' = none ∧ digitVal ' ' = none ∧ digitVal ':' = none ∧ digitVal '.' = none := by
  decide

theorem parseBase_fmtBase (secs : Int) (hr : inRange secs = true) : parseBase (fmtBase secs) = some secs := by
  simp only [inRange, decide_eq_true_eq] at hr
  have hc := civil_ranges (secs / 86400)
  have hdc := days_civil (secs / 86400)
  have hs0 : 0 ≤ secs % 86400 := Int.emod_nonneg _ (by omega)
  have hs1 : secs % 86400 < 86400 := Int.emod_lt_of_pos _ (by omega)
  unfold fmtBase parseBase
  simp only []
  generalize civilFromDays (secs / 86400) = c at *
  obtain ⟨y, m, d⟩ := c
  simp only [] at hr hc hdc ⊢
  generalize hsod : secs % 86400 = sod at *
  simp only [List.append_assoc, List.cons_append, List.nil_append]
  rw [splitAtChar_append _ _ _ (not_mem_padNat _ _ _ sep_not_digit.1)]
  simp only []
  rw [splitAtChar_append _ _ _ (not_mem_padNat _ _ _ sep_not_digit.1)]
  simp only []
  rw [splitAtChar_append _ _ _ (not_mem_padNat _ _ _ sep_not_digit.2.1)]
  simp only []
  rw [splitAtChar_append _ _ _ (not_mem_padNat _ _ _ sep_not_digit.2.2.1)]
  simp only []
  rw [splitAtChar_append _ _ _ (not_mem_padNat _ _ _ sep_not_digit.2.2.1)]
  simp only []
  rw [parseFixed_padNat 4 _ (by omega), parseFixed_padNat 2 m.toNat (by omega),
    parseFixed_padNat 2 d.toNat (by omega), parseFixed_padNat 2 (sod / 3600).toNat (by omega),
    parseFixed_padNat 2 (sod % 3600 / 60).toNat (by omega), parseFixed_padNat 2 (sod % 60).toNat (by omega)]
  simp only []
  rw [if_pos (by omega)]
  have e1 : ((y.toNat : Nat) : Int) = y := Int.toNat_of_nonneg hr.1
  have e2 : ((m.toNat : Nat) : Int) = m := Int.toNat_of_nonneg (by omega)
  have e3 : ((d.toNat : Nat) : Int) = d := Int.toNat_of_nonneg (by omega)
  rw [e1, e2, e3, hdc]
  congr 1
  omega

theorem dot_not_mem_fmtBase (secs : Int) : '.' ∉ fmtBase secs := by
  unfold fmtBase
  simp only [List.mem_append, List.mem_singleton, not_or]
  have := fun w n => not_mem_padNat w n '.' sep_not_digit.2.2.2
  refine ⟨⟨⟨⟨⟨⟨⟨⟨⟨⟨this _ _, by decide⟩, this _ _⟩, by decide⟩, this _ _⟩, by decide⟩, this _ _⟩, by decide⟩,
    this _ _⟩, by decide⟩, this _ _⟩

/-! ### the whole string -/

theorem unpack_assemble (secs : Int) (frac : Nat) (offStr : List Char)
    (hr : inRange secs = true) (hf : frac < 1000000000) :
    unpackHighres (assemble secs frac offStr) =
      match parseI32 offStr with
      | none => .error .badOffset
      | some off => .ok ((secs - (tdiv off 100 * 3600 + tmod off 100 * 60)) * 1000000000 + frac,
          tdiv off 100 * 3600 + tmod off 100 * 60) := by
  unfold assemble unpackHighres fmtWeekday
  simp only [List.append_assoc, List.cons_append, List.nil_append]
  rw [splitAtChar_append _ _ _ (space_not_mem_weekdayName _)]
  simp only []
  rw [if_neg (by simp [weekdayName_mem])]
  rw [splitAtChar_append _ _ _ (dot_not_mem_fmtBase _)]
  simp only []
  rw [splitAtChar_append _ _ _ (not_mem_padNat _ _ _ sep_not_digit.2.1)]
  simp only []
  rw [parseBase_fmtBase secs hr]
  simp only []
  have : parseFrac ('.' :: padNat 9 frac) = some frac := by
    unfold parseFrac
    simp [length_padNat, digitsVal_padNat, Nat.mod_eq_of_lt hf]
  rw [this]
  rfl

/-! ### the offset field -/

def offsetSeconds (off : Int) : Int := tdiv off 100 * 3600 + tmod off 100 * 60

theorem digitsVal_hhmm (h m : Nat) (hh : h < 100) (hm : m < 100) :
    digitsVal 0 (padNat 2 h ++ padNat 2 m) = some (h * 100 + m) := by
  rw [digitsVal_append, digitsVal_padNat, Option.bind_some, digitsVal_padNat]
  simp [Nat.mod_eq_of_lt hh, Nat.mod_eq_of_lt hm]

theorem padNat_two_ne_nil (h m : Nat) : padNat 2 h ++ padNat 2 m ≠ [] := by
  intro e
  have := congrArg List.length e
  simp [length_padNat] at this

theorem parseI32_fixed_offset (offset : Int) (hb : offset.natAbs < 360000) :
    parseI32 ((if offset < 0 then '-' else '+') ::
      (padAtLeast 2 (offset.natAbs / 3600) ++ padAtLeast 2 (offset.natAbs / 60 % 60))) =
    some (if offset < 0 then -((offset.natAbs / 3600 * 100 + offset.natAbs / 60 % 60 : Nat) : Int)
      else ((offset.natAbs / 3600 * 100 + offset.natAbs / 60 % 60 : Nat) : Int)) := by
  have hh : offset.natAbs / 3600 < 100 := by omega
  have hm : offset.natAbs / 60 % 60 < 100 := by omega
  rw [padAtLeast_two _ hh, padAtLeast_two _ hm]
  have hd := digitsVal_hhmm _ _ hh hm
  have hn := padNat_two_ne_nil (offset.natAbs / 3600) (offset.natAbs / 60 % 60)
  unfold parseI32
  by_cases hneg : offset < 0
  · simp only [hneg, if_true, if_neg hn, hd]
    rw [if_pos (by omega)]
  · simp only [hneg, if_false, if_neg hn, hd]
    rw [if_pos (by simp only [Bool.false_eq_true, if_false]; omega)]
    simp

theorem offsetSeconds_fixed (offset : Int) (h60 : offset % 60 = 0) :
    offsetSeconds (if offset < 0 then -((offset.natAbs / 3600 * 100 + offset.natAbs / 60 % 60 : Nat) : Int)
      else ((offset.natAbs / 3600 * 100 + offset.natAbs / 60 % 60 : Nat) : Int)) = offset := by
  unfold offsetSeconds tdiv tmod
  by_cases hneg : offset < 0
  · simp only [hneg, if_true]
    split <;> omega
  · simp only [hneg, if_false]
    split <;> omega

end BreezyVerif.C47
