"""C10 — all tree-comparison implementations report the same changes.

Mechanism: breezy/bzr/inventorytree.py InterInventoryTree.iter_changes /
_changes_from_entries / _handle_precise_ids, InterCHKRevisionTree.iter_changes,
find_ids_across_trees; breezy/bzr/workingtree_4.py InterDirStateTree.iter_changes
(wrapper around the compiled bzrformats dirstate comparison) and
DirStateWorkingTree.paths2ids; breezy/inter.py InterObject.get (selection).

Cases: a pair of id-keyed trees (source, target) is generated in id space
(random tree, then renames, reparenting, swaps, kind changes, deletions with
and without re-homing the children, additions, id replacement at the same
path, take-overs, directory replacement, content / exec edits, unversioned files
and directories in the target; ~7 % of the scenarios are of the *burrow* family:
an entry moves to below the - unchanged - entry that takes over its old path,
`gen_burrow`) and *realised* twice on real 2a trees: (a) committed source +
working tree in the target state (built either by unversion+add with explicit ids
or by real rename_one/unversion/add operations), compared as
basis-vs-working-tree by InterTree.get (-> InterDirStateTree) and by
InterInventoryTree forced; (b) both states committed, compared as revision trees
by InterTree.get (-> InterCHKRevisionTree) and by InterInventoryTree forced.
Every pair is queried with filters None, [], and random subsets of <= 3 paths
taken from both trees, the unversioned paths and unknown names, plus targeted
single paths, x include_unchanged x want_unversioned (x require_versioned).
Every iter_changes call runs under a deterministic step budget (id2path calls on
the target tree + number of records, `run_iter`): non-termination is reported as
`E:Diverged`, never by the clock (a 600 s wall-clock backstop per scenario is an
infrastructure error, exit 2).

Probe-and-select: the model has both variants of the `_handle_precise_ids` loop
(Model/C10.lean `preciseLoopG fx`; fx = F the loop before /repo e6ca8fc, fx = T with
examined_file_ids).  `probe_variant` runs the three witness inputs of
precise_never_terminates_witness / precise_duplicate_witness on the real code and
sets the driver flag.

T2: the Lean model (`iterChangesG fx generic|chk`) must give the same sorted
    canonical record list as InterInventoryTree / InterCHKRevisionTree on revision
    trees for every query (including `E:Diverged`), and as all four
    implementations for unfiltered queries.  With a filter the dirstate
    comparison (compiled, path-space selection) is only bounded by the model:
    model set <= reported set <= unfiltered set.  Per (scenario, filter):
    `app` (applyChanges + wf + equals-target of the model's result) against
    py_apply / wf_tree on the *real* records; `wf` on the applied trees that are
    not well formed (and a sample of the others); per scenario `hyp` (the
    hypotheses noSlotOccupant / noPathOccupant / sameRoot / wf of the partial
    theorems) against their Python twins.
Oracle (independent of the model, on the real outputs): every record is the
    true record of its id (recomputed from the generated trees); no id is
    reported twice; termination; unfiltered: applying the records to the source
    gives the target; filtered: subset of the unfiltered result, contains every
    change whose source or target path is inside a filter path, every ancestor
    (in the target) of a reported entry is reported or unchanged (O8,
    filter_ancestor_closed), applying it to the source yields a well-formed
    tree (parents exist and are directories, no duplicate sibling names,
    everything reaches the root); include_unchanged adds only true no-op
    records; optimised == generic.  The partial theorems are read on the real
    outputs: with noSlotOccupant the applied tree must be well formed without
    any known-family excuse (filter_wf_partial); with the fix (or with
    noPathOccupant) no comparison may diverge.

Known defects of the unchanged code found by this check (reported with a family
slug computed from the failing input):
 displaced-entry-not-reported (only when some id takes a (parent id, name) slot held
 by another id in the source), generic-include-unchanged-widens-closure,
 chk-unchanged-source-path-under-renamed-directory,
 generic-wt-source-entry-not-found (InterInventoryTree on a dirstate working tree),
 and in the compiled dirstate comparison: dirstate-path-closure-superset and
 dirstate-duplicate-under-relocated-path (both only when every offending id lies at or
 below a path held by different ids in the two trees), dirstate-lstat-below-non-directory,
 dirstate-displaced-entry-not-reported, dirstate-unversioned-at-formerly-versioned-path.
Fixed in /repo (e6ca8fc) and therefore reported as plain violations if they come back:
 precise-ids-closure-never-terminates, precise-ids-reemits-displaced-entry.

Mutants tried in a scratch worktree (each run with the families above treated
as known; "oracle" = concrete failing input, "T2" = model/implementation
mismatch).  First round (before the fix):
 m1 _changes_from_entries: drop `or executable[0] != executable[1]`            -> oracle (apply != target)
 m2 _handle_precise_ids: follow the parent only of *changed* entries           -> oracle (O8: ancestor not reported) + T2
 m3 _handle_precise_ids: drop the "stopped being a directory" children step    -> oracle (dangling parent)
 m4 iter_changes: removed-entries loop skips top-level directories             -> oracle (apply != target)
 m5b InterCHKRevisionTree: parents of selected changes not fed to the closure  -> oracle (dangling parent) + chk != generic
 m6 InterDirStateTree.iter_changes: source_index off by one                    -> oracle (wrong records)
 m7 _find_children_across_trees: children only from the first tree             -> oracle (changes under filter missing)
 m8 InterObject.get: optimisers not tried most-recent-first                    -> oracle (selection)
 m9 _handle_precise_ids: displaced source entry not added                      -> oracle (duplicate sibling names) + T2
Second round (on top of the examined-ids fix):
 M0 the fix reverted                                                           -> oracle (does not terminate / id twice), model variant fx=F selected, 0 mismatches
 M2 `examined_file_ids.update(current_ids)` dropped (= only emitted ids remembered, the first candidate fix)
                                                                               -> oracle (does not terminate, burrow variant B)
 M3 source.path2id occupants never added                                       -> oracle (duplicate sibling names) + T2
 M4 = m2 on the fixed loop                                                     -> oracle (O8) + T2
 M5 = m3 on the fixed loop                                                     -> oracle (parent missing) + T2
 stay clean: iterate `sorted(current_ids, reverse=True)`; InterCHKRevisionTree without the discarded_changes
 stash; M1 pending ids not filtered against examined_file_ids (the occupants filter alone breaks every cycle
 the generator reaches; no observable difference)
"""
import os
import shutil

from vlib import env

THEOREMS = [
    "apply_changes", "unchanged_noop", "include_unchanged_partition",
    "filter_subset", "filter_complete", "filter_parent_closed",
    "chk_eq_generic", "require_versioned_spec", "mem_unversionedOf", "select_complete",
    "precise_never_terminates_witness", "fixed_loop_terminates", "precise_terminates_partial",
    "iterChangesG_unfixed", "filter_subset_complete_g", "filter_ancestor_closed",
    "filter_wf_partial", "filter_wf_partial_unfixed", "no_duplicates",
    "precise_duplicate_witness", "displaced_entry_witness", "chk_unchanged_path_witness",
    "include_unchanged_widens_witness", "fixed_loop_keeps_other_defects_witness",
]
RULE = ("scenario = (source tree, target tree, unversioned paths, realisation mode); case = (scenario, filter, "
        "include_unchanged, want_unversioned, require_versioned); distinct by canonical trees + query; "
        "non-trivial = the pair has at least one change and the query has a non-empty filter or >= 2 changes")
ASSUMPTIONS = [
    "file ids, names and contents come from small alphabets; trees have <= 12 entries (the theorems are unbounded)",
    "the compiled dirstate comparison (bzrformats) is exercised, not modelled: with a path filter it is bounded by the model, not predicted",
    "non-termination of the real comparison is recognised by a step budget (3(n+2)^2+64 id2path calls, 4n+16 records for n entries); "
    "the largest share of it a terminating query used is recorded as step_budget_max_used",
]
TRUSTED = ["the realisation of generated id-keyed trees on real 2a trees (checked per scenario by reading both trees back)",
           "probe_variant: the choice between the two proved loop variants is made by running three witness inputs on the real code"]

ROOT = "r"
NAMES = ["a", "b", "c", "d"]
CONTENTS = ["", "x", "y", "xy"]
TARGETS = ["a", "b", "../c"]


# --------------------------------------------------------------------------
# id-space trees

def children(t, i):
    return sorted(k for k, e in t.items() if e["parent"] == i)


def path_of(t, i):
    parts = []
    seen = set()
    while i != ROOT:
        if i in seen or i not in t:
            return None
        seen.add(i)
        parts.append(t[i]["name"])
        i = t[i]["parent"]
    return "/".join(reversed(parts))


def paths(t):
    return {i: path_of(t, i) for i in t}


def dirs(t):
    return sorted(i for i, e in t.items() if e["kind"] == "directory")


def free_name(rng, t, parent, avoid=()):
    used = {t[c]["name"] for c in children(t, parent)} | set(avoid)
    cands = [n for n in NAMES if n not in used]
    return rng.choice(cands) if cands else None


def new_entry(rng, t, parent, kind=None):
    name = free_name(rng, t, parent)
    if name is None:
        return None
    kind = kind or rng.choices(["file", "directory", "symlink"], [5, 4, 1])[0]
    e = dict(parent=parent, name=name, kind=kind, content="", exec=False)
    if kind == "file":
        e["content"] = rng.choice(CONTENTS)
        e["exec"] = rng.random() < 0.25
    elif kind == "symlink":
        e["content"] = rng.choice(TARGETS)
    return e


def gen_tree(rng, n):
    t = {ROOT: dict(parent=None, name="", kind="directory", content="", exec=False)}
    for k in range(n):
        parent = rng.choice(dirs(t))
        e = new_entry(rng, t, parent)
        if e is not None:
            t["i%d" % k] = e
    return t


def descendants(t, i):
    out = []
    todo = [i]
    while todo:
        x = todo.pop()
        for c in children(t, x):
            out.append(c)
            todo.append(c)
    return out


def delete_subtree(t, i):
    for d in descendants(t, i):
        del t[d]
    del t[i]


def _rehome(rng, t, c, avoid):
    bad = set(descendants(t, c)) | {c} | set(avoid)
    cands = [d for d in dirs(t) if d not in bad]
    if not cands:
        return False
    p = rng.choice(cands)
    used = {t[x]["name"] for x in children(t, p)}
    n = t[c]["name"] if t[c]["name"] not in used else free_name(rng, t, p)
    if n is None:
        return False
    t[c]["parent"], t[c]["name"] = p, n
    return True


OPS = ["rename", "rename", "reparent", "reparent", "swap", "kind", "delete", "add", "content", "exec", "replace", "takeover",
       "dirreplace"]


def mutate(rng, src, nmut):
    t = {i: dict(e) for i, e in src.items()}
    fresh = [0]
    log = []

    def newid():
        fresh[0] += 1
        return "n%d" % fresh[0]

    for _ in range(nmut):
        ids = [i for i in t if i != ROOT]
        op = rng.choice(OPS)
        if op == "add" or not ids:
            parent = rng.choice(dirs(t))
            e = new_entry(rng, t, parent)
            if e:
                gone = [i for i in src if i not in t]
                i = rng.choice(gone) if gone and rng.random() < 0.3 else newid()
                t[i] = e
                log.append("add")
            continue
        i = rng.choice(ids)
        e = t[i]
        if op == "rename":
            n = free_name(rng, t, e["parent"])
            if n:
                e["name"] = n
                log.append(op)
        elif op == "reparent":
            bad = set(descendants(t, i)) | {i}
            cands = [d for d in dirs(t) if d not in bad and d != e["parent"]]
            if cands:
                p = rng.choice(cands)
                used = {t[c]["name"] for c in children(t, p)}
                n = e["name"] if e["name"] not in used and rng.random() < 0.7 else free_name(rng, t, p)
                if n:
                    e["parent"], e["name"] = p, n
                    log.append(op)
        elif op == "swap":
            j = rng.choice(ids)
            if j != i and j not in descendants(t, i) and i not in descendants(t, j):
                f = t[j]
                (e["parent"], e["name"]), (f["parent"], f["name"]) = (f["parent"], f["name"]), (e["parent"], e["name"])
                log.append(op)
        elif op == "takeover":
            # i moves to the place of j; j is renamed or removed (displaced entry)
            j = rng.choice(ids)
            if j != i and j not in descendants(t, i) and i not in descendants(t, j):
                f = t[j]
                place = (f["parent"], f["name"])
                if rng.random() < 0.5:
                    # j goes away; its children are deleted with it or re-homed
                    for c in children(t, j):
                        if rng.random() < 0.4:
                            _rehome(rng, t, c, [j, i] + descendants(t, i))
                    delete_subtree(t, j)
                else:
                    n = free_name(rng, t, f["parent"])
                    if n is None:
                        continue
                    f["name"] = n
                e["parent"], e["name"] = place
                log.append(op)
        elif op == "kind":
            k = rng.choice([k for k in ("file", "directory", "symlink") if k != e["kind"]])
            if e["kind"] == "directory":
                for c in children(t, i):
                    if not (rng.random() < 0.6 and _rehome(rng, t, c, [i])):
                        delete_subtree(t, c)
            e["kind"] = k
            e["exec"] = False
            e["content"] = rng.choice(CONTENTS) if k == "file" else rng.choice(TARGETS) if k == "symlink" else ""
            log.append(op)
        elif op == "delete":
            if rng.random() < 0.5:
                for c in children(t, i):
                    _rehome(rng, t, c, [i])
            delete_subtree(t, i)
            log.append(op)
        elif op == "content":
            if e["kind"] == "file":
                e["content"] = rng.choice([c for c in CONTENTS if c != e["content"]])
                log.append(op)
            elif e["kind"] == "symlink":
                e["content"] = rng.choice([c for c in TARGETS if c != e["content"]])
                log.append(op)
        elif op == "exec":
            if e["kind"] == "file":
                e["exec"] = not e["exec"]
                log.append(op)
        elif op == "dirreplace":
            # a directory with children is replaced at its path by another directory id
            # (new or moved in); the old children are deleted or re-homed; something lives
            # under the replacement
            ds = [d for d in dirs(t) if d != ROOT and children(t, d)]
            if not ds:
                continue
            x = rng.choice(ds)
            place = (t[x]["parent"], t[x]["name"])
            for c in children(t, x):
                if rng.random() < 0.4:
                    _rehome(rng, t, c, [x])
            delete_subtree(t, x)
            if place[0] not in t:
                continue
            movable = [d for d in dirs(t) if d != ROOT and place[0] not in descendants(t, d) and d != place[0]]
            if movable and rng.random() < 0.5:
                pnew = rng.choice(movable)
                t[pnew]["parent"], t[pnew]["name"] = place
            else:
                pnew = newid()
                t[pnew] = dict(parent=place[0], name=place[1], kind="directory", content="", exec=False)
            ne = new_entry(rng, t, pnew)
            if ne:
                t[newid()] = ne
            log.append(op)
        elif op == "replace":
            # a new id takes over the path; old children are deleted or re-homed
            ne = dict(e)
            for c in children(t, i):
                if rng.random() < 0.4:
                    _rehome(rng, t, c, [i])
            delete_subtree(t, i)
            if ne["parent"] in t:
                t[newid()] = ne
            log.append(op)
    return t, log


def _graft(t, i, parent, name, kind="directory", content=""):
    t[i] = dict(parent=parent, name=name, kind=kind, content=content, exec=False)


def gen_burrow(rng, big=False):
    """the *burrow* family: an entry moves to below the entry that takes over its old path.
    Variant A: siblings a/ (with a child directory x named n) and b/ (with a child o, also
    named n); in the target b makes room, a takes b's name - so the unchanged x now sits at
    o's old path - and o moves into x.  Variant B: a new directory takes the place of g/ and
    g moves into it under the name of its own child i, whose child o has the same name again:
    i and o are unchanged and i sits at o's old path.  Both on top of a random tree, followed
    by random further edits."""
    for _ in range(50):
        src = gen_tree(rng, rng.randint(0, 5 if big else 3))
        g = rng.choice(dirs(src))
        free = [n for n in NAMES if n not in {src[c]["name"] for c in children(src, g)}]
        n = rng.choice(NAMES)
        variant = rng.choice("AAB")
        if variant == "A":
            if len(free) < 2:
                continue
            n1, n2 = rng.sample(free, 2)
            _graft(src, "ka", g, n1)
            _graft(src, "kx", "ka", n)
            _graft(src, "kb", g, n2)
            kind = rng.choice(["file", "directory", "directory", "symlink"])
            _graft(src, "ko", "kb", n, kind, rng.choice(CONTENTS if kind == "file" else TARGETS) if kind != "directory" else "")
            if rng.random() < 0.4:
                e = new_entry(rng, src, rng.choice(["ka", "kx", "kb"]))
                if e:
                    src["ke"] = e
            tgt = {i: dict(e) for i, e in src.items()}
            how = rng.choice(["rename", "rename", "delete", "reparent"])
            if how == "rename":
                left = [m for m in NAMES if m not in (n1, n2) and m not in {tgt[c]["name"] for c in children(tgt, g)}]
                if not left:
                    continue
                tgt["kb"]["name"] = rng.choice(left)
            elif how == "reparent":
                tgt["kb"]["parent"], tgt["kb"]["name"] = "kx", rng.choice([m for m in NAMES if m != n] or NAMES)
            tgt["ka"]["name"] = n2
            tgt["ko"]["parent"] = "kx"
            used = {tgt[c]["name"] for c in children(tgt, "kx") if c != "ko"}
            tgt["ko"]["name"] = rng.choice([m for m in NAMES if m not in used])
            if how == "delete":
                for c in children(tgt, "kb"):
                    delete_subtree(tgt, c)
                del tgt["kb"]
            into = "kx"
        else:
            if not free:
                continue
            n0 = rng.choice(free)
            _graft(src, "kg", g, n0)
            _graft(src, "ki", "kg", n)
            kind = rng.choice(["file", "directory", "directory"])
            _graft(src, "ko", "ki", n, kind, rng.choice(CONTENTS) if kind == "file" else "")
            tgt = {i: dict(e) for i, e in src.items()}
            _graft(tgt, "kh", g, n0)
            tgt["kg"]["parent"], tgt["kg"]["name"] = "kh", n
            into = "ki"
        if rng.random() < 0.6:
            e = new_entry(rng, tgt, into, kind="file")
            if e:
                tgt["kf"] = e
        tgt, log = mutate(rng, tgt, rng.choice([0, 0, 1, 2]))
        if not wf_tree(src) and not wf_tree(tgt):
            return src, tgt, ["burrow" + variant] + log
    return None


def gen_extras(rng, tgt, n):
    """top-level unversioned files / directories of the target: {path: kind}"""
    out = {}
    tp = paths(tgt)
    used = set(tp.values())
    for _ in range(n):
        d = rng.choice(dirs(tgt))
        base = tp[d]
        name = rng.choice(["u", "v", "a", "b"])
        p = (base + "/" + name) if base else name
        if p in used or p in out:
            continue
        out[p] = rng.choice(["file", "file", "directory"])
    return out


def wf_tree(t):
    """well-formedness of an id-keyed tree dict; returns list of problems"""
    bad = []
    roots = [i for i, e in t.items() if e["parent"] is None]
    if len(roots) != 1:
        bad.append("roots=%r" % roots)
    seen = {}
    for i, e in sorted(t.items()):
        if e["parent"] is not None:
            p = t.get(e["parent"])
            if p is None:
                bad.append("parent of %s (%s) missing" % (i, e["parent"]))
            elif p["kind"] != "directory":
                bad.append("parent of %s (%s) is a %s" % (i, e["parent"], p["kind"]))
        k = (e["parent"], e["name"])
        if k in seen:
            bad.append("duplicate name: %s and %s are both %r" % (seen[k], i, k))
        seen[k] = i
        if e["parent"] is not None and not any(b.startswith("parent of %s " % i) for b in bad):
            # reaches the root
            x, n = i, 0
            while x is not None and x in t and n <= len(t):
                x = t[x]["parent"]
                n += 1
            if n > len(t):
                bad.append("cycle through %s" % i)
    return bad


# --------------------------------------------------------------------------
# realisation on real trees

def write_entry(base, p, e):
    full = os.path.join(base, p)
    if e["kind"] == "directory":
        os.mkdir(full)
    elif e["kind"] == "file":
        with open(full, "wb") as f:
            f.write(e["content"].encode())
        os.chmod(full, 0o755 if e["exec"] else 0o644)
    else:
        os.symlink(e["content"], full)


def order_by_path(t):
    tp = paths(t)
    return [i for i in sorted(t, key=lambda i: (tp[i].count("/"), tp[i])) if i != ROOT]


def write_disk(base, t):
    tp = paths(t)
    for i in order_by_path(t):
        write_entry(base, tp[i], t[i])


def write_extras(base, extras):
    for p in sorted(extras):
        full = os.path.join(base, p)
        if extras[p] == "directory":
            os.mkdir(full)
            with open(os.path.join(full, "w"), "wb") as f:
                f.write(b"inside an unversioned directory")
        else:
            with open(full, "wb") as f:
                f.write(b"unversioned")


def rm_any(full):
    if os.path.isdir(full) and not os.path.islink(full):
        shutil.rmtree(full)
    elif os.path.lexists(full):
        os.unlink(full)


def wipe_disk(base):
    for n in os.listdir(base):
        if n != ".bzr":
            rm_any(os.path.join(base, n))


def add_all(wt, t):
    tp = paths(t)
    order = order_by_path(t)
    if order:
        wt.add([tp[i] for i in order], ids=[i.encode() for i in order])


def to_target_readd(wt, src, tgt):
    """mode A: unversion everything, rebuild the disk, add with explicit ids"""
    sp = paths(src)
    old = [sp[i] for i in src if i != ROOT]
    if old:
        wt.unversion(old)
    wipe_disk(wt.basedir)
    write_disk(wt.basedir, tgt)
    add_all(wt, tgt)


def to_target_ops(wt, src, tgt):
    """mode B: real rename_one / unversion / add operations"""
    base = wt.basedir
    moved = [i for i in src if i in tgt and i != ROOT and
             (src[i]["parent"], src[i]["name"]) != (tgt[i]["parent"], tgt[i]["name"])]
    # park everything that moves at the top level, deepest first
    sp = paths(src)
    for i in sorted(moved, key=lambda i: -sp[i].count("/")):
        wt.rename_one(wt.id2path(i.encode()), "tmp-" + i)
    # deletions, deepest first
    gone = [i for i in src if i not in tgt]
    for i in sorted(gone, key=lambda i: -sp[i].count("/")):
        p = wt.id2path(i.encode())
        wt.unversion([p])
        rm_any(os.path.join(base, p))
    # kind / content / exec changes in place
    for i in tgt:
        if i in src and i != ROOT and (src[i]["kind"], src[i]["content"], src[i]["exec"]) != (
                tgt[i]["kind"], tgt[i]["content"], tgt[i]["exec"]):
            p = wt.id2path(i.encode())
            rm_any(os.path.join(base, p))
            write_entry(base, p, tgt[i])
    # final placement, parents first
    tp = paths(tgt)
    for i in order_by_path(tgt):
        if i in moved:
            wt.rename_one("tmp-" + i, tp[i])
        elif i not in src:
            write_entry(base, tp[i], tgt[i])
            wt.add([tp[i]], ids=[i.encode()])


def realize(src, tgt, extras, mode):
    wt = env.make_tree("2a")
    with wt.lock_tree_write():
        wt.set_root_id(ROOT.encode())
        write_disk(wt.basedir, src)
        add_all(wt, src)
    r1 = wt.commit("src")
    with wt.lock_tree_write():
        (to_target_ops if mode == "ops" else to_target_readd)(wt, src, tgt)
        write_extras(wt.basedir, extras)
    return wt, r1


def read_tree(tree):
    out = {}
    with tree.lock_read():
        for p, ie in tree.iter_entries_by_dir():
            kind = tree.kind(p)      # a working tree reads the disk here
            content = ""
            ex = False
            if kind == "file":
                content = tree.get_file_text(p).decode()
                ex = bool(tree.is_executable(p))
            elif kind == "symlink":
                content = tree.get_symlink_target(p)
            out[ie.file_id.decode()] = dict(parent=ie.parent_id.decode() if ie.parent_id else None, name=ie.name,
                                            kind=kind, content=content, exec=ex)
    return out


# --------------------------------------------------------------------------
# canonical records

def _s(x):
    if x is None:
        return "~"
    if isinstance(x, bytes):
        return x.decode()
    if isinstance(x, bool):
        return "T" if x else "F"
    if x == "":
        return "."
    return str(x)


def canon_change(c):
    return "|".join([_s(c.file_id), _s(c.path[0]), _s(c.path[1]), _s(c.changed_content),
                     _s(c.versioned[0]) + _s(c.versioned[1]),
                     _s(c.parent_id[0]), _s(c.parent_id[1]), _s(c.name[0]), _s(c.name[1]),
                     _s(c.kind[0]), _s(c.kind[1]), _s(c.executable[0]), _s(c.executable[1])])


class Diverged(BaseException):
    """raised by the step budget below: the comparison does not terminate"""


BUDGET_USED = [0.0]      # largest fraction of the step budget a *terminating* query used (evidence)


def step_budget(size):
    """`_handle_precise_ids` calls target.id2path once per needed id and round.  A terminating
    run makes at most (ids) x (rounds <= ids x depth) such calls; the budget is far above that
    and independent of the machine's speed."""
    return 3 * (size + 2) ** 2 + 64


def run_iter(inter, size=20, **kw):
    """sorted canonical records of one iter_changes call.  Non-termination is detected
    deterministically (a budget of id2path calls on the target tree and of records), never by
    the clock: `E:Diverged`."""
    from breezy import errors
    tgt = inter.target
    limit = step_budget(size)
    calls = [0]
    orig = tgt.id2path

    def counting(*a, **k):
        calls[0] += 1
        if calls[0] > limit:
            raise Diverged()
        return orig(*a, **k)
    tgt.id2path = counting
    try:
        out = []
        for c in inter.iter_changes(**kw):
            out.append(canon_change(c))
            if len(out) > 4 * size + 16:
                raise Diverged()
        BUDGET_USED[0] = max(BUDGET_USED[0], calls[0] / limit)
        return sorted(out)
    except Diverged:
        return ["E:Diverged"]
    except errors.PathsNotVersionedError as e:
        return ["E:PathsNotVersioned:" + ",".join(sorted(p or "." for p in e.paths))]
    except Exception as e:
        return ["E:" + type(e).__name__ + ":" + str(e)[:120].replace("\n", " ")]
    finally:
        del tgt.id2path


def true_record(src, tgt, sp, tp, i):
    """the record the property demands for id i, recomputed from the generated trees"""
    s, t = src.get(i), tgt.get(i)
    if s is not None and t is not None:
        cc = s["kind"] != t["kind"] or (s["kind"] != "directory" and s["content"] != t["content"])
    else:
        cc = True

    def g(e, k):
        return None if e is None else e[k]
    rec = "|".join([i, _s(sp.get(i)), _s(tp.get(i)), _s(cc), _s(s is not None) + _s(t is not None),
                    _s(g(s, "parent")), _s(g(t, "parent")), _s(g(s, "name")), _s(g(t, "name")),
                    _s(g(s, "kind")), _s(g(t, "kind")), _s(g(s, "exec")), _s(g(t, "exec"))])
    changed = cc or (s is None) != (t is None) or any(g(s, k) != g(t, k) for k in ("parent", "name", "exec"))
    return rec, changed


def parse_record(r):
    f = r.split("|")
    return dict(id=f[0], sp=f[1], tp=f[2], cc=f[3] == "T", v=(f[4][0] == "T", f[4][1] == "T"),
                parent=(f[5], f[6]), name=(f[7], f[8]), kind=(f[9], f[10]), ex=(f[11], f[12]))


def py_apply(src, tgt, records):
    """apply parsed records to the source; content from the target only if changed_content"""
    out = {i: dict(e) for i, e in src.items()}
    for r in records:
        p = parse_record(r)
        i = p["id"]
        if not p["v"][1]:
            out.pop(i, None)
            continue
        e = dict(parent=None if p["parent"][1] == "~" else p["parent"][1],
                 name="" if p["name"][1] == "." else p["name"][1], kind=p["kind"][1], exec=p["ex"][1] == "T")
        if p["cc"]:
            e["content"] = tgt[i]["content"] if i in tgt else "?"
        else:
            e["content"] = src[i]["content"] if i in src else "?"
        out[i] = e
    return out


# --------------------------------------------------------------------------
# model encoding

def hx(s):
    return s.encode().hex() or "-"


def enc_tree(t):
    out = []
    for i in sorted(t):
        e = t[i]
        k = {"file": "f", "directory": "d", "symlink": "l"}[e["kind"]]
        out.append(":".join([i, e["parent"] or "~", e["name"] or ".", k,
                             "-" if k == "d" else hx(e["content"]), "T" if e["exec"] else "F"]))
    return ";".join(out)


def enc_filter(f):
    if f is None:
        return "~"
    if not f:
        return "-"
    return ",".join(p or "." for p in f)


def enc_extras(ex):
    return ",".join("%s=%s" % (p, k) for p, k in sorted(ex.items())) or "-"


def b(x):
    return "T" if x else "F"


FX = ["F"]       # which variant of the _handle_precise_ids loop the real code has (probe_variant)


def model_line(impl, q, sc):
    return "ic %s %s %s %s %s %s %s %s %s" % (FX[0], impl, b(q["incl"]), b(q["unv"]), b(q["reqv"]), enc_filter(q["filt"]),
                                               enc_tree(sc["src"]), enc_tree(sc["tgt"]), enc_extras(sc["extras"]))


def app_line(impl, filt, sc):
    return "app %s %s %s %s %s" % (FX[0], impl, enc_filter(filt), enc_tree(sc["src"]), enc_tree(sc["tgt"]))


def no_slot_occupant(src, tgt):
    """no id takes, in the target, a (parent id, name) slot another id holds in the source"""
    slots = {}
    for j, f in src.items():
        slots.setdefault((f["parent"], f["name"]), set()).add(j)
    return all(slots.get((e["parent"], e["name"]), {i}) <= {i} for i, e in tgt.items())


def no_path_occupant(src, tgt, sp, tp):
    """no target path is the source path of another id"""
    by = {}
    for j, p_ in sp.items():
        by.setdefault(p_, set()).add(j)
    return all(by.get(tp[i], {i}) <= {i} for i in tgt)


def _D(parent, name):
    return dict(parent=parent, name=name, kind="directory", content="", exec=False)


PROBES = dict(
    # precise_never_terminates_witness (A), (B) and precise_duplicate_witness
    A=(dict(r=_D(None, ""), a=_D("r", "a"), x=_D("a", "x"), b=_D("r", "b"), o=_D("b", "x")),
       dict(r=_D(None, ""), a=_D("r", "b"), x=_D("a", "x"), b=_D("r", "c"), o=_D("x", "y")), ["b/x/y"]),
    B=(dict(r=_D(None, ""), g=_D("r", "g"), i=_D("g", "n"), o=_D("i", "n")),
       dict(r=_D(None, ""), h=_D("r", "g"), g=_D("h", "n"), i=_D("g", "n"), o=_D("i", "n"),
            f=dict(parent="i", name="f", kind="file", content="x", exec=False)), ["g/n/n/f"]),
    dup=(dict(r=_D(None, ""), o=_D("r", "d"), p=_D("r", "z")),
         dict(r=_D(None, ""), o=_D("r", "q"), p=_D("r", "d"), f=dict(parent="p", name="f", kind="file", content="x", exec=False)),
         ["d/f", "q"]),
)


def probe_variant(ctx):
    """which variant of the `_handle_precise_ids` loop does the tree under test have?  The three
    witness inputs are run on the real InterInventoryTree: the unchanged code diverges on A and B
    and reports `o` twice on dup; the loop with the examined-ids fix does neither."""
    seen = {}
    for name, (src, tgt, filt) in sorted(PROBES.items()):
        sc = dict(src=src, tgt=tgt, extras={}, mode="readd", log=[], idx="probe-" + name)
        res = _scenario_job((sc, [dict(filt=filt, incl=False, unv=False, reqv=False)]))
        if "infra" in res:
            raise env.InfraError(res["infra"])
        if "error" in res or not res.get("realized"):
            seen[name] = "error"
            continue
        out = res["out"][0]["grev"]
        ids = [r.split("|", 1)[0] for r in out]
        seen[name] = "diverges" if out == ["E:Diverged"] else "duplicate" if len(set(ids)) < len(ids) else "ok"
    if all(v == "ok" for v in seen.values()):
        FX[0] = "T"
        ctx.extra["loop_variant"] = "with the examined-ids fix (fixed_loop_terminates applies)"
    else:
        FX[0] = "F"
        ctx.extra["loop_variant"] = "unchanged code" if (seen["A"], seen["B"], seen["dup"]) == ("diverges", "diverges", "duplicate") \
            else "neither model variant: %r (modelled as unchanged)" % (seen,)
    ctx.count("loop-variant:fx=" + FX[0])


# --------------------------------------------------------------------------
# scenarios and queries

def gen_scenario(rng, idx, big=False):
    while True:
        if rng.random() < 0.07:
            got = gen_burrow(rng, big)
            if got is not None:
                src, tgt, log = got
                break
        src = gen_tree(rng, rng.randint(1, 9 if big else 7))
        tgt, log = mutate(rng, src, rng.choice([0, 1, 1, 2, 2, 3, 3, 4, 5]))
        if not wf_tree(src) and not wf_tree(tgt):
            break
    extras = gen_extras(rng, tgt, rng.choice([0, 0, 1, 2]))
    mode = rng.choice(["readd", "ops"])
    if any(i in src and src[i]["kind"] != "directory" and e["kind"] == "directory" and children(tgt, i)
           for i, e in tgt.items()):
        # a file that became a directory *behind the tree's back* cannot take children through
        # real add/rename operations (the inventory still says "file"): rebuild by re-adding
        mode = "readd"
    return dict(src=src, tgt=tgt, extras=extras, mode=mode, log=log, idx=idx)


def gen_queries(rng, sc, nfilters):
    src, tgt, extras = sc["src"], sc["tgt"], sc["extras"]
    allp = sorted(set(paths(src).values()) | set(paths(tgt).values()) | set(extras))
    pool = allp + ["zz", "a/zz"]
    filters = [None, []]
    for _ in range(nfilters):
        k = rng.choice([1, 1, 2, 3])
        f = sorted(set(rng.sample(pool, min(k, len(pool)))))
        if f not in filters:
            filters.append(f)
    # targeted: a single entry whose target parent is not where it was in the source
    sp, tp = paths(src), paths(tgt)
    for i in sorted(tgt):
        p_ = tgt[i]["parent"]
        if p_ is not None and sp.get(p_) != tp.get(p_) and [tp[i]] not in filters and rng.random() < 0.7:
            filters.append([tp[i]])
    qs = []
    for f in filters:
        reqv = bool(f) and rng.random() < 0.3
        for incl in (False, True):
            for unv in (False, True):
                qs.append(dict(filt=f, incl=incl, unv=unv, reqv=reqv))
    return qs


def run_scenario(sc, queries):
    """all four implementations on every query.  Returns dict or raises."""
    from breezy.tree import InterTree
    from breezy.bzr.inventorytree import InterInventoryTree
    src, tgt, extras = sc["src"], sc["tgt"], sc["extras"]
    wt, r1 = realize(src, tgt, extras, sc["mode"])
    res = dict(impls={}, out=[])
    size = len(src) + len(tgt)
    try:
        basis = wt.basis_tree()
        rs, rt = read_tree(basis), read_tree(wt)
        res["realized"] = (rs == src and rt == tgt)
        if not res["realized"]:
            res["readback"] = dict(src=rs, tgt=rt)
            return res
        outs = [dict() for _ in queries]
        with basis.lock_read(), wt.lock_read():
            opt = InterTree.get(basis, wt)
            res["impls"]["ds"] = type(opt).__name__
            for q, o in zip(queries, outs):
                kw = dict(specific_files=q["filt"], include_unchanged=q["incl"], want_unversioned=q["unv"],
                          require_versioned=q["reqv"])
                o["ds"] = run_iter(InterTree.get(basis, wt), size, **kw)
                o["gwt"] = run_iter(InterInventoryTree(basis, wt), size, **kw)
        r2 = wt.commit("tgt")
        repo = wt.branch.repository
        t1, t2 = repo.revision_tree(r1), repo.revision_tree(r2)
        with t1.lock_read(), t2.lock_read():
            res["impls"]["chk"] = type(InterTree.get(t1, t2)).__name__
            for q, o in zip(queries, outs):
                kw = dict(specific_files=q["filt"], include_unchanged=q["incl"], want_unversioned=q["unv"],
                          require_versioned=q["reqv"])
                o["chk"] = run_iter(InterTree.get(t1, t2), size, **kw)
                o["grev"] = run_iter(InterInventoryTree(t1, t2), size, **kw)
        res["out"] = outs
        res["budget_used"] = BUDGET_USED[0]
        return res
    finally:
        shutil.rmtree(wt.basedir, ignore_errors=True)


class _WallClock(BaseException):
    pass


def _alarm(*_a):
    raise _WallClock()


def _scenario_job(job):
    import signal
    sc, queries = job
    # backstop only: non-termination of the comparison is detected by the step budget of
    # run_iter; a scenario that still exceeds this is an infrastructure problem (exit 2)
    signal.signal(signal.SIGALRM, _alarm)
    signal.alarm(600)
    try:
        return run_scenario(sc, queries)
    except (KeyboardInterrupt, SystemExit):
        raise
    except _WallClock:
        return dict(infra="scenario exceeded 600 s wall clock")
    except BaseException as e:  # realisation failed; pyo3 panics are BaseExceptions
        import traceback
        return dict(error="%s: %s" % (type(e).__name__, e), tb=traceback.format_exc()[-1500:])
    finally:
        signal.alarm(0)


# --------------------------------------------------------------------------
# oracle

def inside_any(filt, p):
    return any(f == "" or p == f or p.startswith(f + "/") for f in filt)


def is_err(out):
    return bool(out) and out[0].startswith("E:")


def oracle(ctx, sc, q, o, unfiltered):
    """property predicates on the real outputs of one query.  `unfiltered` are
    the outputs of the same scenario for filter None with the same flags."""
    src, tgt, extras = sc["src"], sc["tgt"], sc["extras"]
    sp, tp = paths(src), paths(tgt)
    truth = {i: true_record(src, tgt, sp, tp, i) for i in set(src) | set(tgt)}
    changed_ids = {i for i, (r, ch) in truth.items() if ch}
    filt = q["filt"]
    case = dict(src=src, tgt=tgt, extras=extras, mode=sc["mode"], query=q)
    missing = [p for p in (filt or []) if p not in sp.values() and p not in tp.values()]
    for impl in ("ds", "gwt", "chk", "grev"):
        out = o[impl]
        tag = "%s: " % impl
        if is_err(out):
            if out[0].startswith("E:PathsNotVersioned"):
                if not (q["reqv"] and missing):
                    ctx.violation(dict(case, impl=impl), tag + "PathsNotVersionedError although every filter path is versioned "
                                  "or require_versioned is off: %s" % out[0])
                elif out[0] != "E:PathsNotVersioned:" + ",".join(sorted(p or "." for p in missing)) and impl in ("chk", "grev"):
                    # (the dirstate paths2ids reports the whole filter, only the error kind is compared there)
                    ctx.violation(dict(case, impl=impl), tag + "wrong path list in %s, expected %r" % (out[0], missing))
                continue
            fam = None
            if out[0] == "E:Diverged":
                # _handle_precise_ids never finishes: an entry that moved to below the unchanged
                # entry now sitting at its old path is looked up, and asks for that entry, for ever
                # (fixed in /repo by the examined-ids commit: reported plainly, never as a known family;
                # the slug is kept in the text)
                slug = " [precise-ids-closure-never-terminates]" if impl != "ds" and filt and _burrowed(src, tgt, sp, tp, truth) else ""
                ctx.violation(dict(case, impl=impl), tag + "iter_changes does not terminate (it was stopped after %d id2path "
                              "calls / %d records)%s" % (step_budget(len(src) + len(tgt)), 4 * (len(src) + len(tgt)) + 16, slug))
                continue
            if impl == "ds" and filt and "lstat(" in out[0] and any(
                    _under_nondir(tgt, tp, extras, p) for p in list(filt) + list(sp.values())):
                fam = "dirstate-lstat-below-non-directory"
            ctx.violation(dict(case, impl=impl), tag + "comparison raised %s" % out[0], family=fam)
            continue
        if q["reqv"] and missing:
            ctx.violation(dict(case, impl=impl), tag + "no PathsNotVersionedError for unversioned filter paths %r" % missing)
        ver = [r for r in out if not r.startswith("~|")]
        unv = [r for r in out if r.startswith("~|")]
        ids = [r.split("|", 1)[0] for r in ver]
        # O5: no id twice
        dups = sorted({i for i in ids if ids.count(i) > 1})
        if dups:
            fam = None
            if impl == "ds" and filt and all(_under_relocated_path(sp, tp, d) for d in dups):
                fam = "dirstate-duplicate-under-relocated-path"
            slug = ""
            if fam is None and filt and all(_displaces(src, tgt, sp, tp, d) for d in dups):
                # (fixed in /repo by the examined-ids commit: reported plainly)
                slug = " [precise-ids-reemits-displaced-entry]"
            ctx.violation(dict(case, impl=impl), tag + "ids reported twice: %r%s" % (dups, slug), family=fam)
        # O-rec: every record is the true record of its id
        wrong = []
        for r in sorted(set(ver)):
            i = r.split("|", 1)[0]
            if i not in truth or truth[i][0] != r:
                wrong.append((r, truth.get(i, ("<unknown id>",))[0]))
        if wrong:
            fam = None
            pr = [parse_record(w[0]) for w in wrong]
            if impl == "chk" and q["incl"] and all(
                    p["sp"] == p["tp"] and w[0].split("|")[3:] == w[1].split("|")[3:] and w[1].split("|")[1] != w[1].split("|")[2]
                    for p, w in zip(pr, wrong)):
                fam = "chk-unchanged-source-path-under-renamed-directory"
            elif impl == "gwt" and filt and all((not p["v"][0]) and p["id"] in src for p in pr):
                fam = "generic-wt-source-entry-not-found"
            ctx.violation(dict(case, impl=impl), tag + "wrong record(s): reported %s, true %s" % wrong[0], family=fam)
            continue
        emitted = set(ids)
        em_changed = {i for i in emitted if truth[i][1]}
        em_unchanged = emitted - em_changed
        if not q["incl"] and em_unchanged:
            ctx.violation(dict(case, impl=impl), tag + "unchanged entries reported without include_unchanged: %r" % sorted(em_unchanged))
        if filt is None:
            # O1: the unfiltered records turn the source into the target
            applied = py_apply(src, tgt, [r for r in ver if truth[r.split("|", 1)[0]][1]])
            if applied != tgt:
                diff = sorted(i for i in set(applied) | set(tgt) if applied.get(i) != tgt.get(i))
                ctx.violation(dict(case, impl=impl), tag + "applying the reported changes to the source does not give the "
                              "target; ids that differ: %r" % diff)
            if q["incl"] and em_unchanged != set(tgt) - changed_ids:
                ctx.violation(dict(case, impl=impl), tag + "include_unchanged: unchanged ids %r, expected %r" % (
                    sorted(em_unchanged), sorted(set(tgt) - changed_ids)))
            exp_unv = sorted(extras) if q["unv"] and impl in ("ds", "gwt") else []
            got_unv = sorted(r.split("|")[2] for r in unv)
            if got_unv != exp_unv:
                ctx.violation(dict(case, impl=impl), tag + "unversioned paths %r, expected %r" % (got_unv, exp_unv))
        elif filt == []:
            if out:
                ctx.violation(dict(case, impl=impl), tag + "empty filter but %d records" % len(out))
        else:
            # O3: every change at or below a filter path is there
            must = {i for i in changed_ids if (sp.get(i) is not None and inside_any(filt, sp[i])) or
                    (tp.get(i) is not None and inside_any(filt, tp[i]))}
            if not must <= em_changed:
                ctx.violation(dict(case, impl=impl), tag + "changes under the filter paths are missing: %r" % sorted(must - em_changed))
            # O4: applying the filtered result keeps the tree well-formed
            applied = py_apply(src, tgt, [r for r in sorted(set(ver)) if truth[r.split("|", 1)[0]][1]])
            bad = wf_tree(applied)
            if bad:
                fam = None
                # (filter_wf_partial: impossible for the generic / CHK comparison unless some id takes a
                # (parent id, name) slot that another id holds in the source)
                if all(x.startswith("duplicate name") for x in bad) and not no_slot_occupant(src, tgt):
                    if impl == "ds":
                        # the compiled comparison does not look for displaced entries at all
                        if _displaced_unreported(src, tgt, sp, tp, em_changed, filt, any_id=True):
                            fam = "dirstate-displaced-entry-not-reported"
                    elif _displaced_unreported(src, tgt, sp, tp, em_changed, filt):
                        fam = "displaced-entry-not-reported"
                ctx.violation(dict(case, impl=impl), tag + "applying the filtered changes to the source gives an ill-formed tree: %s" % bad[:3],
                              family=fam)
            # O8 (filter_ancestor_closed, read on the real output): every ancestor, in the target, of a
            # reported entry is reported too or is no change at all
            lost = set()
            for i in em_changed:
                a = tgt[i]["parent"] if i in tgt else None
                while a is not None and a in tgt:
                    if a not in emitted and truth[a][1]:
                        lost.add(a)
                    a = tgt[a]["parent"]
            if lost:
                ctx.violation(dict(case, impl=impl), tag + "ancestors of reported entries are changed but not reported: %r" % sorted(lost))
            if q["unv"] and impl in ("ds", "gwt"):
                need = {p for p in extras if inside_any(filt, p)}
                got = {r.split("|")[2] for r in unv}
                if not need <= got:
                    fam = None
                    if impl == "ds" and all(p in sp.values() for p in need - got):
                        fam = "dirstate-unversioned-at-formerly-versioned-path"
                    ctx.violation(dict(case, impl=impl), tag + "unversioned paths under the filter missing: %r" % sorted(need - got), family=fam)
            elif unv:
                ctx.violation(dict(case, impl=impl), tag + "unversioned records although not requested")
    # O6/O7 on the *changes* (records of ids that really differ) and the unchanged ids
    def split(out):
        ver = set(r for r in out if not r.startswith("~|"))
        ch = {r for r in ver if r.split("|", 1)[0] in truth and truth[r.split("|", 1)[0]][1]}
        return ch, {r.split("|", 1)[0] for r in ver - ch}
    sib = unfiltered            # outputs of the same filter/flags with include_unchanged=False
    names = dict(chk="InterCHKRevisionTree", ds="InterDirStateTree", gwt="InterInventoryTree(basis, wt)", grev="InterInventoryTree")
    if q["incl"] and sib is not None:
        # O6: include_unchanged must only add unchanged records
        for key in ("ds", "gwt", "chk", "grev"):
            if is_err(o[key]) or is_err(sib[key]):
                continue
            c1, _ = split(o[key])
            c0, _ = split(sib[key])
            if c1 != c0:
                fam = None
                if key in ("gwt", "grev") and filt and c0 <= c1:
                    fam = "generic-include-unchanged-widens-closure"
                ctx.violation(dict(case, impl=key), "%s: include_unchanged changes the set of *changes* reported: extra %r, lost %r" % (
                    names[key], sorted(c1 - c0)[:3], sorted(c0 - c1)[:3]), family=fam)
        if not is_err(o["grev"]):
            _, ug = split(o["grev"])
            for key in ("chk", "ds"):
                if is_err(o[key]):
                    continue
                _, uo = split(o[key])
                if (key == "chk" and uo != ug) or (key == "ds" and not ug <= uo):
                    ctx.violation(dict(case, impl=key + "/grev"), "%s and InterInventoryTree (include_unchanged) report different unchanged "
                                  "entries: %r vs %r" % (names[key], sorted(uo), sorted(ug)))
    if not q["incl"] and not is_err(o["grev"]):
        # O7: optimised == generic
        cg, _ = split(o["grev"])
        for key in ("chk", "ds"):
            if is_err(o[key]):
                continue
            co, _ = split(o[key])
            if co != cg:
                fam = None
                if filt and key == "ds" and cg <= co and all(
                        _under_relocated_path(sp, tp, r.split("|", 1)[0]) for r in co - cg):
                    fam = "dirstate-path-closure-superset"
                ctx.violation(dict(case, impl=key + "/grev"), "%s and InterInventoryTree report different changes: only optimised %r, "
                              "only generic %r" % (names[key], sorted(co - cg)[:3], sorted(cg - co)[:3]), family=fam)
    return case


def _under_nondir(tgt, tp, extras, p):
    """a proper prefix of p is a non-directory in the target (on disk)"""
    parts = p.split("/")
    by_path = {v: k for k, v in tp.items()}
    for k in range(1, len(parts)):
        pre = "/".join(parts[:k])
        i = by_path.get(pre)
        if (i is not None and tgt[i]["kind"] != "directory") or extras.get(pre) == "file":
            return True
    return False


def _burrowed(src, tgt, sp, tp, truth):
    """some entry o sits, in the target, below an *unchanged* entry x (x != o) whose target
    path is o's source path"""
    for o in src:
        if o in tgt and sp[o] != tp[o]:
            for x in tgt:
                if x != o and x in src and not truth[x][1] and tp[x] == sp[o] and (
                        tp[x] == "" or tp[o].startswith(tp[x] + "/")):
                    return True
    return False


def _under_relocated_path(sp, tp, i):
    """the source or target path of i is, or lies below, a path that is held by different ids
    (or by an id and by nothing) in the two trees: i itself or a directory above it was moved,
    renamed, replaced or removed"""
    by_s = {v: k for k, v in sp.items()}
    by_t = {v: k for k, v in tp.items()}
    for pth in ([sp[i]] if i in sp else []) + ([tp[i]] if i in tp else []):
        parts = pth.split("/") if pth else []
        for k in range(1, len(parts) + 1):
            pre = "/".join(parts[:k])
            if by_s.get(pre) != by_t.get(pre):
                return True
    return False


def _displaces(src, tgt, sp, tp, d):
    """d sits in the source where another id sits in the target"""
    return d in sp and any(tp[p] == sp[d] for p in tgt if p != d)


def _select_ids(src, tgt, sp, tp, filt):
    """find_ids_across_trees: ids at the filter paths in either tree, closed under children in either tree"""
    sel = {i for i in src if sp[i] in filt} | {i for i in tgt if tp[i] in filt}
    while True:
        more = {c for t in (src, tgt) for c, e in t.items() if e["parent"] in sel} - sel
        if not more:
            return sel
        sel |= more


def _displaced_unreported(src, tgt, sp, tp, emitted, filt, any_id=False):
    """every name clash of the applied tree is of the kind the anchored code does not
    look for: an emitted id that was *selected by the filter* (or is itself a displaced
    source entry) moves onto a (parent, name) that a non-emitted source id occupies.
    (_handle_precise_ids looks for displaced entries only at the target paths of the
    parents it walks.)"""
    sel = _select_ids(src, tgt, sp, tp, filt)
    found = False
    for i in emitted:
        if i in tgt:
            k = (tgt[i]["parent"], tgt[i]["name"])
            for j, e in src.items():
                if j != i and j not in emitted and (e["parent"], e["name"]) == k:
                    # (third variant: the lookup is by *path*; below a renamed directory the
                    # occupant of the same (parent id, name) has another source path)
                    if any_id or i in sel or _displaces(src, tgt, sp, tp, i) or sp[j] != tp[i]:
                        found = True
                    else:
                        return False
    return found


def _chk_family(chk, grev, q):
    if not q["incl"]:
        return None
    only_c = set(chk) - set(grev)
    only_g = set(grev) - set(chk)
    strip = lambda r: r.split("|", 2)[0] + "|" + r.split("|", 2)[2]
    # differences only in the source path of unchanged records
    if {strip(r) for r in only_c} == {strip(r) for r in only_g}:
        return "chk-unchanged-source-path-under-renamed-directory"
    if q["filt"]:
        return "chk-include-unchanged-parents-not-closed"
    return None


# --------------------------------------------------------------------------

def check_scenario(ctx, sc, queries, res, cases, lines, impls, outs):
    if "infra" in res:
        raise env.InfraError(res["infra"])
    if "error" in res:
        # building the trees or reading them back crashed: never on the unchanged code
        ctx.count("scenario-error:" + res["error"].split(":")[0])
        ctx.extra.setdefault("scenario_errors", []).append(res["error"][:300])
        ctx.mismatch(dict(src=sc["src"], tgt=sc["tgt"], mode=sc["mode"]), impl=res["error"][:300] + " | " + res.get("tb", "")[-600:],
                     model="the generated trees can be built, committed and read back", tie="realisation")
        return
    ctx.extra["step_budget_max_used"] = round(max(ctx.extra.get("step_budget_max_used", 0.0), res.get("budget_used", 0.0)), 4)
    if not res["realized"]:
        ctx.count("realize-mismatch")
        ctx.mismatch(dict(src=sc["src"], tgt=sc["tgt"], mode=sc["mode"]), impl=res["readback"], model="generated trees", tie="realisation")
        return
    ctx.count("mode:" + sc["mode"])
    for k in sc["log"]:
        ctx.count("mut:" + k)
    ctx.count("entries:%d" % len(sc["tgt"]))
    if res["impls"].get("ds") != "InterDirStateTree" or res["impls"].get("chk") != "InterCHKRevisionTree":
        ctx.violation(dict(src=sc["src"], tgt=sc["tgt"]), "InterTree.get selected %r (expected InterDirStateTree for basis/working tree "
                      "and InterCHKRevisionTree for 2a revision trees)" % (res["impls"],))
    sp, tp = paths(sc["src"]), paths(sc["tgt"])
    truth = {i: true_record(sc["src"], sc["tgt"], sp, tp, i) for i in set(sc["src"]) | set(sc["tgt"])}
    nchanged = sum(1 for i in truth if truth[i][1])
    # ---- the hypotheses of the partial theorems, computed here and by the model -------------
    noslot, nopath = no_slot_occupant(sc["src"], sc["tgt"]), no_path_occupant(sc["src"], sc["tgt"], sp, tp)
    ctx.count("hyp:noSlotOccupant=%s" % b(noslot))
    ctx.count("hyp:noPathOccupant=%s" % b(nopath))
    hcase = dict(src=sc["src"], tgt=sc["tgt"], impl="hyp")
    cases.append(hcase)
    lines.append("hyp %s %s" % (enc_tree(sc["src"]), enc_tree(sc["tgt"])))
    impls.append("T T T %s %s" % (b(noslot), b(nopath)))
    outs.append(None)
    sent_app = set()
    sib = {}
    for q, o in zip(queries, res["out"]):
        if not q["incl"]:
            sib[(enc_filter(q["filt"]), q["unv"], q["reqv"])] = o
    for q, o in zip(queries, res["out"]):
        case = oracle(ctx, sc, q, o, sib.get((enc_filter(q["filt"]), q["unv"], q["reqv"])))
        ctx.case(dict(src=enc_tree(sc["src"]), tgt=enc_tree(sc["tgt"]), ex=enc_extras(sc["extras"]), q=q),
                 nontrivial=nchanged >= 1 and (bool(q["filt"]) or nchanged >= 2))
        ctx.count("filter:%s" % ("none" if q["filt"] is None else len(q["filt"])))
        for k in ("ds", "gwt", "chk", "grev"):
            if is_err(o[k]):
                ctx.count("err:%s:%s" % (k, o[k][0].split(":")[1]))
        # ---- T2 lines ----------------------------------------------------
        qrev = dict(q, unv=False)
        for impl, key in (("g", "grev"), ("c", "chk")):
            cases.append(dict(case, impl=key))
            lines.append(model_line(impl, qrev, sc))
            impls.append(";".join(o[key]) or "-")
            outs.append(o)
        if q["filt"] is None or q["filt"] == []:
            for key in ("ds", "gwt"):
                cases.append(dict(case, impl=key))
                lines.append(model_line("g", q, sc))
                impls.append(";".join(o[key]) or "-")
                outs.append(o)
        else:
            # bounded: model (changed records) <= reported <= unfiltered
            cases.append(dict(case, impl="bound"))
            lines.append(model_line("g", dict(q, incl=False, unv=False), sc))
            impls.append(None)
            outs.append(o)
        # ---- applying the reported records: applyChanges / wf against py_apply / wf_tree ------
        fkey = enc_filter(q["filt"])
        if not q["incl"] and not q["unv"] and fkey not in sent_app and not (q["reqv"] and any(
                p_ not in sp.values() and p_ not in tp.values() for p_ in (q["filt"] or []))):
            sent_app.add(fkey)
            for impl, key in (("g", "grev"), ("c", "chk")):
                out = o[key]
                if is_err(out):
                    exp = out[0] if out[0] == "E:Diverged" else None
                    applied = None
                else:
                    ver = [r for r in sorted(set(out)) if not r.startswith("~|")]
                    if any(r.split("|", 1)[0] not in truth or truth[r.split("|", 1)[0]][0] != r for r in ver):
                        continue        # wrong records: reported by the oracle
                    applied = py_apply(sc["src"], sc["tgt"], ver)
                    exp = "T %s %s" % (b(not wf_tree(applied)), b(applied == sc["tgt"]))
                if exp is not None:
                    cases.append(dict(case, impl=key + "/apply"))
                    lines.append(app_line(impl, q["filt"], sc))
                    impls.append(exp)
                    outs.append(None)
                    ctx.count("apply:" + exp.replace(" ", ""))
                if applied is not None and impl == "g" and applied and (wf_tree(applied) or ctx.rng.random() < 0.15):
                    # the model's `wf` on trees that are not well formed (and a sample of the others)
                    cases.append(dict(case, impl="wf", tree=applied))
                    lines.append("wf " + enc_tree(applied))
                    impls.append(b(not wf_tree(applied)))
                    outs.append(None)
        # ---- the partial theorems, read on the real outputs ------------------------------------
        if q["filt"] and not q["incl"]:
            for key in ("grev", "chk"):
                if o[key] == ["E:Diverged"] and nopath and FX[0] == "F":
                    ctx.violation(dict(case, impl=key), "%s: does not terminate although no target path is occupied in the source by "
                                  "another id (precise_terminates_partial)" % key)
                if o[key] == ["E:Diverged"] and FX[0] == "T":
                    ctx.violation(dict(case, impl=key), "%s: does not terminate although the loop has the examined-ids fix "
                                  "(fixed_loop_terminates)" % key)


def finish(ctx, cases, lines, impls, outs_by_case):
    if not lines:
        return
    replies = ctx.model(lines)
    for c, l, i, m, o in zip(cases, lines, impls, replies, outs_by_case):
        ctx.traces += 1
        if i is not None:
            if i != m:
                ctx.mismatch(c, i, m, line=l)
            continue
        # bound check for the filtered working-tree implementations
        if m.startswith("E:"):
            continue
        need = set() if m == "-" else set(m.split(";"))
        for key in ("ds", "gwt"):
            out = o[key]
            if is_err(out):
                continue
            if not need <= set(out):
                # a record the model demands is missing (wrong records are reported by the oracle)
                ids_out = {r.split("|", 1)[0] for r in out}
                lost = sorted(r for r in need - set(out) if r.split("|", 1)[0] not in ids_out)
                if lost:
                    ctx.mismatch(dict(c, impl=key), impl=sorted(out), model="must contain " + ";".join(lost), line=l, tie="T2-bound")


def run(ctx, nscen=None):
    os.environ["RUST_BACKTRACE"] = "0"
    nscen = nscen or ctx.pick(110, 400)
    nfilters = ctx.pick(5, 8)
    probe_variant(ctx)
    jobs = []
    for sc in corpus_scenarios():
        jobs.append((sc, gen_queries(ctx.rng, sc, nfilters) + sc.get("queries", [])))
    for k in range(nscen):
        sc = gen_scenario(ctx.rng, k, big=ctx.thorough())
        jobs.append((sc, gen_queries(ctx.rng, sc, nfilters)))
    results = ctx.pmap(_scenario_job, jobs)
    cases, lines, impls, outs = [], [], [], []
    for (sc, queries), res in zip(jobs, results):
        check_scenario(ctx, sc, queries, res, cases, lines, impls, outs)
    finish(ctx, cases, lines, impls, outs)


def widen(ctx):
    run(ctx, nscen=400)


def corpus_scenarios():
    import glob
    import json
    out = []
    for f in sorted(glob.glob(os.path.join(env.VERIF, "corpus", "C10", "*.json"))):
        d = json.load(open(f))
        out.append(dict(src=d["src"], tgt=d["tgt"], extras=d.get("extras", {}), mode=d.get("mode", "readd"), log=[],
                        idx=os.path.basename(f), queries=[d["query"]] if "query" in d else []))
    return out


def replay(ctx, case):
    sc = dict(src=case["src"], tgt=case["tgt"], extras=case.get("extras", {}), mode=case.get("mode", "readd"), log=[], idx="replay")
    q = case["query"]
    queries = [dict(q, incl=False), q]
    probe_variant(ctx)
    res = run_scenario(sc, queries)
    if not res.get("realized"):
        return dict(error="could not realise the trees", readback=res.get("readback"))
    o = res["out"][1]
    oracle(ctx, sc, q, o, res["out"][0])
    model = dict(g=ctx.model([model_line("g", dict(q, unv=False), sc)])[0], c=ctx.model([model_line("c", dict(q, unv=False), sc)])[0])
    return dict(impl=o, model=model, selected=res["impls"], oracle_failures=[v["what"] for v in ctx.violations],
                families=[v["family"] for v in ctx.violations])
