import BreezyVerif.Model.C14
import BreezyVerif.Generated.C14
/-! C14 — T1 tie: the keys of `CONFLICT_RESOLVERS`, the pass count of
`resolve_conflicts` and the code-variant flags found in the current source are
the ones the model uses. -/
namespace BreezyVerif.C14

/-- one representative of every conflict type `find_raw_conflicts` can report -/
def allConflictTypes : List Conflict :=
  [.unversionedParent 0, .parentLoop 0, .duplicate 0 0 "", .missingParent 0, .nonDirParent 0,
   .versioningNoContents 0, .unversionedExec 0, .nonFileExec 0, .overwrite 0 "", .duplicateId 0 0]

/-- the model has a resolver for a conflict type exactly when the source registers one
under that key, and the source registers no key the model does not know -/
theorem resolver_keys_match :
    (allConflictTypes.all fun c => c.hasResolver == resolverKeys.contains c.key) = true ∧
    (resolverKeys.all fun k => allConflictTypes.any fun c => c.key == k && c.hasResolver) = true := by
  decide +kernel

/-- `for n in range(10)` -/
theorem pass_count_matches : sourcePassCount = passCount := by decide

/-- the format bit of the extracted flag records -/
theorem flags_known : sourceFlagsBzr.git = false ∧ sourceFlagsGit.git = true ∧ sourceFlagsGit.dataByTreePath = true := by
  decide

/-- **the source is the repaired variant** the positive theorems of Props/C14 assume: both
extracted flag records have `previewFixed` (the preview accessors read an unmodified entry at its
tree path — hypothesis of `preview_entry_eq_final`, `preview_eq_apply_disk`,
`preview_eq_apply_per_path`) and `resolversFixed` (`by_parent().get`, guarded `cancel_creation`,
loops of new entries left alone). -/
theorem source_flags_fixed :
    sourceFlagsBzr.previewFixed = true ∧ sourceFlagsGit.previewFixed = true ∧
    sourceFlagsBzr.resolversFixed = true ∧ sourceFlagsGit.resolversFixed = true := by
  decide

end BreezyVerif.C14
