import BreezyVerif.Model.C28
import BreezyVerif.Lemmas.C28
/-!
C28 — lemmas for the working-tree layer (`Tree` over the guarded `Branch.stepG`)
and for "lock, then unlock again" roll-backs (`took_lock` in `BzrBranch.lock_*`,
`except: self.branch.unlock(); raise` in the working trees).
-/
namespace BreezyVerif.C28

/-! ### lock state without the stale `_token_from_lock` attribute -/

/-- `core` with `_token_from_lock` erased: the attribute is (re)assigned by every first
`lock_write` and never cleared, it is not part of the lock state -/
def LF.lcore (s : LF) : LF := { s.core with tokenFromLock := none }
def Branch.lcore (s : Branch) : Branch := { cf := s.cf.lcore, repo := s.repo.core }
def Tree.lcore (s : Tree) : Tree := { cf := s.cf.lcore, branch := s.branch.lcore }

theorem LF.lcore_of_core {a b : LF} (h : a.core = b.core) : a.lcore = b.lcore := by
  simp only [LF.lcore, h]

theorem Branch.lcore_of_core {a b : Branch} (h : a.core = b.core) : a.lcore = b.lcore := by
  have h1 : a.cf.core = b.cf.core := by
    have := congrArg Branch.cf h
    simpa [Branch.core] using this
  have h2 : a.repo.core = b.repo.core := by
    have := congrArg Branch.repo h
    simpa [Branch.core] using this
  simp only [Branch.lcore, LF.lcore_of_core h1, h2]

theorem LF.lcore_count {a b : LF} (h : a.lcore = b.lcore) : a.count = b.count := by
  have := congrArg LF.count h
  simpa [LF.lcore, LF.core] using this

theorem LF.core_count {a b : LF} (h : a.core = b.core) : a.count = b.count := by
  have := congrArg LF.count h
  simpa [LF.core] using this

theorem Repo.core_depth {a b : Repo} (h : a.core = b.core) : a.depth = b.depth := by
  have h1 : a.wcount = b.wcount := by
    have := congrArg Repo.wcount h
    simpa [Repo.core] using this
  have h2 : a.cf.core = b.cf.core := by
    have := congrArg Repo.cf h
    simpa [Repo.core] using this
  simp only [Repo.depth, h1, LF.core_count h2]

theorem Branch.lcore_counts {a b : Branch} (h : a.lcore = b.lcore) :
    a.cf.count = b.cf.count ∧ a.repo.depth = b.repo.depth :=
  ⟨LF.lcore_count (by have := congrArg Branch.cf h; simpa [Branch.lcore] using this),
   Repo.core_depth (by have := congrArg Branch.repo h; simpa [Branch.lcore] using this)⟩

/-! ### the guarded branch step -/

theorem Branch.stepG_eq (s : Branch) (o : SOp) (hg : ¬ (o = .branch .unlock ∧ s.cf.count = 0)) :
    s.stepG o = s.step o := by
  cases o with
  | repo o => rfl
  | branch o =>
    cases o with
    | lockRead => rfl
    | lockWrite t => rfl
    | unlock =>
      have hc : 0 < s.cf.count := by
        cases hc : s.cf.count with
        | zero => exact absurd ⟨rfl, hc⟩ hg
        | succ n => omega
      have : s.isLocked = true := by simp [Branch.isLocked, LF.isLocked]; omega
      simp [Branch.stepG, Branch.step, this]

theorem Branch.stepG_guard (s : Branch) (hc : s.cf.count = 0) :
    s.stepG (.branch .unlock) = (s, .error .notHeld) := by
  have : s.isLocked = false := by simp [Branch.isLocked, LF.isLocked, hc]
  simp [Branch.stepG, this]

theorem Branch.inv_stepG {s : Branch} (h : s.Inv) (o : SOp) : (s.stepG o).1.Inv := by
  by_cases hg : o = .branch .unlock ∧ s.cf.count = 0
  · rw [hg.1, Branch.stepG_guard s hg.2]; exact h
  · rw [Branch.stepG_eq s o hg]; exact Branch.inv_step h o

/-! ### lock, then unlock again -/

/-- taking a write lock on control files and giving it back restores the lock state -/
theorem LF.lockWrite_unlock_lcore {s s' : LF} (h : s.Inv) {tok t : Option Nat}
    (e : s.lockWrite tok = (s', .ok t)) : ∃ s'', s'.unlock = (s'', .ok none) ∧ s''.lcore = s.lcore := by
  obtain ⟨h1, ht, h2, h3⟩ := h
  unfold LF.lockWrite at e
  split at e
  · next hm =>
    have hc := h2.mp hm
    split at e
    · cases e
    · split at e
      · cases e
      · injection e with e1 _; subst e1
        refine ⟨s, ?_, rfl⟩
        have : s.mode.isNone = false := by
          cases hmm : s.mode with
          | none => simp [hmm] at hm
          | some _ => rfl
        have h1' : s.count + 1 > 1 := by omega
        simp only [LF.unlock, this, Bool.false_eq_true, if_false, h1', if_true]
        cases s; simp
  · next hm =>
    have hmn : s.mode = none := by simpa using hm
    have htn : s.txn = none := by rw [ht]; exact hmn
    have hh : s.phys.held = none := by rw [← h1]; exact hmn
    have hc : s.count = 0 := by
      have : ¬ 0 < s.count := fun h => hm (h2.mpr h)
      omega
    split at e
    · cases e
    · next p t' hp =>
      simp only [htn, Option.isSome_none, Bool.false_eq_true, if_false] at e
      have e1 := (Prod.mk.inj e).1
      refine ⟨s'.unlock.1, ?_, ?_⟩ <;> rw [← e1]
      · simp [LF.unlock]
      · unfold Phys.lockWrite at hp
        cases tok with
        | some tk =>
          simp only at hp
          split at hp
          · injection hp with hp; injection hp with hp1 _; subst hp1
            simp only [LF.unlock, LF.lcore, LF.core, Phys.core, Phys.unlock]
            cases s with
            | mk mode count txn tfl phys =>
              cases phys
              simp_all
          · cases hp
        | none =>
          simp only at hp
          split at hp
          · cases hp
          · next hd =>
            injection hp with hp; injection hp with hp1 _; subst hp1
            simp only [LF.unlock, LF.lcore, LF.core, Phys.core, Phys.unlock]
            cases s with
            | mk mode count txn tfl phys =>
              cases phys
              simp_all

/-- `lock_write(None)` on control files that are already locked: granted, or refused
with `ReadOnlyError` -/
theorem LF.lockWrite_none_locked {s : LF} (h : s.Inv) (hc : 0 < s.count) :
    (∃ s' t, s.lockWrite none = (s', .ok t)) ∨ s.lockWrite none = (s, .error .readOnly) := by
  have hm : s.mode.isSome = true := h.mode_count.mpr hc
  unfold LF.lockWrite
  simp only [hm, if_true]
  split
  · right; rfl
  · left; simp [Phys.validate]

/-- A granted `lock_read` / `lock_write` of a branch followed by `unlock` restores the
lock state of the whole branch/repository stack. -/
theorem Branch.lock_unlock_lcore {s b : Branch} (h : s.Inv) (o : Op) (ho : o ≠ .unlock)
    {t : Option Nat} (e : s.stepG (.branch o) = (b, .ok t)) :
    ∃ b', b.stepG (.branch .unlock) = (b', .ok none) ∧ b'.lcore = s.lcore := by
  have hb : b.Inv := by have := Branch.inv_stepG h (.branch o); rw [e] at this; exact this
  cases o with
  | unlock => exact absurd rfl ho
  | lockRead =>
    simp only [Branch.stepG, Branch.step, Branch.lockRead] at e
    by_cases hl : s.isLocked = true
    · have hc : 0 < s.cf.count := by simp [Branch.isLocked, LF.isLocked] at hl; omega
      simp only [hl, Bool.not_true, Bool.false_eq_true, if_false] at e
      cases hcf : s.cf.lockRead with
      | mk cf' r =>
        rw [hcf] at e
        cases r with
        | error e' => simp [Branch.finishLock] at e
        | ok t' =>
          simp only [Branch.finishLock] at e
          have e1 := (Prod.mk.inj e).1
          obtain ⟨cf'', eu, hcore⟩ := LF.lockRead_unlock_core h.cf hcf
          have hcnt := LF.core_count hcore
          have hl' : b.isLocked = true := by
            rw [← e1]
            obtain ⟨w, ec, hcc, _⟩ := (LF.lockRead_spec h.cf).resolve_left (by intro hx; omega)
            rw [hcf] at ec
            have ecf : cf' = w := (Prod.mk.inj ec).1
            rw [ecf]
            simp [Branch.isLocked, LF.isLocked]; omega
          have hl'' : cf''.isLocked = true := by simp [LF.isLocked]; omega
          refine ⟨{ s with cf := cf'' }, ?_, ?_⟩
          · rw [← e1] at hl' ⊢
            simp only [Branch.stepG, hl', Bool.not_true, Bool.false_eq_true, if_false, Branch.unlock, eu, hl'']
          · simp only [Branch.lcore, LF.lcore_of_core hcore]
    · have hc : s.cf.count = 0 := by simp [Branch.isLocked, LF.isLocked] at hl; omega
      simp only [hl, Bool.not_false, if_true] at e
      cases hrr : s.repo.lockRead with
      | mk repo r =>
        rw [hrr] at e
        cases r with
        | error e' => simp at e
        | ok t' =>
          simp only at e
          obtain ⟨r', eur, hrcore⟩ := Repo.lockRead_unlock_core h.repo hrr
          cases hcf : s.cf.lockRead with
          | mk cf' r2 =>
            rw [hcf] at e
            cases r2 with
            | error e' =>
              simp only [Branch.finishLock, if_true] at e
              cases hu : repo.unlock with
              | mk r3 res => rw [hu] at e; cases res <;> simp at e
            | ok t2 =>
              simp only [Branch.finishLock] at e
              have e1 := (Prod.mk.inj e).1
              obtain ⟨cf'', eu, hcore⟩ := LF.lockRead_unlock_core h.cf hcf
              have hcnt := LF.core_count hcore
              obtain ⟨w, ec, hcc, _⟩ := (LF.lockRead_spec h.cf).resolve_left (by
                intro hx; rw [hx.2.2] at hcf; cases hcf)
              rw [hcf] at ec
              have ecf : cf' = w := (Prod.mk.inj ec).1
              have hl' : cf'.isLocked = true := by rw [ecf]; simp [LF.isLocked]; omega
              have hl'' : cf''.isLocked = false := by simp [LF.isLocked]; omega
              refine ⟨{ cf := cf'', repo := r' }, ?_, ?_⟩
              · rw [← e1]
                simp only [Branch.stepG, Branch.isLocked, hl', Bool.not_true, Bool.false_eq_true, if_false,
                  Branch.unlock, eu, hl'', Bool.not_false, if_true, eur]
              · simp only [Branch.lcore, LF.lcore_of_core hcore, hrcore]
  | lockWrite tok =>
    simp only [Branch.stepG, Branch.step, Branch.lockWrite] at e
    by_cases hl : s.isLocked = true
    · have hc : 0 < s.cf.count := by simp [Branch.isLocked, LF.isLocked] at hl; omega
      simp only [hl, Bool.not_true, Bool.false_eq_true, if_false] at e
      cases hcf : s.cf.lockWrite tok with
      | mk cf' r =>
        rw [hcf] at e
        cases r with
        | error e' => simp [Branch.finishLock] at e
        | ok t' =>
          simp only [Branch.finishLock] at e
          have e1 := (Prod.mk.inj e).1
          obtain ⟨cf'', eu, hcore⟩ := LF.lockWrite_unlock_lcore h.cf hcf
          have hcnt := LF.lcore_count hcore
          have hcc : cf'.count = s.cf.count + 1 := by
            have hm : s.cf.mode.isSome = true := h.cf.mode_count.mpr hc
            unfold LF.lockWrite at hcf
            simp only [hm, if_true] at hcf
            split at hcf
            · cases hcf
            · split at hcf
              · cases hcf
              · have := (Prod.mk.inj hcf).1; rw [← this]
          have hl' : cf'.isLocked = true := by simp [LF.isLocked]; omega
          have hl'' : cf''.isLocked = true := by simp [LF.isLocked]; omega
          refine ⟨{ s with cf := cf'' }, ?_, ?_⟩
          · rw [← e1]
            simp only [Branch.stepG, Branch.isLocked, hl', Bool.not_true, Bool.false_eq_true, if_false,
              Branch.unlock, eu, hl'']
          · simp only [Branch.lcore, hcore]
    · have hc : s.cf.count = 0 := by simp [Branch.isLocked, LF.isLocked] at hl; omega
      simp only [hl, Bool.not_false, if_true] at e
      cases hrr : s.repo.lockWrite none with
      | mk repo r =>
        rw [hrr] at e
        cases r with
        | error e' => simp at e
        | ok t' =>
          simp only at e
          obtain ⟨r', eur, hrcore⟩ := Repo.lockWrite_unlock_core h.repo hrr
          rcases LF.lockWrite_unlocked h.cf hc tok with ⟨e', ew⟩ | ⟨cf', t2, ew, hc1⟩
          · exfalso
            simp only [ew, Branch.finishLock, if_true] at e
            cases hu : repo.unlock with
            | mk r3 res => rw [hu] at e; cases res <;> simp at e
          · rw [ew] at e
            simp only [Branch.finishLock] at e
            have e1 := (Prod.mk.inj e).1
            obtain ⟨cf'', eu, hcore⟩ := LF.lockWrite_unlock_lcore h.cf ew
            have hcnt := LF.lcore_count hcore
            have hl' : cf'.isLocked = true := by simp [LF.isLocked]; omega
            have hl'' : cf''.isLocked = false := by simp [LF.isLocked]; omega
            refine ⟨{ cf := cf'', repo := r' }, ?_, ?_⟩
            · rw [← e1]
              simp only [Branch.stepG, Branch.isLocked, hl', Bool.not_true, Bool.false_eq_true, if_false,
                Branch.unlock, eu, hl'', Bool.not_false, if_true, eur]
            · simp only [Branch.lcore, hcore, hrcore]

/-- `unlock` of a locked branch that holds its repository is granted -/
theorem Branch.unlock_ok {s : Branch} (h : s.Inv) (hcons : s.Consistent) (hc : 0 < s.cf.count) :
    ∃ b, s.stepG (.branch .unlock) = (b, .ok none) ∧ b.cf.count + 1 = s.cf.count := by
  have hl : s.isLocked = true := by simp [Branch.isLocked, LF.isLocked]; omega
  simp only [Branch.stepG, hl, Bool.not_true, Bool.false_eq_true, if_false, Branch.unlock]
  rcases LF.unlock_spec h.cf with ⟨hc0, _⟩ | ⟨_, cf', eu, hcc, _⟩
  · omega
  · rw [eu]
    simp only
    by_cases h1 : 1 ≤ cf'.count
    · have : (!cf'.isLocked) = false := by simp [LF.isLocked, h1]
      simp only [this, Bool.false_eq_true, if_false]
      exact ⟨_, rfl, hcc⟩
    · have : (!cf'.isLocked) = true := by simp [LF.isLocked, h1]
      simp only [this, if_true]
      have hdp : 0 < s.repo.depth := hcons hc
      rcases Repo.unlock_spec h.repo with ⟨hd, _⟩ | ⟨_, er⟩ | ⟨_, _, _, _, _, _, er⟩
      · omega
      · rw [er]; exact ⟨_, rfl, hcc⟩
      · rw [er]; exact ⟨_, rfl, hcc⟩

/-! ### the tree layer -/

structure Tree.Inv (s : Tree) : Prop where
  cf : s.cf.Inv
  branch : s.branch.Inv

/-- every tree lock holds a branch lock, and the branch holds its repository (violated
only when a caller unlocks the branch or the repository behind the tree's back) -/
structure Tree.Consistent (s : Tree) : Prop where
  tree : 0 < s.cf.count → 0 < s.branch.cf.count
  branch : s.branch.Consistent

theorem Tree.inv_init (ext rbT rbB rbR : Bool) : (Tree.init ext rbT rbB rbR).Inv :=
  ⟨LF.inv_init ext rbT, Branch.inv_init ext rbB rbR⟩

theorem Tree.lockSelf_inv {s : Tree} (h : s.Inv) (r : LF × Res) (hr : r.1.Inv) :
    (s.lockSelf r).1.Inv := by
  obtain ⟨cf, res⟩ := r
  cases res with
  | ok t => exact ⟨hr, h.branch⟩
  | error e =>
    have hu := Branch.inv_stepG h.branch (.branch .unlock)
    simp only [Tree.lockSelf]
    rcases hx : s.branch.stepG (.branch .unlock) with ⟨b, r'⟩
    rw [hx] at hu
    cases r' <;> exact ⟨hr, hu⟩

theorem Tree.lockVia_inv {s : Tree} (h : s.Inv) (bo : Op) (self : LF → LF × Res)
    (hself : ∀ cf : LF, cf.Inv → (self cf).1.Inv) : (s.lockVia bo self).1.Inv := by
  have hb := Branch.inv_stepG h.branch (.branch bo)
  simp only [Tree.lockVia]
  rcases hx : s.branch.stepG (.branch bo) with ⟨b, r⟩
  rw [hx] at hb
  cases r with
  | error e => exact ⟨h.cf, hb⟩
  | ok t => exact Tree.lockSelf_inv (s := { s with branch := b }) ⟨h.cf, hb⟩ _ (hself _ h.cf)

theorem Tree.unlock_inv {s : Tree} (h : s.Inv) : s.unlock.1.Inv := by
  have hc := LF.unlock_inv h.cf
  have hu := Branch.inv_stepG h.branch (.branch .unlock)
  simp only [Tree.unlock]
  rcases hx : s.cf.unlock with ⟨cf, r⟩
  rw [hx] at hc
  simp only
  rcases hy : s.branch.stepG (.branch .unlock) with ⟨b, r'⟩
  rw [hy] at hu
  cases r' <;> exact ⟨hc, hu⟩

theorem Tree.inv_step {s : Tree} (h : s.Inv) (o : TOp) : (s.step o).1.Inv := by
  cases o with
  | tree o =>
    cases o with
    | lockRead => exact Tree.lockVia_inv h _ _ (fun _ hc => LF.lockRead_inv hc)
    | lockTreeWrite => exact Tree.lockVia_inv h _ _ (fun _ hc => LF.lockWrite_inv hc none)
    | lockWrite => exact Tree.lockVia_inv h _ _ (fun _ hc => LF.lockWrite_inv hc none)
    | unlock => exact Tree.unlock_inv h
  | branch o => exact ⟨h.cf, Branch.inv_stepG h.branch (.branch o)⟩
  | repo o => exact ⟨h.cf, Branch.inv_stepG h.branch (.repo o)⟩

theorem Tree.stepG_eq (s : Tree) (o : TOp) (hg : ¬ (o = .tree .unlock ∧ s.cf.count = 0)) :
    s.stepG o = s.step o := by
  cases o with
  | branch o => rfl
  | repo o => rfl
  | tree o =>
    cases o with
    | lockRead => rfl
    | lockTreeWrite => rfl
    | lockWrite => rfl
    | unlock =>
      have hc : 0 < s.cf.count := by
        cases hc : s.cf.count with
        | zero => exact absurd ⟨rfl, hc⟩ hg
        | succ n => omega
      have : s.isLocked = true := by simp [Tree.isLocked, LF.isLocked]; omega
      simp [Tree.stepG, Tree.step, this]

theorem Tree.stepG_guard (s : Tree) (hc : s.cf.count = 0) :
    s.stepG (.tree .unlock) = (s, .error .notHeld) := by
  have : s.isLocked = false := by simp [Tree.isLocked, LF.isLocked, hc]
  simp [Tree.stepG, this]

theorem Tree.inv_stepG {s : Tree} (h : s.Inv) (o : TOp) : (s.stepG o).1.Inv := by
  by_cases hg : o = .tree .unlock ∧ s.cf.count = 0
  · rw [hg.1, Tree.stepG_guard s hg.2]; exact h
  · rw [Tree.stepG_eq s o hg]; exact Tree.inv_step h o

theorem Tree.inv_run {s : Tree} (h : s.Inv) (ops : List TOp) : (s.run ops).Inv := by
  induction ops generalizing s with
  | nil => exact h
  | cons o ops ih => exact ih (Tree.inv_step h o)

theorem Tree.inv_runG {s : Tree} (h : s.Inv) (ops : List TOp) : (s.runG ops).Inv := by
  induction ops generalizing s with
  | nil => exact h
  | cons o ops ih => exact ih (Tree.inv_stepG h o)

/-! ### what a granted / refused tree call consists of -/

/-- the call a tree operation makes on its own control files -/
def TreeOp.cfOp : TreeOp → Op
  | .lockRead => .lockRead
  | .lockTreeWrite => .lockWrite none
  | .lockWrite => .lockWrite none
  | .unlock => .unlock

/-- the call a tree operation makes on its branch -/
def TreeOp.branchOp : TreeOp → Op
  | .lockRead => .lockRead
  | .lockTreeWrite => .lockRead
  | .lockWrite => .lockWrite none
  | .unlock => .unlock

theorem Branch.stepG_repo (s : Branch) (o : Op) :
    s.stepG (.repo o) = ({ s with repo := (s.repo.step o).1 }, (s.repo.step o).2) := by
  simp only [Branch.stepG, Branch.step]

theorem Tree.lockVia_ok {s s' : Tree} {bo : Op} {self : LF → LF × Res} {t : Option Nat}
    (e : s.lockVia bo self = (s', .ok t)) :
    ∃ tb tc, (s.branch.stepG (.branch bo)).2 = .ok tb ∧ (self s.cf).2 = .ok tc ∧
      s' = { cf := (self s.cf).1, branch := (s.branch.stepG (.branch bo)).1 } := by
  simp only [Tree.lockVia] at e
  rcases hb : s.branch.stepG (.branch bo) with ⟨b, rb⟩
  rw [hb] at e
  cases rb with
  | error e' => simp at e
  | ok tb =>
    simp only [Tree.lockSelf] at e
    rcases hc : self s.cf with ⟨cf', rc⟩
    rw [hc] at e
    cases rc with
    | ok tc =>
      simp only at e
      exact ⟨tb, tc, rfl, rfl, (Prod.mk.inj e).1.symm⟩
    | error e' =>
      simp only at e
      rcases hu : b.stepG (.branch .unlock) with ⟨b2, ru⟩
      rw [hu] at e
      cases ru <;> simp at e

theorem Tree.step_ok {s : Tree} (o : TreeOp) {t : Option Nat} (hr : (s.step (.tree o)).2 = .ok t) :
    ∃ tb tc, (s.branch.stepG (.branch o.branchOp)).2 = .ok tb ∧ (s.cf.step o.cfOp).2 = .ok tc ∧
      (s.step (.tree o)).1 =
        { cf := (s.cf.step o.cfOp).1, branch := (s.branch.stepG (.branch o.branchOp)).1 } := by
  cases o with
  | lockRead =>
    exact Tree.lockVia_ok (s := s) (s' := (s.step (.tree .lockRead)).1) (t := t) (Prod.ext rfl hr)
  | lockTreeWrite =>
    exact Tree.lockVia_ok (s := s) (s' := (s.step (.tree .lockTreeWrite)).1) (t := t) (Prod.ext rfl hr)
  | lockWrite =>
    exact Tree.lockVia_ok (s := s) (s' := (s.step (.tree .lockWrite)).1) (t := t) (Prod.ext rfl hr)
  | unlock =>
    simp only [Tree.step, Tree.unlock, TreeOp.cfOp, TreeOp.branchOp, LF.step] at hr ⊢
    rcases hc : s.cf.unlock with ⟨cf', rc⟩
    rw [hc] at hr
    simp only at hr ⊢
    rcases hb : s.branch.stepG (.branch .unlock) with ⟨b, rb⟩
    rw [hb] at hr
    cases rb with
    | error e' => simp at hr
    | ok tb =>
      simp only at hr ⊢
      exact ⟨tb, t, rfl, hr, trivial⟩

/-- a refused tree lock call leaves the lock state unchanged, given that the refused
branch call underneath does (`hbr`) and the refused call on the tree's own control
files does (`hself`): the branch lock taken first is given back -/
theorem Tree.lockVia_refused {s : Tree} (h : s.Inv) (bo : Op) (hbo : bo ≠ .unlock) (self : LF → LF × Res)
    (hself : ∀ e, (self s.cf).2 = .error e → (self s.cf).1 = s.cf)
    (hbr : ∀ e, (s.branch.stepG (.branch bo)).2 = .error e →
      (s.branch.stepG (.branch bo)).1.core = s.branch.core)
    {e : Err} (hr : (s.lockVia bo self).2 = .error e) : (s.lockVia bo self).1.lcore = s.lcore := by
  simp only [Tree.lockVia] at hr ⊢
  rcases hb : s.branch.stepG (.branch bo) with ⟨b, rb⟩
  rw [hb] at hr hbr
  cases rb with
  | error e' =>
    simp only [Tree.lcore, Branch.lcore_of_core (hbr e' rfl)]
  | ok tb =>
    simp only [Tree.lockSelf] at hr ⊢
    rcases hc : self s.cf with ⟨cf', rc⟩
    rw [hc] at hr hself
    cases rc with
    | ok tc => simp at hr
    | error e1 =>
      have hcf : cf' = s.cf := hself e1 rfl
      obtain ⟨b', eu, hl⟩ := Branch.lock_unlock_lcore h.branch bo hbo hb
      simp only [eu, Tree.lcore, hl, hcf]

/-- the result of a tree lock call whose own control files refuse with `e1` while the
branch call underneath is granted: `e1`, after the roll-back -/
theorem Tree.lockVia_self_refused {s : Tree} (h : s.Inv) (bo : Op) (hbo : bo ≠ .unlock) (self : LF → LF × Res)
    {b : Branch} {tb : Option Nat} (hb : s.branch.stepG (.branch bo) = (b, .ok tb))
    {e1 : Err} (hc : (self s.cf).2 = .error e1) : (s.lockVia bo self).2 = .error e1 := by
  simp only [Tree.lockVia, hb, Tree.lockSelf]
  rcases hcc : self s.cf with ⟨cf', rc⟩
  rw [hcc] at hc
  simp only at hc
  subst hc
  obtain ⟨b', eu, _⟩ := Branch.lock_unlock_lcore h.branch bo hbo hb
  simp only [eu]

end BreezyVerif.C28
