import BreezyVerif.Props.C45
import BreezyVerif.Generated.C45
/-!
C45 — T1 tie: `Generated/C45.lean` is rewritten from breezy/filters/eol.py on
every run (`_eol_filter_stack_map` sorted by key, `_native_output`, and the
byte constants of the two converters).  The generated table has exactly the
entries of the model table, so the theorems hold for the table the code has now.
-/
namespace BreezyVerif.C45

/-- the regenerated table has exactly the entries of the model table -/
theorem eol_map_gen_eq (win : Bool) (e : String × List Filter) :
    e ∈ eolMapGen win ↔ e ∈ eolMap win := by
  cases win <;> simp only [eolMapGen, eolMap, nativeOutputGen, nativeOutput, List.mem_cons,
    List.mem_nil_iff, or_false, if_true, if_false, Bool.false_eq_true] <;>
  constructor <;> intro h <;> rcases h with h | h | h | h | h | h | h <;> simp [h]

/-- no key occurs twice (a Python dict literal keeps the last one) -/
theorem eol_map_gen_keys_nodup (win : Bool) : ((eolMapGen win).map (·.1)).Nodup := by
  cases win <;> decide

/-- the constants in the converters are the ones the model uses:
`content.replace(b"\r\n", b"\n")`, `re.compile(rb"(?<!\r)\n").sub(b"\r\n", …)`,
`b"\x00" in content` -/
theorem converter_consts_gen_eq :
    lfReplaceFromGen = [CR, LF] ∧ lfReplaceToGen = [LF] ∧
    crlfPatternGen = ("(?<!\\r)\\n".toList.map fun ch => UInt8.ofNat ch.toNat) ∧ crlfReplGen = [CR, LF] ∧
    nulMarkersGen = [[NUL], [NUL]] := by decide

/-- the characterisation of the round trip, for the regenerated table -/
theorem roundtrip_iff_generated (win : Bool) (name : String) (stack : List Filter)
    (h : (name, stack) ∈ eolMapGen win) (c : Bytes) (hn : hasNul c = false)
    (hc : readIn stack c = c) :
    readIn stack (writeOut stack c) = c ↔ (lossy stack = true → noCrCrLf false c = true) :=
  roundtrip_iff win name stack ((eol_map_gen_eq win _).1 h) c hn hc

theorem binary_untouched_generated (win : Bool) (name : String) (stack : List Filter)
    (h : (name, stack) ∈ eolMapGen win) (chunks : List Bytes) (hn : hasNul chunks.flatten = true) :
    (outputBytes chunks stack).flatten = chunks.flatten ∧
    inputFile chunks.flatten stack = chunks.flatten :=
  binary_untouched win name stack ((eol_map_gen_eq win _).1 h) chunks hn

/-- "a fresh checkout reports no changes" (abstract hash) and the canonical
`st_size` of `stat_and_sha1`, for the regenerated table -/
theorem checkout_clean_generated {H : Type} [DecidableEq H] (sha : Bytes → H)
    (win : Bool) (name : String) (stack : List Filter) (h : (name, stack) ∈ eolMapGen win)
    (c : Bytes) (hn : hasNul c = false) (hc : readIn stack c = c)
    (hx : lossy stack = true → noCrCrLf false c = true) :
    reportsChange sha stack (sha c) (writeOut stack c) = false ∧
    statSize stack (writeOut stack c) = c.length :=
  checkout_clean sha win name stack ((eol_map_gen_eq win _).1 h) c hn hc hx

/-- `FilteredStat`'s size fallback is harmless for the regenerated table -/
theorem filtered_size_zero_iff_generated (win : Bool) (name : String) (stack : List Filter)
    (h : (name, stack) ∈ eolMapGen win) (d : Bytes) :
    (readIn stack d = [] ↔ d = []) ∧ statSize stack d = (readIn stack d).length :=
  ⟨filtered_size_zero_iff win name stack ((eol_map_gen_eq win _).1 h) d,
   (stat_size_canonical win name stack ((eol_map_gen_eq win _).1 h) d).1⟩

/-- "a fresh checkout reports no changes" through every comparison route, for
the regenerated table -/
theorem checkout_clean_every_route_generated {H : Type} [DecidableEq H] (sha : Bytes → H)
    (win : Bool) (name : String) (stack : List Filter) (h : (name, stack) ∈ eolMapGen win)
    (c : Bytes) (hn : hasNul c = false) (hc : readIn stack c = c)
    (hx : lossy stack = true → noCrCrLf false c = true) :
    reportsChange sha stack (sha c) (writeOut stack c) = false ∧
    contentMatches sha .off stack c.length (sha c) (writeOut stack c) = true ∧
    contentMatches sha .filtered stack c.length (sha c) (writeOut stack c) = true :=
  checkout_clean_every_route sha win name stack ((eol_map_gen_eq win _).1 h) c hn hc hx

end BreezyVerif.C45
