"""C32 — operations through a smart server match local operations.

Mechanism: breezy/bzr/remote.py (RemoteBzrDir / RemoteBranch / RemoteRepository,
verb calls with VFS fallback) against breezy/bzr/smart/{branch,repository,
bzrdir,packrepository}.py (server verbs), over a real in-process
SmartTCPServer (bzr://127.0.0.1:<port>/) serving a scratch directory.

The specification is the local behaviour.  A case is an operation script
(<= 20 operations) over a small world: two source trees A and B (B branches
off A; merges in both directions give a DAG), a target branch T, a client
branch C that pulls / fetches from T and a lightweight checkout K of T that
commits straight into T.  The same script is run twice from identical
directories: with T opened by local path (side L) and with T opened through
the smart server (side R).  After EVERY operation
  * the canonical return value / error class of the operation and
  * the state of T read back LOCALLY by path with fresh objects — tip,
    tags, revision ids, per-revision strict testament sha1 and parent lists,
    config values, parent location, physical lock status — plus the revision
    ids of C
must be equal on both sides (oracle; this is the property itself).

T2 (model): a second stream of scripts restricted to the verbs modelled in
Model/C32.lean (lock_write / unlock with tokens and leave_lock_in_place,
set_last_revision_info, tag set / delete, config set / get, get_parent_map,
fetch of a revision with its ancestry, reads) is additionally compared,
operation by operation, with the Lean model's local step function AND with its
remote step function (wire encoding -> server step -> wire decoding), on both
sides.

Findings on the unchanged tree (families computed by `_family` from the failing step):
  get-parent-map-null-dropped: RemoteRepository.get_parent_map([... b"null:" ...]) loses the
    null: entry whenever another key is requested as well (dead `found_parents` in
    _get_parent_map_rpc); modelled by `fx` (the harness probes the variant).
  tip-absent-from-repository-<op>: after set_last_revision_info(n, X) with X absent from the repository
    (unchecked on both sides) reads / generate_revision_history answer with different results or error classes.
  gather-stats-null-revision-committers: gather_stats(b"null:", committers=True) lacks 'committers' remotely.
  config-old-api-write-unseen-by-local-stack: get_config().set_user_option(name, v) then
    get_config_stack().get(name) on the same branch object is None locally and v through the server.
  append-revisions-only-error-untranslated: a push / pull that violates append_revisions_only raises
    AppendRevisionsOnlyViolation locally and UnknownErrorFromSmartServer through the server.
Error classes are compared modulo EQUIV_ERRORS (the server verb documents that it reports an absent
revision as NoSuchRevision where the local code raises GhostRevisionsHaveNoRevno).

Mutants this was built against (scratch worktree, all semantic ones caught by the oracle with the failing step):
  M1 server Branch.set_last_revision_info stores revno-1            -> state:tip differs (set_tip, ck_commit, m_tip_set)
  M2 server Branch.unlock forgets dont_leave_lock_in_place          -> state:locked differs after any locked verb
  M3 client parses a parentless line as () instead of (null:,)      -> result of parent_map differs + T2 (remote side)
  M4 server set_config_option swaps name and value                   -> state:conf differs (conf_set_old)
  M5 server set_tags_bytes does not write                            -> state:tags differs
  M6 client keeps a stale last_revision_info cache after set tip     -> result of set_tip (read back under the lock)
  M7 SmartServerLockedBranchRequest ignores the client's token       -> E:LockContention through the server
  (M8 server sends parents (null:,) on the wire instead of ()        -> gen_history: E:ReservedId through the server)
  H1 `token == b"" -> None` rewritten as `token or None` (harmless)  -> same result as the unchanged tree
"""
import os
import shutil
import sys

from vlib import env

THEOREMS = ["remote_step_refines_local", "remote_step_refines_local_partial", "parent_map_null_dropped_witness",
            "remote_run_refines_local"]
RULE = ("case = an operation script of <= 20 operations (commit in source trees / through a lightweight checkout, "
        "merge, push, pull, fetch, tag set/delete, config set/get, lock/unlock with tokens, set tip, "
        "get_parent_map, revision / tree / testament reads) drawn from the PRNG; it is executed on a local path and "
        "through bzr:// on identical directories; non-trivial = the script changes the target at least once "
        "through a remote verb (push/pull/fetch/commit/tag/config/tip/lock)")
ASSUMPTIONS = [
    "the server is breezy's own SmartTCPServer run in a thread of the same process (127.0.0.1, protocol v3)",
    "revision ids, file ids, timestamps and committers are chosen by the script so that both sides can be compared byte for byte",
    "error classes are compared modulo GhostRevisionsHaveNoRevno == NoSuchRevision (documented translation of the server verb)",
    "parent locations set by the scripts are relative paths inside the served tree or non-file URLs: a parent stored "
    "relative to the branch resolves differently, by design, under file:// and under the server's bzr:// root",
    "model hypotheses: revision ids on the get_parent_map wire are non-empty, contain no blank / newline and do not start with 'missing:'",
]
TRUSTED = [
    "lock tokens are nonces: only their presence is compared",
    "only the verbs listed in Model/C32.lean are modelled; push/pull/commit/VFS fallbacks are compared side against side, not modelled",
]

COMMITTER = "Verif Tester <verif@example.com>"


# --------------------------------------------------------------------------
# the shared server

class Srv:
    def __init__(self):
        from breezy import transport as T
        from breezy.bzr.smart import server as S
        from breezy import lockdir
        lockdir._DEFAULT_TIMEOUT_SECONDS = 0
        self.root = env.fresh_dir("c32srv")
        self.server = S.SmartTCPServer(T.get_transport_from_path(self.root), client_timeout=120)
        self.server.start_server("127.0.0.1", 0)
        self.server.start_background_thread("-c32")
        self.url = self.server.get_url()
        self.n = 0

    def stop(self):
        try:
            self.server.stop_background_thread()
        except Exception:
            pass


# --------------------------------------------------------------------------
# one side of a case

def _fmt():
    from breezy.controldir import format_registry
    return format_registry.make_controldir("2a")


class World:
    """the part of a case shared by both sides: the source trees A and B
    (they are only read by push / pull / fetch)"""

    def __init__(self, base):
        from breezy.controldir import ControlDir
        self.base = base
        os.makedirs(base, exist_ok=True)
        self.A = ControlDir.create_standalone_workingtree(os.path.join(base, "A"), format=_fmt())
        self.A.set_root_id(b"root-A")
        self.B = None

    def src(self, which):
        return self.A if which == "A" else (self.B or self.A)


class Side:
    """one side: the target T (opened locally or through the server), the
    client branch C and the lightweight checkout K of T"""

    def __init__(self, name, world, base, t_url):
        from breezy.controldir import ControlDir
        self.name = name
        self.world = world
        self.base = base
        self.t_path = os.path.join(base, "t")
        self.t_url = t_url or self.t_path
        os.makedirs(base, exist_ok=True)
        ControlDir.create_branch_convenience(self.t_path, force_new_tree=False, format=_fmt())
        ControlDir.create_branch_convenience(os.path.join(base, "C"), force_new_tree=False, format=_fmt())
        self.K = None
        self._T = None
        self.held = []          # (branch object, token) of locks taken by the script
        self.transports = []
        self.tcache = {}        # revision id -> testament sha1 (revisions are immutable)

    # the target, through this side's access path
    def T(self, fresh=False):
        from breezy.branch import Branch
        if fresh or self._T is None:
            self._T = Branch.open(self.t_url, possible_transports=self.transports)
        return self._T

    def C(self):
        from breezy.branch import Branch
        return Branch.open(os.path.join(self.base, "C"))

    def src(self, which):
        return self.world.src(which)

    def close(self):
        for b, _ in self.held:
            try:
                while b.is_locked():
                    b.unlock()
            except Exception:
                pass
        for t in self.transports:
            try:
                t.disconnect()
            except Exception:
                pass


def ename(e):
    n = type(e).__name__
    return "E:" + n


def mask(side, v):
    """locations are compared relative to the side's base directory"""
    if isinstance(v, str):
        for pre in ("file://" + side.base, side.t_url.rsplit("/", 1)[0], side.base):
            v = v.replace(pre, "<BASE>")
    return v


def canon(v):
    if isinstance(v, bytes):
        return v.decode("utf-8", "backslashreplace")
    if isinstance(v, (list, tuple)):
        return [canon(x) for x in v]
    if isinstance(v, dict):
        return {canon(k): canon(x) for k, x in sorted(v.items())}
    if isinstance(v, (set, frozenset)):
        return sorted(canon(x) for x in v)
    return v


# --------------------------------------------------------------------------
# operations

def _commit(wt, n, files, rev_id, merge=None):
    """deterministic commit: explicit file ids, timestamp, committer, revision id"""
    for name, content in files:
        p = os.path.join(wt.basedir, name)
        new = not wt.is_versioned(name)
        with open(p, "wb") as f:
            f.write(content)
        if new:
            wt.add([name], ids=[b"fid-" + name.encode("utf-8").hex().encode()])
    return wt.commit("commit %s" % rev_id.decode(), rev_id=rev_id, timestamp=1000000000 + n, timezone=0,
                     committer=COMMITTER, allow_pointless=True)


WORLD_OPS = ("src_commit", "branch_B", "src_merge")


def do_op(side, op, n):
    """run one operation on one side; returns a canonical, JSON-able result"""
    from breezy import errors, revision as _r
    from breezy.bzr.testament import StrictTestament3
    k = op[0]
    try:
        if k in WORLD_OPS:
            w = side          # called with the World
            if k == "src_commit":
                _, which, files, revid = op
                return canon(_commit(w.src(which), n, [(f, c.encode()) for f, c in files], revid.encode()))
            if k == "branch_B":
                if w.B is None:
                    w.B = w.A.controldir.sprout(os.path.join(w.base, "B")).open_workingtree()
                return "ok"
            _, into, revid = op
            dst, other = (w.A, w.B) if into == "A" else (w.B, w.A)
            if other is None or dst is None:
                return "skip"
            dst.merge_from_branch(other.branch)
            return canon(dst.commit("merge %s" % revid, rev_id=revid.encode(), timestamp=1000000000 + n, timezone=0,
                                    committer=COMMITTER))
        if k == "push":
            _, which, overwrite, stop = op
            r = side.src(which).branch.push(side.T(), overwrite=overwrite, stop_revision=stop.encode() if stop else None)
            return canon((r.old_revno, r.old_revid, r.new_revno, r.new_revid))
        if k == "pull_into_T":
            _, which, overwrite = op
            r = side.T().pull(side.src(which).branch, overwrite=overwrite)
            return canon((r.old_revno, r.old_revid, r.new_revno, r.new_revid))
        if k == "client_pull":
            _, overwrite = op
            r = side.C().pull(side.T(), overwrite=overwrite)
            return canon((r.old_revno, r.old_revid, r.new_revno, r.new_revid))
        if k == "fetch_to_T":
            _, which, revid = op
            side.T().repository.fetch(side.src(which).branch.repository, revision_id=revid.encode() if revid else None)
            return "ok"
        if k == "fetch_from_T":
            _, revid = op
            side.C().repository.fetch(side.T().repository, revision_id=revid.encode() if revid else None)
            return "ok"
        if k == "tag_set":
            _, name, revid = op
            side.T().tags.set_tag(name, revid.encode())
            return "ok"
        if k == "tag_delete":
            side.T().tags.delete_tag(op[1])
            return "ok"
        if k == "tag_dict":
            return canon(side.T().tags.get_tag_dict())
        if k == "conf_set":
            _, name, value = op
            side.T().get_config_stack().set(name, value)
            return "ok"
        if k == "conf_get":
            return canon(side.T().get_config_stack().get(op[1]))
        if k == "conf_set_old":
            _, name, value = op
            side.T().get_config().set_user_option(name, value)
            return "ok"
        if k == "set_parent":
            side.T().set_parent(op[1])
            return "ok"
        if k == "get_parent":
            return mask(side, canon(side.T().get_parent()))
        if k == "set_tip":
            _, revno, revid = op
            t = side.T()
            with t.lock_write():
                before = t.last_revision_info()
                t.set_last_revision_info(revno, revid.encode())
                # read back through the same, still locked, object (client-side caches)
                return canon((before, t.last_revision_info(), t.last_revision()))
        if k == "gen_history":
            t = side.T()
            with t.lock_write():
                t.generate_revision_history(op[1].encode())
                return canon(t.last_revision_info())
        if k == "ck_commit":
            _, files, revid = op
            if side.K is None:
                t = side.T(fresh=True)
                side.K = t.create_checkout(os.path.join(side.base, "K"), lightweight=True)
                if t.last_revision() == b"null:":
                    side.K.set_root_id(b"root-K")
            side.K.update()
            return canon(_commit(side.K, n, [(f, c.encode()) for f, c in files], revid.encode()))
        if k == "lock":
            t = side.T(fresh=True)
            tok = t.lock_write().token
            side.held.append((t, tok))
            return "token" if tok else "no-token"
        if k == "lock_again":
            # a second opener while the first still holds the lock
            t = side.T(fresh=True)
            tok = t.lock_write().token
            side.held.append((t, tok))
            return "token" if tok else "no-token"
        if k == "lock_with_token":
            _, good = op
            if not side.held:
                return "skip"
            tok = side.held[-1][1] if good else b"wrong-token"
            t = side.T(fresh=True)
            r = t.lock_write(token=tok).token
            side.held.append((t, r))
            return "token" if r else "no-token"
        if k == "unlock":
            _, leave = op
            if not side.held:
                return "skip"
            t, tok = side.held.pop()
            if leave:
                t.leave_lock_in_place()
            t.unlock()
            return "ok"
        if k == "lock_status":
            t = side.T(fresh=True)
            return canon((t.get_physical_lock_status(), t.repository.get_physical_lock_status()))
        if k == "break_lock":
            # drop everything the script holds, then break what is left in place
            while side.held:
                t, _ = side.held.pop()
                try:
                    while t.is_locked():
                        t.unlock()
                except Exception:
                    pass
            t = side.T(fresh=True)
            from breezy import ui
            old = ui.ui_factory
            ui.ui_factory = ui.CannedInputUIFactory([True] * 8)
            try:
                t.break_lock()
            finally:
                ui.ui_factory = old
            return "ok"
        if k == "parent_map":
            t = side.T()
            with t.lock_read():
                return canon(t.repository.get_parent_map([x.encode() for x in op[1]]))
        if k == "tip":
            return canon(side.T().last_revision_info())
        if k == "revno_of":
            return canon(side.T().revision_id_to_revno(op[1].encode()))
        if k == "dotted_revno_of":
            return canon(side.T().revision_id_to_dotted_revno(op[1].encode()))
        if k == "revid_of":
            return canon(side.T().get_rev_id(op[1]))
        if k == "get_revision":
            r = side.T().repository.get_revision(op[1].encode())
            return canon((r.revision_id, list(r.parent_ids), r.message, r.committer, r.timestamp, r.timezone,
                          sorted(r.properties.items())))
        if k == "tree_read":
            t = side.T()
            with t.lock_read():
                tree = t.repository.revision_tree(op[1].encode())
                out = []
                for path, ie in tree.iter_entries_by_dir():
                    if ie.kind == "file":
                        out.append((path, ie.file_id, tree.get_file_text(path), ie.revision))
                    else:
                        out.append((path, ie.file_id, ie.kind, ie.revision))
                return canon(out)
        if k == "testament":
            t = side.T()
            with t.lock_read():
                return StrictTestament3.from_revision(t.repository, op[1].encode()).as_sha1().decode()
        if k == "all_revs":
            return canon(sorted(side.T().repository.all_revision_ids()))
        if k == "has_revision":
            return side.T().repository.has_revision(op[1].encode())
        if k == "heads":
            t = side.T()
            with t.lock_read():
                return canon(sorted(t.repository.get_graph().heads([x.encode() for x in op[1]])))
        if k == "merge_sorted":
            t = side.T()
            with t.lock_read():
                return canon([(r, d, ".".join(map(str, rn)), e) for r, d, rn, e in t.iter_merge_sorted_revisions()])
        if k == "missing_revs":
            t = side.T()
            with t.lock_read():
                g = t.repository.get_graph()
                return canon(sorted(g.find_unique_ancestors(op[1].encode(), [x.encode() for x in op[2]])))
        if k == "stats":
            t = side.T()
            with t.lock_read():
                st = t.repository.gather_stats(t.last_revision(), committers=True)
            return canon({k2: v for k2, v in st.items() if k2 in ("revisions", "committers", "firstrev", "latestrev")})
        if k == "reopen":
            side.T(fresh=True)
            return "ok"
        if k.startswith("m_"):
            return do_model_op(side, op)
        raise AssertionError("unknown op %r" % (op,))
    except (KeyboardInterrupt, SystemExit, AssertionError):
        raise
    except Exception as e:
        return ename(e)


def do_model_op(side, op):
    """the operations of the modelled stream: every one uses fresh objects, so
    that only the stored state and the lock token known to the script matter"""
    k = op[0]
    t = side.T(fresh=True)
    if k == "m_tip_set":
        with t.lock_write():
            t.set_last_revision_info(op[1], op[2].encode())
        return "ok"
    if k == "m_tag_set":
        t.tags.set_tag(op[1], op[2].encode())
        return "ok"
    if k == "m_tag_del":
        t.tags.delete_tag(op[1])
        return "ok"
    if k == "m_tag_dict":
        return canon(t.tags.get_tag_dict())
    if k == "m_conf_set":
        t.get_config_stack().set(op[1], op[2])
        return "ok"
    if k == "m_conf_get":
        return canon(t.get_config_stack().get(op[1]))
    if k == "m_lock_leave":
        tok = t.lock_write().token
        try:
            t.leave_lock_in_place()
        finally:
            t.unlock()
        side.known_token = tok
        return "token" if tok else "no-token"
    if k == "m_relock_release":
        tok = (getattr(side, "known_token", None) or b"never-issued") if op[1] else b"wrong-token"
        t.lock_write(token=tok)
        try:
            t.dont_leave_lock_in_place()
        finally:
            t.unlock()
        return "ok"
    if k == "m_tip_set_tok":
        tok = (getattr(side, "known_token", None) or b"never-issued") if op[1] else b"wrong-token"
        t.lock_write(token=tok)
        try:
            t.set_last_revision_info(op[2], op[3].encode())
        finally:
            t.unlock()
        return "ok"
    if k == "m_parent_map":
        with t.lock_read():
            return canon(t.repository.get_parent_map([x.encode() for x in op[1]]))
    if k == "m_tip":
        return canon(t.last_revision_info())
    if k == "m_fetch":
        t.repository.fetch(side.src("A").branch.repository, revision_id=op[1].encode())
        return "ok"
    if k == "m_all_revs":
        return canon(sorted(t.repository.all_revision_ids()))
    raise AssertionError("unknown op %r" % (op,))


def readback(side, full=False):
    """the state of T (and the revisions of C) read locally, with fresh objects"""
    from breezy.branch import Branch
    from breezy.bzr.testament import StrictTestament3
    b = Branch.open(side.t_path)
    out = {}
    with b.lock_read():
        out["tip"] = canon(b.last_revision_info())
        out["tags"] = canon(b.tags.get_tag_dict())
        revs = sorted(b.repository.all_revision_ids())
        out["revs"] = canon(revs)
        pm = b.repository.get_parent_map(revs)
        out["parents"] = canon({r: list(pm[r]) for r in revs})
        tm = {}
        for r in revs:
            if full or r not in side.tcache:
                try:
                    side.tcache[r] = StrictTestament3.from_revision(b.repository, r).as_sha1().decode()
                except Exception as e:
                    side.tcache[r] = ename(e)
            tm[r] = side.tcache[r]
        out["testaments"] = canon(tm)
        out["parent"] = mask(side, canon(b.get_parent()))
    conf = {}
    try:
        st = Branch.open(side.t_path).get_config_stack()
        for sect in st.sections_def[0]().get_sections() if False else []:
            pass
    except Exception:
        pass
    p = os.path.join(side.t_path, ".bzr", "branch", "branch.conf")
    from breezy.config import ConfigObj
    try:
        co = ConfigObj(p, encoding="utf-8")
        conf = {k: (dict(v) if isinstance(v, dict) else v) for k, v in co.items()}
    except Exception as e:
        conf = {"E": ename(e)}
    out["conf"] = canon(conf)
    out["locked"] = [os.path.isdir(os.path.join(side.t_path, ".bzr", "branch", "lock", "held")),
                     os.path.isdir(os.path.join(side.t_path, ".bzr", "repository", "lock", "held"))]
    c = Branch.open(os.path.join(side.base, "C"))
    out["C"] = canon((c.last_revision_info(), sorted(c.repository.all_revision_ids())))
    return out


# --------------------------------------------------------------------------
# script generator

NAMES = ["t1", "t 2", "té", "rel-1.0", "x:y", "a,b", "t=1"]
CONF_NAMES = ["foo", "push_location", "my.opt", "child_submit_to", "append_revisions_only", "opté"]
CONF_VALUES = ["bar", "a b", "café", "x,y", "  padded ", "q\"uote", "True", "", "#hash", "it's", "a=b", "[sec]",
               "line1\\nline2", "semi;colon"]
FILES = ["f", "g", "dir-less h", "é"]
REMOTE_OPS = {"m_fetch", "m_tip_set", "m_tag_set", "m_tag_del", "m_conf_set", "m_lock_leave", "m_relock_release",
              "m_tip_set_tok", "push", "pull_into_T", "fetch_to_T", "tag_set", "tag_delete", "conf_set", "conf_set_old", "set_tip",
              "gen_history", "ck_commit", "lock", "unlock", "set_parent", "lock_with_token", "break_lock"}


def gen_script(rng, length):
    ops = []
    revs = []          # revision ids known to exist somewhere
    nrev = [0]
    has_B = False
    locked = 0

    def newrev(prefix):
        nrev[0] += 1
        r = "%s%d" % (prefix, nrev[0])
        revs.append(r)
        return r

    def somerev(p_missing=0.1):
        if not revs or rng.random() < p_missing:
            return rng.choice(["ghost-x", "null:", "nope"])
        return rng.choice(revs)

    def files():
        return [(rng.choice(FILES), "c%d\n" % rng.randrange(1000)) for _ in range(rng.randint(1, 2))]

    ops.append(("src_commit", "A", files(), newrev("a")))
    while len(ops) < length:
        x = rng.random()
        if x < 0.12:
            ops.append(("src_commit", rng.choice("AB") if has_B else "A", files(), newrev("r")))
        elif x < 0.15 and not has_B:
            ops.append(("branch_B",))
            has_B = True
        elif x < 0.19 and has_B:
            ops.append(("src_merge", rng.choice("AB"), newrev("m")))
        elif x < 0.29:
            ops.append(("push", rng.choice("AB") if has_B else "A", rng.random() < 0.3,
                        somerev(0.05) if rng.random() < 0.3 else None))
        elif x < 0.34:
            ops.append(("pull_into_T", rng.choice("AB") if has_B else "A", rng.random() < 0.3))
        elif x < 0.38:
            ops.append(("client_pull", rng.random() < 0.3))
        elif x < 0.43:
            ops.append(("fetch_to_T", rng.choice("AB") if has_B else "A", somerev() if rng.random() < 0.6 else None))
        elif x < 0.46:
            ops.append(("fetch_from_T", somerev() if rng.random() < 0.6 else None))
        elif x < 0.53:
            ops.append(("tag_set", rng.choice(NAMES), somerev(0.2)))
        elif x < 0.56:
            ops.append(("tag_delete", rng.choice(NAMES)))
        elif x < 0.58:
            ops.append(("tag_dict",))
        elif x < 0.64:
            ops.append((rng.choice(["conf_set", "conf_set", "conf_set_old"]), rng.choice(CONF_NAMES), rng.choice(CONF_VALUES)))
        elif x < 0.67:
            ops.append(("conf_get", rng.choice(CONF_NAMES)))
        elif x < 0.71:
            r = somerev(0.15)
            ops.append(("set_tip", rng.randint(0, 6), r))
        elif x < 0.73:
            ops.append(("gen_history", somerev(0.15)))
        elif x < 0.78 and not locked:
            ops.append(("ck_commit", files(), newrev("k")))
        elif x < 0.81:
            if locked and rng.random() < 0.5:
                ops.append(("unlock", rng.random() < 0.4))
                locked -= 1
            elif not locked:
                ops.append(("lock",))
                locked += 1
            else:
                ops.append((rng.choice(["lock_again", "lock_with_token", "lock_status"]),) if rng.random() < 0.5
                           else ("lock_with_token", rng.random() < 0.6))
                if ops[-1][0] == "lock_with_token" and len(ops[-1]) == 1:
                    ops[-1] = ("lock_with_token", True)
        elif x < 0.83:
            ops.append(("lock_status",))
        elif x < 0.84:
            ops.append(("break_lock",))
            locked = 0
        elif x < 0.88:
            ops.append(("parent_map", [somerev(0.25) for _ in range(rng.randint(1, 4))]))
        elif x < 0.90:
            ops.append((rng.choice(["tip", "all_revs", "merge_sorted", "stats", "get_parent", "reopen"]),))
        elif x < 0.93:
            ops.append((rng.choice(["revno_of", "dotted_revno_of", "get_revision", "tree_read", "testament", "has_revision"]),
                        somerev(0.15)))
        elif x < 0.95:
            ops.append(("revid_of", rng.randint(0, 5)))
        elif x < 0.97:
            ops.append(("heads", [somerev(0.1) for _ in range(rng.randint(1, 3))]))
        elif x < 0.98:
            ops.append(("missing_revs", somerev(0.05), [somerev(0.1) for _ in range(rng.randint(0, 2))]))
        else:
            ops.append(("set_parent", rng.choice(["../A", "http://example.com/p", "bzr://example.com/b", "../café"])))
    return ops


# --------------------------------------------------------------------------

def gen_model_script(rng, length):
    """a source history (prefix of world operations) followed by modelled operations only"""
    ops = []
    revs = []
    n = [0]

    def newrev(p):
        n[0] += 1
        revs.append("%s%d" % (p, n[0]))
        return revs[-1]

    ops.append(("src_commit", "A", [("f", "c0\n")], newrev("a")))
    has_B = False
    for _ in range(rng.randint(0, 4)):
        x = rng.random()
        if x < 0.5:
            ops.append(("src_commit", rng.choice("AB") if has_B else "A", [(rng.choice(FILES), "c%d\n" % rng.randrange(99))],
                        newrev("r")))
        elif not has_B:
            ops.append(("branch_B",))
            has_B = True
        else:
            ops.append(("src_merge", "A", newrev("m")))
    if has_B:
        ops.append(("src_merge", "A", newrev("m")))     # everything ends up in A's repository

    def somerev(pm=0.15):
        return rng.choice(["ghost-x", "null:", "nope"]) if rng.random() < pm else rng.choice(revs)

    while len(ops) < length:
        x = rng.random()
        if x < 0.14:
            ops.append(("m_fetch", somerev(0.1)))
        elif x < 0.28:
            ops.append(("m_tip_set", rng.randint(0, 5), somerev()))
        elif x < 0.38:
            ops.append(("m_tag_set", rng.choice(NAMES), somerev(0.3)))
        elif x < 0.44:
            ops.append(("m_tag_del", rng.choice(NAMES)))
        elif x < 0.48:
            ops.append(("m_tag_dict",))
        elif x < 0.56:
            ops.append(("m_conf_set", rng.choice(CONF_NAMES[:3]), rng.choice(CONF_VALUES)))
        elif x < 0.61:
            ops.append(("m_conf_get", rng.choice(CONF_NAMES[:3])))
        elif x < 0.68:
            ops.append(("m_lock_leave",))
        elif x < 0.76:
            ops.append(("m_relock_release", rng.random() < 0.7))
        elif x < 0.82:
            ops.append(("m_tip_set_tok", rng.random() < 0.7, rng.randint(0, 5), somerev()))
        elif x < 0.92:
            ops.append(("m_parent_map", [somerev(0.3) for _ in range(rng.randint(1, 4))]))
        elif x < 0.96:
            ops.append(("m_tip",))
        else:
            ops.append(("m_tip",))
    return ops


EQUIV_ERRORS = {
    # the server verb Branch.set_last_revision_ex documents that it reports an absent revision as
    # NoSuchRevision; locally generate_revision_history raises GhostRevisionsHaveNoRevno for it
    "E:GhostRevisionsHaveNoRevno": "E:NoSuchRevision",
}


def run_case(ctx, srv, script, label="general", fx=False):
    srv.n += 1
    cid = "c%d_%d" % (os.getpid(), srv.n)
    ltop = env.fresh_dir("c32L")
    lbase = os.path.join(ltop, cid)          # same depth below the scratch directory as the served copy
    rbase = os.path.join(srv.root, cid)
    W = World(os.path.join(lbase, "W"))
    L = Side("L", W, lbase, None)
    R = Side("R", W, rbase, srv.url + cid + "/t")
    case = dict(kind=label, script=script)
    changed = any(o[0] in REMOTE_OPS for o in script)
    ctx.case(case, nontrivial=changed)
    bad = None
    res_l, res_r, sl, sr = [], [], None, None
    try:
        for i, op in enumerate(script):
            ctx.count("op:" + op[0])
            if op[0] in WORLD_OPS:
                do_op(W, op, i)
                continue
            rl = do_op(L, op, i)
            rr = do_op(R, op, i)
            res_l.append(rl)
            res_r.append(rr)
            ctx.traces += 1
            if isinstance(rl, str) and rl.startswith("E:"):
                ctx.count("err:" + rl)
            if EQUIV_ERRORS.get(rl, rl) != EQUIV_ERRORS.get(rr, rr) if isinstance(rl, str) and isinstance(rr, str) else rl != rr:
                bad = (i, "result", rl, rr, sl)
                if label != "modelled":
                    break
            last = i == len(script) - 1
            prev = sl
            sl, sr = readback(L, full=last), readback(R, full=last)
            # a local branch object that holds the write lock saves its configuration when it unlocks:
            # while the script holds a lock the config-backed fields are compared only after the release
            skip = ("conf", "parent") if (L.held or R.held) else ()
            if any(sl[k] != sr.get(k) for k in sl if k not in skip):
                keys = [k for k in sl if sl[k] != sr.get(k) and k not in skip]
                bad = (i, "state:" + ",".join(keys), {k: sl[k] for k in keys}, {k: sr[k] for k in keys}, prev)
                break
        if bad is None and (L.held or R.held):
            # release what the script still holds and compare everything once more
            for side in (L, R):
                while side.held:
                    b, _ = side.held.pop()
                    try:
                        while b.is_locked():
                            b.unlock()
                    except Exception:
                        pass
            fl, fr = readback(L, full=True), readback(R, full=True)
            if fl != fr:
                keys = [k for k in fl if fl[k] != fr.get(k)]
                bad = (len(script) - 1, "final-state:" + ",".join(keys), {k: fl[k] for k in keys}, {k: fr[k] for k in keys}, sl)
        if label == "modelled" and sl is not None and (bad is None or bad[1] == "result"):
            model_compare(ctx, case, W, script, res_l, res_r, sl, sr, fx)
    finally:
        L.close()
        R.close()
        shutil.rmtree(ltop, ignore_errors=True)
        shutil.rmtree(rbase, ignore_errors=True)
    if bad:
        i, what, l, r, before = bad
        ctx.violation(dict(case, failed_at=i),
                      "after operation %d %r of the script the %s differs: local %s / through the smart server %s"
                      % (i, script[i], what, str(l)[:300], str(r)[:300]),
                      family=_family(script, i, what, l, r, before))
        return bad[:4]
    return bad


# --------------------------------------------------------------------------
# T2: the modelled stream against Model/C32.lean (local step and remote step)

def hx(s):
    b = s if isinstance(s, bytes) else s.encode("utf-8")
    return b.hex() if b else "-"


def enc_op(op):
    k = op[0]
    if k == "m_tip_set":
        return "ts:%d:%s" % (op[1], hx(op[2]))
    if k == "m_tag_set":
        return "tg:%s:%s" % (hx(op[1]), hx(op[2]))
    if k == "m_tag_del":
        return "td:%s" % hx(op[1])
    if k == "m_tag_dict":
        return "tD"
    if k == "m_conf_set":
        return "cs:%s:%s" % (hx(op[1]), hx(op[2]))
    if k == "m_conf_get":
        return "cg:%s" % hx(op[1])
    if k == "m_lock_leave":
        return "ll"
    if k == "m_relock_release":
        return "rr:%s" % ("T" if op[1] else "F")
    if k == "m_tip_set_tok":
        return "tt:%s:%d:%s" % ("T" if op[1] else "F", op[2], hx(op[3]))
    if k == "m_parent_map":
        return "pm:%s" % ",".join(hx(x) for x in op[1])
    if k == "m_tip":
        return "tp"
    if k == "m_fetch":
        return "fe:%s" % hx(op[1])
    raise AssertionError(op)


def enc_dict(d):
    return ",".join(sorted("%s=%s" % (hx(k), hx(v)) for k, v in d.items())) or "-"


def enc_res(op, r):
    k = op[0]
    if isinstance(r, str) and r.startswith("E:"):
        return r
    if k == "m_tag_dict":
        return "tags=" + enc_dict(r)
    if k == "m_conf_get":
        return "val=" + ("~" if r is None else hx(r))
    if k == "m_parent_map":
        return "pm=" + (",".join(sorted("%s=%s" % (hx(a), "+".join(hx(p) for p in ps) or "~") for a, ps in r.items())) or "-")
    if k == "m_tip":
        return "info=%d:%s" % (r[0], hx(r[1]))
    return r          # ok / token


def enc_state(st, names):
    conf = {k: v for k, v in st["conf"].items() if k in names and isinstance(v, str)}
    return "tip=%d:%s tags=%s conf=%s lock=%s revs=%s" % (
        st["tip"][0], hx(st["tip"][1]), enc_dict(st["tags"]), enc_dict(conf), "T" if st["locked"][0] else "F",
        ",".join(sorted(hx(r) for r in st["revs"])) or "-")


def model_compare(ctx, case, W, script, res_l, res_r, sl, sr, fx):
    repo = W.A.branch.repository
    with repo.lock_read():
        revs = sorted(repo.all_revision_ids())
        pm = repo.get_parent_map(revs)
    src = ";".join("%s:%s" % (hx(r), ",".join(hx(p) for p in pm[r] if p != b"null:") or "~") for r in revs) or "-"
    mops = [o for o in script if o[0] not in WORLD_OPS]
    names = {o[1] for o in mops if o[0] == "m_conf_set"}
    line = "run %s %s %s" % ("T" if fx else "F", src, ";".join(enc_op(o) for o in mops) or "-")
    reply = ctx.model([line])[0]
    impl_l = (";".join(enc_res(o, r) for o, r in zip(mops, res_l)) or "-") + "|" + enc_state(sl, names)
    impl_r = (";".join(enc_res(o, r) for o, r in zip(mops, res_r)) or "-") + "|" + enc_state(sr, names)
    impl = "L=%s R=%s" % (impl_l, impl_r)
    ctx.traces += 1
    if impl != reply:
        ctx.mismatch(case, impl, reply, line=line)


def probe_fx(srv):
    """does RemoteRepository.get_parent_map keep the null: entry next to other keys?"""
    from breezy.branch import Branch
    from breezy.controldir import ControlDir
    d = os.path.join(srv.root, "probe")
    os.makedirs(d, exist_ok=True)
    ControlDir.create_branch_convenience(os.path.join(d, "t"), force_new_tree=False, format=_fmt())
    b = Branch.open(srv.url + "probe/t")
    with b.lock_read():
        r = b.repository.get_parent_map([b"null:", b"absent"])
    b.controldir.transport.disconnect()
    shutil.rmtree(d, ignore_errors=True)
    return b"null:" in r


def _family(script, i, what, l, r, before=None):
    """classify a failing step by the concrete operation, the difference and the state before the step"""
    op = script[i]
    # the tip names a revision that is not stored (or null: with a non-zero revno): set_last_revision_info
    # does not check, and reads on such a state differ in results / error classes
    ghost_tip = bool(before) and before["tip"] != [0, "null:"] and before["tip"][1] not in before["revs"]
    if (op[0] in ("parent_map", "m_parent_map") and what == "result" and isinstance(l, dict) and isinstance(r, dict)
            and "null:" in op[1]
            and "null:" in l and "null:" not in r and {k: v for k, v in l.items() if k != "null:"} == r):
        # get_parent_map([..., b"null:", ...]) through the server loses the null: entry (and, having
        # cached null: as missing, then also for a later request of null: alone on the same object)
        return "get-parent-map-null-dropped"
    if ghost_tip and what == "result" and op[0] in ("gen_history", "revid_of", "revno_of", "dotted_revno_of", "merge_sorted",
                                                   "stats", "missing_revs", "heads"):
        # the tip had been set (set_last_revision_info does not check) to a revision that is not in the
        # repository; reads / history generation on that state answer with different results or error classes
        return "tip-absent-from-repository-" + op[0]
    if (op[0] == "stats" and what == "result" and isinstance(l, dict) and isinstance(r, dict)
            and l.get("committers") == 0 and "committers" not in r
            and {k: v for k, v in l.items() if k != "committers"} == r):
        # gather_stats(b"null:", committers=True): the null revision travels as b"" -> None and the server
        # then leaves out the committers count
        return "gather-stats-null-revision-committers"
    if op[0] == "conf_get" and what == "result" and l is None:
        last = [o for o in script[:i] if o[0] in ("conf_set", "conf_set_old") and o[1] == op[1]]
        if last and last[-1][0] == "conf_set_old" and r == last[-1][2]:
            # get_config().set_user_option(name, v) followed by get_config_stack().get(name) on the SAME
            # branch object: the local object's cached config store does not see the old-API write (None),
            # the remote object re-reads the file (v)
            return "config-old-api-write-unseen-by-local-stack"
    if what == "result" and l == "E:AppendRevisionsOnlyViolation" and r == "E:UnknownErrorFromSmartServer":
        # append_revisions_only = True on the target: the server does not translate the error
        return "append-revisions-only-error-untranslated"
    return None


class _Rec:
    """what a worker process records for the parent's ctx"""

    def __init__(self):
        self.cases, self.counts, self.violations, self.mismatches, self.traces = [], {}, [], [], 0
        self._driver = None

    def case(self, case, nontrivial=True):
        self.cases.append((case, nontrivial))

    def count(self, key, n=1):
        self.counts[key] = self.counts.get(key, 0) + n

    def violation(self, case, what, family=None):
        self.violations.append((case, what, family))

    def mismatch(self, case, impl, model, line=None, tie="T2"):
        self.mismatches.append((case, impl, model, line))

    def model(self, lines):
        from vlib import lean
        if self._driver is None:
            self._driver = lean.Driver("C32")
        return self._driver.ask(list(lines))


def _worker(job):
    """one chunk of cases with its own server (module level: runs in a forked process)"""
    fx, items = job
    rec = _Rec()
    srv = Srv()
    try:
        for label, script in items:
            run_case(rec, srv, script, label=label, fx=fx)
    finally:
        srv.stop()
    return rec.cases, rec.counts, rec.violations, rec.mismatches, rec.traces


def run(ctx):
    srv = Srv()
    try:
        fx = probe_fx(srv)
    finally:
        srv.stop()
    ctx.extra["get_parent_map_variant"] = "null: kept (fixed)" if fx else "null: dropped (as found)"
    items = [("general", gen_script(ctx.rng, ctx.rng.randint(6, 20))) for _ in range(ctx.pick(16, 300))]
    items += [("modelled", gen_model_script(ctx.rng, ctx.rng.randint(8, 20))) for _ in range(ctx.pick(16, 300))]
    nproc = 8
    chunks = [(fx, items[i::nproc]) for i in range(nproc)]
    for cases, counts, viols, mism, traces in ctx.pmap(_worker, [c for c in chunks if c[1]], procs=nproc, chunksize=1):
        for case, nt in cases:
            ctx.case(case, nontrivial=nt)
        for k, v in counts.items():
            ctx.count(k, v)
        for case, what, fam in viols:
            ctx.violation(case, what, family=fam)
        for case, impl, model, line in mism:
            ctx.mismatch(case, impl, model, line=line)
        ctx.traces += traces
    ctx.extra["scripts"] = dict(general=sum(1 for l, _ in items if l == "general"),
                                modelled=sum(1 for l, _ in items if l == "modelled"))


def replay(ctx, case):
    srv = Srv()
    try:
        fx = probe_fx(srv)
        bad = run_case(ctx, srv, _detuple(case["script"]), label=case.get("kind", "general"), fx=fx)
    finally:
        srv.stop()
    return dict(case=case, impl=str(bad), model=[m for m in ctx.mismatches if m][:3],
                oracle_failures=[v["what"] for v in ctx.violations])


def _detuple(script):
    out = []
    for o in script:
        o = list(o)
        if o[0] in ("src_commit",):
            o[2] = [tuple(x) for x in o[2]]
        if o[0] == "ck_commit":
            o[1] = [tuple(x) for x in o[1]]
        out.append(tuple(o))
    return out
