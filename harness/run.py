#!/venv/bin/python
"""run.py Cxx [--tier quick|thorough] [--replay FILE]

One check run (DESIGN §2.1): rebuild from the working tree, T1 regenerate +
lake build + axiom audit, T2 correspondence, direct oracle, verdict, evidence.
Exit 0 = held on everything explored, 1 = VIOLATION, 2 = infrastructure.
"""
import argparse
import importlib
import json
import os
import sys
import time
import traceback

HERE = os.path.dirname(os.path.abspath(__file__))
sys.path.insert(0, HERE)

from vlib import env, lean  # noqa: E402
from vlib.ctx import Ctx  # noqa: E402

VERIF = env.VERIF


def load_known():
    p = os.path.join(VERIF, "known_findings.json")
    if not os.path.exists(p):
        return []
    return json.load(open(p)).get("findings", [])


def write_json(path, obj):
    os.makedirs(os.path.dirname(path), exist_ok=True)
    tmp = path + ".tmp%d" % os.getpid()
    with open(tmp, "w") as f:
        json.dump(obj, f, indent=1, sort_keys=True, default=repr)
        f.write("\n")
    os.replace(tmp, path)


def lean_stage(pid, mod, ctx):
    """T1 + build + audit.  Returns dict(status...)."""
    st = dict(build_ok=False, theorems={}, forbidden=[], t1="none", log="")
    if hasattr(mod, "extract"):
        try:
            st["t1"] = mod.extract(ctx) or "regenerated"
        except Exception as e:  # source no longer has the expected shape
            st["t1"] = "extract-failed: %r" % (e,)
    targets = ["BreezyVerif.Props.%s" % pid, "vd_%s" % pid]
    ok, out, secs = lean.build(targets)
    st["build_ok"] = ok
    st["build_s"] = round(secs, 2)
    if not ok:
        st["log"] = out[-4000:]
        # the driver may still be buildable on its own (model intact)
        ok2, out2, _ = lean.build(["vd_%s" % pid])
        st["driver_ok"] = ok2
    else:
        st["driver_ok"] = True
    required = list(getattr(mod, "THEOREMS", []))
    declared = lean.declared_theorems(pid)
    names = list(dict.fromkeys(required + declared))
    st["required"] = required
    if ok and names:
        res, raw = lean.audit(pid, names)
        st["theorems"] = {k: dict(ok=v[0], detail=v[1]) for k, v in res.items()}
    else:
        st["theorems"] = {k: dict(ok=False, detail="library does not build") for k in names}
    # T1 equality lemmas live in their own module (Props/CxxT1.lean) so that a
    # failed transcription proof does not take the property theorems with it
    t1names = list(getattr(mod, "T1_THEOREMS", [])) + list(getattr(mod, "T1_EQUALITY_THEOREMS", []))
    if t1names:
        t1mod = "BreezyVerif.Props.%sT1" % pid
        ok1, out1, _ = lean.build([t1mod])
        if ok1:
            res, raw = lean.audit(pid, t1names, imports=[t1mod])
            st["theorems"].update({k: dict(ok=v[0], detail=v[1]) for k, v in res.items()})
        else:
            st["t1_log"] = out1[-2000:]
            st["theorems"].update({k: dict(ok=False, detail="T1 module does not build") for k in t1names})
    st["forbidden"] = lean.grep_forbidden(pid)
    return st


def main():
    ap = argparse.ArgumentParser()
    ap.add_argument("pid", nargs="?")
    ap.add_argument("--tier", default=os.environ.get("VERIF_TIER", "quick"))
    ap.add_argument("--replay")
    ap.add_argument("--selftest-env", action="store_true")
    ap.add_argument("--no-lean", action="store_true", help="development: skip the Lean stage")
    ap.add_argument("--ignore-known", action="store_true",
                    help="development: drop violations of committed known-finding families (to see what else a mutant triggers)")
    a = ap.parse_args()
    if a.selftest_env:
        env.boot()
        wt = env.make_tree("2a")
        wt.commit("x")
        print("env ok", lean.Driver("C18").ask(["tw 1 1 2"]))
        return 0
    pid = a.pid
    tier = a.tier if a.tier in ("quick", "thorough") else "quick"
    seed = int(os.environ.get("VERIF_SEED", "0") or 0)
    mod = importlib.import_module("checks.%s" % pid.lower())
    ctx = Ctx(pid, tier, seed)
    evidence_path = os.path.join(VERIF, "evidence", "%s.json" % pid)
    if os.path.realpath(os.environ.get("VERIF_REPO", "/repo")) != "/repo":
        # a run against a scratch worktree (seeded change, reverted fix) must not
        # overwrite the evidence of the unchanged tree
        os.makedirs("/var/tmp/verif-alt-evidence", exist_ok=True)
        evidence_path = "/var/tmp/verif-alt-evidence/%s.json" % pid
    try:
        if not getattr(mod, "NO_BREEZY", False):
            env.boot(rust=getattr(mod, "RUST", ()))
        if a.replay:
            rec = json.load(open(a.replay))
            if rec.get("case") is None:
                print("replay names a tie, not an input: %s" % json.dumps(rec.get("tie"), indent=1))
                return 0
            r = mod.replay(ctx, rec["case"])
            print(json.dumps(r, indent=1, default=repr))
            return 1 if ctx.violations else 0
        st = dict(build_ok=True, theorems={}, forbidden=[], t1="skipped", driver_ok=True, required=[])
        if not a.no_lean:
            st = lean_stage(pid, mod, ctx)
        ctx.model_available = st.get("driver_ok", True)
        mod.run(ctx)
        thm_bad = [k for k, v in st["theorems"].items() if not v["ok"]]
        tie_broken = (not st["build_ok"]) or thm_bad or st["forbidden"] or ctx.mismatches
        # exception of DESIGN §2.2: failed transcription-equality lemmas with an
        # exhaustive, clean T2 are recorded, not reported
        t1_only = set(getattr(mod, "T1_EQUALITY_THEOREMS", []))
        if (st["build_ok"] and thm_bad and set(thm_bad) <= t1_only and not ctx.mismatches
                and ctx.exhaustive and not st["forbidden"]):
            tie_broken = False
            ctx.extra["t1_unproved"] = thm_bad
        if tie_broken and not ctx.violations and tier == "quick" and hasattr(mod, "widen"):
            # a tie broke but the oracle is clean: widen the failing-input search
            mod.widen(ctx)
    except env.InfraError as e:
        print("INFRA: %s" % e)
        return 2
    except Exception:
        traceback.print_exc()
        print("INFRA: check crashed")
        return 2

    known = load_known()
    code = 0
    printed_known = set()
    new_viol = []
    for v in ctx.violations:
        k = next((f for f in known if f["property"] == pid and v["family"] is not None
                  and f["family"] == v["family"]), None)
        if k is not None:
            if a.ignore_known:
                continue
            if k["family"] not in printed_known:
                printed_known.add(k["family"])
                print("KNOWN-FINDING: property=%s %s" % (pid, k["what"]))
        else:
            new_viol.append(v)
    os.makedirs(os.path.join(VERIF, "replays"), exist_ok=True)
    if new_viol:
        v = new_viol[0]
        rp = os.path.join("replays", "%s-%d.json" % (pid, seed))
        write_json(os.path.join(VERIF, rp), dict(
            property=pid, seed=seed, tier=tier, kind="oracle", case=v["case"], what=v["what"],
            family=v["family"], others=[x["what"] for x in new_viol[1:6]]))
        print("VIOLATION property=%s replay=%s" % (pid, rp))
        print("  " + str(v["what"])[:500])
        code = 1
    elif tie_broken:
        rp = os.path.join("replays", "%s-%d-tie.json" % (pid, seed))
        tie = {}
        if not st["build_ok"]:
            tie["lean_build"] = st.get("log", "")[-3000:]
        if thm_bad:
            tie["theorems_not_checked"] = {k: st["theorems"][k]["detail"] for k in thm_bad}
        if st["forbidden"]:
            tie["forbidden_tokens"] = st["forbidden"]
        mm = [m for m in ctx.mismatches if m]
        if mm:
            tie["correspondence"] = dict(tie=mm[0]["tie"], first_difference=mm[0], count=len(ctx.mismatches))
        write_json(os.path.join(VERIF, rp), dict(
            property=pid, seed=seed, tier=tier, kind="tie", case=None, tie=tie,
            note="model/proof no longer tied to the code; oracle search found no failing input"))
        print("VIOLATION property=%s replay=%s no-failing-input-found" % (pid, rp))
        for k, val in tie.items():
            print("  %s: %s" % (k, str(val)[:600]))
        code = 1

    names = list(st["theorems"].keys())
    discharged = sum(1 for k in names if st["theorems"][k]["ok"])
    cov = dict(
        obligations=len(names), discharged=discharged,
        theorems={k: v["detail"] for k, v in st["theorems"].items()},
        checker_cmd="cd lean && lake build BreezyVerif.Props.%s && lake env lean <audit: #print axioms per theorem>" % pid,
        trusted_base=[
            "Lean 4.33.0 kernel; axioms allowed: propext, Classical.choice, Quot.sound (audited per theorem on this run)",
            "hand-written Lean model lean/BreezyVerif/Model/%s.lean tied to /repo by the correspondence run counted in traces_validated_against_impl" % pid,
            "harness/checks/%s.py (generators, canonicalisation, oracle) and lean/BreezyVerif/Driver/%s.lean (line protocol)" % (pid.lower(), pid),
        ] + list(getattr(mod, "TRUSTED", [])),
        t1=st.get("t1"),
        evaluations=ctx.evaluations, distinct_nontrivial=ctx.distinct_nontrivial,
        rule=ctx.rule or getattr(mod, "RULE", ""),
        samples=ctx.samples[:12] or ["(no cases)"],
        traces_validated_against_impl=ctx.traces,
        distribution=dict(ctx.dist),
        mismatches=len(ctx.mismatches),
        known_findings_seen=sorted(printed_known),
    )
    if ctx.exhaustive is not None:
        cov["exhaustive"] = bool(ctx.exhaustive)
    cov.update(ctx.extra)
    ev = dict(property_id=pid, tier=tier, seed=seed, level="proof", coverage=cov,
              assumptions=list(getattr(mod, "ASSUMPTIONS", [])) + ctx.assumptions,
              wall_s=round(time.time() - ctx.t0, 2), violations=len(new_viol) + (1 if (tie_broken and not new_viol) else 0))
    if not names:
        # no theorem registered: not a proof-level run
        cov.pop("obligations"); cov.pop("discharged")
    write_json(evidence_path, ev)
    print("%s tier=%s seed=%d evaluations=%d distinct=%d traces=%d theorems=%d/%d mismatches=%d wall=%.1fs exit=%d" % (
        pid, tier, seed, ctx.evaluations, ctx.distinct_nontrivial, ctx.traces, discharged, len(names),
        len(ctx.mismatches), time.time() - ctx.t0, code))
    return code


def _ensure_devnull():
    """The sandbox runs as root; a tool that writes its output to /dev/null by
    rename (seen once during development) replaces the device by a regular
    file, after which cargo, subprocess.DEVNULL and `< /dev/null` misbehave.
    Repair it (or stop with an infrastructure error) before anything runs."""
    import stat
    try:
        if stat.S_ISCHR(os.stat("/dev/null").st_mode):
            return
    except OSError:
        pass
    try:
        tmp = "/dev/null.verif-%d" % os.getpid()
        os.mknod(tmp, 0o666 | stat.S_IFCHR, os.makedev(1, 3))
        os.chmod(tmp, 0o666)
        os.rename(tmp, "/dev/null")
        sys.stderr.write("run.py: /dev/null was not a character device; repaired\n")
    except OSError as e:
        sys.stderr.write("INFRA: /dev/null is not a character device and cannot be repaired: %s\n" % e)
        sys.exit(2)


def _fix_hash_seed():
    """Python's str/bytes hash randomisation decides the iteration order of sets
    inside breezy (conflict order, ancestry walks ...): derive it from VERIF_SEED
    so that a run, and the replay of what it found, are reproducible."""
    if "PYTHONHASHSEED" in os.environ:
        return
    seed = int(os.environ.get("VERIF_SEED", "0") or 0)
    os.environ["PYTHONHASHSEED"] = str(1 + seed % 4000000000)
    os.execv(sys.executable, [sys.executable] + sys.argv)


def _main_keeping_generated():
    _fix_hash_seed()
    _ensure_devnull()
    """A run against a scratch worktree (VERIF_REPO != /repo) regenerates
    lean/BreezyVerif/Generated/Cxx.lean from that tree; put the /repo version
    back afterwards so the committed project keeps describing /repo."""
    alt = os.path.realpath(os.environ.get("VERIF_REPO", "/repo")) != "/repo"
    saved = {}
    if alt:
        gd = os.path.join(VERIF, "lean", "BreezyVerif", "Generated")
        for f in os.listdir(gd) if os.path.isdir(gd) else []:
            pid = next((x for x in sys.argv[1:] if x[:1] == "C" and x[1:3].isdigit()), "")
            if f.endswith(".lean") and pid and f.startswith(pid):
                saved[os.path.join(gd, f)] = open(os.path.join(gd, f)).read()
    try:
        return main()
    finally:
        for f, txt in saved.items():
            try:
                if open(f).read() != txt:
                    open(f, "w").write(txt)
            except OSError:
                pass


if __name__ == "__main__":
    sys.exit(_main_keeping_generated())
