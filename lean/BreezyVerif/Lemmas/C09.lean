import BreezyVerif.Model.C09
import BreezyVerif.Lemmas.C10
import BreezyVerif.Lemmas.C10Loop
/-!
C09 — helper lemmas: association-list lookups through the passes of `revert`.
-/
namespace BreezyVerif.C09
open BreezyVerif.C10

theorem get_foldr_set (b d : Tree) (i : Id) :
    get (b.foldr (fun x d => C10.set d x.1 x.2) d) i =
      match get b i with
      | some e => some e
      | none => get d i := by
  induction b with
  | nil => simp [C10.get]
  | cons x rest ih =>
    obtain ⟨k, e⟩ := x
    simp only [List.foldr_cons, get_set, C10.get]
    by_cases hk : k = i
    · simp [hk]
    · simp [hk, ih]

theorem get_map_keep (t : Tree) (f : Id × Entry → Id × Entry) (i : Id)
    (hkey : ∀ x, (f x).1 = x.1) (hfix : ∀ x, x.1 = i → f x = x) : get (t.map f) i = get t i := by
  induction t with
  | nil => rfl
  | cons x rest ih =>
    obtain ⟨k, e⟩ := x
    simp only [List.map_cons]
    by_cases hk : k = i
    · have := hfix (k, e) hk
      rw [this]; simp [C10.get, hk]
    · have h1 := hkey (k, e)
      have : get (f (k, e) :: List.map f rest) i = get (List.map f rest) i := by
        have hne : ¬ (f (k, e)).1 = i := by rw [h1]; exact hk
        cases hfe : f (k, e) with
        | mk a b => rw [hfe] at hne; simp [C10.get, hne]
      rw [this, ih]; simp [C10.get, hk]

theorem get_filter_keys (t : Tree) (p : Id → Bool) (i : Id) :
    get (t.filter fun x => p x.1) i = if p i then get t i else none := by
  induction t with
  | nil => simp [C10.get]
  | cons x rest ih =>
    obtain ⟨k, e⟩ := x
    by_cases hp : p k = true
    · simp only [List.filter_cons, hp, if_true, C10.get]
      by_cases hk : k = i
      · subst hk; simp [hp]
      · simp [hk, ih]
    · simp only [List.filter_cons, hp, Bool.false_eq_true, if_false, C10.get, ih]
      by_cases hk : k = i
      · subst hk; simp [hp]
      · simp [hk]

/-- `get` returns a member of the list -/
theorem get_mem {t : Tree} {i : Id} {e : Entry} (h : get t i = some e) : (i, e) ∈ t := by
  induction t with
  | nil => simp [C10.get] at h
  | cons x rest ih =>
    obtain ⟨k, e'⟩ := x
    by_cases hk : k = i
    · subst hk
      simp [C10.get] at h
      subst h; simp
    · simp only [C10.get, hk, if_false] at h
      exact List.mem_cons_of_mem _ (ih h)

theorem get_dropEmpty (c : List Id) (t : Tree) (i : Id) (h : i ∉ c) : get (dropEmpty c t) i = get t i := by
  unfold dropEmpty
  rw [get_filter_keys t (fun k => !(c.contains k && (childrenOf t k).isEmpty))]
  simp only [List.contains_eq_mem, decide_eq_true_eq]
  simp [h]

theorem get_iterate_dropEmpty (c : List Id) (n : Nat) (t : Tree) (i : Id) (h : i ∉ c) :
    get (iterate (dropEmpty c) n t) i = get t i := by
  induction n generalizing t with
  | zero => rfl
  | succ n ih => simp only [iterate]; rw [ih, get_dropEmpty c t i h]

/-- on disk, after revert, every id of the basis carries exactly its basis entry
(whatever was set aside, renamed to `.moved` or deleted) -/
theorem revert_disk_get (fl : Flavour) (b : Bool) (s : State) (i : Id) (hi : i ∈ ids s.basis) :
    get (revert fl b s).disk i = get s.basis i := by
  have hsome := get_isSome_of_mem hi
  cases hb : get s.basis i with
  | none => rw [hb] at hsome; cases hsome
  | some e =>
    unfold revert
    simp only
    rw [get_iterate_dropEmpty]
    · rw [get_map_keep]
      · rw [get_foldr_set, hb]
      · intro x; split <;> rfl
      · intro x hx
        split
        · rename_i hc
          rw [hx, hb] at hc; simp at hc
        · rfl
    · intro hmem
      rw [List.mem_filter] at hmem
      have := hmem.2
      rw [hb] at this
      simp at this

theorem revert_ver (fl : Flavour) (b : Bool) (s : State) :
    (revert fl b s).ver = unionNew (ids s.basis) [rootId] := rfl

theorem mem_revert_ver {fl : Flavour} {b : Bool} {s : State} {i : Id} :
    i ∈ (revert fl b s).ver ↔ i ∈ ids s.basis ∨ i = rootId := by
  rw [revert_ver, mem_unionNew]; simp

/-- git's pruning only ever drops versioned ids -/
theorem pruneGit_ver_subset (s : State) (i : Id) (h : i ∈ (pruneGit s).ver) : i ∈ s.ver := by
  unfold pruneGit at h
  simp only [List.mem_filter] at h
  exact h.1

theorem pruneGit_disk (s : State) : (pruneGit s).disk = s.disk := rfl

theorem finish_disk (fl : Flavour) (s : State) : (finish fl s).disk = s.disk := by
  cases fl <;> rfl

theorem finish_ver_subset (fl : Flavour) (s : State) (i : Id) (h : i ∈ (finish fl s).ver) : i ∈ s.ver := by
  cases fl
  · exact h
  · exact pruneGit_ver_subset s i h

/-- lookup in the versioned part -/
theorem get_wtTree (s : State) (i : Id) : get (wtTree s) i = if s.ver.contains i then get s.disk i else none := by
  unfold wtTree
  exact get_filter_keys s.disk (fun k => s.ver.contains k) i

/-- if all entries agree, nothing is reported -/
theorem changesOf_eq_nil {a b : Tree} (h : ∀ i, get a i = get b i) : changesOf a b = [] := by
  unfold changesOf
  rw [List.filter_eq_nil_iff]
  intro c hc
  unfold allRecords at hc
  rw [List.mem_filterMap] at hc
  obtain ⟨i, _, hi⟩ := hc
  have : c.isChanged = false := by
    unfold change at hi
    rw [h i] at hi
    split at hi
    · cases hi
    · rename_i hs ht; rw [hs] at ht; cases ht
    · rename_i hs ht; rw [hs] at ht; cases ht
    · rename_i x y hs ht
      rw [hs] at ht; cases ht
      simp at hi; subst hi
      cases x.node <;> simp [Change.isChanged, contentChanged]
  simp [this]

/-! ### selective revert -/

theorem substId_nil (i : Id) : substId [] i = i := rfl

theorem substId_nil_fun : substId [] = id := by funext i; rfl

theorem renameIds_nil (t : Tree) : renameIds [] t = t := by
  unfold renameIds
  rw [substId_nil_fun]
  have : (fun x : Id × Entry => (id x.1, { x.2 with parent := x.2.parent.map id })) = id := by
    funext x
    obtain ⟨k, e⟩ := x
    cases e
    simp
  rw [this]; simp

theorem mem_substVer_nil (v : List Id) (k : Id) : k ∈ substVer [] v ↔ k ∈ v := by
  unfold substVer
  rw [mem_unionNew]
  simp [substId_nil]

theorem get_setNode (t : Tree) (i k : Id) (n : Node) :
    get (setNode t i n) k = if k = i then (get t i).map (fun e => { e with node := n }) else get t k := by
  induction t with
  | nil => simp [setNode, C10.get]
  | cons x rest ih =>
    obtain ⟨j, e⟩ := x
    unfold setNode at ih ⊢
    simp only [List.map_cons]
    by_cases hji : j = i
    · subst hji
      by_cases hk : k = j
      · subst hk; simp [C10.get]
      · have : ¬ j = k := fun h => hk h.symm
        simp only [if_true, C10.get, this, if_false, hk]
        rw [ih]; simp [hk]
    · simp only [hji, if_false, C10.get]
      by_cases hjk : j = k
      · subst hjk
        simp [hji]
      · simp only [hjk, if_false]
        rw [ih]

end BreezyVerif.C09
