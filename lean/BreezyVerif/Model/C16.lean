import BreezyVerif.Model.C21
/-
C16 — uncommit undoes commit.

Literal model of `breezy/uncommit.py: uncommit` (left-hand walk, pending-merge
bookkeeping, tip/revno update of the branch and its master, new tree parent
list), of the parent-list normalisation every working tree applies in
`set_parent_ids` / `set_parent_trees` (first parent always kept, later ones
only if they are heads and not repeated), of `src/uncommit.rs: remove_tags`
(tags on `find_unique_ancestors(old_tip, parents)` are deleted; a bound
branch's `delete_tag` deletes the tag in the master as well) and of the
bookkeeping part of `commit` (new revision whose parents are the tree's
parents).  The graph model is the one of C21.
-/
namespace BreezyVerif.C16
open BreezyVerif.C21

inductive Err where
  | notPresent          -- vcsgraph RevisionNotPresent: ghost on the left-hand walk
  | outOfDate           -- BoundBranchOutOfDate
  | localRequiresBound  -- LocalRequiresBoundBranch
  | emptyBranch         -- nothing to uncommit (excluded input: the command refuses before calling uncommit)
  | badDepth            -- more revisions to remove than the branch has (excluded input: the command refuses
                        -- revno outside 1..old_revno; Python's `new_revno` would go negative)
  deriving DecidableEq, Repr

def Err.toString : Err → String
  | .notPresent => "E:NotPresent" | .outOfDate => "E:OutOfDate"
  | .localRequiresBound => "E:LocalRequiresBound" | .emptyBranch => "E:Empty" | .badDepth => "E:BadDepth"

/-- tag name ↦ revision (names are numbers here) -/
abbrev Tags := List (Nat × Rev)

structure Branch where
  tip : Tip
  revno : Nat
  tags : Tags := []
  deriving DecidableEq, Repr

structure St where
  br : Branch
  /-- the master branch when `br` is bound -/
  master : Option Branch := none
  /-- `tree.get_parent_ids()` -/
  parents : List Rev
  deriving DecidableEq, Repr

/-- the loop of `uncommit`: walk `iter_lefthand_ancestry(old_tip)`; `k` =
`cur_revno - new_revno` revisions are still to be removed; `pm` is
`pending_merges`.  Returns the new tip and the final `pending_merges`. -/
def walk : Graph → Rev → Nat → List Rev → Except Err (Tip × List Rev)
  | [], _, _, _ => .error .notPresent
  | (n, ps) :: g, r, k, pm =>
    if n = r then
      match k with
      | 0 => .ok (some r, pm)          -- cur_revno == new_revno: new_revision_id = rev_id; break
      | k + 1 =>
        let pm' := pm ++ ps.tail.reverse   -- pending_merges.extend(reversed(parents[1:]))
        match ps with
        | [] => .ok (none, pm')            -- next is null: (or the loop runs off): NULL_REVISION
        | p :: _ => walk g p k pm'
    else walk g r k pm

/-- later parents are kept only if they are heads of the whole list and not
already accepted (`set_parent_trees` / `_filter_parent_ids_by_ancestry`) -/
def filterRest (hs : List Tip) : List Rev → List Rev → List Rev
  | _, [] => []
  | acc, r :: rest =>
    if acc.contains r || !hs.contains (some r) then filterRest hs acc rest
    else r :: filterRest hs (r :: acc) rest

/-- the parent list a working tree keeps when asked to `set_parent_ids(ps)` -/
def filterParents (g : Graph) : List Rev → List Rev
  | [] => []
  | p :: rest => p :: filterRest (heads g ((p :: rest).map some)) [p] rest

/-- names of the tags `remove_tags(branch, graph, old_tip, parents)` deletes -/
def removedTags (g : Graph) (tags : Tags) (oldTip : Rev) (parents : List Rev) : List Nat :=
  (tags.filter fun t => (findUniqueAncestors g oldTip parents).contains t.2).map (·.1)

/-- the branch's own tags after `remove_tags`: those not on a unique ancestor -/
def keepTagsOutside (g : Graph) (tags : Tags) (oldTip : Rev) (parents : List Rev) : Tags :=
  tags.filter fun t => !(findUniqueAncestors g oldTip parents).contains t.2

def dropTags (tags : Tags) (names : List Nat) : Tags := tags.filter fun t => !names.contains t.1

/-- the master `uncommit` looks at: none with `local=True` -/
def masterFor (isLocal : Bool) (st : St) : Option Branch := if isLocal then none else st.master

/-- `old_tip != master.last_revision()` -/
def outOfDate (master : Option Branch) (tip : Tip) : Bool :=
  match master with
  | some m => m.tip != tip
  | none => false

/-- the parent list handed to `remove_tags` and `tree.set_parent_ids`: the new
tip followed by the pending merges, newest removed revision's merges last;
nothing when the new tip is `null:` (a tree without basis carries no pending
merges) -/
def newParents (t : Tip) (pm : List Rev) : List Rev :=
  match t with
  | none => []
  | some x => x :: pm.reverse

/-- the state written by `uncommit` once the walk has produced the new tip `t`
and the pending-merge list `pm` -/
def finish (g : Graph) (st : St) (old : Rev) (t : Tip) (pm : List Rev) (d : Nat) (keepTags isLocal : Bool) : St :=
  let newRevno := st.br.revno - d
  let parents := newParents t pm
  let names := if keepTags then [] else removedTags g st.br.tags old parents
  { br := { tip := t, revno := newRevno,
            tags := if keepTags then st.br.tags else keepTagsOutside g st.br.tags old parents },
    -- BasicTags.delete_tag of a bound branch also deletes in the master, `local` or not
    master := st.master.map fun m =>
      { tip := if isLocal then m.tip else t, revno := if isLocal then m.revno else newRevno,
        tags := dropTags m.tags names },
    parents := filterParents g parents }

/-- `uncommit(branch, revno=old_revno - d + 1, tree=tree, local=…, keep_tags=…)`:
`d ≥ 1` is the number of revisions removed (the command guarantees
`1 ≤ revno ≤ old_revno`; `d > old_revno` is an explicit error here, so that
`st.br.revno - d` is never a truncated subtraction). -/
def uncommit (g : Graph) (st : St) (d : Nat) (keepTags isLocal : Bool) : Except Err St :=
  if isLocal && st.master.isNone then .error .localRequiresBound
  else
    match st.br.tip with
    | none => .error .emptyBranch
    | some old =>
      if outOfDate (masterFor isLocal st) st.br.tip then .error .outOfDate
      else if st.br.revno < d then .error .badDepth
      else
        -- pending_merges = tree.get_parent_ids()[1:]
        match walk g old d st.parents.tail with
        | .error e => .error e
        | .ok (t, pm) => .ok (finish g st old t pm d keepTags isLocal)

/-- `uncommit(branch, tree=None, …)`: no pending merges are read, the removed
merges are not re-recorded anywhere (`parents = [new tip]`), so the tags are
judged against the new tip alone; the tree's parent list is not touched -/
def uncommitNoTree (g : Graph) (st : St) (d : Nat) (keepTags isLocal : Bool) : Except Err St :=
  if isLocal && st.master.isNone then .error .localRequiresBound
  else
    match st.br.tip with
    | none => .error .emptyBranch
    | some old =>
      if outOfDate (masterFor isLocal st) st.br.tip then .error .outOfDate
      else if st.br.revno < d then .error .badDepth
      else
        match walk g old d [] with
        | .error e => .error e
        | .ok (t, _) => .ok { finish g st old t [] d keepTags isLocal with parents := st.parents }

/-- `uncommit(…, dry_run=True)`: the same checks and the same walk (so the same
exceptions), nothing is written -/
def uncommitDry (g : Graph) (st : St) (d : Nat) (keepTags isLocal : Bool) : Except Err St :=
  match uncommit g st d keepTags isLocal with
  | .error e => .error e
  | .ok _ => .ok st

/-- the bookkeeping of a commit of the working tree: a new revision `r` whose
parents are the tree's parents; branch (and master) tip and revno advance; the
tree's only parent is the new revision -/
def commit (g : Graph) (st : St) (r : Rev) : Graph × St :=
  ((r, st.parents) :: g,
   { br := { st.br with tip := some r, revno := st.br.revno + 1 },
     master := st.master.map fun m => { m with tip := some r, revno := m.revno + 1 },
     parents := [r] })

/-- `commit --local` in a bound branch: the master is not touched -/
def commitLocal (g : Graph) (st : St) (r : Rev) : Graph × St :=
  ((r, st.parents) :: g,
   { br := { st.br with tip := some r, revno := st.br.revno + 1 },
     master := st.master,
     parents := [r] })

/-- the tree's parent list is what `set_parent_ids` leaves: the first parent is
the branch tip and the list is already normalised -/
def treeOK (g : Graph) (st : St) : Bool :=
  st.parents.head? == st.br.tip && filterParents g st.parents == st.parents
    && (st.parents.isEmpty || st.br.tip.isSome)

/-- the `d`-th left-hand ancestor of `r` (`none` = past the origin) -/
def lhNth : Graph → Rev → Nat → Except Err Tip
  | [], _, _ => .error .notPresent
  | (n, ps) :: g, r, k =>
    if n = r then
      match k with
      | 0 => .ok (some r)
      | k + 1 =>
        match ps with
        | [] => .ok none
        | p :: _ => lhNth g p k
    else lhNth g r k

/-- the merged (non-left-hand) parents of the first `d` revisions of the
left-hand chain of `r`, newest revision first -/
def removedMerges : Graph → Rev → Nat → List (List Rev)
  | [], _, _ => []
  | (n, ps) :: g, r, k =>
    if n = r then
      match k with
      | 0 => []
      | k + 1 =>
        match ps with
        | [] => [[]]
        | p :: rest => rest :: removedMerges g p k
    else removedMerges g r k

end BreezyVerif.C16
