import BreezyVerif.Model.C19
import BreezyVerif.Lemmas.C19
/-!
C19 — theorems.  All statements are over arbitrary region lists, arbitrary
lines (byte strings, any length, with or without trailing newline, including
lines that start with the sentinel or look like markers) and both option flags;
nothing is bounded.

The region computation of the external `merge3` package is an input (see
Model/C19.lean); "the three-way merge has conflicting regions" is
`regions.any Region.isConflict`.
-/
namespace BreezyVerif.C19

/-- the start marker `text_merge` uses is fresh: no BASE / OTHER / THIS line starts with it
(the `while … += b"!"` loop of the code, modelled with proved-sufficient fuel) -/
theorem marker_fresh (base other this : List Line) :
    ∀ l ∈ base ++ other ++ this, (freshMarker base other this).isPrefixOf l = false :=
  freshMarker_fresh base other this

/-- **Main theorem.**  For ALL inputs — including lines that start with the
sentinel or look like markers — `text_merge` writes exactly the conventional
rendering (start marker `<<<<<<< TREE`) and its `text_conflicts` flag is exactly
"some region is a conflict".  The only hypothesis is that the regions denote
lines of the inputs.  Errors (`CantReprocessAndShowBase`, merge3's assertion)
coincide. -/
theorem text_merge_spec (o : Opts) (base this other : List Line) (regions : List Region)
    (h : FromInputs o.showBase base this other regions) (hopt : (o.showBase && o.reprocess) = false) :
    textMerge o base this other regions =
      match renderSpec o this regions with
      | .error e => .error e
      | .ok ls => .ok (ls, regions.any Region.isConflict) := by
  unfold textMerge renderSpec
  simp only [hopt, Bool.false_eq_true, if_false]
  obtain ⟨r0, hr0⟩ := freshMarker_form base other this
  have hf := freshMarker_fresh base other this
  rw [hr0] at hf ⊢
  exact mergeLines_marker o r0 (newlineOf this) regions (fun r hr l hl => hf l (h r hr l hl))

/-- the flag is set iff some region is a conflict -/
theorem render_conflict_iff (o : Opts) (base this other : List Line) (regions : List Region)
    (h : FromInputs o.showBase base this other regions) (ls : List Line) (flag : Bool)
    (hr : textMerge o base this other regions = .ok (ls, flag)) :
    flag = true ↔ ∃ r ∈ regions, r.isConflict = true := by
  have hopt : (o.showBase && o.reprocess) = false := by
    cases hb : (o.showBase && o.reprocess) with
    | false => rfl
    | true => simp [textMerge, hb] at hr
  rw [text_merge_spec o base this other regions h hopt] at hr
  cases hs : renderSpec o this regions with
  | error e => simp [hs] at hr
  | ok l =>
    simp only [hs, Except.ok.injEq, Prod.mk.injEq] at hr
    rw [← hr.2]; simp

/-- a conflict region always sets the flag — no hypothesis at all -/
theorem flag_of_conflict (o : Opts) (base this other : List Line) (regions : List Region)
    (ls : List Line) (flag : Bool) (hr : textMerge o base this other regions = .ok (ls, flag))
    (hc : ∃ r ∈ regions, r.isConflict = true) : flag = true := by
  unfold textMerge at hr
  split at hr
  · cases hr
  · simp only at hr
    cases hm : mergeLines (withName (freshMarker base other this) nameA) (baseMarkerOf o) (newlineOf this) regions with
    | error e => simp [hm] at hr
    | ok l =>
      simp only [hm, Except.ok.injEq, iterMerge3, Prod.mk.injEq] at hr
      rw [← hr.2]
      obtain ⟨r, hr1, hr2⟩ := hc
      exact any_fix_of_conflict _ _ (newlineOf this) regions l hm r hr1 hr2

/-- without conflict regions the rendering is the cleanly merged text: the
chosen side of every region, in order, and no marker line at all -/
theorem render_clean (o : Opts) (this : List Line) (regions : List Region)
    (hc : ∀ r ∈ regions, r.isConflict = false) :
    renderSpec o this regions = .ok (regions.flatMap Region.chosen) := by
  unfold renderSpec
  exact mergeLines_clean _ _ _ regions hc

/-- consequently: no conflict region ⇒ the file holds the clean merge and no conflict is recorded -/
theorem text_merge_clean (o : Opts) (base this other : List Line) (regions : List Region)
    (h : FromInputs o.showBase base this other regions) (hopt : (o.showBase && o.reprocess) = false)
    (hc : ∀ r ∈ regions, r.isConflict = false) :
    textMerge o base this other regions = .ok (regions.flatMap Region.chosen, false) := by
  rw [text_merge_spec o base this other regions h hopt, render_clean o this regions hc]
  have : regions.any Region.isConflict = false := by
    simp only [List.any_eq_false]; intro r hr; simp [hc r hr]
  simp [this]

/-- rendering is a homomorphism over region lists: regions are rendered
independently and in order -/
theorem render_append (s : Bytes) (bm : Option Bytes) (nl : Bytes) (r1 r2 : List Region) :
    mergeLines s bm nl (r1 ++ r2) =
      match mergeLines s bm nl r1, mergeLines s bm nl r2 with
      | .ok x, .ok y => .ok (x ++ y)
      | .error e, _ => .error e
      | .ok _, .error e => .error e :=
  mergeLines_append s bm nl r1 r2

/-- between the markers stand exactly the THIS and OTHER lines of the region … -/
theorem render_content_plain (o : Opts) (this : List Line) (hb : o.showBase = false)
    (base : Option (List Line)) (ta tb : List Line) :
    renderSpec o this [.conflict base ta tb] =
      .ok ((withName lt7 nameA ++ newlineOf this) :: ta ++ (eq7 ++ newlineOf this) :: tb
            ++ [withName gt7 nameB ++ newlineOf this]) := by
  simp [renderSpec, mergeLines, renderRegion, baseMarkerOf, hb]

/-- … and with show-base additionally the BASE lines after `||||||| BASE-REVISION` -/
theorem render_content_show_base (o : Opts) (this : List Line) (hb : o.showBase = true)
    (bl ta tb : List Line) :
    renderSpec o this [.conflict (some bl) ta tb] =
      .ok ((withName lt7 nameA ++ newlineOf this) :: ta ++ (withName bar7 nameBase ++ newlineOf this) :: bl
            ++ (eq7 ++ newlineOf this) :: tb ++ [withName gt7 nameB ++ newlineOf this]) := by
  simp [renderSpec, mergeLines, renderRegion, baseMarkerOf, hb]

/-- **Former witness of finding F3, now positive.**  A conflict-free merge in
which THIS added a line starting with the sentinel (and even one starting with
the once-extended sentinel) is written verbatim and records no conflict. -/
theorem sentinel_line_clean :
    textMerge ⟨false, false⟩ [[97, 10]] [[97, 10], sentinel ++ [32, 120, 10], sentinel ++ [33, 10]] [[97, 10], [99, 10]]
        [.unchanged [[97, 10]], .a [sentinel ++ [32, 120, 10], sentinel ++ [33, 10]], .b [[99, 10]]]
      = .ok ([[97, 10], sentinel ++ [32, 120, 10], sentinel ++ [33, 10], [99, 10]], false) ∧
    freshMarker [[97, 10]] [[97, 10], [99, 10]] [[97, 10], sentinel ++ [32, 120, 10], sentinel ++ [33, 10]]
      = sentinel ++ [33, 33] := by
  decide

/-- `split_lines` loses nothing: helper files written from the line lists hold exactly the texts -/
theorem join_splitLines (t : Bytes) : joinLines (splitLines t) = t := by
  unfold splitLines joinLines
  have := join_splitLinesAux t []
  simpa using this

/-- helper files hold exactly the BASE, THIS and OTHER texts, for every input -/
theorem helpers_exact (o : Opts) (base this other : List Line) (regions : List Region)
    (c b t x : Bytes) (h : mergeFile o base this other regions = .textConflict c b t x) :
    b = joinLines base ∧ t = joinLines this ∧ x = joinLines other := by
  unfold mergeFile at h
  repeat' split at h
  all_goals (cases h <;> exact ⟨rfl, rfl, rfl⟩)

/-- **File-level statement.**  For text files (no NUL) and legal options: a text conflict is recorded iff both sides changed the text
differently and the merge has a conflict region; then the file holds the marker
rendering and the helpers hold the three texts; otherwise the file holds the
cleanly merged text (THIS / OTHER when only one side changed) and there are no
helpers and no record. -/
theorem merge_file_spec (o : Opts) (base this other : List Line) (regions : List Region)
    (h : FromInputs o.showBase base this other regions) (hopt : (o.showBase && o.reprocess) = false)
    (hbin : (isBinary base || isBinary other || isBinary this) = false)
    (ls : List Line) (hs : renderSpec o this regions = .ok ls) :
    mergeFile o base this other regions =
      match C18.threeWay (joinLines base) (joinLines other) (joinLines this) with
      | .this => .clean (joinLines this)
      | .other => .clean (joinLines other)
      | .conflict =>
        if regions.any Region.isConflict then
          .textConflict (joinLines ls) (joinLines base) (joinLines this) (joinLines other)
        else .clean (joinLines ls) := by
  unfold mergeFile
  rw [text_merge_spec o base this other regions h hopt, hs]
  cases C18.threeWay (joinLines base) (joinLines other) (joinLines this) <;> simp only [hbin]
  cases regions.any Region.isConflict <;> simp

/-- resolving a text conflict: the file gets the content of the chosen helper,
all helpers and the record are gone, the file id is on the file -/
theorem resolve_text (w : Side) (s s' : Slot) (h : resolveText w s = .ok s') :
    s'.file = s.helper w ∧ s'.file.isSome ∧ s'.hBase = none ∧ s'.hThis = none ∧ s'.hOther = none ∧
      s'.record = none ∧ s'.idOn = .item := by
  unfold resolveText at h
  split at h
  · cases h
  · rename_i c hc
    cases h; simp [hc]

/-- take-this after a recorded text conflict leaves exactly the THIS text … -/
theorem resolve_take_this (c b t x : Bytes) :
    (Outcome.textConflict c b t x).slot.map (resolveText .this) =
      some (.ok ⟨some t, none, none, none, none, .item⟩) := rfl

/-- … and take-other exactly the OTHER text; helpers and record removed. -/
theorem resolve_take_other (c b t x : Bytes) :
    (Outcome.textConflict c b t x).slot.map (resolveText .other) =
      some (.ok ⟨some x, none, none, none, none, .item⟩) := rfl

/-- end to end: merge, then take-this / take-other, for every input that produces a text conflict -/
theorem merge_then_resolve (o : Opts) (base this other : List Line) (regions : List Region)
    (c b t x : Bytes) (h : mergeFile o base this other regions = .textConflict c b t x) (w : Side) :
    (mergeFile o base this other regions).slot.map (resolveText w) =
      some (.ok ⟨some (match w with | .this => joinLines this | .other => joinLines other),
                 none, none, none, none, .item⟩) := by
  obtain ⟨_, h2, h3⟩ := helpers_exact o base this other regions c b t x h
  rw [h]; subst h2 h3
  cases w <;> rfl

/-- contents conflict (both sides present, e.g. binary): take-other works … -/
theorem resolve_contents_take_other (b t x : Bytes) :
    (Outcome.contentsConflict b t x).slot.map (resolveContents .other) =
      some ⟨some x, none, none, none, none, .item⟩ := rfl

/-- … and so does take-this (after the fix: the file id is handed over to the
helper that is kept): exactly the THIS content, no helpers, no record. -/
theorem resolve_contents_take_this (b t x : Bytes) :
    (Outcome.contentsConflict b t x).slot.map (resolveContents .this) =
      some ⟨some t, none, none, none, none, .item⟩ := rfl

/-! non-vacuity of the hypotheses -/

example : FromInputs true [[97, 10], [98, 10]] [[97, 10], [66, 10]] [[97, 10], [88]]
    [.unchanged [[97, 10]], .conflict (some [[98, 10]]) [[66, 10]] [[88]]] := by
  decide
example :
    textMerge ⟨false, true⟩ [[97, 13, 10], [98, 10]] [[97, 13, 10], [66, 10]] [[97, 13, 10], [88]]
        [.unchanged [[97, 13, 10]], .conflict (some [[98, 10]]) [[66, 10]] [[88]]]
      = .ok ([[97, 13, 10], withName lt7 nameA ++ [13, 10], [66, 10], withName bar7 nameBase ++ [13, 10], [98, 10],
              eq7 ++ [13, 10], [88], withName gt7 nameB ++ [13, 10]], true) := by
  decide
example : mergeFile ⟨true, false⟩ [[97, 10]] [[98, 10]] [[99, 10]] [.conflict none [[98, 10]] [[99, 10]]]
    = .textConflict (withName lt7 nameA ++ [10] ++ [98, 10] ++ eq7 ++ [10] ++ [99, 10] ++ withName gt7 nameB ++ [10])
        [97, 10] [98, 10] [99, 10] := by
  decide
example : (isBinary [[97, 10]] || isBinary [[99, 10]] || isBinary [[98, 10]]) = false := by decide

end BreezyVerif.C19
