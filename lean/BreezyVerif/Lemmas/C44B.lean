import BreezyVerif.Lemmas.C44
/-
C44 — helper lemmas, part 2: the rename pass of the exporter as a set of
independent moves on path space.
-/
namespace BreezyVerif.C44

/-! ### sorting is a permutation -/

theorem perm_insertBy {α : Type} (le : α → α → Bool) (x : α) (l : List α) : (insertBy le x l).Perm (x :: l) := by
  induction l with
  | nil => exact List.Perm.refl _
  | cons y r ih =>
    unfold insertBy
    split
    · exact List.Perm.refl _
    · exact ((List.Perm.cons y ih).trans (List.Perm.swap x y r))

theorem perm_sortBy {α : Type} (le : α → α → Bool) (l : List α) : (sortBy le l).Perm l := by
  induction l with
  | nil => exact List.Perm.refl _
  | cons x r ih =>
    simp only [sortBy]
    exact (perm_insertBy le x _).trans (List.Perm.cons x ih)

/-! ### files are identified by their path -/

theorem file_path_inj (l : Tree) (hnd : ((flat l).map (·.1)).Nodup) :
    ∀ a ∈ l, ∀ b ∈ l, a.dir = false → b.dir = false → a.path = b.path → a = b := by
  induction l with
  | nil => intro a ha; cases ha
  | cons x xs ih =>
    intro a ha b hb had hbd hab
    unfold flat at hnd ih
    cases hxd : x.dir with
    | true =>
      simp only [List.filter_cons, hxd, Bool.not_true, Bool.false_eq_true, if_false] at hnd
      rcases List.mem_cons.mp ha with h | h
      · subst h; rw [had] at hxd; cases hxd
      · rcases List.mem_cons.mp hb with h' | h'
        · subst h'; rw [hbd] at hxd; cases hxd
        · exact ih hnd a h b h' had hbd hab
    | false =>
      simp only [List.filter_cons, hxd, Bool.not_false, if_true, List.map_cons, List.nodup_cons] at hnd
      have hin : ∀ c ∈ xs, c.dir = false → c.path ∈ ((xs.filter (!·.dir)).map fun e => (e.path, e.val)).map (·.1) := by
        intro c hc hcd
        exact List.mem_map.mpr ⟨(c.path, c.val), List.mem_map.mpr ⟨c, List.mem_filter.mpr ⟨hc, by simp [hcd]⟩, rfl⟩, rfl⟩
      rcases List.mem_cons.mp ha with h | h
      · rcases List.mem_cons.mp hb with h' | h'
        · rw [h, h']
        · subst h; exact absurd (hab ▸ hin b h' hbd) hnd.1
      · rcases List.mem_cons.mp hb with h' | h'
        · subst h'; exact absurd (hab ▸ hin a h had) hnd.1
        · exact ih hnd.2 a h b h' had hbd hab

/-! ### the renamed entries -/

theorem mem_ownRenames (old new : Tree) (o n : Ent) :
    (o, n) ∈ ownRenames old new ↔ o ∈ old ∧ find new o.fid = some n ∧ o.own ≠ n.own := by
  unfold ownRenames
  rw [mem_sortBy, List.mem_filterMap]
  constructor
  · rintro ⟨a, ha, h⟩
    cases hf : find new a.fid with
    | none => simp [hf] at h
    | some b =>
      simp only [hf] at h
      by_cases hown : a.own = b.own
      · simp [hown] at h
      · simp only [ne_eq, hown, not_false_eq_true, if_true, Option.some.injEq, Prod.mk.injEq] at h
        obtain ⟨rfl, rfl⟩ := h
        exact ⟨ha, hf, hown⟩
  · rintro ⟨ho, hf, hown⟩
    exact ⟨o, ho, by simp [hf, hown]⟩

/-- distinct file ids: the renamed pairs have pairwise distinct ids -/
theorem ownRenames_fids (old new : Tree) (hnd : (old.map (·.fid)).Nodup) :
    (ownRenames old new).Pairwise fun a b => a.1.fid ≠ b.1.fid := by
  unfold ownRenames
  refine List.Perm.pairwise (perm_sortBy _ _).symm ?_ (fun h => Ne.symm h)
  have hp : old.Pairwise fun a b => a.fid ≠ b.fid := by
    unfold List.Nodup at hnd
    exact List.pairwise_map.mp hnd
  refine List.Pairwise.filterMap _ ?_ hp
  intro a a' hne b hb b' hb'
  cases hf : find new a.fid with
  | none => simp [hf] at hb
  | some x =>
    cases hf' : find new a'.fid with
    | none => simp [hf'] at hb'
    | some x' =>
      simp only [hf] at hb
      simp only [hf'] at hb'
      split at hb
      · split at hb'
        · cases hb; cases hb'; exact hne
        · cases hb'
      · cases hb

/-! ### independent moves -/

/-- what path `q` holds after the moves `ps` (old entry → new entry) on `m` -/
def renSpec (m : Flat) (ps : List (Ent × Ent)) (q : Path) : Option Val :=
  match ps.find? (fun pr => pr.2.path == q) with
  | some (o, _) => some o.val
  | none => if ps.any (fun pr => pr.1.path == q) then none else lookup m q

/-- distinct sources, distinct targets, no target is a source -/
def Indep (ps : List (Ent × Ent)) : Prop :=
  (ps.Pairwise fun a b => a.1.path ≠ b.1.path ∧ a.2.path ≠ b.2.path) ∧ ∀ a ∈ ps, ∀ b ∈ ps, a.2.path ≠ b.1.path

theorem Indep.tail {p : Ent × Ent} {ps : List (Ent × Ent)} (h : Indep (p :: ps)) : Indep ps :=
  ⟨(List.pairwise_cons.mp h.1).2, fun a ha b hb => h.2 a (List.mem_cons_of_mem _ ha) b (List.mem_cons_of_mem _ hb)⟩

theorem renSpec_target (m : Flat) (ps : List (Ent × Ent)) (h : Indep ps) (o n : Ent) (hm : (o, n) ∈ ps) :
    renSpec m ps n.path = some o.val := by
  induction ps with
  | nil => cases hm
  | cons p ps ih =>
    obtain ⟨o', n'⟩ := p
    unfold renSpec
    rcases List.mem_cons.mp hm with he | hm'
    · cases he
      simp [List.find?]
    · have hne : n'.path ≠ n.path := ((List.pairwise_cons.mp h.1).1 _ hm').2
      have : (n'.path == n.path) = false := by simp [hne]
      simp only [List.find?, this]
      have := ih h.tail hm'
      unfold renSpec at this
      cases hf : List.find? (fun pr => pr.2.path == n.path) ps with
      | none =>
        -- impossible: (o, n) itself is found
        have := List.find?_eq_none.mp hf (o, n) hm'
        simp at this
      | some x => rw [hf] at this; exact this

theorem renSpec_other (m : Flat) (ps : List (Ent × Ent)) (q : Path) (hq : ∀ pr ∈ ps, pr.2.path ≠ q) :
    renSpec m ps q = if ∃ pr ∈ ps, pr.1.path = q then none else lookup m q := by
  unfold renSpec
  have hf : ps.find? (fun pr => pr.2.path == q) = none := by
    rw [List.find?_eq_none]
    intro pr hpr hc
    simp only [beq_iff_eq] at hc
    exact hq pr hpr hc
  rw [hf]
  simp only
  by_cases hs : ∃ pr ∈ ps, pr.1.path = q
  · obtain ⟨pr, hpr, he⟩ := hs
    have : ps.any (fun pr => pr.1.path == q) = true := List.any_eq_true.mpr ⟨pr, hpr, by simp [he]⟩
    have hex : ∃ pr ∈ ps, pr.1.path = q := ⟨pr, hpr, he⟩
    simp [this, hex]
  · have : ps.any (fun pr => pr.1.path == q) = false := by
      rw [List.any_eq_false]
      intro pr hpr hc
      simp only [beq_iff_eq] at hc
      exact hs ⟨pr, hpr, hc⟩
    simp [this, hs]

/-- the paths still to be deleted after the rename pass: those no rename landed on -/
theorem renamePass_dels (ps : List (Ent × Ent)) (dels : List Path) (q : Path) :
    q ∈ (renamePass ps dels).2 ↔ q ∈ dels ∧ ∀ pr ∈ ps, pr.2.path ≠ q := by
  induction ps generalizing dels with
  | nil => simp [renamePass]
  | cons p ps ih =>
    obtain ⟨o, n⟩ := p
    simp only [renamePass]
    rw [ih]
    by_cases hit : n.path ∈ dels
    · simp only [hit, decide_true, if_true, List.mem_filter, decide_eq_true_eq, List.mem_cons, forall_eq_or_imp]
      constructor
      · rintro ⟨⟨h1, h2⟩, h3⟩; exact ⟨h1, fun e => h2 e.symm, h3⟩
      · rintro ⟨h1, h2, h3⟩; exact ⟨⟨h1, fun e => h2 e.symm⟩, h3⟩
    · simp only [hit, decide_false, Bool.false_eq_true, if_false, List.mem_cons, forall_eq_or_imp]
      constructor
      · rintro ⟨h1, h3⟩; exact ⟨h1, fun e => hit (e ▸ h1), h3⟩
      · rintro ⟨h1, _, h3⟩; exact ⟨h1, h3⟩

/-- one rename (with or without the preceding delete of its target) moves the value -/
theorem lookup_one_rename (m : Flat) (s t : Path) (v : Val) (pre : Bool) (hs : lookup m s = some v) (hst : s ≠ t) (q : Path) :
    lookup (applyCmds m ((if pre then [Cmd.del t] else []) ++ [Cmd.ren s t])) q =
      if q = t then some v else if q = s then none else lookup m q := by
  cases pre with
  | true =>
    have h1 : lookup (erase m t) s = some v := by rw [lookup_erase]; simp [hst, hs]
    simp only [if_true, List.cons_append, List.nil_append, applyCmds, List.foldl_cons, List.foldl_nil, applyCmd, h1]
    rw [lookup_cons]
    by_cases hq : q = t
    · simp [hq]
    · simp only [hq, if_false]
      rw [lookup_erase, lookup_erase, lookup_erase]
      by_cases hq2 : q = s <;> simp [hq, hq2]
  | false =>
    simp only [Bool.false_eq_true, if_false, List.nil_append, applyCmds, List.foldl_cons, List.foldl_nil, applyCmd, hs]
    rw [lookup_cons]
    by_cases hq : q = t
    · simp [hq]
    · simp only [hq, if_false]
      rw [lookup_erase, lookup_erase]
      by_cases hq2 : q = s <;> simp [hq, hq2]

/-- **the rename pass**: independent renames of files whose sources exist act as
the simultaneous move -/
theorem renamePass_apply (ps : List (Ent × Ent)) (dels : List Path) (m : Flat) (hind : Indep ps)
    (hfile : ∀ pr ∈ ps, pr.2.dir = false) (hsrc : ∀ pr ∈ ps, lookup m pr.1.path = some pr.1.val) (q : Path) :
    lookup (applyCmds m (renamePass ps dels).1) q = renSpec m ps q := by
  induction ps generalizing m dels with
  | nil => simp [renamePass, applyCmds, renSpec]
  | cons p ps ih =>
    obtain ⟨o, n⟩ := p
    have hnd : n.dir = false := hfile (o, n) List.mem_cons_self
    have hso : lookup m o.path = some o.val := hsrc (o, n) List.mem_cons_self
    have hon : o.path ≠ n.path := fun e => hind.2 (o, n) List.mem_cons_self (o, n) List.mem_cons_self e.symm
    have hpw := List.pairwise_cons.mp hind.1
    simp only [renamePass, hnd, Bool.not_false, Bool.and_true, Bool.false_eq_true, if_false]
    rw [applyCmds_append]
    generalize decide (n.path ∈ dels) = pre
    -- after this rename
    have hm1 := lookup_one_rename m o.path n.path o.val pre hso hon
    -- the remaining renames
    have hsrc' : ∀ pr ∈ ps, lookup (applyCmds m ((if pre = true then [Cmd.del n.path] else []) ++ [Cmd.ren o.path n.path])) pr.1.path = some pr.1.val := by
      intro pr hpr
      rw [hm1]
      have h1 : pr.1.path ≠ n.path := fun e => hind.2 (o, n) List.mem_cons_self pr (List.mem_cons_of_mem _ hpr) e.symm
      have h2 : pr.1.path ≠ o.path := fun e => (hpw.1 pr hpr).1 e.symm
      simp only [h1, h2, if_false]
      exact hsrc pr (List.mem_cons_of_mem _ hpr)
    rw [ih _ _ hind.tail (fun pr hpr => hfile pr (List.mem_cons_of_mem _ hpr)) hsrc']
    -- compare the two specifications
    by_cases hq : q = n.path
    · subst hq
      rw [renSpec_target m _ hind o n List.mem_cons_self,
        renSpec_other _ ps n.path (fun pr hpr => ((hpw.1 pr hpr).2).symm)]
      have hno : ¬ ∃ pr ∈ ps, pr.1.path = n.path := by
        rintro ⟨pr, hpr, he⟩
        exact hind.2 (o, n) List.mem_cons_self pr (List.mem_cons_of_mem _ hpr) he.symm
      rw [if_neg hno, hm1]
      simp
    · by_cases ht : ∃ pr ∈ ps, pr.2.path = q
      · obtain ⟨⟨o', n'⟩, hpr, he⟩ := ht
        simp only at he
        subst he
        rw [renSpec_target _ ps hind.tail o' n' hpr, renSpec_target m _ hind o' n' (List.mem_cons_of_mem _ hpr)]
      · have hq1 : ∀ pr ∈ ps, pr.2.path ≠ q := fun pr hpr he => ht ⟨pr, hpr, he⟩
        have hq2 : ∀ pr ∈ (o, n) :: ps, pr.2.path ≠ q := by
          intro pr hpr
          rcases List.mem_cons.mp hpr with h | h
          · subst h; exact fun e => hq e.symm
          · exact hq1 pr h
        rw [renSpec_other _ ps q hq1, renSpec_other m _ q hq2]
        by_cases hs : ∃ pr ∈ ps, pr.1.path = q
        · obtain ⟨pr, hpr, he⟩ := hs
          rw [if_pos ⟨pr, hpr, he⟩, if_pos ⟨pr, List.mem_cons_of_mem _ hpr, he⟩]
        · rw [if_neg hs, hm1]
          simp only [hq, if_false]
          by_cases hqo : q = o.path
          · rw [if_pos hqo, if_pos ⟨(o, n), List.mem_cons_self, hqo.symm⟩]
          · have : ¬ ∃ pr ∈ (o, n) :: ps, pr.1.path = q := by
              rintro ⟨pr, hpr, he⟩
              rcases List.mem_cons.mp hpr with h | h
              · subst h; exact hqo he.symm
              · exact hs ⟨pr, h, he⟩
            rw [if_neg hqo, if_neg this]

end BreezyVerif.C44
